(* Builder (src/graph.rs: Builder::{build, resolve_pending, load_with_redirect_count,
   load_pending_module/try_load, visit, visit_module, visit_module_dependencies,
   resolve_dynamic_branches, check_specifier, add_redirect} and
   parse_module_source_and_info's acceptance logic), stage B1: URL / node /
   redirect / external / asset / deferred / dynamic / types / configured imports.
   JSR and npm resolution, source-phase imports, source maps, the locker and
   charset decoding failures are NOT in this stage.

   The world is what the loader would answer, plus - for each module response -
   the module as the real `parse_module` produces it from that source for the
   graph kind in use (its declared dependencies with resolutions).  How that
   declaration follows from the source text is C01's second layer / C08.

   Definitions only. *)
From RecordUpdate Require Import RecordSet.
Import RecordSetNotations.
From DG Require Import Base.Util Base.Sexp Model.Graph.

(* ---------- structured errors ---------- *)
Inductive berr :=
| BMissing (s : spec) (ref : option N)
| BLoad (s : spec) (ref : option N) (k : N)          (* k: 0 loader error, 1 too many redirects *)
| BParse (s : spec)
| BWasmParse (s : spec)
| BUnsupportedMedia (s : spec) (m : media) (ref : option N)
| BInvalidTypeAssertion (s : spec) (ref : N) (m : media)
| BUnsupportedAttr (s : spec) (ref : N) (kind : N)
| BBadSpecifier (s : spec) (ref : option N)
| BNpm (s : spec) (ref : option N) (k : N)
| BSourcePhase (s : spec) (ref : N).                 (* source-phase import of something that is not WebAssembly *)           (* k: 0 the resolver rejected the requirement, 1 the dependency graph failed *)

Definition berr_spec (e : berr) : spec :=
  match e with
  | BMissing s _ | BLoad s _ _ | BParse s | BWasmParse s | BUnsupportedMedia s _ _
  | BInvalidTypeAssertion s _ _ | BUnsupportedAttr s _ _ | BBadSpecifier s _ | BNpm s _ _ | BSourcePhase s _ => s
  end.

Inductive bslot :=
| BMod (m : module)
| BExternal (was_asset : bool)
| BErr (e : berr)
| BPending (asset : bool).

(* ---------- world ---------- *)
Inductive sclass := SUrl | SNode | SBad | SPass | SNpm (req : N).  (* parse_load_specifier_kind; SPass: a valid jsr: specifier when
                                                      jsr specifiers are passed through (marked external at once);
                                                      SNpm: a valid npm: specifier when an npm resolver is present *)

(* what a load request carries besides the specifier: maybe_attribute_type (0 = none) and
   maybe_source_phase_referrer (the range of the first source-phase import of the dependency) *)
Record lattr := { la_type : N; la_sp : option N }.
Definition no_attr : lattr := {| la_type := 0; la_sp := None |}.
(* per declared dependency: is_asset (every import has an asset attribute or is a source-phase import)
   and the source-phase referrer *)
Record dflags := { dfl_asset : bool; dfl_sp : option N }.
Definition plain_dep : dflags := {| dfl_asset := false; dfl_sp := None |}.

Record wmod := {
  wm_hash_raw : N;                  (* SHA-256 of the bytes the loader serves (interned) *)
  wm_hash_text : N;                 (* SHA-256 of the decoded source text (what visit hands to the locker) *)
  wm_media : media;                 (* from specifier / content-type header *)
  wm_parse_ok : bool;               (* the analyzer (or wasm parser) accepts the source *)
  wm_kind : mkind;                  (* MkJs or MkWasm when accepted as code *)
  wm_deps : list (dep * dflags);    (* declared dependencies, each with its is_asset flag and source-phase referrer *)
  wm_tdep : option typesdep
}.

Inductive wresp :=
| WMissing
| WError
| WRedirect (to : spec)
| WExternal (final : spec)
| WModule (final : spec) (m : wmod).

Record world := {
  w_resp : list (spec * wresp);          (* answers with CacheSetting::Use; absent = missing *)
  w_resp_reload : list (spec * wresp);   (* answers with CacheSetting::Reload where they differ *)
  w_http : list spec;                    (* specifiers with scheme http or https *)
  w_lock : option (list (spec * N));     (* the lockfile's remote checksums; None = no locker *)
  w_class : list (spec * sclass);        (* absent = SUrl *)
  w_file : list spec;                    (* specifiers with scheme file *)
  w_max_redirects : nat;
  w_wasm_ext : list spec;                (* specifiers whose extension says WebAssembly (MediaType::from_specifier) *)
  w_wasm_nodts : list spec;              (* WebAssembly modules (by final specifier) with nothing to declare: no
                                            imports or exports, the generated declaration text is empty *)
  w_npm : option (list (N * N))          (* None = no npm resolver; else what the resolver answers per requirement:
                                            0 (or absent) resolves, 1 is rejected, 2 resolves but makes the dependency
                                            graph resolution of a batch containing it fail *)
}.

Definition resp_of (W : world) (s : spec) : wresp :=
  match lookup s (w_resp W) with Some r => r | None => WMissing end.
Definition resp_reload_of (W : world) (s : spec) : wresp :=
  match lookup s (w_resp_reload W) with Some r => r | None => resp_of W s end.
Definition class_of (W : world) (s : spec) : sclass :=
  match lookup s (w_class W) with Some c => c | None => SUrl end.

Record bopts := {
  bo_kind : gkind;
  bo_is_dynamic : bool;
  bo_skip_dynamic : bool;
  bo_unstable_bytes : bool;
  bo_unstable_text : bool;
  bo_unstable_css : bool
}.

(* ---------- state ---------- *)
Record pitem := {
  pi_spec : spec;                (* requested = load specifier in this stage *)
  pi_range : option N;
  pi_count : nat;
  pi_attr : lattr;
  pi_checksum : option N;        (* lockfile checksum of the requested specifier, read at queue time *)
  pi_asset : bool;
  pi_dyn : bool;
  pi_root : bool
}.

Record branch := { br_range : N; br_attr : lattr; br_asset : bool }.
Record deferred := { df_range : option N; df_attr : lattr; df_dyn : bool; df_root : bool }.

(* one loader call: specifier, as asset (ensure_cached), with CacheSetting::Reload, presented checksum *)
Record lcall := { lc_spec : spec; lc_asset : bool; lc_reload : bool; lc_checksum : option N }.

(* one queued npm resolution *)
Record npm_item := { ni_spec : spec; ni_req : N; ni_range : option N; ni_dyn : bool }.

Record bstate := mk_bstate {
  st_slots : list (spec * bslot);
  st_redirects : list (spec * spec);
  st_has_node : bool;
  st_pending : list pitem;                    (* FuturesOrdered: push order *)
  st_dyn : list (spec * branch);              (* IndexMap: insertion order *)
  st_deferred : list (spec * deferred);       (* IndexMap *)
  st_in_dyn : bool;
  st_resolved_roots : list spec;
  st_calls : list lcall;                      (* loader calls, newest first *)
  st_lock : option (list (spec * N));         (* locker: remote checksums (lockfile + recorded); None = no locker *)
  st_lock_sets : list (spec * N);             (* set_remote_checksum calls, newest first *)
  st_npm : list npm_item                      (* PendingNpmState::pending_resolutions, push order *)
}.

#[export] Instance eta_bstate : Settable _ :=
  settable! mk_bstate <st_slots; st_redirects; st_has_node; st_pending; st_dyn; st_deferred; st_in_dyn;
                       st_resolved_roots; st_calls; st_lock; st_lock_sets; st_npm>.

Fixpoint set_assoc {V} (k : N) (v : V) (l : list (N * V)) : list (N * V) :=
  match l with
  | [] => [(k, v)]
  | (k', v') :: l' => if N.eqb k k' then (k, v) :: l' else (k', v') :: set_assoc k v l'
  end.
Fixpoint remove_assoc {V} (k : N) (l : list (N * V)) : list (N * V) :=
  match l with
  | [] => []
  | (k', v') :: l' => if N.eqb k k' then remove_assoc k l' else (k', v') :: remove_assoc k l'
  end.
Definition or_insert {V} (k : N) (v : V) (l : list (N * V)) : list (N * V) :=
  match lookup k l with Some _ => l | None => l ++ [(k, v)] end.

Definition set_slot (st : bstate) (s : spec) (v : bslot) : bstate :=
  st <| st_slots := set_assoc s v (st_slots st) |>.

(* add_redirect: drop a pending slot of the requested specifier; first redirect wins *)
Definition check_specifier (st : bstate) (requested s : spec) : bstate :=
  if N.eqb requested s then st
  else
    let slots' := match lookup requested (st_slots st) with
                  | Some (BPending _) => remove_assoc requested (st_slots st)
                  | _ => st_slots st end in
    st <| st_slots := slots' |> <| st_redirects := or_insert requested s (st_redirects st) |>.

Definition attr_allowed (o : bopts) (attr : N) : bool :=
  match attr with
  | 2 => bo_unstable_text o
  | 3 => bo_unstable_bytes o
  | 4 => bo_unstable_css o
  | _ => false
  end.

Definition node_module (s : spec) : module :=
  {| m_kind := MkNode; m_spec := s; m_media := MJavaScript; m_deps := []; m_types_dep := None;
     m_fc_deps := None; m_dts := false |}.

Definition npm_module (s : spec) : module :=
  {| m_kind := MkNpm; m_spec := s; m_media := MUnknown; m_deps := []; m_types_dep := None;
     m_fc_deps := None; m_dts := false |}.

(* ---------- NpmSpecifierResolver: resolve + fill_graph (the end of resolve_pending) ---------- *)
Definition npm_code (ans : list (N * N)) (r : N) : N := match lookup r ans with Some c => c | None => 0 end.

(* the static items, one batch: requirements in first-appearance order; every item of a requirement gets
   the requirement's result (a later item of the same specifier overwrites an earlier one) *)
Definition npm_main (ans : list (N * N)) (items : list npm_item) : list (spec * bslot) :=
  fold_left (fun acc r =>
    fold_left (fun acc it =>
      if N.eqb (ni_req it) r
      then set_assoc (ni_spec it)
             (if N.eqb (npm_code ans r) 1 then BErr (BNpm (ni_spec it) (ni_range it) 0) else BMod (npm_module (ni_spec it))) acc
      else acc) items acc)
    (dedup_keep_first (map ni_req items)) [].

(* the dynamic items, one call each: a failing dependency graph fails the item too *)
Definition npm_dynamic (ans : list (N * N)) (items : list npm_item) (acc : list (spec * bslot)) : list (spec * bslot) :=
  fold_left (fun acc it =>
    set_assoc (ni_spec it)
      (match npm_code ans (ni_req it) with
       | 1 => BErr (BNpm (ni_spec it) (ni_range it) 0)
       | 2 => BErr (BNpm (ni_spec it) (ni_range it) 1)
       | _ => BMod (npm_module (ni_spec it))
       end) acc) items acc.

Record npm_out := { no_slots : list (spec * bslot); no_calls : list (list N); no_dep_ok : option bool }.

Definition npm_resolve (W : world) (items : list npm_item) : npm_out :=
  match w_npm W with
  | None => {| no_slots := []; no_calls := []; no_dep_ok := None |}
  | Some ans =>
      let main := filter (fun it => negb (ni_dyn it)) items in
      let dyn := filter ni_dyn items in
      let run_main := match main, dyn with [], _ :: _ => false | _, _ => true end in
      let reqs := dedup_keep_first (map ni_req main) in
      {| no_slots := npm_dynamic ans dyn (if run_main then npm_main ans main else []);
         no_calls := (if run_main then [reqs] else []) ++ map (fun it => [ni_req it]) dyn;
         no_dep_ok := if run_main then Some (negb (existsb (fun r => N.eqb (npm_code ans r) 2) reqs)) else None |}
  end.

(* fill_graph: existing entries are kept *)
Definition npm_fill (slots new : list (spec * bslot)) : list (spec * bslot) :=
  fold_left (fun acc p => or_insert (fst p) (snd p) acc) new slots.

Definition lock_get (st : bstate) (s : spec) : option N :=
  match st_lock st with Some l => lookup s l | None => None end.

(* load_pending_module: the pending slot, the lockfile checksum of the requested specifier, the queued load *)
Definition queue_load (st : bstate) (s : spec) (range : option N) (asset in_dyn root : bool)
           (attr : lattr) (count : nat) : bstate :=
  (set_slot st s (BPending asset))
    <| st_pending := st_pending st ++
         [{| pi_spec := s; pi_range := range; pi_count := count; pi_attr := attr;
             pi_checksum := lock_get st s;
             pi_asset := asset; pi_dyn := in_dyn; pi_root := root |}] |>.

(* the redirect table as a graph, for ModuleGraph::resolve *)
Definition redirect_graph (reds : list (spec * spec)) : graph :=
  {| g_kind := KAll; g_roots := []; g_slots := []; g_redirects := reds; g_imports := [];
     g_schemes := []; g_has_node := false; g_errkinds := [] |}.

(* the specifier a load request is about: the end of the known redirect chain (ModuleGraph::resolve) *)
Definition load_target (st : bstate) (spec0 : spec) : spec :=
  resolve (redirect_graph (st_redirects st)) spec0.

(* load_with_redirect_count *)
(* an asset load requested (also) by a source-phase import: only WebAssembly - judged by the specifier's
   extension - without a type attribute may be imported that way *)
Definition sp_reject (W : world) (s : spec) (asset : bool) (attr : lattr) : bool :=
  asset && (match la_sp attr with Some _ => true | None => false end)
  && negb (mem s (w_wasm_ext W) && N.eqb (la_type attr) 0).
(* an asset load with a type attribute the options do not allow *)
Definition attr_reject (o : bopts) (asset : bool) (attr : lattr) : bool :=
  asset && negb (N.eqb (la_type attr) 0) && negb (attr_allowed o (la_type attr)).

Definition load (W : world) (o : bopts) (st : bstate) (spec0 : spec) (range : option N)
           (asset in_dyn root : bool) (attr : lattr) (count : nat) : bstate :=
  let s := load_target st spec0 in
  if sp_reject W s asset attr then
    set_slot st s (BErr (BSourcePhase s (match la_sp attr with Some r => r | None => 0 end)))
  else
  if attr_reject o asset attr then
    set_slot st s (BErr (BUnsupportedAttr s (match range with Some r => r | None => 0 end) (la_type attr)))
  else
    let proceed :=
      match class_of W s with
      | SNode => (set_slot st s (BMod (node_module s))) <| st_has_node := true |>
      | SPass => set_slot st s (BExternal false)
      | SNpm r => st <| st_npm := st_npm st ++ [{| ni_spec := s; ni_req := r; ni_range := range; ni_dyn := in_dyn |}] |>
      | SBad => set_slot st s (BErr (BBadSpecifier s range))
      | SUrl => queue_load st s range asset in_dyn root attr count
      end in
    (* a specifier that still redirects at the end of the chain: the known redirects loop *)
    let proceed := if has_key s (st_redirects st) then set_slot st s (BErr (BLoad s range 1)) else proceed in
    match lookup s (st_slots st) with
    | Some sl =>
        let reload_now := match sl with BExternal true => negb asset | _ => false end in
        if reload_now then proceed
        else
          let defer := match sl with BPending true => negb asset | _ => false end in
          if defer then
            st <| st_deferred := or_insert s {| df_range := range; df_attr := attr; df_dyn := in_dyn; df_root := root |}
                                           (st_deferred st) |>
          else st
    | None => proceed
    end.

(* ---------- parse_module_source_and_info: which responses become which entries ---------- *)
Inductive accepted := AccJson | AccCode | AccErr (e : berr).

Definition is_code_media (m : media) : bool :=
  match m with
  | MJavaScript | MMjs | MJsx | MTypeScript | MMts | MTsx | MCjs | MCts | MDts | MDmts | MDcts => true
  | _ => false
  end.

Definition accept (W : world) (final : spec) (wm : wmod) (lattr0 : lattr) (range : option N)
           (root dyn : bool) : accepted :=
  let attr := la_type lattr0 in
  let media := match wm_media wm with MUnknown => if root then MJavaScript else MUnknown | m => m end in
  let rng := match range with Some r => r | None => 0 end in
  let sp_bad := match la_sp lattr0 with
                | Some _ => negb ((match media with MWasm => true | _ => false end) && N.eqb attr 0)
                | None => false end in
  if sp_bad then AccErr (BSourcePhase final (match la_sp lattr0 with Some r => r | None => 0 end))
  else
  if negb (N.eqb attr 0) && negb (N.eqb attr 1) && negb (N.eqb attr 2) && negb (N.eqb attr 3)
  then AccErr (BUnsupportedAttr final rng attr)
  else
    match media with
    | MJson =>
        if root || dyn || N.eqb attr 1 then AccJson
        else AccErr (BUnsupportedMedia final MJson range)
    | _ =>
        if N.eqb attr 1 then AccErr (BInvalidTypeAssertion final rng media)
        else if (match media with MCjs | MCts => true | _ => false end) && negb (mem final (w_file W))
        then AccErr (BUnsupportedMedia final media range)
        else if is_code_media media then
          (if wm_parse_ok wm then AccCode else AccErr (BParse final))
        else match media with
             | MWasm => if wm_parse_ok wm then AccCode else AccErr (BWasmParse final)
             | _ => AccErr (BUnsupportedMedia final media range)
             end
    end.

(* ---------- try_load ---------- *)
Inductive presult :=
| PErr (e : berr)
| PRedirect (to : spec)
| PExternal (final : spec) (was_asset : bool)
| PJson (final : spec) (wm : wmod)
| PCode (final : spec) (wm : wmod).

(* what the loader returns for one call: the world's answer, except that served
   content whose hash differs from the presented checksum is rejected *)
Inductive lresult := LResp (r : wresp) | LChecksumError.

Definition loader_call (W : world) (s : spec) (reload : bool) (checksum : option N) : lresult :=
  let r := if reload then resp_reload_of W s else resp_of W s in
  match r, checksum with
  | WModule _ wm, Some c => if N.eqb c (wm_hash_raw wm) then LResp r else LChecksumError
  | _, _ => LResp r
  end.

Definition module_result (W : world) (it : pitem) (final : spec) (wm : wmod) : presult :=
  match accept W final wm (pi_attr it) (pi_range it) (pi_root it) (pi_dyn it) with
  | AccJson => PJson final wm
  | AccCode => PCode final wm
  | AccErr e => PErr e
  end.

(* returns the result and the loader calls made (first call first) *)
Definition try_load (W : world) (it : pitem) : presult * list lcall :=
  let s := pi_spec it in
  let c := pi_checksum it in
  let call1 := {| lc_spec := s; lc_asset := pi_asset it; lc_reload := false; lc_checksum := c |} in
  let call2 := {| lc_spec := s; lc_asset := pi_asset it; lc_reload := true; lc_checksum := c |} in
  let redirect to :=
    match c with
    | Some _ => PErr (BLoad s (pi_range it) 2)              (* checksummed URL must not redirect *)
    | None => if Nat.leb (w_max_redirects W) (pi_count it) || N.eqb to s
              then PErr (BLoad s (pi_range it) 1)
              else PRedirect to
    end in
  match loader_call W s false c with
  | LResp WMissing => (PErr (BMissing s (pi_range it)), [call1])
  | LResp WError => (PErr (BLoad s (pi_range it) 0), [call1])
  | LResp (WRedirect to) => (redirect to, [call1])
  | LResp (WExternal final) => (if pi_asset it then PExternal s true else PExternal final false, [call1])
  | LResp (WModule final wm) =>
      (if pi_asset it then PExternal s true else module_result W it final wm, [call1])
  | LChecksumError =>
      (* one cache-busting retry (non-registry URLs) *)
      match loader_call W s true c with
      | LResp (WModule final wm) =>
          (if pi_asset it then PExternal s true else module_result W it final wm, [call1; call2])
      | LResp (WExternal _) =>
          (if pi_asset it then PExternal s true else PErr (BLoad s (pi_range it) 3), [call1; call2])
      | _ => (PErr (BLoad s (pi_range it) 3), [call1; call2])      (* integrity error *)
      end
  end.

(* ---------- visit_module_dependencies ---------- *)
Definition with_dyn (st : bstate) (d : list (spec * branch)) : bstate := st <| st_dyn := d |>.

Definition is_rnone (r : res) : bool := match r with RNone => true | _ => false end.

Definition dep_lattr (d : dep) (fl : dflags) : lattr :=
  (* in the wire format 9 stands for "no type attribute, every import is a source-phase import" *)
  {| la_type := if N.eqb (d_attr d) 9 then 0 else d_attr d; la_sp := dfl_sp fl |}.

Definition visit_dep (W : world) (o : bopts) (st : bstate) (da : dep * dflags) : bstate * dep :=
  let d := fst da in
  let asset := dfl_asset (snd da) in
  let attr := dep_lattr d (snd da) in
  if d_dyn d && bo_skip_dynamic o then (st, d)
  else
    let code_side := include_code (bo_kind o) || is_rnone (d_type d) in
    let st1 :=
      if code_side then
        match d_code d with
        | ROk t range =>
            if d_dyn d && negb (st_in_dyn st) then
              (* entry(t).or_insert(..); then value.is_asset = false when this import is not an asset *)
              let cur := match lookup t (st_dyn st) with
                         | Some b => b
                         | None => {| br_range := range; br_attr := attr; br_asset := asset |} end in
              let cur' := if asset then cur else {| br_range := br_range cur; br_attr := br_attr cur; br_asset := false |} in
              with_dyn st (set_assoc t cur' (st_dyn st))
            else load W o st t (Some range) asset (st_in_dyn st) (mem t (st_resolved_roots st)) attr 0
        | _ => st
        end
      else st in
    let code' := if code_side then d_code d else RNone in
    let st2 :=
      if include_types (bo_kind o) then
        match d_type d with
        | ROk t range =>
            if d_dyn d && negb (st_in_dyn st1) then
              with_dyn st1 (set_assoc t {| br_range := range; br_attr := attr; br_asset := asset |} (st_dyn st1))
            else load W o st1 t (Some range) asset (st_in_dyn st1) (mem t (st_resolved_roots st1)) attr 0
        | _ => st1
        end
      else st1 in
    let type' := if include_types (bo_kind o) then d_type d else RNone in
    (st2, {| d_text := d_text d; d_filelike := d_filelike d; d_code := code'; d_type := type';
             d_dyn := d_dyn d; d_deno_types := d_deno_types d; d_attr := d_attr d |}).

Fixpoint visit_deps (W : world) (o : bopts) (st : bstate) (ds : list (dep * dflags)) : bstate * list dep :=
  match ds with
  | [] => (st, [])
  | da :: ds' =>
      let '(st1, d') := visit_dep W o st da in
      let '(st2, rest) := visit_deps W o st1 ds' in
      (st2, d' :: rest)
  end.

(* visit_module *)
Definition follow_deps (o : bopts) (wm : wmod) : bool :=
  match bo_kind o with
  | KTypesOnly => match wm_tdep wm with None => true | Some _ => false end
  | _ => true
  end.

Definition load_types_dep (W : world) (o : bopts) (st : bstate) (tdep : option typesdep) : bstate :=
  if include_types (bo_kind o) then
    match tdep with
    | Some td => match td_res td with
                 | ROk t range => load W o st t (Some range) false false (mem t (st_resolved_roots st)) no_attr 0
                 | _ => st end
    | None => st
    end
  else st.

Definition visit_module (W : world) (o : bopts) (st : bstate) (final : spec) (wm : wmod) : bstate * module :=
  match wm_kind wm with
  | MkWasm =>
      let r := visit_deps W o st (wm_deps wm) in
      (fst r, {| m_kind := MkWasm; m_spec := final; m_media := MWasm; m_deps := snd r; m_types_dep := None;
                 m_fc_deps := None; m_dts := negb (mem final (w_wasm_nodts W)) |})
  | _ =>
      let media := match wm_media wm with MUnknown => MJavaScript | m => m end in
      let r := if follow_deps o wm then visit_deps W o st (wm_deps wm) else (st, []) in
      (load_types_dep W o (fst r) (wm_tdep wm),
       {| m_kind := MkJs; m_spec := final; m_media := media; m_deps := snd r;
          m_types_dep := if include_types (bo_kind o) then wm_tdep wm else None;
          m_fc_deps := None; m_dts := false |})
  end.

Definition add_resolved_root (st : bstate) (s : spec) : bstate :=
  st <| st_resolved_roots := if mem s (st_resolved_roots st) then st_resolved_roots st
                             else s :: st_resolved_roots st |>.

Definition json_module (s : spec) : module :=
  {| m_kind := MkJson; m_spec := s; m_media := MJson; m_deps := []; m_types_dep := None;
     m_fc_deps := None; m_dts := false |}.

Definition is_declaration (m : media) : bool :=
  match m with MDts | MDmts | MDcts => true | _ => false end.

(* visit(): hand the checksum of a new remote module to the locker *)
Definition record_checksum (W : world) (st : bstate) (final : spec) (media : media) (wm : wmod) : bstate :=
  match st_lock st with
  | Some l =>
      if negb (is_declaration media) && mem final (w_http W) && negb (has_key final l)
      then st <| st_lock := Some (l ++ [(final, wm_hash_text wm)]) |>
              <| st_lock_sets := (final, wm_hash_text wm) :: st_lock_sets st |>
      else st
  | None => st
  end.

(* one completed load: the body of resolve_pending's `match pending.next()` *)
Definition process (W : world) (o : bopts) (st : bstate) (it : pitem) : bstate :=
  let '(res, calls) := try_load W it in
  let st := st <| st_calls := rev calls ++ st_calls st |> in
  match res with
  | PErr e =>
      let st1 := check_specifier st (pi_spec it) (berr_spec e) in
      set_slot st1 (berr_spec e) (BErr e)
  | PRedirect to =>
      let st1 := check_specifier st (pi_spec it) to in
      load W o st1 to (pi_range it) (pi_asset it) (pi_dyn it) (pi_root it) (pi_attr it) (S (pi_count it))
  | PExternal final was_asset =>
      let st1 := check_specifier st (pi_spec it) final in
      let st2 := if pi_root it then add_resolved_root st1 final else st1 in
      match lookup final (st_slots st2) with
      | Some (BPending _) => set_slot st2 final (BExternal was_asset)
      | Some _ => st2
      | None => set_slot st2 final (BExternal was_asset)
      end
  | PJson final wm =>
      let st1 := check_specifier st (pi_spec it) final in
      let st2 := if pi_root it then add_resolved_root st1 final else st1 in
      let st3 := record_checksum W st2 final MJson wm in
      set_slot st3 final (BMod (json_module final))
  | PCode final wm =>
      let st1 := check_specifier st (pi_spec it) final in
      let st2 := if pi_root it then add_resolved_root st1 final else st1 in
      let media := match wm_kind wm with
                   | MkWasm => MWasm
                   | _ => match wm_media wm with MUnknown => MJavaScript | m => m end end in
      let st2' := record_checksum W st2 final media wm in
      let r := visit_module W o st2' final wm in
      set_slot (fst r) final (BMod (snd r))
  end.

(* resolve_dynamic_branches *)
Fixpoint load_branches (W : world) (o : bopts) (st : bstate) (bs : list (spec * branch)) : bstate :=
  match bs with
  | [] => st
  | (s, b) :: bs' =>
      load_branches W o
        (load W o st s (Some (br_range b)) (br_asset b) true (mem s (st_resolved_roots st)) (br_attr b) 0) bs'
  end.

Fixpoint load_deferred (W : world) (o : bopts) (st : bstate) (ds : list (spec * deferred)) : bstate :=
  match ds with
  | [] => st
  | (s, d) :: ds' =>
      load_deferred W o (load W o st s (df_range d) false (df_dyn d) (df_root d) (df_attr d) 0) ds'
  end.

Definition idle (st : bstate) : bool :=
  match st_pending st, st_dyn st, st_deferred st with [], [], [] => true | _, _, _ => false end.

(* one iteration of the `while` loop of resolve_pending *)
Definition loop_step (W : world) (o : bopts) (st : bstate) : bstate :=
  let st1 :=
    match st_pending st with
    | it :: rest => process W o (st <| st_pending := rest |>) it
    | [] => st
    end in
  match st_pending st1 with
  | _ :: _ => st1
  | [] =>
      match st_deferred st1 with
      | _ :: _ => load_deferred W o (st1 <| st_deferred := [] |>) (st_deferred st1)
      | [] =>
          if st_in_dyn st1 then st1
          else load_branches W o (st1 <| st_dyn := [] |> <| st_in_dyn := true |>) (st_dyn st1)
      end
  end.

Fixpoint resolve_pending (fuel : nat) (W : world) (o : bopts) (st : bstate) : option bstate :=
  if idle st then Some st
  else match fuel with
       | O => None
       | S f => resolve_pending f W o (loop_step W o st)
       end.

(* ---------- termination measure ----------
   Proofs/Termination.v proves that every iteration of the loop strictly decreases [tmeasure U st]
   (U: the specifiers the world and the state can mention), so [term_fuel] iterations always suffice. *)
Definition res_targets (r : res) : list spec := match r with ROk t _ => [t] | _ => [] end.
Definition dep_targets (d : dep) : list spec := res_targets (d_code d) ++ res_targets (d_type d).
Definition wmod_targets (wm : wmod) : list spec :=
  flat_map (fun da => dep_targets (fst da)) (wm_deps wm) ++
  match wm_tdep wm with Some td => res_targets (td_res td) | None => [] end.
Definition wresp_targets (r : wresp) : list spec :=
  match r with
  | WRedirect to => [to]
  | WExternal f => [f]
  | WModule f wm => f :: wmod_targets wm
  | _ => []
  end.
Definition world_specs (W : world) : list spec :=
  flat_map (fun p => wresp_targets (snd p)) (w_resp W ++ w_resp_reload W).
Definition state_specs (st : bstate) : list spec :=
  map pi_spec (st_pending st) ++ map fst (st_dyn st) ++ map fst (st_deferred st) ++ map snd (st_redirects st).
Definition universe (W : world) (st : bstate) : list spec := dedup (world_specs W ++ state_specs st).

(* what one specifier can still cost: 6 while nothing is known about it (it can be queued), 2 while it is
   an asset-only entry or an asset load in flight that nobody waits for (it can be queued once more, as a
   module), 0 otherwise *)
Definition credit (slots : list (spec * bslot)) (reds : list (spec * spec)) (defs : list (spec * deferred))
           (u : spec) : nat :=
  match lookup u slots with
  | None => if has_key u reds then 0 else 6
  | Some (BExternal true) => 2
  | Some (BPending true) => if has_key u defs then 0 else 2
  | Some _ => 0
  end%nat.
Definition item_weight (it : pitem) : nat := if pi_asset it then 3%nat else 1%nat.
Definition dyn_credit (U : list spec) (in_dyn : bool) (dyn : list (spec * branch)) : nat :=
  if in_dyn then O else S (length (filter (fun u => negb (has_key u dyn)) U)).
Fixpoint sum_nat (l : list nat) : nat := match l with [] => O | x :: r => (x + sum_nat r)%nat end.
Definition tmeasure (U : list spec) (st : bstate) : nat :=
  (sum_nat (map (credit (st_slots st) (st_redirects st) (st_deferred st)) U)
   + sum_nat (map item_weight (st_pending st))
   + length (st_deferred st) + dyn_credit U (st_in_dyn st) (st_dyn st))%nat.
Definition term_fuel (W : world) (st : bstate) : nat := tmeasure (universe W st) st.

(* ---------- build ---------- *)
Record bgraph := {
  bg_kind : gkind;
  bg_roots : list spec;
  bg_slots : list (spec * bslot);
  bg_redirects : list (spec * spec);
  bg_imports : list (spec * list dep);
  bg_has_node : bool;
  bg_calls : list lcall;                  (* loader calls of the LAST operation, in order *)
  bg_lock_sets : list (spec * N);         (* set_remote_checksum calls of the LAST operation, in order *)
  bg_npm_calls : list (list N);           (* NpmResolver::resolve_pkg_reqs calls of the LAST operation, in order *)
  bg_npm_dep_ok : bool                    (* npm_dep_graph_result is Ok *)
}.

Definition empty_bgraph (k : gkind) : bgraph :=
  {| bg_kind := k; bg_roots := []; bg_slots := []; bg_redirects := []; bg_imports := []; bg_has_node := false;
     bg_calls := []; bg_lock_sets := []; bg_npm_calls := []; bg_npm_dep_ok := true |}.

Fixpoint load_roots (W : world) (o : bopts) (st : bstate) (roots : list spec) : bstate :=
  match roots with
  | [] => st
  | r :: rs => load_roots W o (load W o st r None false (bo_is_dynamic o) true no_attr 0) rs
  end.

Fixpoint load_import_deps (W : world) (o : bopts) (st : bstate) (ds : list dep) : bstate :=
  match ds with
  | [] => st
  | d :: ds' =>
      let st1 := match d_type d with
                 | ROk t range => load W o st t (Some range) false (st_in_dyn st) (mem t (st_resolved_roots st)) no_attr 0
                 | _ => st end in
      load_import_deps W o st1 ds'
  end.

Fixpoint load_imports (W : world) (o : bopts) (st : bstate) (imps : list (spec * list dep)) : bstate :=
  match imps with
  | [] => st
  | (_, ds) :: rest => load_imports W o (load_import_deps W o st ds) rest
  end.

Definition init_state (W : world) (o : bopts) (g : bgraph) : bstate :=
  {| st_slots := bg_slots g; st_redirects := bg_redirects g; st_has_node := bg_has_node g;
     st_pending := []; st_dyn := []; st_deferred := [];
     st_in_dyn := bo_is_dynamic o; st_resolved_roots := []; st_calls := [];
     st_lock := w_lock W; st_lock_sets := []; st_npm := [] |}.

Definition finish (W : world) (g : bgraph) (roots : list spec) (imports : list (spec * list dep)) (st : bstate) : bgraph :=
  let n := npm_resolve W (st_npm st) in
  {| bg_kind := bg_kind g; bg_roots := roots; bg_slots := npm_fill (st_slots st) (no_slots n);
     bg_redirects := st_redirects st; bg_imports := imports;
     bg_has_node := st_has_node st; bg_calls := rev (st_calls st); bg_lock_sets := rev (st_lock_sets st);
     bg_npm_calls := no_calls n;
     bg_npm_dep_ok := match no_dep_ok n with Some b => b | None => bg_npm_dep_ok g end |}.

(* Builder::build on graph g (empty or the result of an earlier build) *)
Definition build (W : world) (o : bopts) (g : bgraph) (roots : list spec) (imports : list (spec * list dep))
  : option bgraph :=
  let new_roots := dedup_keep_first (filter (fun r => negb (mem r (bg_roots g))) roots) in
  let new_imports := filter (fun p => negb (has_key (fst p) (bg_imports g))) imports in
  let st1 := load_roots W o (init_state W o g) new_roots in
  let st2 := load_imports W o st1 new_imports in
  (* the loop runs on fuel computed from the termination measure: Proofs/Termination.v proves it never runs out *)
  match resolve_pending (term_fuel W st2) W o st2 with
  | None => None
  | Some st => Some (finish W g (bg_roots g ++ new_roots) (bg_imports g ++ new_imports) st)
  end.

(* ---------- Builder::reload ---------- *)

Fixpoint reload_specs (W : world) (o : bopts) (st : bstate) (specs : list spec) : bstate :=
  match specs with
  | [] => st
  | s :: rest =>
      let st1 := st <| st_slots := remove_assoc s (st_slots st) |> in
      reload_specs W o (load W o st1 s None false (bo_is_dynamic o) true no_attr 0) rest
  end.

Definition reload (W : world) (o : bopts) (g : bgraph) (specs : list spec) : option bgraph :=
  let resolved := map (resolve (redirect_graph (bg_redirects g))) specs in
  let st1 := reload_specs W o (init_state W o g) resolved in
  match resolve_pending (term_fuel W st1) W o st1 with
  | None => None
  | Some st => Some (finish W g (bg_roots g) (bg_imports g) st)
  end.
