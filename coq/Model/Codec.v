(* C13 (a): the serde codec of analysis::ModuleInfo and the moduleGraph1 -> 2 upgrade.

   Definitions only (proofs in Proofs/CodecProofs.v).  Everything is a
   transcription of /repo/src/analysis.rs:18-364, /repo/src/graph.rs:87-224
   (Position, PositionRange) and /repo/src/packages.rs:175-189, together with
   what serde_derive 1.0.228 generates for the attributes found there and what
   serde_json 1.0.143 (`Value` as Deserializer) and serde's private `Content`
   buffer (internally tagged / untagged / flatten) do with it.

   JSON is the `serde_json::Value` level (DESIGN section 4: the text layer is
   trusted): objects are association lists whose keys are distinct in every
   value that exists in Rust ([json_wf]); numbers are the non-negative
   integers that fit u64 (other numbers are outside the modelled domain).
   Strings are lists of Unicode scalar values.

   A decoder returns [None] exactly when serde returns Err; which error is
   not modelled (JsrPackageVersionInfo::module_info discards it with .ok()).
   Since any failing step fails the whole decode, a struct in map form is
   decoded by key lookup; a struct in sequence form positionally. *)
From DG Require Import Base.Util Base.Sexp.

Definition str := list N.

Fixpoint str_eqb (a b : str) : bool :=
  match a, b with
  | [], [] => true
  | x :: a', y :: b' => N.eqb x y && str_eqb a' b'
  | _, _ => false
  end.

Inductive json : Type :=
| JNull
| JBool (b : bool)
| JNum (n : N)
| JStr (s : str)
| JArr (l : list json)
| JObj (m : list (str * json)).

(* ---- association lists with string keys *)
Fixpoint sget {V : Type} (k : str) (m : list (str * V)) : option V :=
  match m with
  | [] => None
  | (k', v) :: m' => if str_eqb k k' then Some v else sget k m'
  end.
Definition jget (k : str) (m : list (str * json)) : option json := sget k m.

Fixpoint sremove {V : Type} (k : str) (m : list (str * V)) : list (str * V) :=
  match m with
  | [] => []
  | (k', v) :: m' => if str_eqb k k' then sremove k m' else (k', v) :: sremove k m'
  end.

(* serde_json::Map::insert: replace the value of an existing key, else append *)
Fixpoint sset {V : Type} (k : str) (v : V) (m : list (str * V)) : list (str * V) :=
  match m with
  | [] => [(k, v)]
  | (k', v') :: m' => if str_eqb k k' then (k', v) :: m' else (k', v') :: sset k v m'
  end.

Fixpoint smem (k : str) (l : list str) : bool :=
  match l with [] => false | k' :: l' => str_eqb k k' || smem k l' end.
Fixpoint nodup_strb (l : list str) : bool :=
  match l with [] => true | k :: l' => negb (smem k l') && nodup_strb l' end.

(* ---- key and variant names (char codes; checked against the real serializer on every run) *)
Definition k_type : str := [116; 121; 112; 101].
Definition k_static : str := [115; 116; 97; 116; 105; 99].
Definition k_dynamic : str := [100; 121; 110; 97; 109; 105; 99].
Definition k_kind : str := [107; 105; 110; 100].
Definition k_typesSpecifier : str := [116; 121; 112; 101; 115; 83; 112; 101; 99; 105; 102; 105; 101; 114].
Definition k_specifier : str := [115; 112; 101; 99; 105; 102; 105; 101; 114].
Definition k_specifierRange : str := [115; 112; 101; 99; 105; 102; 105; 101; 114; 82; 97; 110; 103; 101].
Definition k_sideEffect : str := [115; 105; 100; 101; 69; 102; 102; 101; 99; 116].
Definition k_importAttributes : str := [105; 109; 112; 111; 114; 116; 65; 116; 116; 114; 105; 98; 117; 116; 101; 115].
Definition k_argument : str := [97; 114; 103; 117; 109; 101; 110; 116].
Definition k_argumentRange : str := [97; 114; 103; 117; 109; 101; 110; 116; 82; 97; 110; 103; 101].
Definition k_text : str := [116; 101; 120; 116].
Definition k_range : str := [114; 97; 110; 103; 101].
Definition k_resolutionMode : str := [114; 101; 115; 111; 108; 117; 116; 105; 111; 110; 77; 111; 100; 101].
Definition k_path : str := [112; 97; 116; 104].
Definition k_types : str := [116; 121; 112; 101; 115].
Definition k_script : str := [115; 99; 114; 105; 112; 116].
Definition k_dependencies : str := [100; 101; 112; 101; 110; 100; 101; 110; 99; 105; 101; 115].
Definition k_tsReferences : str := [116; 115; 82; 101; 102; 101; 114; 101; 110; 99; 101; 115].
Definition k_selfTypesSpecifier : str := [115; 101; 108; 102; 84; 121; 112; 101; 115; 83; 112; 101; 99; 105; 102; 105; 101; 114].
Definition k_jsxImportSource : str := [106; 115; 120; 73; 109; 112; 111; 114; 116; 83; 111; 117; 114; 99; 101].
Definition k_jsxImportSourceTypes : str := [106; 115; 120; 73; 109; 112; 111; 114; 116; 83; 111; 117; 114; 99; 101; 84; 121; 112; 101; 115].
Definition k_jsdocImports : str := [106; 115; 100; 111; 99; 73; 109; 112; 111; 114; 116; 115].
Definition k_sourceMapUrl : str := [115; 111; 117; 114; 99; 101; 77; 97; 112; 85; 114; 108].
Definition k_none : str := [110; 111; 110; 101].
Definition k_unknown : str := [117; 110; 107; 110; 111; 119; 110].
Definition k_known : str := [107; 110; 111; 119; 110].
Definition k_import : str := [105; 109; 112; 111; 114; 116].
Definition k_importDefer : str := [105; 109; 112; 111; 114; 116; 68; 101; 102; 101; 114].
Definition k_importSource : str := [105; 109; 112; 111; 114; 116; 83; 111; 117; 114; 99; 101].
Definition k_require : str := [114; 101; 113; 117; 105; 114; 101].
Definition k_importType : str := [105; 109; 112; 111; 114; 116; 84; 121; 112; 101].
Definition k_importEquals : str := [105; 109; 112; 111; 114; 116; 69; 113; 117; 97; 108; 115].
Definition k_export : str := [101; 120; 112; 111; 114; 116].
Definition k_exportType : str := [101; 120; 112; 111; 114; 116; 84; 121; 112; 101].
Definition k_exportEquals : str := [101; 120; 112; 111; 114; 116; 69; 113; 117; 97; 108; 115].
Definition k_maybeTsModuleAugmentation : str :=
  [109; 97; 121; 98; 101; 84; 115; 77; 111; 100; 117; 108; 101; 65; 117; 103; 109; 101; 110; 116; 97; 116; 105; 111; 110].
Definition k_string : str := [115; 116; 114; 105; 110; 103].
Definition k_expr : str := [101; 120; 112; 114].
Definition k_value : str := [118; 97; 108; 117; 101].
Definition k_start : str := [115; 116; 97; 114; 116].
Definition k_end : str := [101; 110; 100].
Definition k_line : str := [108; 105; 110; 101].
Definition k_character : str := [99; 104; 97; 114; 97; 99; 116; 101; 114].
Definition k_leadingComments : str := [108; 101; 97; 100; 105; 110; 103; 67; 111; 109; 109; 101; 110; 116; 115].

(* ---- the analysis result, field by field (analysis.rs:18-286) *)
Record pos := { p_line : N; p_char : N }.                       (* graph.rs:87 Position *)
Record prange := { r_start : pos; r_end : pos }.                (* graph.rs:153 PositionRange *)
Record swr := { s_text : str; s_range : prange }.               (* SpecifierWithRange *)
Inductive iattr := IAUnknown | IAKnown (s : str).               (* ImportAttribute (untagged) *)
Inductive iattrs := IANone | IAUnknownKeys | IAKnownMap (m : list (str * iattr)). (* ImportAttributes *)
Inductive dkind := DkImport | DkImportDefer | DkImportSource | DkRequire.
Inductive skind := SkImport | SkImportDefer | SkImportSource | SkImportType | SkImportEquals
                 | SkExport | SkExportType | SkExportEquals | SkMaybeTsModuleAugmentation.
Inductive tpart := TpString (v : str) | TpExpr.                 (* DynamicTemplatePart *)
Inductive darg := DaString (s : str) | DaTemplate (l : list tpart) | DaExpr. (* DynamicArgument (untagged) *)
Record sdesc := { sd_kind : skind; sd_types : option swr; sd_spec : str; sd_range : prange;
                  sd_side : bool; sd_attrs : iattrs }.
Record ddesc := { dd_kind : dkind; dd_types : option swr; dd_arg : darg; dd_range : prange;
                  dd_attrs : iattrs }.
Inductive desc := DStatic (d : sdesc) | DDynamic (d : ddesc).   (* DependencyDescriptor, tag = "type" *)
Inductive rmode := RmRequire | RmImport.                        (* TypeScriptTypesResolutionMode *)
Inductive tsref := TrPath (s : swr) | TrTypes (s : swr) (m : option rmode). (* TypeScriptReference *)
Record jsdoc := { jd_spec : swr; jd_mode : option rmode }.      (* JsDocImportInfo *)
Record minfo := { mi_script : bool; mi_deps : list desc; mi_tsrefs : list tsref;
                  mi_self : option swr; mi_jsx : option swr; mi_jsxt : option swr;
                  mi_jsdoc : list jsdoc; mi_smap : option swr }.

Definition pos0 : pos := {| p_line := 0; p_char := 0 |}.
Definition range0 : prange := {| r_start := pos0; r_end := pos0 |}.

(* ================================================================ encoder *)

(* graph.rs:200-224: PositionRange serialises as a 2-tuple of 2-tuples *)
Definition enc_pos (p : pos) : json := JArr [JNum (p_line p); JNum (p_char p)].
Definition enc_range (r : prange) : json := JArr [enc_pos (r_start r); enc_pos (r_end r)].
Definition swr_fields (s : swr) : list (str * json) :=
  [(k_text, JStr (s_text s)); (k_range, enc_range (s_range s))].
Definition enc_swr (s : swr) : json := JObj (swr_fields s).

(* skip_serializing_if = "Option::is_none" *)
Definition opt_entry {T} (k : str) (f : T -> json) (o : option T) : list (str * json) :=
  match o with None => [] | Some v => [(k, f v)] end.

Definition enc_iattr (a : iattr) : json :=
  match a with IAUnknown => JNull | IAKnown s => JStr s end.
Definition enc_iattrs (a : iattrs) : json :=
  match a with
  | IANone => JStr k_none
  | IAUnknownKeys => JStr k_unknown
  | IAKnownMap m => JObj [(k_known, JObj (map (fun kv => (fst kv, enc_iattr (snd kv))) m))]
  end.
(* skip_serializing_if = "ImportAttributes::is_none" *)
Definition iattrs_entry (a : iattrs) : list (str * json) :=
  match a with IANone => [] | _ => [(k_importAttributes, enc_iattrs a)] end.

Definition skind_name (k : skind) : str :=
  match k with
  | SkImport => k_import | SkImportDefer => k_importDefer | SkImportSource => k_importSource
  | SkImportType => k_importType | SkImportEquals => k_importEquals | SkExport => k_export
  | SkExportType => k_exportType | SkExportEquals => k_exportEquals
  | SkMaybeTsModuleAugmentation => k_maybeTsModuleAugmentation
  end.
Definition dkind_name (k : dkind) : str :=
  match k with
  | DkImport => k_import | DkImportDefer => k_importDefer | DkImportSource => k_importSource
  | DkRequire => k_require
  end.
Definition rmode_name (m : rmode) : str :=
  match m with RmRequire => k_require | RmImport => k_import end.

Definition enc_tpart (p : tpart) : json :=
  match p with
  | TpString v => JObj [(k_type, JStr k_string); (k_value, JStr v)]
  | TpExpr => JObj [(k_type, JStr k_expr)]
  end.
(* untagged: the payload itself; the unit variant is null (never emitted as a field: is_expr skips it) *)
Definition enc_darg (a : darg) : json :=
  match a with
  | DaString s => JStr s
  | DaTemplate l => JArr (map enc_tpart l)
  | DaExpr => JNull
  end.

Definition sdesc_fields (d : sdesc) : list (str * json) :=
  [(k_kind, JStr (skind_name (sd_kind d)))]
  ++ opt_entry k_typesSpecifier enc_swr (sd_types d)
  ++ [(k_specifier, JStr (sd_spec d)); (k_specifierRange, enc_range (sd_range d))]
  ++ (if sd_side d then [(k_sideEffect, JBool true)] else [])          (* skip_serializing_if = "is_false" *)
  ++ iattrs_entry (sd_attrs d).

Definition ddesc_fields (d : ddesc) : list (str * json) :=
  (match dd_kind d with DkImport => [] | k => [(k_kind, JStr (dkind_name k))] end) (* is_dynamic_esm *)
  ++ opt_entry k_typesSpecifier enc_swr (dd_types d)
  ++ (match dd_arg d with DaExpr => [] | a => [(k_argument, enc_darg a)] end)   (* DynamicArgument::is_expr *)
  ++ [(k_argumentRange, enc_range (dd_range d))]
  ++ iattrs_entry (dd_attrs d).

(* internally tagged: the tag entry first, then the variant's own fields *)
Definition enc_desc (d : desc) : json :=
  match d with
  | DStatic s => JObj ((k_type, JStr k_static) :: sdesc_fields s)
  | DDynamic s => JObj ((k_type, JStr k_dynamic) :: ddesc_fields s)
  end.

Definition mode_entry (m : option rmode) : list (str * json) :=
  opt_entry k_resolutionMode (fun x => JStr (rmode_name x)) m.

Definition enc_tsref (r : tsref) : json :=
  match r with
  | TrPath s => JObj ((k_type, JStr k_path) :: swr_fields s)
  | TrTypes s m => JObj ((k_type, JStr k_types) :: swr_fields s ++ mode_entry m)   (* flatten *)
  end.
Definition enc_jsdoc (d : jsdoc) : json := JObj (swr_fields (jd_spec d) ++ mode_entry (jd_mode d)).

Definition list_entry {T} (k : str) (f : T -> json) (l : list T) : list (str * json) :=
  match l with [] => [] | _ => [(k, JArr (map f l))] end.   (* skip_serializing_if = "Vec::is_empty" *)

Definition enc_module_info (mi : minfo) : json :=
  JObj ((if mi_script mi then [(k_script, JBool true)] else [])
        ++ list_entry k_dependencies enc_desc (mi_deps mi)
        ++ list_entry k_tsReferences enc_tsref (mi_tsrefs mi)
        ++ opt_entry k_selfTypesSpecifier enc_swr (mi_self mi)
        ++ opt_entry k_jsxImportSource enc_swr (mi_jsx mi)
        ++ opt_entry k_jsxImportSourceTypes enc_swr (mi_jsxt mi)
        ++ list_entry k_jsdocImports enc_jsdoc (mi_jsdoc mi)
        ++ opt_entry k_sourceMapUrl enc_swr (mi_smap mi)).

(* ================================================================ decoder *)

(* field of a struct in map form: required / with #[serde(default)] *)
Definition req {T} (m : list (str * json)) (k : str) (f : json -> option T) : option T :=
  match jget k m with Some v => f v | None => None end.
Definition dflt {T} (m : list (str * json)) (k : str) (f : json -> option T) (d : T) : option T :=
  match jget k m with Some v => f v | None => Some d end.
(* element of a struct in sequence form (derive's visit_seq): a missing element is
   invalid_length unless the field has a default *)
Definition sreq {T} (l : list json) (i : nat) (f : json -> option T) : option T :=
  match nth_error l i with Some v => f v | None => None end.
Definition sdflt {T} (l : list json) (i : nat) (f : json -> option T) (d : T) : option T :=
  match nth_error l i with Some v => f v | None => Some d end.
(* visit_array / SeqDeserializer::end: unconsumed elements are an error *)
Definition at_most (l : list json) (n : nat) : bool := Nat.leb (length l) n.

Definition dec_bool (j : json) : option bool := match j with JBool b => Some b | _ => None end.
Definition dec_usize (j : json) : option N := match j with JNum n => Some n | _ => None end.
Definition dec_string (j : json) : option str := match j with JStr s => Some s | _ => None end.
Definition dec_option {T} (f : json -> option T) (j : json) : option (option T) :=
  match j with JNull => Some None | _ => match f j with Some v => Some (Some v) | None => None end end.
Definition dec_list {T} (f : json -> option T) (j : json) : option (list T) :=
  match j with JArr l => map_opt f l | _ => None end.

(* `()`: Value::deserialize_unit accepts null only; ContentDeserializer::deserialize_unit
   (values buffered for an internally tagged enum) also accepts the empty map *)
Definition dec_unit (content : bool) (j : json) : bool :=
  match j with JNull => true | JObj [] => content | _ => false end.
(* externally tagged enum all of whose variants are units: "name" or {"name": ()} *)
Definition dec_unit_variant (content : bool) (j : json) : option str :=
  match j with
  | JStr s => Some s
  | JObj [(k, v)] => if dec_unit content v then Some k else None
  | _ => None
  end.

(* graph.rs:87 derive(Deserialize): 2-sequence or map with both fields required *)
Definition dec_pos (j : json) : option pos :=
  match j with
  | JArr l =>
      if at_most l 2 then
        do a <- sreq l 0 dec_usize; do b <- sreq l 1 dec_usize; Some {| p_line := a; p_char := b |}
      else None
  | JObj m =>
      do a <- req m k_line dec_usize; do b <- req m k_character dec_usize;
      Some {| p_line := a; p_char := b |}
  | _ => None
  end.
(* graph.rs:153 derive(Deserialize) with default = "Position::zeroed" on both fields *)
Definition dec_range (j : json) : option prange :=
  match j with
  | JArr l =>
      if at_most l 2 then
        do a <- sdflt l 0 dec_pos pos0; do b <- sdflt l 1 dec_pos pos0; Some {| r_start := a; r_end := b |}
      else None
  | JObj m =>
      do a <- dflt m k_start dec_pos pos0; do b <- dflt m k_end dec_pos pos0;
      Some {| r_start := a; r_end := b |}
  | _ => None
  end.

Definition dec_swr_map (m : list (str * json)) : option swr :=
  do t <- req m k_text dec_string; do r <- req m k_range dec_range; Some {| s_text := t; s_range := r |}.
Definition dec_swr (j : json) : option swr :=
  match j with
  | JArr l =>
      if at_most l 2 then
        do t <- sreq l 0 dec_string; do r <- sreq l 1 dec_range; Some {| s_text := t; s_range := r |}
      else None
  | JObj m => dec_swr_map m
  | _ => None
  end.

(* untagged: Unknown (unit: null) is tried first, then Known(String) *)
Definition dec_iattr (j : json) : option iattr :=
  match j with JNull => Some IAUnknown | JStr s => Some (IAKnown s) | _ => None end.
Definition dec_iattr_entry (kv : str * json) : option (str * iattr) :=
  match dec_iattr (snd kv) with Some a => Some (fst kv, a) | None => None end.
(* externally tagged; Known is a newtype variant and so cannot be written as a bare string *)
Definition dec_iattrs (content : bool) (j : json) : option iattrs :=
  match j with
  | JStr s =>
      if str_eqb s k_none then Some IANone
      else if str_eqb s k_unknown then Some IAUnknownKeys
      else None
  | JObj [(k, v)] =>
      if str_eqb k k_none then (if dec_unit content v then Some IANone else None)
      else if str_eqb k k_unknown then (if dec_unit content v then Some IAUnknownKeys else None)
      else if str_eqb k k_known then
        match v with
        | JObj m => match map_opt dec_iattr_entry m with Some m' => Some (IAKnownMap m') | None => None end
        | _ => None
        end
      else None
  | _ => None
  end.

Definition skind_of_name (s : str) : option skind :=
  if str_eqb s k_import then Some SkImport
  else if str_eqb s k_importDefer then Some SkImportDefer
  else if str_eqb s k_importSource then Some SkImportSource
  else if str_eqb s k_importType then Some SkImportType
  else if str_eqb s k_importEquals then Some SkImportEquals
  else if str_eqb s k_export then Some SkExport
  else if str_eqb s k_exportType then Some SkExportType
  else if str_eqb s k_exportEquals then Some SkExportEquals
  else if str_eqb s k_maybeTsModuleAugmentation then Some SkMaybeTsModuleAugmentation
  else None.
Definition dkind_of_name (s : str) : option dkind :=
  if str_eqb s k_import then Some DkImport
  else if str_eqb s k_importDefer then Some DkImportDefer
  else if str_eqb s k_importSource then Some DkImportSource
  else if str_eqb s k_require then Some DkRequire
  else None.
Definition rmode_of_name (s : str) : option rmode :=
  if str_eqb s k_require then Some RmRequire
  else if str_eqb s k_import then Some RmImport
  else None.
Definition dec_skind (content : bool) (j : json) : option skind :=
  do n <- dec_unit_variant content j; skind_of_name n.
Definition dec_dkind (content : bool) (j : json) : option dkind :=
  do n <- dec_unit_variant content j; dkind_of_name n.
Definition dec_rmode (content : bool) (j : json) : option rmode :=
  do n <- dec_unit_variant content j; rmode_of_name n.

(* internally tagged enums (TaggedContentVisitor): a map with the tag entry, or a
   sequence whose first element is the tag; the rest (map without the tag entry /
   tail of the sequence) is the variant's content.  The tag is a variant
   identifier: a string; when the enum is itself decoded from buffered content
   (ContentDeserializer::deserialize_identifier) also the variant's index as a
   number, which serde_json's own Value deserializer does not accept *)
Definition tag_name (content : bool) (variants : list str) (t : json) : option str :=
  match t with
  | JStr s => Some s
  | JNum n => if content then nth_error variants (N.to_nat n) else None
  | _ => None
  end.
Definition split_tagged (content : bool) (variants : list str) (tag : str) (j : json) : option (str * json) :=
  match j with
  | JArr (t :: rest) => do n <- tag_name content variants t; Some (n, JArr rest)
  | JObj m => do t <- jget tag m; do n <- tag_name content variants t; Some (n, JObj (sremove tag m))
  | _ => None
  end.

(* DynamicTemplatePart: struct variant String { value }, unit variant Expr
   (InternallyTaggedUnitVisitor: any map; a sequence must have nothing after the tag).
   Only ever decoded from buffered content (it sits inside the untagged DynamicArgument). *)
Definition dec_tpart (j : json) : option tpart :=
  do nc <- split_tagged true [k_string; k_expr] k_type j;
  let (n, c) := nc in
  if str_eqb n k_string then
    match c with
    | JArr l => if at_most l 1 then do v <- sreq l 0 dec_string; Some (TpString v) else None
    | JObj m => do v <- req m k_value dec_string; Some (TpString v)
    | _ => None
    end
  else if str_eqb n k_expr then
    match c with
    | JArr [] => Some TpExpr
    | JObj _ => Some TpExpr
    | _ => None
    end
  else None.

(* untagged, in declaration order: String(String), Template(Vec<..>), Expr (unit) *)
Definition dec_darg (j : json) : option darg :=
  match j with
  | JStr s => Some (DaString s)
  | JArr l => match map_opt dec_tpart l with Some ps => Some (DaTemplate ps) | None => None end
  | JNull => Some DaExpr
  | _ => None
  end.

(* the two descriptor structs are only ever decoded from buffered content *)
Definition dec_sdesc (j : json) : option sdesc :=
  match j with
  | JArr l =>
      if at_most l 6 then
        do k <- sreq l 0 (dec_skind true);
        do t <- sdflt l 1 (dec_option dec_swr) None;
        do s <- sreq l 2 dec_string;
        do r <- sreq l 3 dec_range;
        do e <- sdflt l 4 dec_bool false;
        do a <- sdflt l 5 (dec_iattrs true) IANone;
        Some {| sd_kind := k; sd_types := t; sd_spec := s; sd_range := r; sd_side := e; sd_attrs := a |}
      else None
  | JObj m =>
      do k <- req m k_kind (dec_skind true);
      do t <- dflt m k_typesSpecifier (dec_option dec_swr) None;
      do s <- req m k_specifier dec_string;
      do r <- req m k_specifierRange dec_range;
      do e <- dflt m k_sideEffect dec_bool false;
      do a <- dflt m k_importAttributes (dec_iattrs true) IANone;
      Some {| sd_kind := k; sd_types := t; sd_spec := s; sd_range := r; sd_side := e; sd_attrs := a |}
  | _ => None
  end.
Definition dec_ddesc (j : json) : option ddesc :=
  match j with
  | JArr l =>
      if at_most l 5 then
        do k <- sdflt l 0 (dec_dkind true) DkImport;
        do t <- sdflt l 1 (dec_option dec_swr) None;
        do g <- sdflt l 2 dec_darg DaExpr;
        do r <- sreq l 3 dec_range;
        do a <- sdflt l 4 (dec_iattrs true) IANone;
        Some {| dd_kind := k; dd_types := t; dd_arg := g; dd_range := r; dd_attrs := a |}
      else None
  | JObj m =>
      do k <- dflt m k_kind (dec_dkind true) DkImport;
      do t <- dflt m k_typesSpecifier (dec_option dec_swr) None;
      do g <- dflt m k_argument dec_darg DaExpr;
      do r <- req m k_argumentRange dec_range;
      do a <- dflt m k_importAttributes (dec_iattrs true) IANone;
      Some {| dd_kind := k; dd_types := t; dd_arg := g; dd_range := r; dd_attrs := a |}
  | _ => None
  end.
Definition dec_desc (j : json) : option desc :=
  do nc <- split_tagged false [k_static; k_dynamic] k_type j;
  let (n, c) := nc in
  if str_eqb n k_static then option_map DStatic (dec_sdesc c)
  else if str_eqb n k_dynamic then option_map DDynamic (dec_ddesc c)
  else None.

(* TypeScriptReference: Path is a newtype variant of a plain struct (map or sequence);
   Types has a flattened field, so it has no sequence form *)
Definition dec_tsref (j : json) : option tsref :=
  do nc <- split_tagged false [k_path; k_types] k_type j;
  let (n, c) := nc in
  if str_eqb n k_path then option_map TrPath (dec_swr c)
  else if str_eqb n k_types then
    match c with
    | JObj m =>
        do s <- dec_swr_map m;
        do md <- dflt m k_resolutionMode (dec_option (dec_rmode true)) None;
        Some (TrTypes s md)
    | _ => None
    end
  else None.
(* JsDocImportInfo: flattened, map form only; resolutionMode is read straight from the Value *)
Definition dec_jsdoc (j : json) : option jsdoc :=
  match j with
  | JObj m =>
      do s <- dec_swr_map m;
      do md <- dflt m k_resolutionMode (dec_option (dec_rmode false)) None;
      Some {| jd_spec := s; jd_mode := md |}
  | _ => None
  end.

Definition dec_module_info (j : json) : option minfo :=
  match j with
  | JArr l =>
      if at_most l 8 then
        do a <- sdflt l 0 dec_bool false;
        do b <- sdflt l 1 (dec_list dec_desc) [];
        do c <- sdflt l 2 (dec_list dec_tsref) [];
        do d <- sdflt l 3 (dec_option dec_swr) None;
        do e <- sdflt l 4 (dec_option dec_swr) None;
        do f <- sdflt l 5 (dec_option dec_swr) None;
        do g <- sdflt l 6 (dec_list dec_jsdoc) [];
        do h <- sdflt l 7 (dec_option dec_swr) None;
        Some {| mi_script := a; mi_deps := b; mi_tsrefs := c; mi_self := d; mi_jsx := e; mi_jsxt := f;
                mi_jsdoc := g; mi_smap := h |}
      else None
  | JObj m =>
      do a <- dflt m k_script dec_bool false;
      do b <- dflt m k_dependencies (dec_list dec_desc) [];
      do c <- dflt m k_tsReferences (dec_list dec_tsref) [];
      do d <- dflt m k_selfTypesSpecifier (dec_option dec_swr) None;
      do e <- dflt m k_jsxImportSource (dec_option dec_swr) None;
      do f <- dflt m k_jsxImportSourceTypes (dec_option dec_swr) None;
      do g <- dflt m k_jsdocImports (dec_list dec_jsdoc) [];
      do h <- dflt m k_sourceMapUrl (dec_option dec_swr) None;
      Some {| mi_script := a; mi_deps := b; mi_tsrefs := c; mi_self := d; mi_jsx := e; mi_jsxt := f;
              mi_jsdoc := g; mi_smap := h |}
  | _ => None
  end.

(* ================================================================ well-formedness, equality up to map order *)

Definition wf_iattrsb (a : iattrs) : bool :=
  match a with IAKnownMap m => nodup_strb (map fst m) | _ => true end.
Definition wf_descb (d : desc) : bool :=
  match d with DStatic s => wf_iattrsb (sd_attrs s) | DDynamic s => wf_iattrsb (dd_attrs s) end.
(* attribute maps have distinct keys (they are HashMaps) *)
Definition wf_infob (mi : minfo) : bool := forallb wf_descb (mi_deps mi).
Definition WfInfo (mi : minfo) : Prop := wf_infob mi = true.

(* equal as finite maps *)
Definition map_eq {V} (m m' : list (str * V)) : Prop := forall k, sget k m = sget k m'.
Definition iattrs_eq (a b : iattrs) : Prop :=
  match a, b with
  | IAKnownMap m, IAKnownMap m' => map_eq m m'
  | IANone, IANone => True
  | IAUnknownKeys, IAUnknownKeys => True
  | _, _ => False
  end.
Definition desc_eq (a b : desc) : Prop :=
  match a, b with
  | DStatic x, DStatic y =>
      sd_kind x = sd_kind y /\ sd_types x = sd_types y /\ sd_spec x = sd_spec y /\ sd_range x = sd_range y /\
      sd_side x = sd_side y /\ iattrs_eq (sd_attrs x) (sd_attrs y)
  | DDynamic x, DDynamic y =>
      dd_kind x = dd_kind y /\ dd_types x = dd_types y /\ dd_arg x = dd_arg y /\ dd_range x = dd_range y /\
      iattrs_eq (dd_attrs x) (dd_attrs y)
  | _, _ => False
  end.
Definition info_eq (a b : minfo) : Prop :=
  mi_script a = mi_script b /\ Forall2 desc_eq (mi_deps a) (mi_deps b) /\ mi_tsrefs a = mi_tsrefs b /\
  mi_self a = mi_self b /\ mi_jsx a = mi_jsx b /\ mi_jsxt a = mi_jsxt b /\ mi_jsdoc a = mi_jsdoc b /\
  mi_smap a = mi_smap b.

(* every object of a JSON value has distinct keys: what a serde_json::Value can be *)
Fixpoint json_wfb (j : json) : bool :=
  match j with
  | JArr l => (fix all (l : list json) : bool := match l with [] => true | x :: r => json_wfb x && all r end) l
  | JObj m =>
      nodup_strb (map fst m) &&
      (fix all (m : list (str * json)) : bool :=
         match m with [] => true | kv :: r => json_wfb (snd kv) && all r end) m
  | _ => true
  end.

(* [jeqv a b]: a and b are the same JSON value when objects are read as finite maps
   (meaningful when both have distinct keys): what serde_json::Value's equality is, and
   what relates the real serializer's output (HashMap iteration order, field order) to
   the model's *)
Fixpoint jeqv (a b : json) {struct a} : Prop :=
  match a with
  | JNull => b = JNull
  | JBool x => b = JBool x
  | JNum x => b = JNum x
  | JStr x => b = JStr x
  | JArr l =>
      match b with
      | JArr l' =>
          (fix go (l l' : list json) {struct l} : Prop :=
             match l, l' with
             | [], [] => True
             | x :: r, y :: r' => jeqv x y /\ go r r'
             | _, _ => False
             end) l l'
      | _ => False
      end
  | JObj m =>
      match b with
      | JObj m' =>
          length m = length m' /\
          (fix go (m : list (str * json)) : Prop :=
             match m with
             | [] => True
             | kv :: r => (exists v', sget (fst kv) m' = Some v' /\ jeqv (snd kv) v') /\ go r
             end) m
      | _ => False
      end
  end.

(* ---- boolean equalities (for the judgement on the implementation's output) *)
Definition pos_eqb (a b : pos) : bool := N.eqb (p_line a) (p_line b) && N.eqb (p_char a) (p_char b).
Definition range_eqb (a b : prange) : bool := pos_eqb (r_start a) (r_start b) && pos_eqb (r_end a) (r_end b).
Definition swr_eqb (a b : swr) : bool := str_eqb (s_text a) (s_text b) && range_eqb (s_range a) (s_range b).
Definition opt_eqb {T} (f : T -> T -> bool) (a b : option T) : bool :=
  match a, b with Some x, Some y => f x y | None, None => true | _, _ => false end.
Fixpoint list_eqb {T} (f : T -> T -> bool) (a b : list T) : bool :=
  match a, b with
  | [], [] => true
  | x :: a', y :: b' => f x y && list_eqb f a' b'
  | _, _ => false
  end.
Definition iattr_eqb (a b : iattr) : bool :=
  match a, b with
  | IAUnknown, IAUnknown => true
  | IAKnown s, IAKnown t => str_eqb s t
  | _, _ => false
  end.
(* same finite map, given distinct keys on both sides *)
Definition attrmap_eqb (m m' : list (str * iattr)) : bool :=
  Nat.eqb (length m) (length m') &&
  forallb (fun kv => match sget (fst kv) m' with Some v => iattr_eqb (snd kv) v | None => false end) m.
Definition iattrs_eqb (a b : iattrs) : bool :=
  match a, b with
  | IANone, IANone => true
  | IAUnknownKeys, IAUnknownKeys => true
  | IAKnownMap m, IAKnownMap m' => attrmap_eqb m m'
  | _, _ => false
  end.
Definition skind_eqb (a b : skind) : bool := str_eqb (skind_name a) (skind_name b).
Definition dkind_eqb (a b : dkind) : bool := str_eqb (dkind_name a) (dkind_name b).
Definition rmode_eqb (a b : rmode) : bool :=
  match a, b with RmRequire, RmRequire => true | RmImport, RmImport => true | _, _ => false end.
Definition tpart_eqb (a b : tpart) : bool :=
  match a, b with TpString s, TpString t => str_eqb s t | TpExpr, TpExpr => true | _, _ => false end.
Definition darg_eqb (a b : darg) : bool :=
  match a, b with
  | DaString s, DaString t => str_eqb s t
  | DaTemplate l, DaTemplate l' => list_eqb tpart_eqb l l'
  | DaExpr, DaExpr => true
  | _, _ => false
  end.
Definition desc_eqb (a b : desc) : bool :=
  match a, b with
  | DStatic x, DStatic y =>
      skind_eqb (sd_kind x) (sd_kind y) && opt_eqb swr_eqb (sd_types x) (sd_types y) &&
      str_eqb (sd_spec x) (sd_spec y) && range_eqb (sd_range x) (sd_range y) &&
      Bool.eqb (sd_side x) (sd_side y) && iattrs_eqb (sd_attrs x) (sd_attrs y)
  | DDynamic x, DDynamic y =>
      dkind_eqb (dd_kind x) (dd_kind y) && opt_eqb swr_eqb (dd_types x) (dd_types y) &&
      darg_eqb (dd_arg x) (dd_arg y) && range_eqb (dd_range x) (dd_range y) &&
      iattrs_eqb (dd_attrs x) (dd_attrs y)
  | _, _ => false
  end.
Definition tsref_eqb (a b : tsref) : bool :=
  match a, b with
  | TrPath s, TrPath t => swr_eqb s t
  | TrTypes s m, TrTypes t n => swr_eqb s t && opt_eqb rmode_eqb m n
  | _, _ => false
  end.
Definition jsdoc_eqb (a b : jsdoc) : bool :=
  swr_eqb (jd_spec a) (jd_spec b) && opt_eqb rmode_eqb (jd_mode a) (jd_mode b).
Definition info_eqb (a b : minfo) : bool :=
  Bool.eqb (mi_script a) (mi_script b) && list_eqb desc_eqb (mi_deps a) (mi_deps b) &&
  list_eqb tsref_eqb (mi_tsrefs a) (mi_tsrefs b) && opt_eqb swr_eqb (mi_self a) (mi_self b) &&
  opt_eqb swr_eqb (mi_jsx a) (mi_jsx b) && opt_eqb swr_eqb (mi_jsxt a) (mi_jsxt b) &&
  list_eqb jsdoc_eqb (mi_jsdoc a) (mi_jsdoc b) && opt_eqb swr_eqb (mi_smap a) (mi_smap b).

(* the round-trip property judged on a concrete (real) encoding [j] of [mi] *)
Definition roundtrip_holdsb (mi : minfo) (j : json) : bool :=
  match dec_module_info j with Some mi' => wf_infob mi' && info_eqb mi mi' | None => false end.

(* ================================================================ moduleGraph1 -> moduleGraph2 (analysis.rs:292-364) *)

(* the local `Comment` struct: both fields required *)
Record comment := { c_text : str; c_range : prange }.
Definition dec_comment (j : json) : option comment :=
  match dec_swr j with Some s => Some {| c_text := s_text s; c_range := s_range s |} | None => None end.

(* find_deno_types is a regex match: external behaviour.  It enters as a function
   text -> option (captured text, byte range start, byte range end); the wire-level
   entry point receives it as a table computed by the real function. *)
Definition fdt_fun := str -> option (str * N * N).

(* comment_position_to_position_range *)
Definition deno_types_swr (c : comment) (t : str) (a b : N) : swr :=
  let st := r_start (c_range c) in
  let ch := p_char st + 2 in
  {| s_text := t;
     s_range := {| r_start := {| p_line := p_line st; p_char := ch + a - 1 |};
                   r_end := {| p_line := p_line st; p_char := ch + b + 1 |} |} |}.

Definition last_opt {T} (l : list T) : option T :=
  match rev l with [] => None | x :: _ => Some x end.

Definition analyze_deno_types (fdt : fdt_fun) (cs : list comment) : option swr :=
  match last_opt cs with
  | Some c => match fdt (c_text c) with Some (t, a, b) => Some (deno_types_swr c t a b) | None => None end
  | None => None
  end.

(* leadingComments that is an array all of whose elements deserialise as Comment *)
Definition leading_comments (dm : list (str * json)) : option (list comment) :=
  match jget k_leadingComments dm with
  | Some (JArr cs) => map_opt dec_comment cs
  | _ => None
  end.

Definition upgrade_dep (fdt : fdt_fun) (d : json) : json :=
  match d with
  | JObj dm =>
      match leading_comments dm with
      | Some cs =>
          let dm' := match analyze_deno_types fdt cs with
                     | Some s => sset k_typesSpecifier (enc_swr s) dm
                     | None => dm
                     end in
          JObj (sremove k_leadingComments dm')
      | None => d
      end
  | _ => d
  end.

Definition upgrade_v1 (fdt : fdt_fun) (j : json) : json :=
  match j with
  | JObj m =>
      match jget k_dependencies m with
      | Some (JArr deps) => JObj (sset k_dependencies (JArr (map (upgrade_dep fdt) deps)) m)
      | _ => j
      end
  | _ => j
  end.

(* packages.rs:175-189 JsrPackageVersionInfo::module_info *)
Definition pkg_module_info (fdt : fdt_fun) (mg2 mg1 : option json) (spec : str) : option minfo :=
  match mg2 with
  | Some g2 =>
      match g2 with
      | JObj m => match jget spec m with Some j => dec_module_info j | None => None end
      | _ => None
      end
  | None =>
      match mg1 with
      | Some (JObj m) =>
          match jget spec m with Some j => dec_module_info (upgrade_v1 fdt j) | None => None end
      | _ => None
      end
  end.

Definition desc_types (d : desc) : option swr :=
  match d with DStatic s => sd_types s | DDynamic s => dd_types s end.
Definition with_types (t : option swr) (d : desc) : desc :=
  match d with
  | DStatic s => DStatic {| sd_kind := sd_kind s; sd_types := t; sd_spec := sd_spec s; sd_range := sd_range s;
                            sd_side := sd_side s; sd_attrs := sd_attrs s |}
  | DDynamic s => DDynamic {| dd_kind := dd_kind s; dd_types := t; dd_arg := dd_arg s; dd_range := dd_range s;
                              dd_attrs := dd_attrs s |}
  end.

(* what the upgrade promises for one v1 dependency object, judged on the decoded
   real result [r] for that dependency: if the last leading comment carries a
   @deno-types pragma, the decoded dependency has exactly that types specifier *)
Definition v1_dep_holdsb (fdt : fdt_fun) (d : json) (r : desc) : bool :=
  match d with
  | JObj dm =>
      match leading_comments dm with
      | Some cs =>
          match analyze_deno_types fdt cs with
          | Some s => opt_eqb swr_eqb (desc_types r) (Some s)
          | None => true
          end
      | None => true
      end
  | _ => true
  end.
Fixpoint v1_deps_holdsb (fdt : fdt_fun) (ds : list json) (rs : list desc) : bool :=
  match ds, rs with
  | [], [] => true
  | d :: ds', r :: rs' => v1_dep_holdsb fdt d r && v1_deps_holdsb fdt ds' rs'
  | _, _ => false
  end.
Definition v1_holdsb (fdt : fdt_fun) (j : json) (r : minfo) : bool :=
  match j with
  | JObj m =>
      match jget k_dependencies m with
      | Some (JArr deps) => v1_deps_holdsb fdt deps (mi_deps r)
      | _ => true
      end
  | _ => true
  end.
