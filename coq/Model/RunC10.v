(* C10 - fast-check output has no executable logic and needs no type inference.

   The property's statement as a predicate [Erased] on the summary of an
   emitted module (Model/FcSummary.v), its decision procedure [erasedb]
   (proved equivalent in Proofs/FcErasedProofs.v), the two known-finding
   classes, and the wire-level entry point run_c10.

   Reading of the statement (DESIGN.md section 5, C10):
   * "literal-like" = the code's documented leavable grammar: this, literals,
     identifiers, member chains, array/object literals (no methods/accessors),
     unary/update/binary/conditional/await/template/`as const`/`!`/`satisfies`
     over leavable operands, `e as T` over a placeholder or leavable operand,
     and function / arrow expressions that are themselves erased.
   * ambient items (declaration files, `declare`) are passed through by design;
     for them only "there is no body" is required.
   * enum declarations are opaque declarations (the spec corpus pins computed
     enum member initialisers being carried over, enums.txt).
   * a TS-private constructor keeps its existence (it decides constructibility)
     with no parameters; TS-private methods / accessors / properties must have
     become `any`-typed property declarations without initialiser.

   [relax] switches on the two known classes of violations (see
   known_findings.json F-C10a, F-C10b); the property is [Erased strict]. *)
From DG Require Import Base.Util Base.Sexp Model.FcSummary Model.FcTransform.

Record relax := { rx_arrow : bool; rx_sig : bool; rx_bare : bool }.
Definition strict : relax := {| rx_arrow := false; rx_sig := false; rx_bare := false |}.

Definition has_ty (t : tyinfo) : bool := match ty_cls t with TyNone => false | _ => true end.
Definition is_any (t : tyinfo) : bool := match ty_cls t with TyAny => true | _ => false end.
Definition is_enone (e : ecls) : bool := match e with ENone => true | _ => false end.
Definition is_eplaceholder (e : ecls) : bool := match e with EPlaceholder => true | _ => false end.
Definition is_ctor (k : fkind) : bool := match k with FCtor => true | _ => false end.
Definition is_setter (k : fkind) : bool := match k with FSetter => true | _ => false end.
Definition is_arrow (k : fkind) : bool := match k with FArrow => true | _ => false end.
Definition is_bnone (b : body) : bool := match b with BNone => true | _ => false end.
Definition is_otherpat (p : patcls) : bool := match p with POtherPat => true | _ => false end.
Definition is_private (a : acc) : bool := match a with AccPrivate => true | _ => false end.
Definition is_noprop (p : option (acc * bool)) : bool := match p with None => true | Some _ => false end.

(* ================================================================ declarative statement *)

(* body of a function-like: absent (signature), empty, a single placeholder return, placeholder
   super calls (constructors only), or - for arrows - the placeholder expression *)
Definition BodyOk (k : fkind) (b : body) : Prop :=
  match b with
  | BNone | BEmpty | BRet => True
  | BSuper _ => k = FCtor
  | BExpr e => e = EPlaceholder
  | BOther => False
  end.

(* explicit return type, except constructors and setters (rx_sig: known class F-C10b, a bodyless
   signature without return type) *)
Definition RetOk (r : relax) (k : fkind) (ret : tyinfo) (b : body) : Prop :=
  k = FCtor \/ k = FSetter \/ has_ty ret = true \/ (rx_sig r = true /\ b = BNone).

Inductive Leavable (r : relax) : ecls -> Prop :=
| LvPlaceholder : Leavable r EPlaceholder
| LvLeaf : Leavable r ELeaf
| LvNode : forall l, Forall (Leavable r) l -> Leavable r (ENode l)
| LvAs : forall e, Leavable r e -> Leavable r (EAs e)
| LvFun : forall f, FnOk r f -> Leavable r (EFun f)
with FnOk (r : relax) : fnsum -> Prop :=
| FnOkStd : forall k ps ret b c i o,
    Forall (ParamOk r) ps -> BodyOk k b -> RetOk r k ret b ->
    FnOk r (FnSum k ps ret false false b false c i o)
(* known class F-C10a: an arrow whose expression body is leavable keeps the body, has no return
   type (and keeps `async`) *)
| FnOkArrowKept : forall ps a e c i o ret,
    rx_arrow r = true -> has_ty ret = false ->
    Forall (ParamOk r) ps -> Leavable r e ->
    FnOk r (FnSum FArrow ps ret a false (BExpr e) false c i o)
with ParamOk (r : relax) : param -> Prop :=
| ParamOkI : forall pat ty opt d name,
    pat <> POtherPat ->
    (d = ENone \/ Leavable r d) ->            (* default dropped or literal-like *)
    (has_ty ty = true \/ Leavable r d) ->     (* explicit type or retained leavable default *)
    ParamOk r (Param pat ty opt d false false None name).

Definition InitOk (r : relax) (e : ecls) : Prop := e = ENone \/ Leavable r e.
(* an initialised / annotated binding: the initialiser is dropped or literal-like, and there is a
   type annotation unless a leavable initialiser is retained *)
Definition BindingOk (r : relax) (ty : tyinfo) (init : ecls) : Prop :=
  InitOk r init /\ (has_ty ty = true \/ Leavable r init).

Definition is_hash (k : keyinfo) : bool := match k_cls k with KHash | KHashMarker => true | _ => false end.
Definition is_marker (m : member) : bool :=
  match m with
  | MProp key _ _ _ _ _ _ _ _ _ _ _ => match k_cls key with KHashMarker => true | _ => false end
  | _ => false
  end.

Definition PropLikeOk (r : relax) (key : keyinfo) (a : acc) (ty : tyinfo) (init : ecls) (decos : bool) : Prop :=
  decos = false /\
  match k_cls key with
  | KHash => False                                   (* ECMAScript-private members are removed *)
  | KHashMarker => init = ENone                      (* the `#private` brand marker *)
  | _ => match a with
         | AccPrivate => is_any ty = true /\ init = ENone   (* TS-private: `any`-typed declaration *)
         | _ => BindingOk r ty init \/
                (* known class F-C10c: a property declaration with neither type nor initialiser *)
                (rx_bare r = true /\ has_ty ty = false /\ init = ENone)
         end
  end.

Definition MemberOk (r : relax) (m : member) : Prop :=
  match m with
  | MCtor a f => fn_kind f = FCtor /\ FnOk r f /\ (a = AccPrivate -> fn_params f = [])
  | MMethod key a _ _ _ f => is_hash key = false /\ a <> AccPrivate /\ fn_kind f <> FCtor /\ FnOk r f
  | MProp key a _ ty _ _ _ _ _ _ init decos => PropLikeOk r key a ty init decos
  | MAuto key a _ ty init decos => k_cls key <> KHashMarker /\ PropLikeOk r key a ty init decos
  | MIndex _ => True
  | MStaticBlock => False
  | MEmpty => True
  end.

Definition count_markers (ms : list member) : nat := length (filter is_marker ms).

Definition ClassOk (r : relax) (c : classsum) : Prop :=
  c_decos c = false /\ c_super c <> SComplex /\ Forall (MemberOk r) (c_members c) /\
  (count_markers (c_members c) <= 1)%nat.

(* ambient class: passed through; it has no bodies to begin with *)
Definition AmbientMemberOk (m : member) : Prop :=
  match m with
  | MCtor _ f => fn_body f = BNone
  | MMethod _ _ _ _ _ f => fn_body f = BNone
  | MStaticBlock => False
  | _ => True
  end.

Definition VarOk (r : relax) (v : vdecl) : Prop := BindingOk r (v_ty v) (v_init v).

Inductive ItemOk (r : relax) : item -> Prop :=
| IOkImport : forall t s sp, ItemOk r (IImport t s sp)
| IOkExportNamed : forall t s sp, ItemOk r (IExportNamed t s sp)
| IOkExportAll : forall t s, ItemOk r (IExportAll t s)
| IOkFn : forall ex n f, FnOk r f -> ItemOk r (IFn ex n false f)
| IOkFnAmbient : forall ex n f, fn_body f = BNone -> ItemOk r (IFn ex n true f)
| IOkClass : forall ex n c, ClassOk r c -> ItemOk r (IClass ex n false c)
| IOkClassAmbient : forall ex n c, Forall AmbientMemberOk (c_members c) -> ItemOk r (IClass ex n true c)
| IOkVar : forall ex k ds, Forall (VarOk r) ds -> ItemOk r (IVar ex false k ds)
| IOkVarAmbient : forall ex k ds, ItemOk r (IVar ex true k ds)
| IOkInterface : forall ex n c i e b, ItemOk r (IInterface ex n c i e b)
| IOkAlias : forall ex n c i t, ItemOk r (IAlias ex n c i t)
| IOkEnum : forall ex n c t, ItemOk r (IEnum ex n c t)
| IOkNamespace : forall ex n a its, Forall (ItemOk r) its -> ItemOk r (INamespace ex n a its)
| IOkDefaultExpr : forall e, Leavable r e -> ItemOk r (IDefaultExpr e)
(* IStmt: never.  IOther: everything but a `using` declaration *)
| IOkOther : forall c, c <> 4 -> ItemOk r (IOther c).

Definition ErasedX (r : relax) (m : modsum) : Prop := Forall (ItemOk r) (m_items m).

(* THE PROPERTY on one emitted module *)
Definition Erased (m : modsum) : Prop := ErasedX strict m.

(* ================================================================ decision procedure *)

Section Check.
  Variable r : relax.

  Definition bodyokb (k : fkind) (b : body) : bool :=
    match b with
    | BNone | BEmpty | BRet => true
    | BSuper _ => is_ctor k
    | BExpr e => is_eplaceholder e
    | BOther => false
    end.

  Definition retokb (k : fkind) (ret : tyinfo) (b : body) : bool :=
    is_ctor k || is_setter k || has_ty ret || (rx_sig r && is_bnone b).

  Fixpoint leavb (e : ecls) : bool :=
    match e with
    | ENone => false
    | EPlaceholder => true
    | ELeaf => true
    | ENode l => forallb leavb l
    | EAs e' => leavb e'
    | EFun f => fnokb f
    | EOther => false
    end
  with fnokb (f : fnsum) : bool :=
    match f with
    | FnSum k ps ret a g b decos _ _ _ =>
        forallb paramokb ps && negb decos && negb g &&
        ((bodyokb k b && retokb k ret b && negb a)
         || (rx_arrow r && is_arrow k && negb (has_ty ret) &&
             match b with BExpr e => leavb e | _ => false end))
    end
  with paramokb (p : param) : bool :=
    match p with
    | Param pat ty opt d decos inits prop _ =>
        negb decos && negb inits && is_noprop prop && negb (is_otherpat pat) &&
        (is_enone d || leavb d) && (has_ty ty || leavb d)
    end.

  Definition bindingokb (ty : tyinfo) (init : ecls) : bool :=
    (is_enone init || leavb init) && (has_ty ty || leavb init).

  Definition proplikeokb (key : keyinfo) (a : acc) (ty : tyinfo) (init : ecls) (decos : bool) : bool :=
    negb decos &&
    match k_cls key with
    | KHash => false
    | KHashMarker => is_enone init
    | _ => match a with
           | AccPrivate => is_any ty && is_enone init
           | _ => bindingokb ty init || (rx_bare r && negb (has_ty ty) && is_enone init)
           end
    end.

  Definition memberokb (m : member) : bool :=
    match m with
    | MCtor a f => is_ctor (fn_kind f) && fnokb f &&
                   (negb (is_private a) || match fn_params f with [] => true | _ => false end)
    | MMethod key a _ _ _ f => negb (is_hash key) && negb (is_private a) && negb (is_ctor (fn_kind f)) && fnokb f
    | MProp key a _ ty _ _ _ _ _ _ init decos => proplikeokb key a ty init decos
    | MAuto key a _ ty init decos =>
        negb (match k_cls key with KHashMarker => true | _ => false end) && proplikeokb key a ty init decos
    | MIndex _ => true
    | MStaticBlock => false
    | MEmpty => true
    end.

  Definition classokb (c : classsum) : bool :=
    negb (c_decos c) && negb (match c_super c with SComplex => true | _ => false end) &&
    forallb memberokb (c_members c) && Nat.leb (count_markers (c_members c)) 1.

  Definition ambientmemberokb (m : member) : bool :=
    match m with
    | MCtor _ f => is_bnone (fn_body f)
    | MMethod _ _ _ _ _ f => is_bnone (fn_body f)
    | MStaticBlock => false
    | _ => true
    end.

  Definition varokb (v : vdecl) : bool := bindingokb (v_ty v) (v_init v).

  Fixpoint itemokb (it : item) : bool :=
    match it with
    | IImport _ _ _ | IExportNamed _ _ _ | IExportAll _ _ => true
    | IFn _ _ am f => if am then is_bnone (fn_body f) else fnokb f
    | IClass _ _ am c => if am then forallb ambientmemberokb (c_members c) else classokb c
    | IVar _ am _ ds => if am then true else forallb varokb ds
    | IInterface _ _ _ _ _ _ | IAlias _ _ _ _ _ | IEnum _ _ _ _ => true
    | INamespace _ _ _ its => forallb itemokb its
    | IDefaultExpr e => leavb e
    | IStmt => false
    | IOther c => negb (N.eqb c 4)
    end.

  Definition erasedxb (m : modsum) : bool := forallb itemokb (m_items m).
End Check.

Definition erasedb (m : modsum) : bool := erasedxb strict m.

(* ================================================================ known classes *)

(* the classes of a module that violates the property: its only violations are of the listed
   known kinds *)
Definition rx (a s b : bool) : relax := {| rx_arrow := a; rx_sig := s; rx_bare := b |}.

(* the relaxations tried, smallest first; the tag list of the first one that accepts the module *)
Definition c10_relaxations : list (relax * list N) :=
  [ (rx true false false, [1001]); (rx false true false, [1002]); (rx false false true, [1003]);
    (rx true true false, [1001; 1002]); (rx true false true, [1001; 1003]); (rx false true true, [1002; 1003]);
    (rx true true true, [1001; 1002; 1003]) ].

Fixpoint first_accepting (m : modsum) (l : list (relax * list N)) : list N :=
  match l with
  | [] => []
  | (r, tags) :: l' => if erasedxb r m then tags else first_accepting m l'
  end.

Definition c10_classes (m : modsum) : list N :=
  if erasedxb strict m then [] else first_accepting m c10_relaxations.

(* ================================================================ counters (wire sanity) *)

Fixpoint count_fns_e (e : ecls) : N :=
  match e with
  | ENode l => fold_right (fun x acc => count_fns_e x + acc) 0 l
  | EAs e' => count_fns_e e'
  | EFun f => count_fns_f f
  | _ => 0
  end
with count_fns_f (f : fnsum) : N :=
  match f with
  | FnSum _ ps _ _ _ b _ _ _ _ =>
      1 + fold_right (fun p acc => count_fns_p p + acc) 0 ps
        + match b with BExpr e => count_fns_e e | _ => 0 end
  end
with count_fns_p (p : param) : N :=
  match p with Param _ _ _ d _ _ _ _ => count_fns_e d end.

Definition count_fns_member (m : member) : N :=
  match m with
  | MCtor _ f => count_fns_f f
  | MMethod _ _ _ _ _ f => count_fns_f f
  | MProp _ _ _ _ _ _ _ _ _ _ init _ => count_fns_e init
  | MAuto _ _ _ _ init _ => count_fns_e init
  | _ => 0
  end.

Fixpoint count_fns_item (it : item) : N :=
  match it with
  | IFn _ _ _ f => count_fns_f f
  | IClass _ _ _ c => fold_right (fun m acc => count_fns_member m + acc) 0 (c_members c)
  | IVar _ _ _ ds => fold_right (fun v acc => count_fns_e (v_init v) + acc) 0 ds
  | INamespace _ _ _ its => fold_right (fun x acc => count_fns_item x + acc) 0 its
  | IDefaultExpr e => count_fns_e e
  | _ => 0
  end.

Definition count_fns (m : modsum) : N := fold_right (fun x acc => count_fns_item x + acc) 0 (m_items m).

(* ================================================================ wire *)

Definition CLASSTAG10 : N := 555555.

(* one emitted module: [summary] -> [function-like count; judge erased] ++ class tags *)
Definition run_c10_module (s : sexp) : sexp :=
  match dec_module s with
  | Some m =>
      let ok := erasedb m in
      L ([A (count_fns m); judge ok] ++ map (fun c => of_atoms [CLASSTAG10; c]) (c10_classes m))
  | None => decode_error
  end.

(* input = (0 (module summary...))  the emitted modules of one package run: judged by erasedb
           (1 (unit...))             public function-likes of a source module: what the MODEL of the
                                     transform (Model/FcTransform.v) produces for each, compared with
                                     what the real transform produced *)
Definition run_c10 (input : sexp) : sexp :=
  match input with
  | L [A 0; L ms] => L (map run_c10_module ms)
  | L [A 1; L us] => L (map run_unit us)
  | _ => decode_error
  end.

(* ================================================================ source-level reading of the known classes *)

(* [gf_f r f]: the source function-like f (and everything nested in it that the transform keeps)
   contains none of the constructs behind the known classes that r does not switch on:
   an arrow without return type whose expression body is not simply inferable (F-C10a), a bodyless
   signature without return type (F-C10b). *)
Section Gap.
  Variable r : relax.
  Fixpoint gf_e (e : sx) : bool :=
    match e with
    | SNode l | STpl l => forallb gf_e l
    | SSat e' => gf_e e'
    | SFnE f | SArrowE f => gf_f f
    | _ => true
    end
  with gf_f (f : sfn) : bool :=
    match f with
    | SFn k ps ret _ _ _ b _ =>
        forallb gf_p ps &&
        (if is_arrow_kind k then
           match ret, b with
           | TyNone, SBExpr e => match infer e with Some _ => true | None => rx_arrow r && gf_e e end
           | _, _ => true
           end
         else match ret, b with
              | TyNone, SBNone => is_setter k || is_ctor k || rx_sig r
              | _, _ => true
              end)
    end
  with gf_p (p : sparam) : bool := match p with SParam _ _ _ d _ => gf_e d end.

  (* parameter property without annotation and without simply inferable default (F-C10c) *)
  Definition gf_prop (p : sparam) : bool :=
    match p with
    | SParam _ TyNone _ d (Some (a, _)) =>
        is_private a || rx_bare r || match infer d with Some _ => true | None => false end
    | _ => true
    end.
End Gap.
