(* Abstract ModuleGraph (src/graph.rs: ModuleGraph, ModuleSlot, Module,
   Dependency, Resolution) and its redirect-following lookups.
   Definitions only.  Specifiers, specifier texts, ranges and error
   descriptions are interned to N by the harness; the order of specifier ids is
   the order of their URL strings, so BTreeMap iteration order is list order. *)
From DG Require Import Base.Util Base.Sexp.

Definition spec := N.

Inductive gkind := KAll | KCodeOnly | KTypesOnly.
Definition include_types (k : gkind) : bool := match k with KCodeOnly => false | _ => true end.
Definition include_code (k : gkind) : bool := match k with KTypesOnly => false | _ => true end.
Definition gkind_eqb (a b : gkind) : bool :=
  match a, b with KAll, KAll | KCodeOnly, KCodeOnly | KTypesOnly, KTypesOnly => true | _, _ => false end.

(* url scheme classes that the code distinguishes at graph level *)
Inductive scheme := SchOther | SchFile | SchHttp | SchHttps.

(* deno_media_type::MediaType, in declaration order of the harness table *)
Inductive media :=
| MJavaScript | MJsx | MMjs | MCjs | MTypeScript | MMts | MCts | MDts | MDmts | MDcts
| MTsx | MCss | MJson | MJsonc | MJson5 | MHtml | MMarkdown | MSql | MWasm | MSourceMap | MUnknown.

(* Resolution: None | Ok{specifier, range} | Err(error) *)
Inductive res :=
| RNone
| ROk (target : spec) (range : N)
| RErr (e : N).

Record dep := {
  d_text : N;            (* specifier text (interned) *)
  d_filelike : bool;     (* text.to_lowercase().starts_with("file://") *)
  d_code : res;
  d_type : res;
  d_dyn : bool;
  d_deno_types : bool;   (* maybe_deno_types_specifier.is_some() *)
  d_attr : N             (* maybe_attribute_type: 0 = none, 1 json, 2 text, 3 bytes, 4 css, >= 5 other *)
}.

Inductive mkind := MkJs | MkJson | MkWasm | MkNpm | MkNode | MkExternal.

Record typesdep := { td_text : N; td_filelike : bool; td_res : res }.

Record module := {
  m_kind : mkind;
  m_spec : spec;
  m_media : media;                     (* Module::media_type() *)
  m_deps : list dep;                   (* Module::dependencies(), source order *)
  m_types_dep : option typesdep;       (* Js only *)
  m_fc_deps : option (list dep);       (* fast check module dependencies, Js only *)
  m_dts : bool                         (* Wasm: source_dts non-empty *)
}.

Inductive slot :=
| SMod (m : module)
| SErr (missing : option spec) (e : N)   (* Missing{specifier} carries its own specifier; e = interned error *)
| SPending.

Record graph := {
  g_kind : gkind;
  g_roots : list spec;
  g_slots : list (spec * slot);          (* BTreeMap: ascending, unique keys *)
  g_redirects : list (spec * spec);      (* BTreeMap *)
  g_imports : list (spec * list dep);    (* IndexMap referrer -> GraphImport deps *)
  g_schemes : list (spec * scheme);
  g_has_node : bool;                     (* has_node_specifier *)
  g_errkinds : list (N * N)              (* interned error -> ModuleErrorKind variant number *)
}.

Definition scheme_of (g : graph) (s : spec) : scheme :=
  match lookup s (g_schemes g) with Some x => x | None => SchOther end.

Definition slot_of (g : graph) (s : spec) : option slot := lookup s (g_slots g).
Definition redirect_of (g : graph) (s : spec) : option spec := lookup s (g_redirects g).

(* ---------- ModuleGraph::resolve (graph.rs:2733) ----------
   First hop, then a loop that stops at a non-redirect, at a repeated
   specifier (without advancing) or when the seen set reaches 10 entries
   (after advancing). *)
Definition MAX_REDIRECTS : nat := 10.

Fixpoint resolve_loop (fuel : nat) (g : graph) (cur : spec) (seen : list spec) : spec :=
  match fuel with
  | O => cur
  | S f =>
      match redirect_of g cur with
      | None => cur
      | Some nxt =>
          if mem nxt seen then cur
          else
            let seen' := nxt :: seen in
            if Nat.leb MAX_REDIRECTS (length seen') then nxt
            else resolve_loop f g nxt seen'
      end
  end.

Definition resolve (g : graph) (s : spec) : spec :=
  match redirect_of g s with
  | None => s
  | Some s1 =>
      (* seen = {s, s1}: a set, so one element when s1 = s *)
      let seen := if N.eqb s1 s then [s] else [s1; s] in
      resolve_loop MAX_REDIRECTS g s1 seen
  end.

Definition get (g : graph) (s : spec) : option module :=
  match slot_of g (resolve g s) with Some (SMod m) => Some m | _ => None end.

Definition contains (g : graph) (s : spec) : bool :=
  match get g s with Some _ => true | None => false end.

Inductive tryres := TOkNone | TOkMod (m : module) | TErr (e : N).

Definition try_get (g : graph) (s : spec) : tryres :=
  match slot_of g (resolve g s) with
  | Some (SMod m) => TOkMod m
  | Some (SErr _ e) => TErr e
  | _ => TOkNone
  end.

Definition types_dep_target (m : module) : option spec :=
  match m_kind m, m_types_dep m with
  | MkJs, Some td => match td_res td with ROk t _ => Some t | _ => None end
  | _, _ => None
  end.

Definition try_get_prefer_types (g : graph) (s : spec) : tryres :=
  match try_get g s with
  | TOkMod m =>
      match types_dep_target m with
      | Some t => try_get g t
      | None => TOkMod m
      end
  | r => r
  end.

Definition res_spec (r : res) : option spec := match r with ROk t _ => Some t | _ => None end.

(* resolve_dependency_from_dep *)
Definition resolve_dependency_from_dep (g : graph) (d : dep) (prefer_types : bool) : option spec :=
  let first := if prefer_types then d_type d else d_code d in
  let second := if prefer_types then d_code d else d_type d in
  let unresolved := match res_spec first with Some s => Some s | None => res_spec second end in
  match unresolved with
  | None => None
  | Some u =>
      let r := resolve g u in
      match slot_of g r with
      | Some (SMod m) =>
          if prefer_types then
            match types_dep_target m with
            | Some t =>
                let rt := resolve g t in
                match slot_of g rt with
                | Some (SMod _) => Some rt
                | _ => Some r
                end
            | None => Some r
            end
          else Some r
      | _ => None
      end
  end.

Fixpoint find_dep (text : N) (ds : list dep) : option dep :=
  match ds with
  | [] => None
  | d :: ds' => if N.eqb text (d_text d) then Some d else find_dep text ds'
  end.

Definition module_has_deps (m : module) : bool :=
  match m_kind m with MkJs | MkWasm => true | _ => false end.

Definition resolve_dependency (g : graph) (text : N) (referrer : spec) (prefer_types : bool) : option spec :=
  let r := resolve g referrer in
  match slot_of g r with
  | Some (SMod m) =>
      if module_has_deps m then
        match find_dep text (m_deps m) with
        | Some d => resolve_dependency_from_dep g d prefer_types
        | None => None
        end
      else None
  | _ =>
      match lookup r (g_imports g) with
      | Some ds =>
          match find_dep text ds with
          | Some d => resolve_dependency_from_dep g d prefer_types
          | None => None
          end
      | None => None
      end
  end.

(* ModuleGraph::specifiers(): slots (non-pending) then redirect sources whose
   ONE-HOP target is a slot. Result: (specifier, specifier of the slot shown). *)
Definition slot_visible (sl : slot) : bool := match sl with SPending => false | _ => true end.

Definition specifiers (g : graph) : list (spec * spec) :=
  map (fun p => (fst p, fst p)) (filter (fun p => slot_visible (snd p)) (g_slots g))
  ++ flat_map (fun p : spec * spec =>
       match slot_of g (snd p) with
       | Some sl => if slot_visible sl then [(fst p, snd p)] else []
       | None => []
       end) (g_redirects g).

(* ---------- sexp decoding of graphs (wire format, see harness/src/abs.rs) ---------- *)

Definition dec_gkind (s : sexp) : option gkind :=
  match s with A 0 => Some KAll | A 1 => Some KCodeOnly | A 2 => Some KTypesOnly | _ => None end.
Definition dec_scheme (s : sexp) : option scheme :=
  match s with A 0 => Some SchOther | A 1 => Some SchFile | A 2 => Some SchHttp | A 3 => Some SchHttps | _ => None end.
Definition dec_media (s : sexp) : option media :=
  match s with
  | A 0 => Some MJavaScript | A 1 => Some MJsx | A 2 => Some MMjs | A 3 => Some MCjs
  | A 4 => Some MTypeScript | A 5 => Some MMts | A 6 => Some MCts | A 7 => Some MDts
  | A 8 => Some MDmts | A 9 => Some MDcts | A 10 => Some MTsx | A 11 => Some MCss
  | A 12 => Some MJson | A 13 => Some MJsonc | A 14 => Some MJson5 | A 15 => Some MHtml
  | A 16 => Some MMarkdown | A 17 => Some MSql | A 18 => Some MWasm | A 19 => Some MSourceMap
  | A 20 => Some MUnknown | _ => None
  end.
Definition dec_mkind (s : sexp) : option mkind :=
  match s with
  | A 0 => Some MkJs | A 1 => Some MkJson | A 2 => Some MkWasm | A 3 => Some MkNpm
  | A 4 => Some MkNode | A 5 => Some MkExternal | _ => None
  end.
Definition dec_res (s : sexp) : option res :=
  match s with
  | L [A 0] => Some RNone
  | L [A 1; A t; A r] => Some (ROk t r)
  | L [A 2; A e] => Some (RErr e)
  | _ => None
  end.
Definition dec_dep (s : sexp) : option dep :=
  match s with
  | L [A text; fl; c; t; dy; dt; A atr] =>
      do fl' <- as_bool fl; do c' <- dec_res c; do t' <- dec_res t; do dy' <- as_bool dy;
      do dt' <- as_bool dt;
      Some {| d_text := text; d_filelike := fl'; d_code := c'; d_type := t'; d_dyn := dy';
              d_deno_types := dt'; d_attr := atr |}
  | _ => None
  end.
Definition dec_deps := as_list_of dec_dep.
Definition dec_typesdep (s : sexp) : option typesdep :=
  match s with
  | L [A text; fl; r] =>
      do fl' <- as_bool fl; do r' <- dec_res r;
      Some {| td_text := text; td_filelike := fl'; td_res := r' |}
  | _ => None
  end.
Definition dec_module (s : sexp) : option module :=
  match s with
  | L [k; A sp; me; ds; td; fc; dts] =>
      do k' <- dec_mkind k; do me' <- dec_media me; do ds' <- dec_deps ds;
      do td' <- as_option dec_typesdep td; do fc' <- as_option dec_deps fc; do dts' <- as_bool dts;
      Some {| m_kind := k'; m_spec := sp; m_media := me'; m_deps := ds';
              m_types_dep := td'; m_fc_deps := fc'; m_dts := dts' |}
  | _ => None
  end.
Definition dec_slot (s : sexp) : option slot :=
  match s with
  | L [A 0; m] => do m' <- dec_module m; Some (SMod m')
  | L [A 1; ms; A e] => do ms' <- as_option as_atom ms; Some (SErr ms' e)
  | L [A 2] => Some SPending
  | _ => None
  end.
Definition dec_graph (s : sexp) : option graph :=
  match s with
  | L [k; roots; slots; reds; imps; schs; hn; eks] =>
      do k' <- dec_gkind k; do roots' <- as_atoms roots;
      do slots' <- as_list_of (as_pair as_atom dec_slot) slots;
      do reds' <- as_list_of (as_pair as_atom as_atom) reds;
      do imps' <- as_list_of (as_pair as_atom dec_deps) imps;
      do schs' <- as_list_of (as_pair as_atom dec_scheme) schs;
      do hn' <- as_bool hn; do eks' <- as_list_of (as_pair as_atom as_atom) eks;
      Some {| g_kind := k'; g_roots := roots'; g_slots := slots'; g_redirects := reds';
              g_imports := imps'; g_schemes := schs'; g_has_node := hn'; g_errkinds := eks' |}
  | _ => None
  end.
