(* C08 layer (a), part 1: source text positions.

   Text is a list of Unicode scalar values.  Offsets are UTF-8 BYTE offsets,
   as in swc/deno_ast (`SourcePos` relative to the start of the text).

   pos_of_offset = Position::from_source_pos (src/graph.rs:130-139)
                 = SourceTextInfo::line_and_column_index
                 = text_lines-0.6.0 TextLines::line_and_column_index:
     * a line break is U+000A only.  A CR before it is NOT part of the break:
       it occupies a column of the line it ends; a lone CR, U+2028, U+2029
       break nothing;
     * line_index = the last line whose start_index <= byte_index;
     * column_index = (byte_index - line start) - sum over the multi-byte
       characters c of that line that start before byte_index of
       (if byte_index is inside c then byte_index - start of c else len c - 1),
       i.e. the number of SCALAR VALUES between the line start and the
       character that contains byte_index (an astral character counts 1, a
       position inside a multi-byte character is the position of that
       character);
     * a leading U+FEFF (only at byte 0) is skipped: line 0 starts at byte 3
       and byte indices 0..3 all map to (0, 0).
   The scan below computes exactly that function; the correspondence compares
   it with the real crate on every byte offset of generated texts.

   offset_of_pos is this development's inverse (used to map reported ranges
   back onto the source text); slice cuts by byte offsets.

   The second half models PositionRange::includes (graph.rs:170-172),
   Resolution::includes (915-930) and Dependency::includes (1087-1098) and the
   first-match lookup over a module's dependency map. *)
From DG Require Import Base.Util.

Definition text := list N.

Definition BOM : N := 65279.
Definition LF : N := 10.

Definition utf8_len (c : N) : N :=
  if c <? 128 then 1 else if c <? 2048 then 2 else if c <? 65536 then 3 else 4.

Fixpoint byte_len (s : text) : N :=
  match s with
  | [] => 0
  | c :: s' => utf8_len c + byte_len s'
  end.

Definition position := (N * N)%type.        (* (line, character), both 0-based *)

(* position of byte offset o, relative to the start of s: (lines down, column) *)
Fixpoint pos_rel (s : text) (o : N) : position :=
  match s with
  | [] => (0, 0)
  | c :: s' =>
      if o <? utf8_len c then (0, 0)            (* at the start of, or inside, c *)
      else
        let p := pos_rel s' (o - utf8_len c) in
        if c =? LF then (fst p + 1, snd p)
        else if fst p =? 0 then (0, snd p + 1) else p
  end.

Definition starts_with_bom (s : text) : bool :=
  match s with c :: _ => c =? BOM | [] => false end.

Definition pos_of_offset (s : text) (o : N) : position :=
  match s with
  | c :: s' => if c =? BOM then (if o <? 3 then (0, 0) else pos_rel s' (o - 3)) else pos_rel s o
  | [] => (0, 0)
  end.

(* byte offset of (line, col) relative to the start of s; a column beyond the
   end of its line is clamped to the line break *)
Fixpoint off_rel (s : text) (line col : N) : N :=
  match s with
  | [] => 0
  | c :: s' =>
      if line =? 0 then
        if col =? 0 then 0
        else if c =? LF then 0
        else utf8_len c + off_rel s' 0 (col - 1)
      else if c =? LF then 1 + off_rel s' (line - 1) col
      else utf8_len c + off_rel s' line col
  end.

Definition offset_of_pos (s : text) (p : position) : N :=
  match s with
  | c :: s' => if c =? BOM then 3 + off_rel s' (fst p) (snd p) else off_rel s (fst p) (snd p)
  | [] => 0
  end.

(* slicing by byte offsets; an offset inside a character rounds up *)
Fixpoint drop_bytes (s : text) (o : N) : text :=
  match s with
  | [] => []
  | c :: s' => if o =? 0 then s else drop_bytes s' (o - utf8_len c)
  end.

Fixpoint take_bytes (s : text) (n : N) : text :=
  match s with
  | [] => []
  | c :: s' => if n <? utf8_len c then [] else c :: take_bytes s' (n - utf8_len c)
  end.

Definition slice (s : text) (a b : N) : text := take_bytes (drop_bytes s a) (b - a).

(* ---- order on positions (impl Ord for Position, graph.rs:107-115) ---- *)
Definition pos_leb (p q : position) : bool :=
  (fst p <? fst q) || ((fst p =? fst q) && (snd p <=? snd q)).
Definition pos_ltb (p q : position) : bool :=
  (fst p <? fst q) || ((fst p =? fst q) && (snd p <? snd q)).
Definition pos_le (p q : position) : Prop :=
  fst p < fst q \/ (fst p = fst q /\ snd p <= snd q).
Definition pos_lt (p q : position) : Prop :=
  fst p < fst q \/ (fst p = fst q /\ snd p < snd q).

(* ---- ranges and lookups ---- *)
Record range := { r_start : position; r_end : position }.

(* PositionRange::includes: BOTH ends inclusive *)
Definition includes (r : range) (p : position) : bool :=
  pos_leb (r_start r) p && pos_leb p (r_end r).

(* a dependency as far as lookups are concerned: the specifier ranges of its
   imports in order, and the range of its type resolution (Ok or Err) if any *)
Record ldep := { ld_imports : list range; ld_type : option range }.

Definition ld_ranges (d : ldep) : list range :=
  ld_imports d ++ match ld_type d with Some r => [r] | None => [] end.

(* Dependency::includes *)
Definition dep_includes (d : ldep) (p : position) : option range :=
  match find (fun r => includes r p) (ld_imports d) with
  | Some r => Some r
  | None =>
      match ld_type d with
      | Some r => if includes r p then Some r else None
      | None => None
      end
  end.

(* position lookup over the dependency map in iteration order (IndexMap) *)
Fixpoint dep_at (deps : list (N * ldep)) (p : position) : option N :=
  match deps with
  | [] => None
  | (k, d) :: deps' =>
      match dep_includes d p with
      | Some _ => Some k
      | None => dep_at deps' p
      end
  end.

(* decidable separation of two (closed) ranges *)
Definition range_wfb (r : range) : bool := pos_leb (r_start r) (r_end r).
Definition ranges_apartb (r1 r2 : range) : bool :=
  pos_ltb (r_end r1) (r_start r2) || pos_ltb (r_end r2) (r_start r1).

Fixpoint all_apartb (rs : list range) : bool :=
  match rs with
  | [] => true
  | r :: rs' => forallb (ranges_apartb r) rs' && all_apartb rs'
  end.

(* ranges of DIFFERENT dependencies are pairwise apart *)
Fixpoint deps_apartb (deps : list (N * ldep)) : bool :=
  match deps with
  | [] => true
  | (_, d) :: deps' =>
      forallb (fun r => forallb (fun e => forallb (ranges_apartb r) (ld_ranges (snd e))) deps') (ld_ranges d)
      && deps_apartb deps'
  end.
