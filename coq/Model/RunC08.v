(* C08 wire-level entry point.  Kinds of case (first atom):

   0  positions  [0; texts]
        -> per text [ (line col) of EVERY byte offset 0..byte_len ; offset_of_pos (pos_of_offset o) of every
             character boundary o (without o = 0 when the text starts with U+FEFF) ]
        the implementation prints text_lines' answers for the first list and the
        boundaries themselves for the second
   1  recogniser [1; id; texts]  id 0..8 = the pragma in the order of Pragma.pragma,
        9 = is_comment_triple_slash_reference
        -> per text: () or (start end quoteless) / (b)
   2  analysis of one module source, REAL analyser output judged:
        [2; src; panicked; comment starts; items; expected?; deps; probes]
        item  = [cat; sub; text; (sl sc el ec); raw?; comment?]
                 cat: 0 static  1 dynamic string  2 dynamic template  3 dynamic expr
                      4 @ts-types/@deno-types  5 reference path  6 reference types
                      7 @ts-self-types  8 @jsxImportSource  9 @jsxImportSourceTypes
                      10 JSDoc import  11 sourceMappingURL
                 raw? = () | (raw cooked?)   the literal as cut out by the REAL inverse map and its
                                             cooked value according to the REAL parser (data)
                 comment? = () | (block start text)  the real comment the pragma sits in
        expected? = () | (descs)  desc = (cat sub text): what the generator planted
        deps  = [(key; import ranges; type range?)] of the real graph module, in map order
        probes = [(key; (line col); real answer+1)] position lookups done with the REAL includes
        -> E_panic :: E_count :: E_apart :: E_graph :: one element per item
           item element = [start offset; end offset; model's own pragma evaluation; judge]

   3  lookups on explicit dependency maps  [3; deps; positions]
        -> [ dep_at answer (+1) per position ; per position, per dependency: Dependency::includes ]
        the implementation builds REAL Dependency values with these ranges and calls the real includes

   Judges are the decision procedures proved in Proofs/RunC08Proofs.v. *)
From DG Require Import Base.Util Base.Sexp Model.TextPos Model.Pragma.

Definition C08_CLASSTAG : N := 555555.
Definition CLASS_HTML_COMMENT : N := 801.
Definition CLASS_PRAGMA_SWALLOWS_JSDOC : N := 802.

Fixpoint text_eqb (a b : text) : bool :=
  match a, b with
  | [], [] => true
  | x :: a', y :: b' => (x =? y) && text_eqb a' b'
  | _, _ => false
  end.

(* ---------- kind 0 ---------- *)
Definition enc_pos (p : position) : sexp := of_atoms [fst p; snd p].

Fixpoint boundaries_from (acc : N) (s : text) : list N :=
  acc :: match s with [] => [] | c :: s' => boundaries_from (acc + utf8_len c) s' end.

Definition boundaries (s : text) : list N :=
  if starts_with_bom s then tl (boundaries_from 0 s) else boundaries_from 0 s.

Definition all_offsets (s : text) : list N := map N.of_nat (seq 0 (S (N.to_nat (byte_len s)))).

Definition run_positions (s : text) : sexp :=
  L [L (map (fun o => enc_pos (pos_of_offset s o)) (all_offsets s));
     L (map (fun o => A (offset_of_pos s (pos_of_offset s o))) (boundaries s))].

(* ---------- kind 1 ---------- *)
Definition pragma_of_id (id : N) : option pragma :=
  match id with
  | 0 => Some PPath | 1 => Some PTypes | 2 => Some PResolutionMode
  | 3 => Some PJsxImportSource | 4 => Some PJsxImportSourceTypes | 5 => Some PSourceMappingUrl
  | 6 => Some PTsSelfTypes | 7 => Some PTsTypes | 8 => Some PDenoTypes
  | _ => None
  end.

Definition enc_match (ctext : text) (m : option (text * text * bool)) : sexp :=
  match m with
  | Some (cap, rest, ql) => L [A (match_start ctext cap rest); A (match_end ctext rest); of_bool ql]
  | None => L []
  end.

Definition run_recogniser (id : N) (t : text) : sexp :=
  match pragma_of_id id with
  | Some p => enc_match t (recognise p t)
  | None => L [of_bool (is_triple_slash_reference t)]
  end.

(* ---------- kind 2 ---------- *)
Record item := {
  it_cat : N; it_sub : N; it_text : text; it_range : range;
  it_raw : option (text * option text);
  it_comment : option (bool * N * text) }.

Definition dec_range (s : sexp) : option range :=
  match s with
  | L [A sl; A sc; A el; A ec] => Some {| r_start := (sl, sc); r_end := (el, ec) |}
  | _ => None
  end.
Definition enc_range (r : range) : sexp :=
  of_atoms [fst (r_start r); snd (r_start r); fst (r_end r); snd (r_end r)].

Definition dec_raw (s : sexp) : option (option (text * option text)) :=
  match s with
  | L [] => Some None
  | L [raw; cooked] =>
      do r <- as_atoms raw;
      do c <- as_option as_atoms cooked;
      Some (Some (r, c))
  | _ => None
  end.

Definition dec_comment (s : sexp) : option (option (bool * N * text)) :=
  match s with
  | L [] => Some None
  | L [b; A st; t] =>
      do b' <- as_bool b;
      do t' <- as_atoms t;
      Some (Some (b', st, t'))
  | _ => None
  end.

Definition dec_item (s : sexp) : option item :=
  match s with
  | L [A cat; A sub; t; r; raw; cm] =>
      do t' <- as_atoms t;
      do r' <- dec_range r;
      do raw' <- dec_raw raw;
      do cm' <- dec_comment cm;
      Some {| it_cat := cat; it_sub := sub; it_text := t'; it_range := r'; it_raw := raw'; it_comment := cm' |}
  | _ => None
  end.

Definition desc := (N * N * text)%type.
Definition dec_desc (s : sexp) : option desc :=
  match s with
  | L [A cat; A sub; t] => do t' <- as_atoms t; Some (cat, sub, t')
  | _ => None
  end.
Definition desc_eqb (a b : desc) : bool :=
  (fst (fst a) =? fst (fst b)) && (snd (fst a) =? snd (fst b)) && text_eqb (snd a) (snd b).
Definition desc_of_item (i : item) : desc := (it_cat i, it_sub i, it_text i).

Fixpoint remove_first (x : desc) (l : list desc) : option (list desc) :=
  match l with
  | [] => None
  | y :: l' =>
      if desc_eqb x y then Some l'
      else match remove_first x l' with Some r => Some (y :: r) | None => None end
  end.

(* multiset equality: every planted dependency reported exactly once and nothing else *)
Fixpoint perm_eqb (l1 l2 : list desc) : bool :=
  match l1 with
  | [] => match l2 with [] => true | _ => false end
  | x :: l1' =>
      match remove_first x l2 with
      | Some l2' => perm_eqb l1' l2'
      | None => false
      end
  end.

(* the reported range mapped back onto the source text *)
Definition start_off (src : text) (r : range) : N := offset_of_pos src (r_start r).
Definition end_off (src : text) (r : range) : N := offset_of_pos src (r_end r).
Definition slice_of (src : text) (r : range) : text := slice src (start_off src r) (end_off src r).

(* first character, middle, last character *)
Definition unwrap (s : text) : option (N * text * N) :=
  match s with
  | q1 :: rest => match rev rest with q2 :: m => Some (q1, rev m, q2) | [] => None end
  | [] => None
  end.

Definition lit_quote (q : N) : bool := (q =? 34) || (q =? 39) || (q =? 96).

(* the character that ends right at byte offset o *)
Definition prev_char (src : text) (o : N) : option N :=
  match rev (take_bytes src o) with c :: _ => Some c | [] => None end.

Definition quoted_okb (sl t : text) : bool :=
  match unwrap sl with
  | Some (q1, mid, q2) => is_quote q1 && is_quote q2 && text_eqb mid t
  | None => false
  end.

Definition literal_okb (sl t : text) (raw : option (text * option text)) : bool :=
  match unwrap sl, raw with
  | Some (q1, _, q2), Some (claimed, Some cooked) =>
      lit_quote q1 && (q1 =? q2) && text_eqb sl claimed && text_eqb cooked t
  | _, _ => false
  end.

Definition maybe_quoteless_okb (src : text) (r : range) (sl t : text) : bool :=
  (text_eqb sl t && negb (match prev_char src (start_off src r) with Some c => is_quote c | None => false end))
  || quoted_okb sl t.

Definition item_okb (src : text) (i : item) : bool :=
  let r := it_range i in
  let sl := slice_of src r in
  let c := it_cat i in
  if (c =? 0) || (c =? 1) then literal_okb sl (it_text i) (it_raw i)
  else if (c =? 2) || (c =? 3) then pos_ltb (r_start r) (r_end r) && (start_off src r <? end_off src r)
  else if c =? 4 then maybe_quoteless_okb src r sl (it_text i)
  else if (c =? 5) || (c =? 6) || (c =? 7) || (c =? 10) then quoted_okb sl (it_text i)
  else if (c =? 8) || (c =? 9) || (c =? 11) then text_eqb sl (it_text i)
  else false.

(* items whose ranges must be pairwise apart: everything but template / opaque arguments *)
Definition in_apart_set (i : item) : bool := negb ((it_cat i =? 2) || (it_cat i =? 3)).
Definition apart_items (items : list item) : list item := filter in_apart_set items.

Definition items_apartb (items : list item) : bool :=
  forallb range_wfb (map it_range (apart_items items)) && all_apartb (map it_range (apart_items items)).

(* ---- the model's own evaluation of a pragma on the real comment ---- *)
Definition kw_import : text := [105; 109; 112; 111; 114; 116].
Definition kw_require : text := [114; 101; 113; 117; 105; 114; 101].

Definition resolution_mode_of (ctext : text) : N :=
  match recognise PResolutionMode ctext with
  | Some (cap, _, _) => if text_eqb cap kw_import then 1 else if text_eqb cap kw_require then 2 else 0
  | None => 0
  end.

Definition enc_pragma (src : text) (cat : N) (cstart : N) (ctext : text) (mode : N)
           (m : option (text * text * bool)) : sexp :=
  match m with
  | Some (cap, rest, ql) =>
      L [A cat; enc_range (comment_range src cstart (match_start ctext cap rest) (match_end ctext rest) ql);
         of_atoms cap; A mode]
  | None => L []
  end.

(* what the analyser's selection code computes for one comment and one category *)
Definition pragma_eval (src : text) (cat : N) (block : bool) (cstart : N) (ctext : text) : sexp :=
  if cat =? 4 then
    match recognise PTsTypes ctext with
    | Some m => enc_pragma src 4 cstart ctext 0 (Some m)
    | None => enc_pragma src 4 cstart ctext 0 (recognise PDenoTypes ctext)
    end
  else if (cat =? 5) || (cat =? 6) then
    if negb block && is_triple_slash_reference ctext then
      match recognise PPath ctext with
      | Some m => enc_pragma src 5 cstart ctext 0 (Some m)
      | None => enc_pragma src 6 cstart ctext (resolution_mode_of ctext) (recognise PTypes ctext)
      end
    else L []
  else if cat =? 7 then enc_pragma src 7 cstart ctext 0 (recognise PTsSelfTypes ctext)
  else if cat =? 8 then (if block then enc_pragma src 8 cstart ctext 0 (recognise PJsxImportSource ctext) else L [])
  else if cat =? 9 then (if block then enc_pragma src 9 cstart ctext 0 (recognise PJsxImportSourceTypes ctext) else L [])
  else if cat =? 11 then enc_pragma src 11 cstart ctext 0 (recognise PSourceMappingUrl ctext)
  else L [].

(* does a comment start with one of the two-character delimiters the +2 of
   comment_source_to_position_range assumes? *)
Definition delim_okb (src : text) (cstart : N) : bool :=
  match drop_bytes src cstart with
  | 47 :: 47 :: _ => true
  | 47 :: 42 :: _ => true
  | _ => false
  end.

Definition item_html_comment (src : text) (i : item) : bool :=
  match it_comment i with
  | Some (_, cstart, _) => negb (delim_okb src cstart)
  | None => false
  end.

Definition tag (c : N) : sexp := of_atoms [C08_CLASSTAG; c].

Definition run_item (src : text) (i : item) : sexp :=
  let ok := item_okb src i in
  L ([A (start_off src (it_range i)); A (end_off src (it_range i));
      match it_comment i with
      | Some (block, cstart, ctext) => pragma_eval src (it_cat i) block cstart ctext
      | None => L []
      end;
      judge ok]
     ++ (if negb ok && item_html_comment src i then [tag CLASS_HTML_COMMENT] else [])).

(* known class 802: every pair of ranges that is not apart consists of a
   quote-less pragma capture (cats 4, 8, 9, 11) and a JSDoc import lying inside it *)
Definition range_inside (inner outer : range) : bool :=
  pos_leb (r_start outer) (r_start inner) && pos_leb (r_end inner) (r_end outer).
Definition quoteless_cat (c : N) : bool := (c =? 4) || (c =? 8) || (c =? 9) || (c =? 11).
Definition pair_802 (a b : item) : bool :=
  (quoteless_cat (it_cat a) && (it_cat b =? 10) && range_inside (it_range b) (it_range a))
  || (quoteless_cat (it_cat b) && (it_cat a =? 10) && range_inside (it_range a) (it_range b)).
Fixpoint overlaps_only_802 (l : list item) : bool :=
  match l with
  | [] => true
  | a :: l' =>
      forallb (fun b => ranges_apartb (it_range a) (it_range b) || pair_802 a b) l' && overlaps_only_802 l'
  end.
Definition class_802 (items : list item) : bool :=
  forallb range_wfb (map it_range (apart_items items)) && negb (all_apartb (map it_range (apart_items items)))
  && overlaps_only_802 (apart_items items).

(* ---- graph level ---- *)
Definition dec_ldep (s : sexp) : option (N * ldep) :=
  match s with
  | L [A k; rs; t] =>
      do rs' <- as_list_of dec_range rs;
      do t' <- as_option dec_range t;
      Some (k, {| ld_imports := rs'; ld_type := t' |})
  | _ => None
  end.

Definition dec_pos (s : sexp) : option position :=
  match s with L [A l; A c] => Some (l, c) | _ => None end.

Definition dec_probe (s : sexp) : option (N * position * N) :=
  match s with
  | L [A k; p; A ans] => do p' <- dec_pos p; Some (k, p', ans)
  | _ => None
  end.

Definition enc_answer (o : option N) : N := match o with Some k => k + 1 | None => 0 end.

(* the implementation's lookup returned the dependency the probed range belongs to *)
Definition probe_okb (pr : N * position * N) : bool := snd pr =? fst (fst pr) + 1.

Definition run_graph (items : list item) (deps : list (N * ldep)) (probes : list (N * position * N)) : sexp :=
  let apart := deps_apartb deps in
  L ([judge apart;
      of_atoms (map (fun pr => enc_answer (dep_at deps (snd (fst pr)))) probes);
      judge (forallb probe_okb probes)]
     ++ (if negb apart && class_802 items then [tag CLASS_PRAGMA_SWALLOWS_JSDOC] else [])).

Definition run_analysis (src : text) (panicked : bool) (cstarts : list N) (items : list item)
           (expected : option (list desc)) (deps : list (N * ldep)) (probes : list (N * position * N)) : sexp :=
  let apart := items_apartb items in
  let counted := match expected with
                 | Some e => perm_eqb e (map desc_of_item items)
                 | None => true
                 end in
  L ([ L ([judge (negb panicked)]
          ++ (if panicked && existsb (fun c => negb (delim_okb src c)) cstarts then [tag CLASS_HTML_COMMENT] else []));
       L [judge counted];
       L ([judge apart] ++ (if negb apart && class_802 items then [tag CLASS_PRAGMA_SWALLOWS_JSDOC] else []));
       run_graph items deps probes ]
     ++ map (run_item src) items).

(* ---------- kind 3: lookups on explicit dependency maps ---------- *)
Definition run_lookup (deps : list (N * ldep)) (ps : list position) : sexp :=
  L [of_atoms (map (fun p => enc_answer (dep_at deps p)) ps);
     L (map (fun p => L (map (fun e => of_option enc_range (dep_includes (snd e) p)) deps)) ps)].

Definition run_c08 (input : sexp) : sexp :=
  match input with
  | L [A 0; ts] =>
      match as_list_of as_atoms ts with
      | Some ts' => L (map run_positions ts')
      | None => decode_error
      end
  | L [A 1; A id; ts] =>
      match as_list_of as_atoms ts with
      | Some ts' => L (map (run_recogniser id) ts')
      | None => decode_error
      end
  | L [A 2; src; panicked; cstarts; items; expected; deps; probes] =>
      match as_atoms src, as_bool panicked, as_atoms cstarts, as_list_of dec_item items,
            as_option (as_list_of dec_desc) expected, as_list_of dec_ldep deps, as_list_of dec_probe probes with
      | Some src', Some p', Some cs', Some items', Some exp', Some deps', Some probes' =>
          run_analysis src' p' cs' items' exp' deps' probes'
      | _, _, _, _, _, _, _ => decode_error
      end
  | L [A 3; deps; ps] =>
      match as_list_of dec_ldep deps, as_list_of dec_pos ps with
      | Some deps', Some ps' => run_lookup deps' ps'
      | _, _ => decode_error
      end
  | _ => decode_error
  end.
