(* Wire format of the declaration layer (Model/Decl.v). *)
From DG Require Import Base.Util Base.Sexp Model.Decl.

Definition DECLTAG : N := 31339.

Definition dec_rout (s : sexp) : option rout :=
  match s with L [A 0; A t] => Some (OTarget t) | L [A 1; A e] => Some (OErr e) | _ => None end.
Definition dec_ikind (n : N) : option ikind :=
  match n with 0 => Some IkEs | 1 => Some IkEsSource | 2 => Some IkRequire | 3 => Some IkTsType | 4 => Some IkAug | _ => None end.
Definition dec_desc (s : sexp) : option desc :=
  match s with
  | L [A t; A k; d; A at_; sd; A r; ty] =>
      do k' <- dec_ikind k; do d' <- as_bool d; do s' <- as_bool sd;
      do ty' <- as_option (as_pair as_atom as_atom) ty;
      Some {| ds_text := t; ds_kind := k'; ds_dyn := d'; ds_attr := at_; ds_side := s'; ds_range := r; ds_types := ty' |}
  | _ => None
  end.
Definition dec_dopts (s : sexp) : option dopts :=
  match s with
  | L [a; b; c] => do a' <- as_bool a; do b' <- as_bool b; do c' <- as_bool c;
                   Some {| do_types := a'; do_decl := b'; do_typed := c' |}
  | _ => None
  end.
Definition enc_dres (r : dres) : sexp :=
  match r with DNone => L [A 0] | DOk t rg => L [A 1; A t; A rg] | DErr e rg => L [A 2; A e; A rg] end.
Definition enc_dacc (a : dacc) : sexp :=
  L [A (da_text a); enc_dres (da_code a); enc_dres (da_type a); of_bool (da_dyn a); of_option A (da_deno a); A (da_attr a);
     A (da_imports a)].

Definition run_decl (s : sexp) : sexp :=
  match s with
  | L [A _; o; L [ex; ty]; ds] =>
      match dec_dopts o, as_list_of (as_pair as_atom dec_rout) ex, as_list_of (as_pair as_atom dec_rout) ty, as_list_of dec_desc ds with
      | Some o', Some ex', Some ty', Some ds' =>
          L [L (map enc_dacc (declared {| rt_exec := ex'; rt_types := ty' |} o' ds'))]
      | _, _, _, _ => decode_error
      end
  | _ => decode_error
  end.

Definition is_decl_case (s : sexp) : bool :=
  match s with L (A t :: _) => N.eqb t DECLTAG | _ => false end.
