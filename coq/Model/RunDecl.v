(* Wire format of the declaration layer (Model/Decl.v). *)
From DG Require Import Base.Util Base.Sexp Model.Decl.

Definition DECLTAG : N := 31339.

Definition dec_rout (s : sexp) : option rout :=
  match s with L [A 0; A t] => Some (OTarget t) | L [A 1; A e] => Some (OErr e) | _ => None end.
Definition dec_ikind (n : N) : option ikind :=
  match n with 0 => Some IkEs | 1 => Some IkEsSource | 2 => Some IkRequire | 3 => Some IkTsType | 4 => Some IkAug | _ => None end.
Definition dec_desc (s : sexp) : option desc :=
  match s with
  | L [A t; A k; d; A at_; sd; A r; ty] =>
      do k' <- dec_ikind k; do d' <- as_bool d; do s' <- as_bool sd;
      do ty' <- as_option (as_pair as_atom as_atom) ty;
      Some {| ds_text := t; ds_kind := k'; ds_dyn := d'; ds_attr := at_; ds_side := s'; ds_range := r; ds_types := ty' |}
  | _ => None
  end.
Definition dec_dopts (s : sexp) : option dopts :=
  match s with
  | L [a; b; c] => do a' <- as_bool a; do b' <- as_bool b; do c' <- as_bool c;
                   Some {| do_types := a'; do_decl := b'; do_typed := c' |}
  | _ => None
  end.
Definition enc_dres (r : dres) : sexp :=
  match r with DNone => L [A 0] | DOk t rg => L [A 1; A t; A rg] | DErr e rg => L [A 2; A e; A rg] end.
Definition enc_dacc (a : dacc) : sexp :=
  L [A (da_text a); enc_dres (da_code a); enc_dres (da_type a); of_bool (da_dyn a); of_option A (da_deno a); A (da_attr a);
     A (da_imports a)].

Definition run_decl (s : sexp) : sexp :=
  match s with
  | L [A _; o; L [ex; ty]; ds] =>
      match dec_dopts o, as_list_of (as_pair as_atom dec_rout) ex, as_list_of (as_pair as_atom dec_rout) ty, as_list_of dec_desc ds with
      | Some o', Some ex', Some ty', Some ds' =>
          L [L (map enc_dacc (declared {| rt_exec := ex'; rt_types := ty' |} o' ds'))]
      | _, _, _, _ => decode_error
      end
  | _ => decode_error
  end.

Definition DECLFULLTAG : N := 31340.
Definition dec_tsref (s : sexp) : option tsref :=
  match s with L [A 0; A t; A r] => Some (TsPath t r) | L [A 1; A t; A r] => Some (TsTypes t r) | _ => None end.
Definition dec_extras (s : sexp) : option extras :=
  match s with
  | L (se :: refs :: jx :: jt :: jd :: hd :: rest) =>
      (* three more fields with a Resolver: default JSX source, default JSX types source, resolve_types *)
      do rs <- match rest with
               | [] => Some (None, None, RtNone)
               | [dj; djt; rt] =>
                   do dj' <- as_option as_atom dj; do djt' <- as_option as_atom djt;
                   do rt' <- match rt with
                             | L [] => Some RtNone
                             | L [A 0; A e] => Some (RtErr e)
                             | L [A 1; A t] => Some (RtOk t)
                             | _ => None
                             end;
                   Some (dj', djt', rt')
               | _ => None
               end;
      do se' <- as_option (as_pair as_atom as_atom) se;
      do refs' <- as_list_of dec_tsref refs;
      do jx' <- as_option (as_pair as_atom as_atom) jx;
      do jt' <- as_option (as_pair as_atom as_atom) jt;
      do jd' <- as_list_of (as_pair as_atom as_atom) jd;
      do hd' <- as_option as_atom hd;
      Some {| ex_self := se'; ex_refs := refs'; ex_jsx := jx'; ex_jsx_types := jt'; ex_jsdoc := jd'; ex_header := hd';
              ex_def_jsx := fst (fst rs); ex_def_jsx_types := snd (fst rs); ex_res_types := snd rs |}
  | _ => None
  end.
Definition enc_tdep (t : tdep) : sexp := of_option (fun p => L [A (fst p); enc_dres (snd p)]) t.

Definition run_decl_full (s : sexp) : sexp :=
  match s with
  | L [A _; o; L (jsx :: A zr :: selft); L [ex; ty]; xs; ds] =>
      match dec_dopts o, as_bool jsx, as_list_of (as_pair as_atom dec_rout) ex, as_list_of (as_pair as_atom dec_rout) ty,
            dec_extras xs, as_list_of dec_desc ds with
      | Some o', Some j, Some ex', Some ty', Some xs', Some ds' =>
          let r := declared_full {| rt_exec := ex'; rt_types := ty' |} {| fo_base := o'; fo_jsx := j; fo_zero_range := zr;
                                                                                  fo_self_text := match selft with [A t] => t | _ => 0 end |} xs' ds' in
          L [L [enc_tdep (fst r); L (map enc_dacc (snd r))]]
      | _, _, _, _, _, _ => decode_error
      end
  | _ => decode_error
  end.

Definition is_decl_case (s : sexp) : bool :=
  match s with L (A t :: _) => N.eqb t DECLTAG || N.eqb t DECLFULLTAG | _ => false end.
Definition run_decl_any (s : sexp) : sexp :=
  match s with L (A t :: _) => if N.eqb t DECLFULLTAG then run_decl_full s else run_decl s | _ => decode_error end.
