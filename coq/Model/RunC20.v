(* C20 wire-level entry point.  One input line = one byte string and a list
   of elements (content-type header, scheme, media class, oracle answer for a
   non-modelled label, route, and what the REAL code produced).  For every
   element the model prints its own result and the verdict of the decision
   procedure c20_holdsb on the implementation's observation. *)
From DG Require Import Base.Util Base.Sexp Model.Text.

(* what is observed of the implementation (and printed by the model):
   tag 0 = decode error, 1 = unsupported media type, 2 = JS/TS module,
   3 = JSON module, anything else = some other failure *)
Record obs := { ob_tag : N; ob_text : list N; ob_orig : option (list N); ob_size : N; ob_ssize : N }.

Definition module_tag (m : mclass) : N := match m with MJs => 2 | MJson => 3 | MOtherMedia => 1 end.

(* ---- the property as a predicate on an observation (declarative) ---- *)
Definition C20_Holds (m : mclass) (hdr : option (list N)) (is_file : bool)
           (other : option (brule * list N)) (bytes : list N) (o : obs) : Prop :=
  match m with
  | MOtherMedia => ob_tag o = 1
  | _ =>
      match for_label (charset_label hdr is_file bytes) other with
      | None => ob_tag o = 0                           (* undecodable: a decode error, not a module *)
      | Some e =>
          ob_tag o = module_tag m /\
          ob_text o = utf8_encode (strip_one_bom (whatwg_decode e bytes)) /\
          (ob_orig o = None \/ ob_orig o = Some bytes) /\
          ob_size o = N.of_nat (length (ob_text o)) /\
          ob_ssize o = ob_size o mod 4294967296
      end
  end.

(* ---- its decision procedure ---- *)
Definition opt_bytes_ok (o : option (list N)) (bytes : list N) : bool :=
  match o with None => true | Some b => list_eqb b bytes end.

Definition c20_holdsb (m : mclass) (hdr : option (list N)) (is_file : bool)
           (other : option (brule * list N)) (bytes : list N) (o : obs) : bool :=
  match m with
  | MOtherMedia => ob_tag o =? 1
  | _ =>
      match for_label (charset_label hdr is_file bytes) other with
      | None => ob_tag o =? 0
      | Some e =>
          (ob_tag o =? module_tag m)
          && list_eqb (ob_text o) (utf8_encode (strip_one_bom (whatwg_decode e bytes)))
          && opt_bytes_ok (ob_orig o) bytes
          && (ob_size o =? N.of_nat (length (ob_text o)))
          && (ob_ssize o =? ob_size o mod 4294967296)
      end
  end.

(* ---- the model's own observation ---- *)
Definition obs_of (r : outcome) : obs :=
  match r with
  | ODecodeErr => {| ob_tag := 0; ob_text := []; ob_orig := None; ob_size := 0; ob_ssize := 0 |}
  | OUnsupported => {| ob_tag := 1; ob_text := []; ob_orig := None; ob_size := 0; ob_ssize := 0 |}
  | OModule json s =>
      {| ob_tag := if json then 3 else 2; ob_text := s_text s; ob_orig := original_bytes s;
         ob_size := size s; ob_ssize := serialized_size s |}
  end.

Definition kind_code (r : outcome) : N :=
  match r with
  | OModule _ s => match s_kind s with Unchanged => 0 | Changed => 1 | OnlyUtf8Bom => 2 end
  | _ => 9
  end.

(* ---- decoding of the wire format ---- *)
Definition dec_mclass (n : N) : mclass := if n =? 0 then MJs else if n =? 1 then MJson else MOtherMedia.
Definition dec_brule (n : N) : brule := if n =? 0 then BAscii else if n =? 1 then BIso2022jp else BNever.

Definition dec_other (s : sexp) : option (option (brule * list N)) :=
  as_option (fun x => match x with
                      | L [A r; cps] => do c <- as_atoms cps; Some (dec_brule r, c)
                      | _ => None
                      end) s.

Definition dec_obs (s : sexp) : option obs :=
  match s with
  | L [A tag; text; orig; A size; A ssize] =>
      do t <- as_atoms text;
      do o <- as_option as_atoms orig;
      Some {| ob_tag := tag; ob_text := t; ob_orig := o; ob_size := size; ob_ssize := ssize |}
  | _ => None
  end.

(* header table entry: (content-type value, oracle answer for its label on these bytes) *)
Definition dec_hdr (s : sexp) : option (list N * option (brule * list N)) :=
  match s with
  | L [chars; other] => do c <- as_atoms chars; do o <- dec_other other; Some (c, o)
  | _ => None
  end.

(* known class F-C20a (class id 2001): the deferred JSR content fill decodes as UTF-8 whatever
   charset the response's content-type header names; input class = that route and a header
   whose label does not resolve to UTF-8 *)
Definition c20_jsr_class (hdr : option (list N)) (other : option (brule * list N)) (bytes : list N) : bool :=
  match for_label (charset_label hdr false bytes) other with
  | Some EUtf8 => false
  | _ => true
  end.

Definition C20_CLASSTAG : N := 555555.

(* element: header index (0 = no content-type header, i+1 = i-th table entry), file: scheme,
   media class, route (0 parse_module, 1 graph build, 2 JSR deferred content fill),
   implementation's observation *)
Definition run_c20_elem (bytes : list N) (tbl : list (list N * option (brule * list N))) (e : sexp) : sexp :=
  match e with
  | L [A hidx; A is_file; A m; A route; impl] =>
      match (if hidx =? 0 then Some (None, None)
             else match nth_error tbl (N.to_nat (hidx - 1)) with
                  | Some (c, o) => Some (Some c, o)
                  | None => None
                  end), dec_obs impl with
      | Some (hdr', other'), Some impl' =>
          let jsr := route =? 2 in
          let isf := negb jsr && negb (is_file =? 0) in
          let mc := dec_mclass m in
          let r := if jsr then jsr_fill_model mc bytes else parse_module_model mc hdr' isf other' bytes in
          let o := obs_of r in
          (* the property is judged against the header the loader supplied, on every route *)
          let holds := c20_holdsb mc hdr' isf other' bytes impl' in
          L ([of_option of_atoms (header_charset hdr'); A (ob_tag o); A (kind_code r); of_atoms (ob_text o);
              of_option of_atoms (ob_orig o); A (ob_size o); A (ob_ssize o); judge holds]
             ++ (if holds then [] else
                   if jsr && c20_jsr_class hdr' other' bytes then [of_atoms [C20_CLASSTAG; 2001]] else []))
      | _, _ => decode_error
      end
  | _ => decode_error
  end.

Definition run_c20 (input : sexp) : sexp :=
  match input with
  | L [bytes; hdrs; L elems] =>
      match as_atoms bytes, as_list_of dec_hdr hdrs with
      | Some b, Some tbl => L (map (run_c20_elem b tbl) elems)
      | _, _ => decode_error
      end
  | _ => decode_error
  end.
