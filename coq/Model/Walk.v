(* ModuleEntryIterator / ModuleGraphErrorIterator (src/graph.rs:1807-2186),
   validate and ModuleGraph::valid, on the abstract graph.  Definitions only. *)
From DG Require Import Base.Util Base.Sexp Base.Reach Model.Graph.

Record wopts := {
  w_kind : gkind;
  w_follow_dynamic : bool;
  w_check_js : spec -> bool;           (* CheckJsOption::resolve *)
  w_prefer_fc : bool
}.

(* ModuleEntryIterator::is_checkable *)
Definition is_checkable (o : wopts) (s : spec) (m : media) : bool :=
  match m with
  | MTypeScript | MMts | MCts | MDts | MDmts | MDcts | MTsx | MJson | MWasm => true
  | MCss | MSourceMap | MHtml | MMarkdown | MSql | MJsonc | MJson5 | MUnknown => false
  | MJavaScript | MJsx | MMjs | MCjs => w_check_js o s
  end.

Definition check_types (o : wopts) (m : module) : bool :=
  include_types (w_kind o) && is_checkable o (m_spec m) (m_media m).

(* the dependency list the iterator looks at for a yielded module *)
Definition selected_deps (o : wopts) (m : module) : list dep :=
  if check_types o m && w_prefer_fc o
  then match m_fc_deps m with Some ds => ds | None => m_deps m end
  else m_deps m.

Definition res_targets (r : res) : list spec := match r with ROk t _ => [t] | _ => [] end.

Definition dep_followed (o : wopts) (d : dep) : bool := negb (d_dyn d) || w_follow_dynamic o.

Definition dep_targets (o : wopts) (d : dep) : list spec :=
  if dep_followed o d
  then res_targets (d_code d) ++ (if include_types (w_kind o) then res_targets (d_type d) else [])
  else [].

(* analyze_module_deps: iterates the dependencies in reverse *)
Definition deps_targets (o : wopts) (ds : list dep) : list spec :=
  flat_map (dep_targets o) (rev ds).

(* targets of the configured imports, pushed by ModuleEntryIterator::new;
   `followed` is not consulted there *)
Definition import_dep_targets (o : wopts) (d : dep) : list spec :=
  res_targets (d_code d) ++ (if include_types (w_kind o) then res_targets (d_type d) else []).
Definition import_targets (g : graph) (o : wopts) : list spec :=
  flat_map (fun p => flat_map (import_dep_targets o) (snd p)) (g_imports g).

Inductive entry := EModule (m : module) | EErr (missing : option spec) (e : N) | ERedirect (to : spec).

(* What happens when specifier s is popped: is something yielded, and which
   specifiers are offered to the seen-set/queue (in order).  [skip s] = the
   caller calls skip_previous_dependencies after s was yielded. *)
Definition visit (g : graph) (o : wopts) (skip : spec -> bool) (s : spec) : option entry * list spec :=
  match slot_of g s with
  | Some SPending => (None, [])
  | Some (SErr ms e) => (Some (EErr ms e), [])
  | Some (SMod m) =>
      let after := if skip s then [] else deps_targets o (selected_deps o m) in
      match m_kind m with
      | MkJs =>
          if include_types (w_kind o) then
            match types_dep_target m with
            | Some t =>
                if gkind_eqb (w_kind o) KTypesOnly then (None, [t])
                else (Some (EModule m), t :: after)
            | None =>
                if gkind_eqb (w_kind o) KTypesOnly && negb (is_checkable o (m_spec m) (m_media m))
                then (None, [])
                else (Some (EModule m), after)
            end
          else (Some (EModule m), after)
      | _ => (Some (EModule m), after)
      end
  | None =>
      match redirect_of g s with
      | Some to => (Some (ERedirect to), if skip s then [] else [to])
      | None => (None, [])
      end
  end.

Definition walk_expand (g : graph) (o : wopts) (skip : spec -> bool) (s : spec) : list spec :=
  snd (visit g o skip s).

(* every specifier the walk can ever be offered *)
Definition module_targets (m : module) : list spec :=
  flat_map (fun d => res_targets (d_code d) ++ res_targets (d_type d)) (m_deps m)
  ++ match m_fc_deps m with
     | Some ds => flat_map (fun d => res_targets (d_code d) ++ res_targets (d_type d)) ds
     | None => [] end
  ++ match m_types_dep m with Some td => res_targets (td_res td) | None => [] end.

Definition universe (g : graph) : list spec :=
  flat_map (fun p => match snd p with SMod m => module_targets m | _ => [] end) (g_slots g)
  ++ map snd (g_redirects g).

Definition walk_fuel (g : graph) (o : wopts) (roots : list spec) : nat :=
  (length roots + length (import_targets g o) + length (dedup (universe g)))%nat.

(* all popped specifiers, in pop order *)
Definition walk_popped (g : graph) (o : wopts) (skip : spec -> bool) (roots : list spec)
  : option (list spec) :=
  let '(seen0, q0) := push_all (import_targets g o) roots roots in
  match run (walk_expand g o skip) (walk_fuel g o roots) seen0 q0 [] with
  | Some (out, _) => Some (rev out)
  | None => None
  end.

Definition yield_of (g : graph) (o : wopts) (skip : spec -> bool) (s : spec) : option (spec * entry) :=
  match fst (visit g o skip s) with Some e => Some (s, e) | None => None end.

Fixpoint filter_map {X Y} (f : X -> option Y) (l : list X) : list Y :=
  match l with
  | [] => []
  | x :: l' => match f x with Some y => y :: filter_map f l' | None => filter_map f l' end
  end.

(* the items the iterator yields, in order; None = out of fuel (excluded by theorem) *)
Definition walk (g : graph) (o : wopts) (skip : spec -> bool) (roots : list spec)
  : option (list (spec * entry)) :=
  match walk_popped g o skip roots with
  | Some ps => Some (filter_map (yield_of g o skip) ps)
  | None => None
  end.

(* ---------- errors ---------- *)

Inductive gerr :=
| GModule (e : N)                                  (* a slot's ModuleError, cloned *)
| GMissingDyn (s : spec) (range : N)
| GResolution (types : bool) (e : N)
| GDowngrade (types : bool) (s : spec) (range : N)
| GLocal (types : bool) (s : spec) (range : N).

Definition is_httpish (sc : scheme) : bool := match sc with SchHttp | SchHttps => true | _ => false end.

(* ModuleGraphErrorIterator::check_resolution *)
Definition check_resolution (g : graph) (o : wopts) (m : module) (types : bool)
           (filelike : bool) (r : res) (is_dyn : bool) : list gerr :=
  match r with
  | ROk t range =>
      let rs := scheme_of g (m_spec m) in
      let ts := scheme_of g t in
      match rs, ts with
      | SchHttps, SchHttp => [GDowngrade types t range]
      | _, _ =>
          if is_httpish rs && (match ts with SchFile => true | _ => false end) && filelike
          then [GLocal types t range]
          else if w_follow_dynamic o then
            match slot_of g (resolve g t) with
            | Some (SErr (Some ms) e) =>
                if is_dyn then [GMissingDyn ms range] else [GModule e]
            | _ => []
            end
          else []
      end
  | RErr e => [GResolution types e]
  | RNone => []
  end.

Definition dep_errors (g : graph) (o : wopts) (m : module) (d : dep) : list gerr :=
  if w_follow_dynamic o || negb (d_dyn d) then
    check_resolution g o m false (d_filelike d) (d_code d) (d_dyn d)
    ++ (if check_types o m
        then check_resolution g o m true (d_filelike d) (d_type d) (d_dyn d) else [])
  else [].

Definition entry_errors (g : graph) (o : wopts) (e : entry) : list gerr :=
  match e with
  | EModule m =>
      (if include_types (w_kind o) then
         match m_types_dep m with
         | Some td => check_resolution g o m true (td_filelike td) (td_res td) false
         | None => []
         end
       else [])
      ++ flat_map (dep_errors g o m) (selected_deps o m)
  | EErr ms e =>
      match ms with
      | Some _ => if w_follow_dynamic o then [] else [GModule e]
      | None => [GModule e]
      end
  | ERedirect _ => []
  end.

(* errors in the order the real iterator produces them: per yielded entry the
   collected errors are popped from the back *)
Definition walk_errors (g : graph) (o : wopts) (roots : list spec) : option (list gerr) :=
  match walk g o (fun _ => false) roots with
  | Some ys => Some (flat_map (fun y => rev (entry_errors g o (snd y))) ys)
  | None => None
  end.

Definition validate (g : graph) (o : wopts) (roots : list spec) : option (option gerr) :=
  match walk_errors g o roots with
  | Some [] => Some None
  | Some (e :: _) => Some (Some e)
  | None => None
  end.

Definition valid_opts : wopts :=
  {| w_kind := KCodeOnly; w_follow_dynamic := false; w_check_js := fun _ => true; w_prefer_fc := false |}.

Definition valid (g : graph) : option (option gerr) := validate g valid_opts (g_roots g).

(* ---------- wire format ---------- *)

Definition dec_wopts (s : sexp) : option wopts :=
  match s with
  | L [k; fd; A mode; cjs; pf] =>
      do k' <- dec_gkind k; do fd' <- as_bool fd; do cjs' <- as_atoms cjs; do pf' <- as_bool pf;
      let cj := match mode with
                | 0 => fun _ => false
                | 1 => fun _ => true
                | _ => fun s => mem s cjs'
                end in
      Some {| w_kind := k'; w_follow_dynamic := fd'; w_check_js := cj; w_prefer_fc := pf' |}
  | _ => None
  end.

Definition enc_entry_tag (e : entry) : list N :=
  match e with
  | EModule _ => [0]
  | EErr _ _ => [1]
  | ERedirect to => [2; to]
  end.

Definition enc_gerr (e : gerr) : sexp :=
  match e with
  | GModule e => of_atoms [0; e]
  | GMissingDyn s r => of_atoms [1; s; r]
  | GResolution t e => of_atoms [2; if t then 1 else 0; e]
  | GDowngrade t s r => of_atoms [3; if t then 1 else 0; s; r]
  | GLocal t s r => of_atoms [4; if t then 1 else 0; s; r]
  end.
