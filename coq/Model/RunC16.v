(* C16 wire-level entry point.

   input  = [ mods ; s2m ; [ terminated ; alias_cycle ] ]
     mod  = [ key ; stars ; symtab ; impl_names ; gotos ; [ dotted ; conflict ] ]
       stars      = list of [ text ; () | (spec) ]
       symtab     = [ root ; text_len ; syms ]
         sym      = [ id ; () | (parent) ; () | (name) ; decls ; children ; members ; exports ]
         decl     = [ () | (name) ; start ; end ; kind ; () | (target symbol) ; () | (file) ; imported name ]
                    (the last three may be omitted when they are () () 0)
         exports  = list of [ name ; symbol id ]
       impl_names = the names of the REAL ModuleInfoRef::exports().resolved (judged below)
       gotos      = list of [ symbol id ; results ] with
                    result = [0; module; symbol; decl index; star?] | [1; module; kind]
                    (what the REAL go_to_definitions_or_unresolveds returned)
       dotted / conflict = name lists describing the module's SOURCE (input classes
                    of the known findings F-C16a / F-C16b, see Symbols.v)
     s2m  = list of [ specifier id ; module key ]

   output = one element per module, then one element [ judge terminated ] for the program:
     [ resolved ; unresolved ; judge wf ; judge names ; judge goto ; gotos ]
       resolved   = list of [ name ; path ; module ; symbol ], path = list of [ referrer ; text ]
       unresolved = list of [ referrer ; text ]
       judge wf    : wf_symtabb on the REAL symbol table of the module
       judge names : names_okb on the REAL resolved names
       judge goto  : goto_okb on the REAL go-to-definition results
       gotos       : the MODEL's go-to-definition leaves of every symbol ( [] when the program
                     has a QualifiedTarget declaration: that part is not modelled)       *)
From DG Require Import Base.Util Base.Sexp Model.Symbols.

Definition dec_decl (s : sexp) : option sdecl :=
  match s with
  | L [n; A st; A en; A k] =>
      do n' <- as_option as_atom n;
      Some {| d_name := n'; d_start := st; d_end := en; d_kind := k;
              d_target := None; d_file := None; d_import := 0 |}
  | L [n; A st; A en; A k; tg; fl; A im] =>
      do n' <- as_option as_atom n;
      do tg' <- as_option as_atom tg;
      do fl' <- as_option as_atom fl;
      Some {| d_name := n'; d_start := st; d_end := en; d_kind := k;
              d_target := tg'; d_file := fl'; d_import := im |}
  | _ => None
  end.

Definition dec_nn (s : sexp) : option (N * N) := as_pair as_atom as_atom s.

Definition dec_sym (s : sexp) : option sym :=
  match s with
  | L [A id; p; n; ds; ch; me; ex] =>
      do p' <- as_option as_atom p;
      do n' <- as_option as_atom n;
      do ds' <- as_list_of dec_decl ds;
      do ch' <- as_atoms ch;
      do me' <- as_atoms me;
      do ex' <- as_list_of dec_nn ex;
      Some {| s_id := id; s_parent := p'; s_name := n'; s_decls := ds';
              s_children := ch'; s_members := me'; s_exports := ex' |}
  | _ => None
  end.

Definition dec_tab (s : sexp) : option symtab :=
  match s with
  | L [A r; A len; syms] =>
      do syms' <- as_list_of dec_sym syms;
      Some {| t_root := r; t_len := len; t_syms := syms' |}
  | _ => None
  end.

Definition dec_star (s : sexp) : option (N * option N) := as_pair as_atom (as_option as_atom) s.

Definition dec_gres (s : sexp) : option gres :=
  match s with
  | L [A 0; A m; A sy; A i; st] => do st' <- as_bool st; Some (GDef m sy i st')
  | L [A 1; A m; A k] => Some (GUnres m k)
  | _ => None
  end.

Definition dec_goto (s : sexp) : option (N * list gres) := as_pair as_atom (as_list_of dec_gres) s.

(* module with the implementation's observations attached *)
Record obsmod := { om_mod : smod; om_impl_names : list N; om_gotos : list (N * list gres);
                   om_dotted : list N; om_conflict : list N }.

Definition dec_mod (s : sexp) : option obsmod :=
  match s with
  | L [A k; stars; tab; impl; gotos; L [dotted; conflict]] =>
      do stars' <- as_list_of dec_star stars;
      do tab' <- dec_tab tab;
      do impl' <- as_atoms impl;
      do gotos' <- as_list_of dec_goto gotos;
      do dotted' <- as_atoms dotted;
      do conflict' <- as_atoms conflict;
      Some {| om_mod := {| sm_key := k; sm_stars := stars'; sm_tab := tab' |};
              om_impl_names := impl'; om_gotos := gotos'; om_dotted := dotted'; om_conflict := conflict' |}
  | _ => None
  end.

Definition C16_CLASSTAG : N := 555555.
Definition nonempty (l : list N) : bool := match l with [] => false | _ => true end.

(* classification of a table the checker rejected: the failure is confined to the
   symbols the known class corrupts, everything else is still well-formed *)
Definition wf_classes (x : obsmod) : list sexp :=
  let t := sm_tab (om_mod x) in
  if wf_symtabb t then []
  else if nonempty (om_dotted x) && wf_symtabb_ex (dotted_ex (om_dotted x) t) t
       then [of_atoms [C16_CLASSTAG; 1601]]
  else if nonempty (om_conflict x) && wf_symtabb_ex (conflict_ex (om_conflict x) t) t
       then [of_atoms [C16_CLASSTAG; 1602]]
  else if nonempty (om_dotted x) && nonempty (om_conflict x) &&
          wf_symtabb_ex (fun s => dotted_ex (om_dotted x) t s || conflict_ex (om_conflict x) t s) t
       then [of_atoms [C16_CLASSTAG; 1601]; of_atoms [C16_CLASSTAG; 1602]]
  else [].

Fixpoint enc_item_path (it : item) : list sexp * (N * N) :=
  match it with
  | Export m s => ([], (m, s))
  | ReExportAll r t next =>
      let '(p, e) := enc_item_path next in (L [A r; A t] :: p, e)
  end.

Definition enc_resolved (e : N * item) : sexp :=
  let '(p, (m, s)) := enc_item_path (snd e) in L [A (fst e); L p; A m; A s].

Definition enc_exports (r : option mexports) : list sexp :=
  match r with
  | Some r' => [L (map enc_resolved (resolved r'));
                L (map (fun u => L [A (fst u); A (snd u)]) (unresolved r'))]
  | None => [A 424242; A 424242]
  end.

Definition enc_gres (g : gres) : sexp :=
  match g with
  | GDef m s i star => L [A 0; A m; A s; A i; of_bool star]
  | GUnres m k => L [A 1; A m; A k]
  end.

(* the model's go_to_definitions_or_unresolveds of every symbol of the module (in table
   order); compared only for programs without a QualifiedTarget declaration *)
Definition enc_gotos (w : sworld) (md : smod) : sexp :=
  if has_qualified w then L []
  else L (map (fun sy => match goto_defs w (sm_key md) (s_id sy) with
                         | Some ls => L [A (s_id sy); L (map enc_gres ls)]
                         | None => L [A (s_id sy); A 424242]
                         end) (t_syms (sm_tab md))).

Definition run_mod (w : sworld) (x : obsmod) : sexp :=
  let md := om_mod x in
  L (enc_exports (exports_of w (sm_key md))
     ++ [judge (wf_symtabb (sm_tab md)); judge (names_okb w (sm_key md) (om_impl_names x));
         judge (goto_okb w (om_gotos x)); enc_gotos w md]
     ++ wf_classes x).

(* program level: [terminated] = every go-to-definition query of the program came
   back (the harness ran them under a watchdog / in a child process); [cycle] = the
   input class of F-C16c (a name-level cycle through an `import X = A.B` alias) *)
Definition run_prog (terminated cycle : bool) : sexp :=
  L ([judge terminated] ++
     (if negb terminated && cycle then [of_atoms [C16_CLASSTAG; 1603]] else [])).

Definition run_c16 (input : sexp) : sexp :=
  match input with
  | L [mods; s2m; L [term; cyc]] =>
      match as_list_of dec_mod mods, as_list_of dec_nn s2m, as_bool term, as_bool cyc with
      | Some xs, Some s2m', Some term', Some cyc' =>
          let w := {| sw_mods := map (fun x => (sm_key (om_mod x), om_mod x)) xs; sw_s2m := s2m' |} in
          L (map (run_mod w) xs ++ [run_prog term' cyc'])
      | _, _, _, _ => decode_error
      end
  | _ => decode_error
  end.
