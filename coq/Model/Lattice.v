(* The export-subset lattice of the fast-check public-range tracer
   (src/fast_check/range_finder.rs:41-278): NamedSubset, Exports,
   ImportedExports, HandledExports::add, PendingTraces::add.

   NamedSubset is an IndexMap<String, Exports>: an association list in
   INSERTION order with unique keys.  Names are interned to N by the harness
   (DEFAULT = "default").  `entry(k)`/`insert(k, v)` on an occupied key modify
   the value in place (position kept), on a vacant key append at the end.

   Definitions only (the model still runs if a proof breaks); the laws are in
   Proofs/LatticeProofs.v. *)
From DG Require Import Base.Util.

Definition name := N.
Definition DEFAULT : name := 0.

Inductive exports : Type :=
| EAll
| ESub (s : named)
with named : Type :=
| NNil
| NCons (k : name) (e : exports) (rest : named).

Scheme exports_mut := Induction for exports Sort Prop
  with named_mut := Induction for named Sort Prop.
Combined Scheme exports_named_mutind from exports_mut, named_mut.

(* ---- IndexMap primitives ---- *)
Fixpoint nlookup (k : name) (s : named) : option exports :=
  match s with
  | NNil => None
  | NCons k' e r => if N.eqb k k' then Some e else nlookup k r
  end.

Definition nhas (k : name) (s : named) : bool :=
  match nlookup k s with Some _ => true | None => false end.

(* IndexMap::insert / entry().insert: replace in place or append *)
Fixpoint nset (k : name) (v : exports) (s : named) : named :=
  match s with
  | NNil => NCons k v NNil
  | NCons k' e r => if N.eqb k k' then NCons k' v r else NCons k' e (nset k v r)
  end.

Definition nis_empty (s : named) : bool := match s with NNil => true | _ => false end.

Fixpoint nkeys (s : named) : list name :=
  match s with NNil => [] | NCons k _ r => k :: nkeys r end.

(* ---- NamedSubset::add (range_finder.rs:53-62): both arms store All ---- *)
Definition n_add (s : named) (k : name) : named := nset k EAll s.

(* ---- NamedSubset::add_qualified / Exports::add_qualified (64-74, 116-121) ----
   recursion is on the list of remaining qualified parts *)
Fixpoint n_add_qualified (s : named) (k : name) (q : list name) {struct q} : named :=
  match q with
  | [] => n_add s k
  | k1 :: q' =>
      match nlookup k s with
      | Some EAll => s                                             (* already everything *)
      | Some (ESub inner) => nset k (ESub (n_add_qualified inner k1 q')) s
      | None => nset k (ESub (n_add_qualified NNil k1 q')) s       (* or_insert_with(Exports::subset) *)
      end
  end.

(* ---- NamedSubset::from_parts (45-51) ---- *)
Definition n_from_parts (parts : list name) : named :=
  match parts with
  | [] => NNil
  | k :: q => n_add_qualified NNil k q
  end.

(* `difference.add_named(key, x)` inside NamedSubset::extend.  The keys of
   `new_subset` (an IndexMap) are unique, so `key` is always vacant in
   `difference` there (LatticeProofs.ext_n_diff_keys); the occupied arm of the
   real add_named (entry.extend(x)) is unreachable from extend and is
   totalised here as "leave unchanged".  The stand-alone operation add_named,
   with its real occupied arm, is n_add_named below. *)
Definition dadd (k : name) (x : exports) (diff : named) : named :=
  match nlookup k diff with
  | None => nset k x diff
  | Some _ => diff
  end.

(* ---- Exports::extend (123-143) and NamedSubset::extend (88-102) ----
   structurally recursive on the incoming value *)
Fixpoint ext_e (cur new : exports) {struct new} : exports * option exports :=
  match cur with
  | EAll => (EAll, None)
  | ESub cs =>
      match new with
      | EAll => (EAll, Some EAll)
      | ESub ns =>
          let '(cs', d) := ext_n cs NNil ns in
          (ESub cs', if nis_empty d then None else Some (ESub d))
      end
  end
with ext_n (cur diff new : named) {struct new} : named * named :=
  match new with
  | NNil => (cur, diff)
  | NCons k e rest =>
      match nlookup k cur with
      | Some entry =>
          let '(entry', sd) := ext_e entry e in
          ext_n (nset k entry' cur)
                (match sd with Some x => dadd k x diff | None => diff end)
                rest
      | None =>
          ext_n (nset k e cur) (dadd k e diff) rest
      end
  end.

Definition n_extend (cur new : named) : named * named := ext_n cur NNil new.

(* ---- NamedSubset::add_named (76-86) ---- *)
Definition n_add_named (s : named) (k : name) (x : exports) : named :=
  match nlookup k s with
  | Some entry => nset k (fst (ext_e entry x)) s
  | None => nset k x s
  end.

(* ---- ImportedExports (146-230) ---- *)
Inductive imported : Type :=
| IStar
| IStarDef
| ISub (s : named).

Definition default_only : named := NCons DEFAULT EAll NNil.

Definition i_add (cur new : imported) : imported * option imported :=
  match cur with
  | IStar =>
      match new with
      | IStar => (IStar, None)
      | IStarDef => (IStarDef, Some (ISub default_only))
      | ISub ns =>
          if nhas DEFAULT ns then (IStarDef, Some (ISub default_only)) else (IStar, None)
      end
  | IStarDef => (IStarDef, None)
  | ISub cs =>
      match new with
      | IStar => ((if nhas DEFAULT cs then IStarDef else IStar), Some IStar)
      | IStarDef => (IStarDef, Some IStarDef)
      | ISub ns => let '(cs', d) := n_extend cs ns in (ISub cs', Some (ISub d))
      end
  end.

(* ---- HandledExports::add (232-248): map specifier -> ImportedExports ---- *)
Definition handled_add (h : list (N * imported)) (spec : N) (t : imported)
  : list (N * imported) * option imported :=
  match lookup spec h with
  | Some cur =>
      let '(cur', d) := i_add cur t in
      (map (fun kv => if N.eqb (fst kv) spec then (fst kv, cur') else kv) h, d)
  | None => (h ++ [(spec, t)], Some t)
  end.

(* ---- PendingTraces::add (250-266): IndexMap specifier -> (nv, ImportedExports);
        the returned difference of ImportedExports::add is dropped ---- *)
Definition pending_add (p : list (N * (N * imported))) (nv spec : N) (t : imported)
  : list (N * (N * imported)) :=
  match lookup spec p with
  | Some (nv0, cur) =>
      map (fun kv => if N.eqb (fst kv) spec then (fst kv, (nv0, fst (i_add cur t))) else kv) p
  | None => p ++ [(spec, (nv, t))]
  end.

(* ---- denotation: the set of qualified export paths covered ----
   a path is the list of names [export; member; member ...];
   All below a name = every extension of the path so far (including itself);
   Star = every path whose head is not "default"; StarWithDefault = every
   (non-empty) path. *)
Fixpoint in_n (s : named) (p : list name) {struct p} : bool :=
  match p with
  | [] => false
  | k :: q =>
      match nlookup k s with
      | None => false
      | Some EAll => true
      | Some (ESub s') => in_n s' q
      end
  end.

Definition in_e (e : exports) (q : list name) : bool :=
  match e with EAll => true | ESub s => in_n s q end.

Definition in_i (i : imported) (p : list name) : bool :=
  match i with
  | IStar => match p with [] => false | k :: _ => negb (N.eqb k DEFAULT) end
  | IStarDef => match p with [] => false | _ :: _ => true end
  | ISub s => in_n s p
  end.

Definition in_oi (o : option imported) (p : list name) : bool :=
  match o with None => false | Some i => in_i i p end.
Definition in_oe (o : option exports) (q : list name) : bool :=
  match o with None => false | Some e => in_e e q end.

(* ---- the IndexMap invariant: unique keys at every level ---- *)
Fixpoint wf_e (e : exports) : bool :=
  match e with EAll => true | ESub s => wf_n s end
with wf_n (s : named) : bool :=
  match s with
  | NNil => true
  | NCons k e r => negb (nhas k r) && wf_e e && wf_n r
  end.

Definition wf_i (i : imported) : bool :=
  match i with ISub s => wf_n s | _ => true end.

(* ---- worklist measure over a finite universe U of paths ---- *)
Definition rank_i (i : imported) : nat :=
  match i with ISub _ => 0 | IStar => 1 | IStarDef => 2 end.
Definition count_i (U : list (list name)) (i : imported) : nat :=
  length (filter (in_i i) U).
Definition measure_i (U : list (list name)) (i : imported) : nat :=
  rank_i i * S (length U) + count_i U i.
