(* C07: wire-level entry point.  A case is a list of queries; the output is
   the list of their observations, each in the shape the harness prints for
   the real code.

   (1 base name vtext impl_url?)          recommended_registry_package_url
   (2 base url impl_pkg_url? expected?)   recommended_registry_package_url_to_nv + judgements
   (3 text)                               Version::parse_standard, canonical re-print
   (4 sub_path?)                          normalized_export_name
   (5 exports_json (key ...))             JsrPackageVersionInfo::export / exports
   (6 (op ...) (name ...) (nv ...) ((req class) ...) ((nv class) ...))
                                          PackageSpecifiers operation history + observers *)
From DG Require Import Base.Util Base.Sexp Model.Packages.

Definition SETTAG7 : N := 777777.
Definition set_of7 (l : list sexp) : sexp := L (A SETTAG7 :: l).
Definition CLASSTAG7 : N := 555555.
Definition class_tag (c : N) : sexp := of_atoms [CLASSTAG7; c].

Definition enc_str (s : str) : sexp := of_atoms s.
Definition enc_opt_str (o : option str) : sexp := of_option enc_str o.
Definition as_opt_str (s : sexp) : option (option str) := as_option as_atoms s.

(* ---- URL conversion ---- *)

Definition q_pkg_url (base name vtext : str) (impl : option str) : sexp :=
  let u := match pkg_url base name vtext with Some u => Some u | None => impl end in
  L [enc_opt_str u].

(* "never attributes a URL to a different package": the URL of the package the
   conversion names is a prefix of the converted URL *)
Definition no_misattr_b (u : str) (nv : option (str * version)) (purl : option str) : bool :=
  match nv with
  | None => true
  | Some _ => match purl with Some p => is_prefix_b (strip_slash p) u | None => false end
  end.

(* round trip, judged where the statement's precondition holds: a registry-shaped
   name and a version print that the URL join keeps verbatim (= the model's
   pkg_url is defined), and the expected version text is canonical *)
Definition roundtrip_b (base : str) (got : option (str * version)) (expected : option (str * str)) : bool :=
  match expected with
  | None => true
  | Some (name, vtext) =>
      match parse_standard vtext, pkg_url base name vtext with
      | Some v, Some _ =>
          if wf_name_b name && str_eqb (print_version v) vtext
          then match got with
               | Some (n', v') => str_eqb n' name && str_eqb (print_version v') vtext
               | None => false
               end
          else true
      | _, _ => true
      end
  end.

Definition has_query_or_fragment (s : str) : bool :=
  existsb (fun c => N.eqb c QMARK || N.eqb c HASH) s.

(* input classes of the known findings F-C07a..d (0 = none), most specific first:
   703 the registry URL is not a plain directory URL (no trailing slash, or a query/fragment)
   702 an extra '/' follows the registry URL
   704 the scope segment reads as a URL scheme
   701 the version segment is accepted by the loose version parser but is not canonical *)
Definition c07_url_class (base u : str) : N :=
  if negb (ends_with_slash base) || has_query_or_fragment base then 703
  else match strip_prefix base u with
       | Some (c :: _) =>
           if N.eqb c SLASH then 702
           else match nv_segments base u with
                | Some (sn, ver) =>
                    if scheme_like (fst sn ++ [SLASH]) then 704
                    else match parse_standard ver with
                         | Some v => if str_eqb (print_version v) ver then 0 else 701
                         | None => 0
                         end
                | None => 0
                end
       | _ => 0
       end.

Definition q_to_nv (base u : str) (impl_purl : option str) (expected : option (str * str)) : sexp :=
  let r := to_nv base u in
  let purl := match r with
              | None => None
              | Some (name, v) =>
                  match pkg_url base name (print_version v) with Some p => Some p | None => impl_purl end
              end in
  let ok1 := no_misattr_b u r purl in
  let ok2 := roundtrip_b base r expected in
  let cls := c07_url_class base u in
  L ([of_option (fun p => L [enc_str (fst p); enc_str (print_version (snd p))]) r;
      enc_opt_str purl; judge ok1; judge ok2]
     ++ (if ok1 && ok2 then [] else if N.eqb cls 0 then [] else [class_tag cls])).

(* ---- exports ---- *)

Definition dec_jval (s : sexp) : option jval :=
  match s with
  | L [A 0; v] => do v' <- as_atoms v; Some (JStr v')
  | L [A 1; A t] => Some (JOther t)
  | _ => None
  end.

Definition dec_exports (s : sexp) : option exports_json :=
  match s with
  | L [A 0; v] => do v' <- as_atoms v; Some (EStr v')
  | L [A 1; f] => do f' <- as_list_of (as_pair as_atoms dec_jval) f; Some (EObj f')
  | L [A 2; A t] => Some (EOther t)
  | _ => None
  end.

Definition q_exports (e : exports_json) (keys : list str) : sexp :=
  L [L (map (fun k => enc_opt_str (export e k)) keys);
     set_of7 (map (fun p => L [enc_str (fst p); enc_str (snd p)]) (exports e))].

(* ---- table ---- *)

Definition dec_op (s : sexp) : option (list op) :=
  match s with
  | L [A 1; A req; A name; A nv] => Some [AddNv req name nv]
  | L [A 2; A nv] => Some [Ensure nv]
  | L [A 3; A nv; A d] => Some [AddDep nv d]
  | L [A 4; A nv; A k; A v] => Some [AddExport nv k v]
  | L [A 5; A nv] => Some [AddTop nv]
  | L [A 6; A nv] => Some [AddYanked nv]
  (* fill_from_lockfile entry: add_nv only when the version text parses *)
  | L [A 7; A req; A name; text; A nv] =>
      do t <- as_atoms text;
      Some (match parse_standard t with Some _ => [AddNv req name nv] | None => [] end)
  | _ => None
  end.

Definition enc_pairs (l : list (N * N)) : sexp := set_of7 (map (fun p => of_atoms [fst p; snd p]) l).

Definition class_fn (tbl : list (N * N)) (k : N) : N :=
  match lookup k tbl with Some c => c | None => k end.

Definition q_table (kc : keying) (ops : list op) (names nvs : list N) : sexp :=
  let (t, panic) := run_ops kc ops in
  L [of_option A panic;
     enc_pairs (mappings t);
     L (map (fun n => of_option of_atoms (versions_by_name t n)) names);
     L (map (fun nv => of_option enc_pairs (package_exports kc t nv)) nvs);
     set_of7 (map (fun p => L [A (fst p); set_of7 (map A (snd p))]) (packages_with_deps t));
     of_bool (is_empty t); A (packages_len t); A (package_deps_sum t);
     set_of7 (map A (used_yanked_packages t))].

Definition run_c07_query (q : sexp) : sexp :=
  match q with
  | L [A 1; base; name; vtext; impl] =>
      match as_atoms base, as_atoms name, as_atoms vtext, as_opt_str impl with
      | Some b, Some n, Some v, Some i => q_pkg_url b n v i
      | _, _, _, _ => decode_error
      end
  | L [A 2; base; u; impl; expected] =>
      match as_atoms base, as_atoms u, as_opt_str impl, as_option (as_pair as_atoms as_atoms) expected with
      | Some b, Some u', Some i, Some e => q_to_nv b u' i e
      | _, _, _, _ => decode_error
      end
  | L [A 3; text] =>
      match as_atoms text with
      | Some t => L [enc_opt_str (option_map print_version (parse_standard t))]
      | None => decode_error
      end
  | L [A 4; sub] =>
      match as_opt_str sub with
      | Some s => L [enc_str (norm_export s)]
      | None => decode_error
      end
  | L [A 5; e; keys] =>
      match dec_exports e, as_list_of as_atoms keys with
      | Some e', Some ks => q_exports e' ks
      | _, _ => decode_error
      end
  | L [A 6; ops; names; nvs; rcls; ncls] =>
      match as_list_of dec_op ops, as_atoms names, as_atoms nvs,
            as_list_of (as_pair as_atom as_atom) rcls, as_list_of (as_pair as_atom as_atom) ncls with
      | Some os, Some ns, Some vs, Some rc, Some nc =>
          q_table {| kc_req := class_fn rc; kc_nv := class_fn nc |} (concat os) ns vs
      | _, _, _, _, _ => decode_error
      end
  | _ => decode_error
  end.

Definition run_c07 (input : sexp) : sexp :=
  match input with
  | L qs => L (map run_c07_query qs)
  | _ => decode_error
  end.
