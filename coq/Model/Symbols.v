(* C16 model (definitions only).

   (a) Export resolution: a transcription of
         src/symbols/cross_module.rs  exports_and_re_exports_inner (813-877)
         src/symbols/cross_module.rs  exports_and_re_exports       (800-811)
         src/symbols/analyzer.rs      ModuleInfoRef::exports       (1522-1528)
       over an abstract description of the analysed modules.  A module is
       identified by the id of its own specifier (ModuleInfoRef::specifier(),
       the key of the visited set in the code).  Everything that is decided
       outside this function is data:
         sm_stars : per `export * from "text"` (source order) the interned text
                    and the result of ModuleGraph::resolve_dependency(text,
                    referrer, prefer_types = true);
         sw_s2m   : RootSymbol::module_from_specifier as a table
                    specifier id -> key of the module it returns (a JS module
                    with a types dependency yields the types module).
       The visited set is SHARED between sibling calls, exactly as in the code.

   (b) An abstract symbol table as dumped through the public API of
       deno_graph::symbols, and the boolean checker wf_symtabb.

   (c) A checker for what go_to_definitions_or_unresolveds returned.          *)
From DG Require Import Base.Util.

(* interned export name "default" (the harness interns it first) *)
Definition DEFAULT : N := 0.

(* ------------------------------------------------------------------ *)
(* abstract symbol table                                               *)

(* d_kind: 0 Definition, 1 Target, 2 QualifiedTarget, 3 FileRef(Name), 4 FileRef(Star)
   d_target (kind 1, 2): module.esm().symbol_id_from_swc(id).and_then(|id| module.symbol(id))
   d_file   (kind 3, 4): ModuleGraph::resolve_dependency(file_dep.specifier, module, true)
   d_import (kind 3)   : the imported export name *)
Record sdecl := { d_name : option N; d_start : N; d_end : N; d_kind : N;
                  d_target : option N; d_file : option N; d_import : N }.

Record sym := {
  s_id : N;
  s_parent : option N;
  s_name : option N;              (* Symbol::maybe_name *)
  s_decls : list sdecl;
  s_children : list N;            (* Symbol::child_ids, in order *)
  s_members : list N;             (* Symbol::members, in order *)
  s_exports : list (N * N)        (* Symbol::exports: name -> symbol id, in order *)
}.

Record symtab := { t_root : N; t_len : N; t_syms : list sym }.

Definition find_sym (t : symtab) (id : N) : option sym :=
  find (fun s => N.eqb (s_id s) id) (t_syms t).

Definition d_is_def (d : sdecl) : bool := N.eqb (d_kind d) 0.
(* tests/helpers: `symbol.decls().iter().all(|d| d.kind.is_definition())` *)
Definition all_def (s : sym) : bool := forallb d_is_def (s_decls s).
Definition listed (s : sym) : list N := s_children s ++ s_members s.

Fixpoint count (x : N) (l : list N) : nat :=
  match l with
  | [] => O
  | y :: l' => if N.eqb y x then S (count x l') else count x l'
  end.

Fixpoint nodupb (l : list N) : bool :=
  match l with
  | [] => true
  | x :: l' => negb (mem x l') && nodupb l'
  end.

Definition opt_eqb (a b : option N) : bool :=
  match a, b with
  | None, None => true
  | Some x, Some y => N.eqb x y
  | _, _ => false
  end.

(* follow parent pointers; true iff the root is met within [fuel] steps *)
Fixpoint reaches_root (t : symtab) (fuel : nat) (id : N) : bool :=
  if N.eqb id (t_root t) then true
  else match fuel with
       | O => false
       | S f =>
           match find_sym t id with
           | Some s => match s_parent s with
                       | Some p => reaches_root t f p
                       | None => false
                       end
           | None => false
           end
       end.

(* The checker is parameterised by a set of EXCUSED symbols [ex]; the property
   checker wf_symtabb excuses nothing.  The relaxed form is used only to
   classify a failure as an instance of a known finding (RunC16). *)
Definition parent_okb (ex : sym -> bool) (t : symtab) (s : sym) : bool :=
  match s_parent s with
  | None => N.eqb (s_id s) (t_root t)
  | Some p =>
      negb (N.eqb (s_id s) (t_root t)) &&
      match find_sym t p with
      | None => false
      | Some ps =>
          ex s ||
          (if all_def s then Nat.eqb (count (s_id s) (listed ps)) 1
           else Nat.eqb (count (s_id s) (listed ps)) 0)
      end
  end.

Definition listed_okb (ex : sym -> bool) (t : symtab) (s : sym) : bool :=
  forallb (fun c => match find_sym t c with
                    | Some cs => ex cs || opt_eqb (s_parent cs) (Some (s_id s))
                    | None => false
                    end) (listed s).

Definition exports_okb (t : symtab) (s : sym) : bool :=
  forallb (fun e => match find_sym t (snd e) with Some _ => true | None => false end) (s_exports s).

Definition decl_okb (ex : sym -> bool) (t : symtab) (s : sym) (d : sdecl) : bool :=
  (ex s || opt_eqb (d_name d) (s_name s)) && N.leb (d_start d) (d_end d) && N.leb (d_end d) (t_len t).

Definition sym_okb (ex : sym -> bool) (t : symtab) (s : sym) : bool :=
  parent_okb ex t s && listed_okb ex t s && exports_okb t s &&
  forallb (decl_okb ex t s) (s_decls s) &&
  reaches_root t (length (t_syms t)) (s_id s).

Definition root_okb (t : symtab) : bool :=
  match find_sym t (t_root t) with
  | Some r => match s_parent r with None => true | Some _ => false end
  | None => false
  end.

Definition wf_symtabb_ex (ex : sym -> bool) (t : symtab) : bool :=
  nodupb (map s_id (t_syms t)) && root_okb t && forallb (sym_okb ex t) (t_syms t).

Definition no_excuse (s : sym) : bool := false.
Definition wf_symtabb (t : symtab) : bool := wf_symtabb_ex no_excuse t.

(* excuse predicates of the two known classes (the name lists are computed by the
   harness from the module's SOURCE TEXT, i.e. they describe the input):
   F-C16a  names = non-first segments of a dotted namespace `A.S1...Sk` that are
           declared again in the scope swc gives to the segments;
   F-C16b  names = import bindings that are re-declared locally (DEFAULT stands
           for "several default exports").                                     *)
Definition has_decl_named (names : list N) (s : sym) : bool :=
  existsb (fun d => match d_name d with Some n => mem n names | None => false end) (s_decls s).

Definition is_default_export (t : symtab) (s : sym) : bool :=
  match find_sym t (t_root t) with
  | Some r => match lookup 0 (s_exports r) with
              | Some i => N.eqb i (s_id s)
              | None => false
              end
  | None => false
  end.

(* some symbol of the table exports [s] under one of the names (the dotted segment
   symbol reports the OUTER namespace's name, so it cannot be found by name) *)
Definition exported_under (names : list N) (t : symtab) (s : sym) : bool :=
  existsb (fun p => existsb (fun e => mem (fst e) names && N.eqb (snd e) (s_id s)) (s_exports p)) (t_syms t).

Definition dotted_ex (names : list N) (t : symtab) (s : sym) : bool :=
  has_decl_named names s || exported_under names t s.
Definition mixed (s : sym) : bool := negb (all_def s) && existsb d_is_def (s_decls s).
Definition conflict_ex (names : list N) (t : symtab) (s : sym) : bool :=
  has_decl_named names s || (mem 0 names && (is_default_export t s || mixed s)).

(* ------------------------------------------------------------------ *)
(* modules and export resolution                                       *)

Record smod := {
  sm_key : N;
  sm_stars : list (N * option N);      (* (specifier text id, resolve_dependency result) *)
  sm_tab : symtab
}.

Record sworld := { sw_mods : list (N * smod); sw_s2m : list (N * N) }.

Definition empty_tab : symtab := {| t_root := 0; t_len := 0; t_syms := [] |}.
Definition empty_mod (k : N) : smod := {| sm_key := k; sm_stars := []; sm_tab := empty_tab |}.

Definition get_mod (w : sworld) (k : N) : smod :=
  match lookup k (sw_mods w) with Some md => md | None => empty_mod k end.

(* module.module_symbol().exports() *)
Definition own_of (md : smod) : list (N * N) :=
  match find_sym (sm_tab md) (t_root (sm_tab md)) with
  | Some r => s_exports r
  | None => []
  end.
Definition own (w : sworld) (k : N) : list (N * N) := own_of (get_mod w k).

(* |specifier| root_symbol.module_from_specifier(specifier) *)
Definition spec_to_module (w : sworld) (s : N) : option N :=
  match lookup s (sw_s2m w) with
  | Some k => if has_key k (sw_mods w) then Some k else None
  | None => None
  end.

(* ResolvedExportOrReExportAllPath *)
Inductive item :=
| Export (m sym : N)
| ReExportAll (referrer text : N) (next : item).

Record mexports := { resolved : list (N * item); unresolved : list (N * N) }.
Definition no_exports : mexports := {| resolved := []; unresolved := [] |}.

(* IndexMap::insert: replace in place when the key exists, else append *)
Fixpoint imap_insert {V} (k : N) (v : V) (l : list (N * V)) : list (N * V) :=
  match l with
  | [] => [(k, v)]
  | (k', v') :: l' => if N.eqb k k' then (k, v) :: l' else (k', v') :: imap_insert k v l'
  end.

Definition own_resolved (m : N) (exports : list (N * N)) : list (N * item) :=
  fold_left (fun acc e => imap_insert (fst e) (Export m (snd e)) acc) exports [].

(* for (name, item) in inner.resolved { if name != "default" && !resolved.contains_key(&name) { insert } } *)
Fixpoint merge_star (referrer text : N) (inner : list (N * item)) (acc : list (N * item)) : list (N * item) :=
  match inner with
  | [] => acc
  | (n, it) :: rest =>
      if negb (N.eqb n DEFAULT) && negb (has_key n acc)
      then merge_star referrer text rest (acc ++ [(n, ReExportAll referrer text it)])
      else merge_star referrer text rest acc
  end.

(* the loop over re_export_all_specifiers; [rec] is the recursive call *)
Fixpoint stars_loop (rec : N -> list N -> option (mexports * list N)) (w : sworld) (referrer : N)
         (stars : list (N * option N)) (res : list (N * item)) (unres : list (N * N))
         (visited : list N) : option (mexports * list N) :=
  match stars with
  | [] => Some ({| resolved := res; unresolved := unres |}, visited)
  | (text, tgt) :: rest =>
      match option_bind tgt (spec_to_module w) with
      | Some m' =>
          match rec m' visited with
          | None => None
          | Some (inner, visited') =>
              stars_loop rec w referrer rest
                         (merge_star referrer text (resolved inner) res)
                         (unres ++ unresolved inner) visited'
          end
      | None => stars_loop rec w referrer rest res (unres ++ [(referrer, text)]) visited
      end
  end.

(* exports_and_re_exports_inner; None = out of fuel *)
Fixpoint exports_inner (fuel : nat) (w : sworld) (m : N) (visited : list N) : option (mexports * list N) :=
  if mem m visited then Some (no_exports, visited)
  else match fuel with
       | O => None
       | S f =>
           let md := get_mod w m in
           stars_loop (exports_inner f w) w m (sm_stars md) (own_resolved m (own_of md)) [] (m :: visited)
       end.

(* exports_and_re_exports / ModuleInfoRef::exports: fresh visited set *)
Definition exports_of (w : sworld) (m : N) : option mexports :=
  match exports_inner (length (sw_mods w)) w m [] with
  | Some (r, _) => Some r
  | None => None
  end.

Definition names (r : mexports) : list N := map fst (resolved r).

(* decision procedure for the property on an implementation's name list *)
Definition incl_b (a b : list N) : bool := forallb (fun x => mem x b) a.
Definition names_okb (w : sworld) (m : N) (impl : list N) : bool :=
  match exports_of w m with
  | Some r => incl_b impl (names r) && incl_b (names r) impl
  | None => false
  end.

(* ------------------------------------------------------------------ *)
(* go-to-definition results                                            *)

(* GDef: DefinitionOrUnresolved::Definition{module, symbol, symbol_decl (index), kind}
         star = false: DefinitionKind::Definition, true: DefinitionKind::ExportStar
   GUnres: DefinitionOrUnresolved::Unresolved{module, kind tag} *)
Inductive gres :=
| GDef (m s declidx : N) (star : bool)
| GUnres (m ukind : N).

Definition gres_okb (w : sworld) (g : gres) : bool :=
  match g with
  | GDef m s i star =>
      match lookup m (sw_mods w) with
      | Some md =>
          match find_sym (sm_tab md) s with
          | Some sy =>
              match nth_error (s_decls sy) (N.to_nat i) with
              | Some d => if star then N.eqb (d_kind d) 4 else N.eqb (d_kind d) 0
              | None => false
              end
          | None => false
          end
      | None => false
      end
  | GUnres m _ => has_key m (sw_mods w)
  end.

Definition goto_okb (w : sworld) (gs : list (N * list gres)) : bool :=
  forallb (fun q => forallb (gres_okb w) (snd q)) gs.

(* ------------------------------------------------------------------ *)
(* go-to-definition, fragment without qualified names                  *)
(*   src/symbols/cross_module.rs find_definition_paths_internal (212-309),
     go_to_file_export (311-394), flattened by into_definitions_or_unresolveds
     (155-193: the leaves of the path tree in depth-first order).
   SymbolDeclKind::QualifiedTarget (`import X = A.B`) is NOT followed by this
   model (its resolution restarts with a fresh visited set in the code, which
   is the cause of F-C16c); the model yields the marker GUnres m 999 there
   and the correspondence is restricted to programs without such declarations. *)

Definition usym : Type := (N * N)%type.     (* UniqueSymbolId: module, symbol *)
Definition ueqb (a b : usym) : bool := N.eqb (fst a) (fst b) && N.eqb (snd a) (snd b).
Definition umem (u : usym) (l : list usym) : bool := existsb (ueqb u) l.

Fixpoint item_export (it : item) : N * N :=
  match it with
  | Export m s => (m, s)
  | ReExportAll _ _ next => item_export next
  end.

Definition NOT_MODELLED : N := 999.

(* dep_module.module_symbol().exports().get(name).and_then(|id| dep_module.symbol(id)) *)
Definition own_export_symbol (w : sworld) (dep name : N) : option N :=
  match lookup name (own w dep) with
  | Some es => match find_sym (sm_tab (get_mod w dep)) es with Some _ => Some es | None => None end
  | None => None
  end.

(* go_to_file_export, the loop over dep_module.re_export_all_specifiers() *)
Fixpoint file_export_stars (rec : N -> N -> list usym -> option (list gres * list usym))
         (w : sworld) (dep name : N) (stars : list (N * option N)) (visited : list usym)
  : option (list gres * list usym) :=
  match stars with
  | [] => Some ([GUnres dep 2], visited)
  | (_, tgt) :: rest =>
      match option_bind tgt (spec_to_module w) with
      | Some m' =>
          match exports_inner (length (sw_mods w)) w m' [] with
          | None => None
          | Some (inner, _) =>
              match lookup name (resolved inner) with
              | Some it =>
                  match rec (fst (item_export it)) (snd (item_export it)) visited with
                  | None => None
                  | Some (paths, visited') =>
                      match paths with
                      | _ :: _ => Some (paths, visited')
                      | [] => file_export_stars rec w dep name rest visited'
                      end
                  end
              | None => file_export_stars rec w dep name rest visited
              end
          end
      | None => file_export_stars rec w dep name rest visited
      end
  end.

(* the loop over symbol.decls(); [i] = index of the head declaration *)
Fixpoint decls_loop (rec : N -> N -> list usym -> option (list gres * list usym))
         (w : sworld) (m s : N) (ds : list sdecl) (i : N) (visited : list usym)
  : option (list gres * list usym) :=
  match ds with
  | [] => Some ([], visited)
  | d :: rest =>
      let step :=
        if N.eqb (d_kind d) 0 then Some ([GDef m s i false], visited)
        else if N.eqb (d_kind d) 4 then Some ([GDef m s i true], visited)
        else if N.eqb (d_kind d) 1 then
          match d_target d with
          | Some s' => rec m s' visited
          | None => Some ([], visited)
          end
        else if N.eqb (d_kind d) 3 then
          match option_bind (d_file d) (spec_to_module w) with
          | None => Some ([GUnres m 1], visited)
          | Some dep =>
              match own_export_symbol w dep (d_import d) with
              | Some es => rec dep es visited
              | None => file_export_stars rec w dep (d_import d) (sm_stars (get_mod w dep)) visited
              end
          end
        else Some ([GUnres m NOT_MODELLED], visited) in
      match step with
      | None => None
      | Some (ls, visited') =>
          match decls_loop rec w m s rest (i + 1) visited' with
          | None => None
          | Some (ls', visited'') => Some (ls ++ ls', visited'')
          end
      end
  end.

(* find_definition_paths_internal, flattened; None = out of fuel *)
Fixpoint find_defs (fuel : nat) (w : sworld) (m s : N) (visited : list usym)
  : option (list gres * list usym) :=
  if umem (m, s) visited then Some ([], visited)
  else match find_sym (sm_tab (get_mod w m)) s with
       | None => Some ([], visited)          (* callers only pass existing symbols *)
       | Some sy =>
           match fuel with
           | O => None
           | S f => decls_loop (find_defs f w) w m s (s_decls sy) 0 ((m, s) :: visited)
           end
       end.

(* all symbols of the world *)
Definition universe (w : sworld) : list usym :=
  flat_map (fun e => map (fun sy => (fst e, s_id sy)) (t_syms (sm_tab (snd e)))) (sw_mods w).

(* RootSymbol::go_to_definitions_or_unresolveds(module, symbol) *)
Definition goto_defs (w : sworld) (m s : N) : option (list gres) :=
  match find_defs (S (length (universe w))) w m s [] with
  | Some (ls, _) => Some ls
  | None => None
  end.

Definition has_qualified (w : sworld) : bool :=
  existsb (fun e => existsb (fun sy => existsb (fun d => N.eqb (d_kind d) 2) (s_decls sy))
                            (t_syms (sm_tab (snd e)))) (sw_mods w).
