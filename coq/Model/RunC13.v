(* C13 (a): wire-level entry point.  One case per line:
     (1 info json)             codec on a ModuleInfo value; [json] is the REAL to_value(info)
                               -> ((model enc info) (opt (model dec json)) (judge roundtrip on the real encoding))
     (2 json)                  decoder on an arbitrary / mutated JSON value
                               -> ((opt (model dec json)))
     (3 json table real)       one moduleGraph1 entry; [table] = find_deno_types computed by the real
                               function on every comment text of the entry; [real] = opt info the real
                               JsrPackageVersionInfo::module_info returned
                               -> ((model upgrade json) (opt (model dec (upgrade json))) (judge v1 on real))
     (4 mg2 mg1 spec table)    JsrPackageVersionInfo::module_info selection (mg2/mg1 : opt json)
                               -> ((opt info))
   Objects and attribute maps are printed as SET-tagged lists (compared as multisets). *)
From DG Require Import Base.Util Base.Sexp Model.Codec.

Definition SETTAG : N := 777777.

(* ---- JSON on the wire *)
Fixpoint of_json (j : json) : sexp :=
  match j with
  | JNull => L [A 0]
  | JBool b => L [A 1; of_bool b]
  | JNum n => L [A 2; A n]
  | JStr s => L [A 3; of_atoms s]
  | JArr l => L [A 4; L (map of_json l)]
  | JObj m => L [A 5; L (A SETTAG :: map (fun kv => L [of_atoms (fst kv); of_json (snd kv)]) m)]
  end.

Fixpoint as_json (s : sexp) : option json :=
  match s with
  | L [A 0] => Some JNull
  | L [A 1; b] => do v <- as_bool b; Some (JBool v)
  | L [A 2; A n] => Some (JNum n)
  | L [A 3; t] => do v <- as_atoms t; Some (JStr v)
  | L [A 4; L items] =>
      match (fix go (l : list sexp) : option (list json) :=
               match l with
               | [] => Some []
               | x :: r =>
                   match as_json x with
                   | Some v => match go r with Some vs => Some (v :: vs) | None => None end
                   | None => None
                   end
               end) items with
      | Some l => Some (JArr l)
      | None => None
      end
  | L [A 5; L pairs] =>
      match (fix go (l : list sexp) : option (list (str * json)) :=
               match l with
               | [] => Some []
               | L [k; x] :: r =>
                   match as_atoms k, as_json x with
                   | Some k', Some v => match go r with Some vs => Some ((k', v) :: vs) | None => None end
                   | _, _ => None
                   end
               | _ => None
               end) pairs with
      | Some m => Some (JObj m)
      | None => None
      end
  | _ => None
  end.

(* ---- ModuleInfo on the wire *)
Definition of_pos (p : pos) : sexp := L [A (p_line p); A (p_char p)].
Definition of_range (r : prange) : sexp := L [of_pos (r_start r); of_pos (r_end r)].
Definition of_swr (s : swr) : sexp := L [of_atoms (s_text s); of_range (s_range s)].
Definition of_iattr (a : iattr) : sexp := match a with IAUnknown => L [A 0] | IAKnown s => L [A 1; of_atoms s] end.
Definition of_iattrs (a : iattrs) : sexp :=
  match a with
  | IANone => L [A 0]
  | IAUnknownKeys => L [A 1]
  | IAKnownMap m => L [A 2; L (A SETTAG :: map (fun kv => L [of_atoms (fst kv); of_iattr (snd kv)]) m)]
  end.
Definition skind_code (k : skind) : N :=
  match k with
  | SkImport => 0 | SkImportDefer => 1 | SkImportSource => 2 | SkImportType => 3 | SkImportEquals => 4
  | SkExport => 5 | SkExportType => 6 | SkExportEquals => 7 | SkMaybeTsModuleAugmentation => 8
  end.
Definition dkind_code (k : dkind) : N :=
  match k with DkImport => 0 | DkImportDefer => 1 | DkImportSource => 2 | DkRequire => 3 end.
Definition rmode_code (m : rmode) : N := match m with RmRequire => 0 | RmImport => 1 end.
Definition of_tpart (p : tpart) : sexp := match p with TpString v => L [A 0; of_atoms v] | TpExpr => L [A 1] end.
Definition of_darg (a : darg) : sexp :=
  match a with
  | DaString s => L [A 0; of_atoms s]
  | DaTemplate l => L [A 1; L (map of_tpart l)]
  | DaExpr => L [A 2]
  end.
Definition of_desc (d : desc) : sexp :=
  match d with
  | DStatic s => L [A 0; A (skind_code (sd_kind s)); of_option of_swr (sd_types s); of_atoms (sd_spec s);
                    of_range (sd_range s); of_bool (sd_side s); of_iattrs (sd_attrs s)]
  | DDynamic s => L [A 1; A (dkind_code (dd_kind s)); of_option of_swr (dd_types s); of_darg (dd_arg s);
                     of_range (dd_range s); of_iattrs (dd_attrs s)]
  end.
Definition of_mode (m : option rmode) : sexp := of_option (fun x => A (rmode_code x)) m.
Definition of_tsref (r : tsref) : sexp :=
  match r with TrPath s => L [A 0; of_swr s] | TrTypes s m => L [A 1; of_swr s; of_mode m] end.
Definition of_jsdoc (d : jsdoc) : sexp := L [of_swr (jd_spec d); of_mode (jd_mode d)].
Definition of_info (mi : minfo) : sexp :=
  L [of_bool (mi_script mi); L (map of_desc (mi_deps mi)); L (map of_tsref (mi_tsrefs mi));
     of_option of_swr (mi_self mi); of_option of_swr (mi_jsx mi); of_option of_swr (mi_jsxt mi);
     L (map of_jsdoc (mi_jsdoc mi)); of_option of_swr (mi_smap mi)].

Definition as_pos (s : sexp) : option pos :=
  match s with L [A a; A b] => Some {| p_line := a; p_char := b |} | _ => None end.
Definition as_range (s : sexp) : option prange :=
  match s with L [a; b] => do x <- as_pos a; do y <- as_pos b; Some {| r_start := x; r_end := y |} | _ => None end.
Definition as_swr (s : sexp) : option swr :=
  match s with L [t; r] => do x <- as_atoms t; do y <- as_range r; Some {| s_text := x; s_range := y |} | _ => None end.
Definition as_iattr (s : sexp) : option iattr :=
  match s with L [A 0] => Some IAUnknown | L [A 1; t] => do x <- as_atoms t; Some (IAKnown x) | _ => None end.
Definition as_iattrs (s : sexp) : option iattrs :=
  match s with
  | L [A 0] => Some IANone
  | L [A 1] => Some IAUnknownKeys
  | L [A 2; m] => do m' <- as_list_of (as_pair as_atoms as_iattr) m; Some (IAKnownMap m')
  | _ => None
  end.
Definition as_skind (s : sexp) : option skind :=
  match s with
  | A 0 => Some SkImport | A 1 => Some SkImportDefer | A 2 => Some SkImportSource | A 3 => Some SkImportType
  | A 4 => Some SkImportEquals | A 5 => Some SkExport | A 6 => Some SkExportType | A 7 => Some SkExportEquals
  | A 8 => Some SkMaybeTsModuleAugmentation | _ => None
  end.
Definition as_dkind (s : sexp) : option dkind :=
  match s with
  | A 0 => Some DkImport | A 1 => Some DkImportDefer | A 2 => Some DkImportSource | A 3 => Some DkRequire
  | _ => None
  end.
Definition as_rmode (s : sexp) : option rmode :=
  match s with A 0 => Some RmRequire | A 1 => Some RmImport | _ => None end.
Definition as_tpart (s : sexp) : option tpart :=
  match s with L [A 0; t] => do x <- as_atoms t; Some (TpString x) | L [A 1] => Some TpExpr | _ => None end.
Definition as_darg (s : sexp) : option darg :=
  match s with
  | L [A 0; t] => do x <- as_atoms t; Some (DaString x)
  | L [A 1; l] => do x <- as_list_of as_tpart l; Some (DaTemplate x)
  | L [A 2] => Some DaExpr
  | _ => None
  end.
Definition as_desc (s : sexp) : option desc :=
  match s with
  | L [A 0; k; t; sp; r; e; a] =>
      do k' <- as_skind k; do t' <- as_option as_swr t; do sp' <- as_atoms sp; do r' <- as_range r;
      do e' <- as_bool e; do a' <- as_iattrs a;
      Some (DStatic {| sd_kind := k'; sd_types := t'; sd_spec := sp'; sd_range := r'; sd_side := e'; sd_attrs := a' |})
  | L [A 1; k; t; g; r; a] =>
      do k' <- as_dkind k; do t' <- as_option as_swr t; do g' <- as_darg g; do r' <- as_range r;
      do a' <- as_iattrs a;
      Some (DDynamic {| dd_kind := k'; dd_types := t'; dd_arg := g'; dd_range := r'; dd_attrs := a' |})
  | _ => None
  end.
Definition as_tsref (s : sexp) : option tsref :=
  match s with
  | L [A 0; x] => do x' <- as_swr x; Some (TrPath x')
  | L [A 1; x; m] => do x' <- as_swr x; do m' <- as_option as_rmode m; Some (TrTypes x' m')
  | _ => None
  end.
Definition as_jsdoc (s : sexp) : option jsdoc :=
  match s with
  | L [x; m] => do x' <- as_swr x; do m' <- as_option as_rmode m; Some {| jd_spec := x'; jd_mode := m' |}
  | _ => None
  end.
Definition as_info (s : sexp) : option minfo :=
  match s with
  | L [a; b; c; d; e; f; g; h] =>
      do a' <- as_bool a; do b' <- as_list_of as_desc b; do c' <- as_list_of as_tsref c;
      do d' <- as_option as_swr d; do e' <- as_option as_swr e; do f' <- as_option as_swr f;
      do g' <- as_list_of as_jsdoc g; do h' <- as_option as_swr h;
      Some {| mi_script := a'; mi_deps := b'; mi_tsrefs := c'; mi_self := d'; mi_jsx := e'; mi_jsxt := f';
              mi_jsdoc := g'; mi_smap := h' |}
  | _ => None
  end.

(* ---- find_deno_types as a table computed by the real function *)
Definition as_fdt_entry (s : sexp) : option (str * option (str * N * N)) :=
  match s with
  | L [k; L []] => do k' <- as_atoms k; Some (k', None)
  | L [k; L [t; A a; A b]] => do k' <- as_atoms k; do t' <- as_atoms t; Some (k', Some (t', a, b))
  | _ => None
  end.
Definition fdt_of_table (tbl : list (str * option (str * N * N))) : fdt_fun :=
  fun s => match sget s tbl with Some r => r | None => None end.

Definition run_c13 (input : sexp) : sexp :=
  match input with
  | L [A 1; mi; j] =>
      match as_info mi, as_json j with
      | Some mi', Some j' =>
          L [of_json (enc_module_info mi');
             of_option of_info (dec_module_info j');
             judge (wf_infob mi' && roundtrip_holdsb mi' j')]
      | _, _ => decode_error
      end
  | L [A 2; j] =>
      match as_json j with
      | Some j' => L [of_option of_info (dec_module_info j')]
      | None => decode_error
      end
  | L [A 3; j; tbl; real] =>
      match as_json j, as_list_of as_fdt_entry tbl, as_option as_info real with
      | Some j', Some tbl', Some real' =>
          let fdt := fdt_of_table tbl' in
          let u := upgrade_v1 fdt j' in
          L [of_json u;
             of_option of_info (dec_module_info u);
             judge (match real' with Some r => v1_holdsb fdt j' r | None => true end)]
      | _, _, _ => decode_error
      end
  | L [A 4; mg2; mg1; spec; tbl] =>
      match as_option as_json mg2, as_option as_json mg1, as_atoms spec, as_list_of as_fdt_entry tbl with
      | Some mg2', Some mg1', Some spec', Some tbl' =>
          L [of_option of_info (pkg_module_info (fdt_of_table tbl') mg2' mg1' spec')]
      | _, _, _, _ => decode_error
      end
  | _ => decode_error
  end.
