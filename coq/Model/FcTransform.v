(* C10 (model part): a Gallina transcription of the fast-check transform on the
   FUNCTION-LIKE fragment - transform_fn, transform_arrow,
   transform_function_body_block_stmt, handle_param_pat, ParamsOptionalStartIndex,
   maybe_transform_expr_if_leavable, maybe_infer_type_from_expr,
   infer_simple_type_from_type (src/fast_check/transform.rs:1117-1509,
   1748-1945, 2111-2268), analyze_return_stmts_in_function_body
   (src/fast_check/swc_helpers.rs:40-119) and the constructor / parameter-property
   part of transform_class_member (transform.rs:778-966) - on SOURCE summaries
   computed by the harness from the deno_ast AST of the original module.

   The model runs in "collect" mode (should_error_on_first_diagnostic = false,
   what WorkspaceFastCheckOption::Enabled selects): it returns the emitted
   summary together with the list of diagnostics in the order the transform
   raises them; the first-error mode is the head of that list ([first_error]).

   Source vocabulary.
     sty     type annotation classes of infer_simple_type_from_type
     sx      expression classes: SAbsent | SLit (literal except JSX text) | SIdent (this,
             identifier) | SNode l (array / object / unary / update / binary / conditional /
             member / await / `as const` / `!` over the children the transform visits, in
             visiting order) | STpl l (untagged template) | SAs t e (`e as T`, `<T>e`) |
             SSat e (`e satisfies T`) | SSymbol (`Symbol()`, `Symbol("d")`, `Symbol.for("d")`
             on the global Symbol) | SFnE f | SArrowE f | SOtherE (everything else)
     sstmt   statement tree as far as the return analysis looks
     sparam  (pattern class of the binding, annotation class, `?`, default, parameter property)
     sfn     (kind, parameters, return annotation class, return annotation is the keyword
             `void`, async, generator, body, has decorators) *)
From DG Require Import Base.Util Base.Sexp Model.FcSummary.

Inductive sty : Type :=
| TKeyword (kw : N) (* 1 any | 2 void | 0 other keyword *) | TThis | TFnOrCtor | TRef (args : list sty) | TQuery | TLitT (ok : bool)
| TTypeLit | TTuple (l : list sty) | TArray (t : sty) | TOptional (t : sty) | TRest (t : sty)
| TUnion (l : list sty) | TInter (l : list sty) | TCond | TInfer | TParen (t : sty) | TOperator (t : sty)
| TIndexed | TMapped | TPredicate | TImport.

(* infer_simple_type_from_type t is Some *)
Fixpoint simple_ty (t : sty) : bool :=
  match t with
  | TKeyword _ | TThis | TTypeLit => true
  | TFnOrCtor | TQuery | TCond | TInfer | TIndexed | TMapped | TPredicate | TImport => false
  | TRef args => forallb simple_ty args
  | TLitT ok => ok
  | TTuple l | TUnion l | TInter l => forallb simple_ty l
  | TArray t' | TOptional t' | TRest t' | TParen t' | TOperator t' => simple_ty t'
  end.

Definition sty_cls (t : sty) : tycls := match t with TKeyword 1 => TyAny | _ => TyOther end.
Definition sty_void (t : sty) : bool := match t with TKeyword 2 => true | _ => false end.

Inductive sstmt : Type :=
| SReturn (has_arg : bool)
| SBlockS (l : list sstmt)                     (* block *)
| SBodyOf (s : sstmt)                          (* with / labeled / while / do-while / for / for-in / for-of *)
| SIf (cons : sstmt) (alt : option sstmt)      (* only the consequent is analysed *)
| SSwitch (cases : list (list sstmt))
| STry (block : list sstmt) (handler : option (list sstmt)) (finalizer : option (list sstmt))
| SSuperCall                                   (* expression statement `super(...)` *)
| SSkip.                                       (* break, continue, throw, debugger, declaration, expression, empty *)

Inductive sx : Type :=
| SAbsent | SLit | SIdent
| SNode (l : list sx)
| STpl (l : list sx)
| SAs (t : sty) (e : sx)
| SSat (e : sx)
| SSymbol
| SFnE (f : sfn)
| SArrowE (f : sfn)
| SOtherE
with sfn : Type :=
| SFn (k : fkind) (ps : list sparam) (ret : tycls) (ret_void : bool) (is_async is_gen : bool) (b : sbody) (decos : bool)
with sparam : Type :=
| SParam (pat : patcls) (ty : tycls) (optional : bool) (d : sx) (prop : option (acc * bool))
with sbody : Type :=
| SBNone | SBBlock (stmts : list sstmt) | SBExpr (e : sx).

(* ---- strong induction for the source family *)
Section SxInd.
  Variables (Pe : sx -> Prop) (Pf : sfn -> Prop) (Pp : sparam -> Prop) (Pb : sbody -> Prop).
  Hypothesis HAbsent : Pe SAbsent.
  Hypothesis HLit : Pe SLit.
  Hypothesis HIdent : Pe SIdent.
  Hypothesis HNode : forall l, Forall Pe l -> Pe (SNode l).
  Hypothesis HTpl : forall l, Forall Pe l -> Pe (STpl l).
  Hypothesis HAs : forall t e, Pe e -> Pe (SAs t e).
  Hypothesis HSat : forall e, Pe e -> Pe (SSat e).
  Hypothesis HSymbol : Pe SSymbol.
  Hypothesis HFnE : forall f, Pf f -> Pe (SFnE f).
  Hypothesis HArrowE : forall f, Pf f -> Pe (SArrowE f).
  Hypothesis HOtherE : Pe SOtherE.
  Hypothesis HFn : forall k ps ret rv a g b d, Forall Pp ps -> Pb b -> Pf (SFn k ps ret rv a g b d).
  Hypothesis HParam : forall pat ty opt d prop, Pe d -> Pp (SParam pat ty opt d prop).
  Hypothesis HBNone : Pb SBNone.
  Hypothesis HBBlock : forall s, Pb (SBBlock s).
  Hypothesis HBExpr : forall e, Pe e -> Pb (SBExpr e).

  Fixpoint sx_ind_strong (e : sx) : Pe e :=
    match e return Pe e with
    | SAbsent => HAbsent
    | SLit => HLit
    | SIdent => HIdent
    | SNode l => HNode l ((fix go (l : list sx) : Forall Pe l :=
                             match l return Forall Pe l with
                             | [] => Forall_nil Pe
                             | x :: r => Forall_cons x (sx_ind_strong x) (go r)
                             end) l)
    | STpl l => HTpl l ((fix go (l : list sx) : Forall Pe l :=
                           match l return Forall Pe l with
                           | [] => Forall_nil Pe
                           | x :: r => Forall_cons x (sx_ind_strong x) (go r)
                           end) l)
    | SAs t e' => HAs t e' (sx_ind_strong e')
    | SSat e' => HSat e' (sx_ind_strong e')
    | SSymbol => HSymbol
    | SFnE f => HFnE f (sfn_ind_strong f)
    | SArrowE f => HArrowE f (sfn_ind_strong f)
    | SOtherE => HOtherE
    end
  with sfn_ind_strong (f : sfn) : Pf f :=
    match f return Pf f with
    | SFn k ps ret rv a g b d =>
        HFn k ps ret rv a g b d
          ((fix go (l : list sparam) : Forall Pp l :=
              match l return Forall Pp l with
              | [] => Forall_nil Pp
              | x :: r => Forall_cons x (sparam_ind_strong x) (go r)
              end) ps)
          (sbody_ind_strong b)
    end
  with sparam_ind_strong (p : sparam) : Pp p :=
    match p return Pp p with
    | SParam pat ty opt d prop => HParam pat ty opt d prop (sx_ind_strong d)
    end
  with sbody_ind_strong (b : sbody) : Pb b :=
    match b return Pb b with
    | SBNone => HBNone
    | SBBlock s => HBBlock s
    | SBExpr e => HBExpr e (sx_ind_strong e)
    end.

  Lemma sx_family_ind : (forall e, Pe e) /\ (forall f, Pf f) /\ (forall p, Pp p) /\ (forall b, Pb b).
  Proof.
    repeat split; [exact sx_ind_strong | exact sfn_ind_strong | exact sparam_ind_strong | exact sbody_ind_strong].
  Qed.
End SxInd.

(* ================================================================ return analysis *)

Inductive ranalysis := RNoneA | RVoidA | RSingleA | RMultipleA.

(* one `return`: (new state, break) *)
Definition step_return (has_arg : bool) (a : ranalysis) : ranalysis * bool :=
  match has_arg, a with
  | false, RNoneA => (RVoidA, false)
  | false, RVoidA => (RVoidA, false)
  | true, RNoneA | true, RVoidA => (RSingleA, false)
  | _, RSingleA => (RMultipleA, true)
  | _, RMultipleA => (RMultipleA, true)
  end.

(* analyze_return_stmts_from_stmt: state threaded, [true] = ControlFlow::Break *)
Fixpoint an_stmt (s : sstmt) (a : ranalysis) : ranalysis * bool :=
  match s with
  | SReturn arg => step_return arg a
  | SBlockS l => (fix go (l : list sstmt) (a : ranalysis) : ranalysis * bool :=
                    match l with
                    | [] => (a, false)
                    | x :: r => let (a', brk) := an_stmt x a in if brk then (a', true) else go r a'
                    end) l a
  | SBodyOf s' => an_stmt s' a
  | SIf c _ => an_stmt c a
  | SSwitch cases =>
      (fix goc (cs : list (list sstmt)) (a : ranalysis) : ranalysis * bool :=
         match cs with
         | [] => (a, false)
         | c :: r =>
             let (a', brk) :=
               (fix go (l : list sstmt) (a : ranalysis) : ranalysis * bool :=
                  match l with
                  | [] => (a, false)
                  | x :: r' => let (a', brk) := an_stmt x a in if brk then (a', true) else go r' a'
                  end) c a in
             if brk then (a', true) else goc r a'
         end) cases a
  | STry b h f =>
      let go := (fix go (l : list sstmt) (a : ranalysis) : ranalysis * bool :=
                   match l with
                   | [] => (a, false)
                   | x :: r => let (a', brk) := an_stmt x a in if brk then (a', true) else go r a'
                   end) in
      let (a1, b1) := go b a in
      if b1 then (a1, true) else
      let (a2, b2) := match h with Some hl => go hl a1 | None => (a1, false) end in
      if b2 then (a2, true) else
      match f with Some fl => go fl a2 | None => (a2, false) end
  | SSuperCall | SSkip => (a, false)
  end.

Fixpoint an_stmts (l : list sstmt) (a : ranalysis) : ranalysis * bool :=
  match l with
  | [] => (a, false)
  | x :: r => let (a', brk) := an_stmt x a in if brk then (a', true) else an_stmts r a'
  end.

Definition analyze_body (stmts : list sstmt) : ranalysis :=
  match stmts with
  | [] => RVoidA
  | _ => fst (an_stmts stmts RNoneA)
  end.

(* ================================================================ the transform *)

(* diagnostic codes *)
Definition D_MISSING_TYPE : N := 1.          (* missing-explicit-type *)
Definition D_MISSING_RETURN : N := 2.        (* missing-explicit-return-type *)
Definition D_DESTRUCTURING : N := 3.         (* unsupported-destructuring *)

Definition ty_of (c : tycls) : tyinfo := {| ty_cls := c; ty_id := 0; ty_strip := None; ty_paren := false |}.

(* maybe_infer_type_from_expr: the class of the inferred annotation *)
Fixpoint infer (e : sx) : option (tycls * bool) :=
  match e with
  | SLit => Some (TyOther, false)
  | STpl _ => Some (TyOther, false)
  | SAs t _ => if simple_ty t then Some (sty_cls t, sty_void t) else None
  | SSat e' => infer e'
  | SSymbol => Some (TyOther, false)
  | _ => None
  end.

Definition is_arrow_kind (k : fkind) : bool := match k with FArrow => true | _ => false end.

Definition sx_absent (e : sx) : bool := match e with SAbsent => true | _ => false end.

(* ParamsOptionalStartIndex *)
Definition pat_is_optional (p : sparam) : bool :=
  match p with
  | SParam pat _ opt d _ =>
      if sx_absent d
      then match pat with PIdent | PArray | PObject => opt | PRest => true | POtherPat => false end
      else true   (* Pat::Assign *)
  end.

Fixpoint optional_start_aux (ps : list sparam) (i : nat) (cur : option nat) : option nat :=
  match ps with
  | [] => cur
  | p :: r =>
      if pat_is_optional p
      then optional_start_aux r (S i) (match cur with None => Some i | Some _ => cur end)
      else optional_start_aux r (S i) None
  end.
Definition optional_start (ps : list sparam) : option nat := optional_start_aux ps 0 None.
Definition is_optional_at (start : option nat) (i : nat) : bool :=
  match start with Some s => Nat.leb s i | None => false end.

Definition kind_decl_like (k : fkind) : bool := match k with FDecl | FMethod => true | _ => false end.
Definition kind_expr_like (k : fkind) : bool := match k with FExpr | FArrow => true | _ => false end.

(* transform_function_body_block_stmt: Some void-return | diagnostic *)
Definition body_return (k : fkind) (a : ranalysis) : bool (* true = infer void *) :=
  match a with
  | RNoneA => kind_decl_like k
  | RVoidA => kind_decl_like k || kind_expr_like k
  | RSingleA | RMultipleA => false
  end.

(* children of a node are visited in order until the first one that is not leavable *)
Section LeavList.
  Variable A : Type.
  Variable f : A -> bool * ecls * list N.
  Fixpoint tleav_list (l : list A) : bool * list ecls * list N :=
    match l with
    | [] => (true, [], [])
    | x :: r =>
        let '(okx, x', dx) := f x in
        if okx then let '(okr, r', dr) := tleav_list r in (okr, x' :: r', dx ++ dr)
        else (false, [x'], dx)
    end.
End LeavList.
Arguments tleav_list {A} f l.

Definition overload_param (p : sparam) : param :=
  match p with
  | SParam PRest _ _ SAbsent _ => Param PRest (ty_of TyAny) false ENone false false None 0
  | _ => Param PIdent (ty_of TyAny) true ENone false false None 0
  end.

Section ParamList.
  Variable tp : sparam -> bool -> param * list N.
  Variable is_overload : bool.
  Variable start : option nat.
  Fixpoint tparams_list (l : list sparam) (i : nat) : list param * list N :=
    match l with
    | [] => ([], [])
    | p :: r =>
        let (p', dp) := (if is_overload then (overload_param p, []) else tp p (is_optional_at start i)) in
        let (r', dr) := tparams_list r (S i) in
        (p' :: r', dp ++ dr)
    end.
End ParamList.

Section Transform.
  (* the three mutually recursive pieces; diagnostics are appended in raising order *)

  Fixpoint tleav (e : sx) {struct e} : bool * ecls * list N :=
    match e with
    | SAbsent => (false, ENone, [])
    | SLit | SIdent => (true, ELeaf, [])
    | SNode l =>
        let '(ok, l', ds) :=
          tleav_list tleav l in
        (ok, ENode l', ds)
    | STpl l =>
        let '(ok, l', ds) :=
          tleav_list tleav l in
        (ok, ENode l', ds)
    | SAs _ _ => (true, EAs EPlaceholder, [])
    | SSat e' => let '(ok, e'', ds) := tleav e' in (ok, ENode [e''], ds)
    | SSymbol => (false, EOther, [])
    | SFnE f => let (f', ds) := tfn false f in (true, EFun f', ds)
    | SArrowE f => let (f', ds) := tfn false f in (true, EFun f', ds)
    | SOtherE => (false, EOther, [])
    end
  (* transform_fn (function, method, accessor, function expression) and transform_arrow (kind FArrow) *)
  with tfn (is_overload : bool) (f : sfn) {struct f} : fnsum * list N :=
    match f with
    | SFn k ps ret rv a g b decos =>
        let start := optional_start ps in
        let '(ps', dps) :=
          tparams_list tparam is_overload start ps 0%nat in
        if is_arrow_kind k then
          (* transform_arrow *)
          let '(ret', rv', dret) :=
            match ret with
            | TyNone =>
                match b with
                | SBBlock stmts =>
                    if body_return FArrow (analyze_body stmts) then (TyOther, negb a, [])
                    else (TyNone, false, [D_MISSING_RETURN])
                | SBExpr e =>
                    match infer e with
                    | Some (c, v) => ((if a then TyOther else c), (if a then false else v), [])
                    | None =>
                        let '(ok, _, de) := tleav e in
                        (TyNone, false, de ++ (if ok then [] else [D_MISSING_RETURN]))
                    end
                | SBNone => (TyNone, false, [D_MISSING_RETURN])   (* not a possible input: an arrow has a body *)
                end
            | _ => (ret, rv, [])
            end in
          let body' :=
            match ret' with
            | TyNone => match b with
                        | SBExpr e => let '(_, e', _) := tleav e in BExpr e'
                        | SBBlock _ => BOther
                        | SBNone => BNone
                        end
            | _ => if rv' then BEmpty else BExpr EPlaceholder
            end in
          let async' := match ret' with TyNone => a | _ => false end in
          (FnSum FArrow ps' (ty_of ret') async' false body' false 0 0 false, dret ++ dps)
        else
          (* transform_fn *)
          let ret0 := if is_overload then TyAny else ret in
          let rv0 := if is_overload then false else rv in
          let missing := match k with FSetter => false | _ => match ret0 with TyNone => true | _ => false end end in
          let '(ret', rv', dret) :=
            if missing then
              if g then (TyNone, false, [D_MISSING_RETURN])
              else match b with
                   | SBBlock stmts =>
                       if body_return k (analyze_body stmts) then (TyOther, negb a, [])
                       else (TyNone, false, [D_MISSING_RETURN])
                   | SBNone => (TyNone, false, [])               (* signature: nothing is checked *)
                   | SBExpr _ => (TyNone, false, [D_MISSING_RETURN])   (* not a possible input *)
                   end
            else (ret0, rv0, []) in
          let body' :=
            match b with
            | SBNone => BNone
            | _ => match ret' with
                   | TyNone => BEmpty
                   | _ => if rv' then BEmpty else BRet
                   end
            end in
          (FnSum k ps' (ty_of ret') false false body' false 0 0 false, dret ++ dps)
    end
  (* handle_param_pat *)
  with tparam (p : sparam) (is_optional : bool) {struct p} : param * list N :=
    match p with
    | SParam pat ty opt d _ =>
        if sx_absent d then
            match pat with
            | POtherPat => (Param pat (ty_of ty) opt ENone false true None 0, [D_DESTRUCTURING])
            | _ => (Param pat (ty_of ty) opt ENone false false None 0,
                    match ty with TyNone => [D_MISSING_TYPE] | _ => [] end)
            end
        else
            match pat with
            | PIdent =>
                match ty with
                | TyNone =>
                    match infer d with
                    | Some (c, _) =>
                        (if is_optional then Param PIdent (ty_of c) true ENone false false None 0
                         else Param PIdent (ty_of TyOther) false ENone false false None 0, [])
                    | None =>
                        let '(ok, d', dd) := tleav d in
                        (Param PIdent (ty_of TyNone) opt d' false false None 0,
                         dd ++ (if ok then [] else [D_MISSING_TYPE]))
                    end
                | _ =>
                    (if is_optional then Param PIdent (ty_of ty) true ENone false false None 0
                     else Param PIdent (ty_of TyOther) false ENone false false None 0, [])
                end
            | PArray | PObject =>
                match ty with
                | TyNone =>
                    let '(ok, d', dd) := tleav d in
                    (Param pat (ty_of TyNone) opt d' false false None 0, dd ++ (if ok then [] else [D_MISSING_TYPE]))
                | _ => (Param pat (ty_of ty) opt EPlaceholder false false None 0, [])
                end
            | _ => (Param pat (ty_of ty) opt ENone false true None 0, [D_DESTRUCTURING])
            end
    end.
End Transform.

(* first-error mode (should_error_on_first_diagnostic): the transform stops at the first diagnostic *)
Definition first_error (ds : list N) : list N := match ds with [] => [] | d :: _ => [d] end.

(* ================================================================ constructors and parameter properties *)

Definition acc_of_prop (a : acc) : acc := a.

(* the property declaration inserted for one parameter property (transform.rs:806-895) *)
Definition tparamprop (p : sparam) : option (member * list N) :=
  match p with
  | SParam pat ty opt d (Some (a, ro)) =>
      match pat with
      | PIdent =>
          let is_assign := negb (sx_absent d) in
          let ty' :=
            match a with
            | AccPrivate => TyAny
            | _ => match ty with
                   | TyNone => if is_assign then match infer d with Some (c, _) => c | None => TyNone end else TyNone
                   | _ => ty
                   end
            end in
          Some (MProp {| k_cls := KIdent; k_id := 0 |} a false (ty_of ty') true false
                      (if is_assign then false else opt) ro false false ENone false, [])
      | _ => Some (MEmpty, [D_DESTRUCTURING])
      end
  | _ => None
  end.

Fixpoint count_super (l : list sstmt) : N :=
  match l with
  | [] => 0
  | SSuperCall :: r => 1 + count_super r
  | _ :: r => count_super r
  end.

(* transform_class_member, ClassMember::Constructor: (inserted properties, constructor, diagnostics) *)
Definition tctor (a : acc) (is_overload : bool) (f : sfn) : list member * fnsum * list N :=
  match f with
  | SFn _ ps _ _ _ _ b _ =>
      let body' := match b with
                   | SBBlock stmts => match count_super stmts with 0 => BEmpty | n => BSuper n end
                   | _ => BNone
                   end in
      let props := flat_map (fun p => match tparamprop p with Some (m, _) => [m] | None => [] end) ps in
      let dprops := flat_map (fun p => match tparamprop p with Some (_, d) => d | None => [] end) ps in
      match a with
      | AccPrivate => (props, FnSum FCtor [] (ty_of TyNone) false false body' false 0 0 false, dprops)
      | _ =>
          let start := optional_start ps in
          let '(ps', dps) :=
            tparams_list tparam is_overload start ps 0%nat in
          (props, FnSum FCtor ps' (ty_of TyNone) false false body' false 0 0 false, dprops ++ dps)
      end
  end.

(* ================================================================ wire: encoders of (normalised) emitted shapes *)

Definition enc_tycls (c : tycls) : sexp := A (match c with TyNone => 0 | TyAny => 1 | TyOther => 2 end).
Definition enc_ty (t : tyinfo) : sexp := L [enc_tycls (ty_cls t); A 0; L []; A 0].
Definition enc_fkind (k : fkind) : N :=
  match k with FDecl => 0 | FExpr => 1 | FArrow => 2 | FMethod => 3 | FGetter => 4 | FSetter => 5 | FCtor => 6 end.
Definition enc_patcls (p : patcls) : N :=
  match p with PIdent => 0 | PArray => 1 | PObject => 2 | PRest => 3 | POtherPat => 4 end.
Definition enc_acc (a : acc) : N := match a with AccPublic => 0 | AccProtected => 1 | AccPrivate => 2 end.

Fixpoint enc_ecls (e : ecls) : sexp :=
  match e with
  | ENone => L [A 0]
  | EPlaceholder => L [A 1]
  | ELeaf => L [A 2]
  | ENode l => L (A 3 :: map enc_ecls l)
  | EAs e' => L [A 4; enc_ecls e']
  | EFun f => L [A 5; enc_fn f]
  | EOther => L [A 6]
  end
with enc_fn (f : fnsum) : sexp :=
  match f with
  | FnSum k ps ret a g b d _ _ _ =>
      L [A (enc_fkind k); L (map enc_param ps); enc_ty ret; of_bool a; of_bool g;
         match b with
         | BNone => L [A 0] | BEmpty => L [A 1] | BRet => L [A 2] | BSuper n => L [A 3; A n]
         | BExpr e => L [A 4; enc_ecls e] | BOther => L [A 5]
         end;
         of_bool d; A 0; A 0; A 0]
  end
with enc_param (p : param) : sexp :=
  match p with
  | Param pat ty opt d decos inits _ _ =>
      L [A (enc_patcls pat); enc_ty ty; of_bool opt; enc_ecls d; of_bool decos; of_bool inits; L []; A 0]
  end.

Definition enc_member (m : member) : sexp :=
  match m with
  | MProp _ a st ty de df op ro ab ov init decos =>
      L [A 2; L [A 0; A 0]; A (enc_acc a); of_bool st; enc_ty ty; of_bool de; of_bool df; of_bool op; of_bool ro;
         of_bool ab; of_bool ov; enc_ecls init; of_bool decos]
  | _ => L [A 6]
  end.

(* ================================================================ wire: decoders of the source summaries *)

Fixpoint dec_sty (s : sexp) : option sty :=
  match s with
  | L [A 0; A k] => Some (TKeyword k)
  | L [A 1] => Some TThis
  | L [A 2] => Some TFnOrCtor
  | L (A 3 :: args) =>
      do l <- ((fix go (l0 : list sexp) : option (list sty) :=
                  match l0 with [] => Some [] | x :: r =>
                    match dec_sty x with None => None | Some a0 =>
                      match go r with None => None | Some b0 => Some (a0 :: b0) end end end) args);
      Some (TRef l)
  | L [A 4] => Some TQuery
  | L [A 5; ok] => do ok' <- as_bool ok; Some (TLitT ok')
  | L [A 6] => Some TTypeLit
  | L (A 7 :: args) =>
      do l <- ((fix go (l0 : list sexp) : option (list sty) :=
                  match l0 with [] => Some [] | x :: r =>
                    match dec_sty x with None => None | Some a0 =>
                      match go r with None => None | Some b0 => Some (a0 :: b0) end end end) args);
      Some (TTuple l)
  | L [A 8; t] => do t' <- dec_sty t; Some (TArray t')
  | L [A 9; t] => do t' <- dec_sty t; Some (TOptional t')
  | L [A 10; t] => do t' <- dec_sty t; Some (TRest t')
  | L (A 11 :: args) =>
      do l <- ((fix go (l0 : list sexp) : option (list sty) :=
                  match l0 with [] => Some [] | x :: r =>
                    match dec_sty x with None => None | Some a0 =>
                      match go r with None => None | Some b0 => Some (a0 :: b0) end end end) args);
      Some (TUnion l)
  | L (A 12 :: args) =>
      do l <- ((fix go (l0 : list sexp) : option (list sty) :=
                  match l0 with [] => Some [] | x :: r =>
                    match dec_sty x with None => None | Some a0 =>
                      match go r with None => None | Some b0 => Some (a0 :: b0) end end end) args);
      Some (TInter l)
  | L [A 13] => Some TCond
  | L [A 14] => Some TInfer
  | L [A 15; t] => do t' <- dec_sty t; Some (TParen t')
  | L [A 16; t] => do t' <- dec_sty t; Some (TOperator t')
  | L [A 17] => Some TIndexed
  | L [A 18] => Some TMapped
  | L [A 19] => Some TPredicate
  | L [A 20] => Some TImport
  | _ => None
  end.

Fixpoint dec_sstmt (s : sexp) : option sstmt :=
  let dec_list := (fix go (l0 : list sexp) : option (list sstmt) :=
                     match l0 with [] => Some [] | x :: r =>
                       match dec_sstmt x with None => None | Some a0 =>
                         match go r with None => None | Some b0 => Some (a0 :: b0) end end end) in
  match s with
  | L [A 0; arg] => do arg' <- as_bool arg; Some (SReturn arg')
  | L (A 1 :: l) => do l' <- dec_list l; Some (SBlockS l')
  | L [A 2; b] => do b' <- dec_sstmt b; Some (SBodyOf b')
  | L [A 3; c] => do c' <- dec_sstmt c; Some (SIf c' None)
  | L [A 3; c; al] => do c' <- dec_sstmt c; do al' <- dec_sstmt al; Some (SIf c' (Some al'))
  | L (A 4 :: cases) =>
      do cs <- ((fix goc (l0 : list sexp) : option (list (list sstmt)) :=
                   match l0 with
                   | [] => Some []
                   | L c :: r =>
                       match dec_list c with None => None | Some a0 =>
                         match goc r with None => None | Some b0 => Some (a0 :: b0) end end
                   | _ => None
                   end) cases);
      Some (SSwitch cs)
  | L [A 5; L b; h; f] =>
      do b' <- dec_list b;
      do h' <- match h with L [] => Some None | L [L hl] => do x <- dec_list hl; Some (Some x) | _ => None end;
      do f' <- match f with L [] => Some None | L [L fl] => do x <- dec_list fl; Some (Some x) | _ => None end;
      Some (STry b' h' f')
  | L [A 6] => Some SSuperCall
  | L [A 7] => Some SSkip
  | _ => None
  end.

Fixpoint dec_sx (s : sexp) : option sx :=
  match s with
  | L [A 0] => Some SAbsent
  | L [A 1] => Some SLit
  | L [A 2] => Some SIdent
  | L (A 3 :: l) =>
      do l' <- ((fix go (l0 : list sexp) : option (list sx) :=
                   match l0 with [] => Some [] | x :: r =>
                     match dec_sx x with None => None | Some a0 =>
                       match go r with None => None | Some b0 => Some (a0 :: b0) end end end) l);
      Some (SNode l')
  | L (A 4 :: l) =>
      do l' <- ((fix go (l0 : list sexp) : option (list sx) :=
                   match l0 with [] => Some [] | x :: r =>
                     match dec_sx x with None => None | Some a0 =>
                       match go r with None => None | Some b0 => Some (a0 :: b0) end end end) l);
      Some (STpl l')
  | L [A 5; t; e] => do t' <- dec_sty t; do e' <- dec_sx e; Some (SAs t' e')
  | L [A 6; e] => do e' <- dec_sx e; Some (SSat e')
  | L [A 7] => Some SSymbol
  | L [A 8; f] => do f' <- dec_sfn f; Some (SFnE f')
  | L [A 9; f] => do f' <- dec_sfn f; Some (SArrowE f')
  | L [A 10] => Some SOtherE
  | _ => None
  end
with dec_sfn (s : sexp) : option sfn :=
  match s with
  | L [A k; L ps; A ret; rv; a; g; b; d] =>
      do k' <- dec_fkind k;
      do ps' <- ((fix go (l0 : list sexp) : option (list sparam) :=
                    match l0 with [] => Some [] | x :: r =>
                      match dec_sparam x with None => None | Some a0 =>
                        match go r with None => None | Some b0 => Some (a0 :: b0) end end end) ps);
      do ret' <- dec_tycls ret;
      do rv' <- as_bool rv; do a' <- as_bool a; do g' <- as_bool g;
      do b' <- dec_sbody b;
      do d' <- as_bool d;
      Some (SFn k' ps' ret' rv' a' g' b' d')
  | _ => None
  end
with dec_sparam (s : sexp) : option sparam :=
  match s with
  | L [A pat; A ty; opt; d; prop] =>
      do pat' <- dec_patcls pat; do ty' <- dec_tycls ty; do opt' <- as_bool opt; do d' <- dec_sx d;
      do prop' <- dec_prop prop;
      Some (SParam pat' ty' opt' d' prop')
  | _ => None
  end
with dec_sbody (s : sexp) : option sbody :=
  match s with
  | L [A 0] => Some SBNone
  | L (A 1 :: stmts) => do l <- map_opt dec_sstmt stmts; Some (SBBlock l)
  | L [A 2; e] => do e' <- dec_sx e; Some (SBExpr e')
  | _ => None
  end.

(* one unit = one public function-like of the source:
     (0 overload sfn)   function / method / accessor / function expression / arrow
     (1 acc overload sfn) constructor
   result: (1 (codes...)) when the transform raises diagnostics, else (0 shape [props]) *)
Definition run_unit (s : sexp) : sexp :=
  match s with
  | L [A 0; ov; f] =>
      match as_bool ov, dec_sfn f with
      | Some ov', Some f' =>
          let (out, ds) := tfn ov' f' in
          match ds with
          | [] => L [A 0; enc_fn out]
          | _ => L [A 1; of_atoms ds]
          end
      | _, _ => decode_error
      end
  | L [A 1; A a; ov; f] =>
      match dec_acc a, as_bool ov, dec_sfn f with
      | Some a', Some ov', Some f' =>
          let '(props, out, ds) := tctor a' ov' f' in
          match ds with
          | [] => L [A 0; enc_fn out; L (map enc_member props)]
          | _ => L [A 1; of_atoms ds]
          end
      | _, _, _ => decode_error
      end
  | _ => decode_error
  end.
