(* C10 / C11: the SUMMARY of a parsed TypeScript module in mini-TS vocabulary.

   The Rust harness (harness/src/fcheck/sum.rs) computes this summary from the
   deno_ast (SWC) AST of a module - the original one and the one fast check
   emitted - and sends it as an s-expression; the decoders below are the only
   reader.  Strings (names, canonical type texts = SWC's printer output with
   whitespace removed) are interned per case: equal id <-> equal string;
   id 0 = absent / empty, id 1 = "default".

   Wire format (all lists positional):
     tyinfo   (cls id strip paren)    cls 0 none | 1 `any` | 2 other; strip = () or (id of the
                                      annotation without a trailing `| undefined`); paren = the type
                                      is a function / constructor / conditional type (needs
                                      parentheses as a member of a union)
     ecls     (0) absent | (1) placeholder `{} as never` / `[] as never` / `[] as never[]`
              | (2) leaf: this, identifier, literal | (3 e...) array / object / unary / update /
              binary / conditional / member chain / await / template / `as const` / `!` /
              `satisfies` over the listed sub-expressions | (4 e) `e as T`, `<T>e`
              | (5 fn) function expression / arrow | (6) anything else (call, new, class
              expression, tagged template, assignment, yield, JSX, optional chain, object
              method/getter/setter, ...)
     body     (0) none | (1) `{}` | (2) `{ return <placeholder> }` | (3 n) n >= 1 statements, all
              `super(<placeholders>)` | (4 e) arrow expression body | (5) other
     param    (pat ty optional default decorators pattern_inits prop name)
              pat 0 ident | 1 array | 2 object | 3 rest | 4 other; pattern_inits = the
              binding pattern contains default values / computed keys; prop = () or
              ((accessibility readonly)) for a constructor parameter property
     fn       (kind (param...) ret async generator body decorators tparam_count tparams_id overload_impl)
              kind 0 declaration | 1 function expression | 2 arrow | 3 method | 4 getter | 5 setter | 6 constructor
     key      (cls id)  cls 0 ident | 1 string | 2 number | 3 computed | 4 #name | 5 `#private`
     member   (0 acc fn) | (1 key acc static abstract optional fn)
              | (2 key acc static ty declare definite optional readonly abstract override init decorators)
              | (3 key acc static ty init decorators)   auto accessor
              | (4 id) index signature | (5) static block | (6) empty
     class    (decorators super_cls super_id (implements...) tparam_count tparams_id abstract (member...))
              super_cls 0 none | 1 identifier / member chain | 2 other expression
     vdecl    (name pat ty init definite)
     item     (0 type_only src ((local imported kind)...))  import; kind 0 named | 1 default | 2 namespace
              (1 type_only (src)? ((orig exported kind)...)) export { }; kind 0 named | 1 `* as ns` | 2 default-from
              (2 type_only src)                              export *
              (3 ex name ambient fn) (4 ex name ambient class) (5 ex ambient kind (vdecl...))
              (6 ex name tparam_count tparams_id (extends...) body_id)   interface
              (7 ex name tparam_count tparams_id type_id)                type alias
              (8 ex name const text_id)                                  enum
              (9 ex name ambient (item...))                              namespace
              (10 e) export default <expr> | (11) statement that is not a declaration
              (12 code) 0 import x = A.B | 1 import x = require() | 2 export = | 3 export as namespace
                        | 4 using | 5 ambient module / global augmentation
              ex 0 none | 1 `export` | 2 `export default`
     module   (ambient (item...))       ambient = declaration file *)
From DG Require Import Base.Util Base.Sexp.

Inductive tycls := TyNone | TyAny | TyOther.
Record tyinfo := { ty_cls : tycls; ty_id : N; ty_strip : option N; ty_paren : bool }.

Inductive fkind := FDecl | FExpr | FArrow | FMethod | FGetter | FSetter | FCtor.
Inductive patcls := PIdent | PArray | PObject | PRest | POtherPat.
Inductive acc := AccPublic | AccProtected | AccPrivate.

Inductive ecls : Type :=
| ENone | EPlaceholder | ELeaf
| ENode (l : list ecls)
| EAs (e : ecls)
| EFun (f : fnsum)
| EOther
with fnsum : Type :=
| FnSum (k : fkind) (ps : list param) (ret : tyinfo) (is_async is_gen : bool) (b : body)
        (decos : bool) (tpc tpi : N) (ovl : bool)
with param : Type :=
| Param (pat : patcls) (ty : tyinfo) (optional : bool) (d : ecls) (decos pat_inits : bool)
        (prop : option (acc * bool)) (name : N)
with body : Type :=
| BNone | BEmpty | BRet | BSuper (n : N) | BExpr (e : ecls) | BOther.

Definition fn_kind (f : fnsum) : fkind := match f with FnSum k _ _ _ _ _ _ _ _ _ => k end.
Definition fn_params (f : fnsum) : list param := match f with FnSum _ ps _ _ _ _ _ _ _ _ => ps end.
Definition fn_ret (f : fnsum) : tyinfo := match f with FnSum _ _ r _ _ _ _ _ _ _ => r end.
Definition fn_async (f : fnsum) : bool := match f with FnSum _ _ _ a _ _ _ _ _ _ => a end.
Definition fn_gen (f : fnsum) : bool := match f with FnSum _ _ _ _ g _ _ _ _ _ => g end.
Definition fn_body (f : fnsum) : body := match f with FnSum _ _ _ _ _ b _ _ _ _ => b end.
Definition fn_decos (f : fnsum) : bool := match f with FnSum _ _ _ _ _ _ d _ _ _ => d end.
Definition fn_tpc (f : fnsum) : N := match f with FnSum _ _ _ _ _ _ _ c _ _ => c end.
Definition fn_tpi (f : fnsum) : N := match f with FnSum _ _ _ _ _ _ _ _ i _ => i end.
Definition fn_ovl (f : fnsum) : bool := match f with FnSum _ _ _ _ _ _ _ _ _ o => o end.

Definition p_pat (p : param) : patcls := match p with Param x _ _ _ _ _ _ _ => x end.
Definition p_ty (p : param) : tyinfo := match p with Param _ x _ _ _ _ _ _ => x end.
Definition p_optional (p : param) : bool := match p with Param _ _ x _ _ _ _ _ => x end.
Definition p_default (p : param) : ecls := match p with Param _ _ _ x _ _ _ _ => x end.
Definition p_decos (p : param) : bool := match p with Param _ _ _ _ x _ _ _ => x end.
Definition p_inits (p : param) : bool := match p with Param _ _ _ _ _ x _ _ => x end.
Definition p_prop (p : param) : option (acc * bool) := match p with Param _ _ _ _ _ _ x _ => x end.
Definition p_name (p : param) : N := match p with Param _ _ _ _ _ _ _ x => x end.

(* ---- strong induction principle for the nested mutual family *)
Section EclsInd.
  Variables (Pe : ecls -> Prop) (Pf : fnsum -> Prop) (Pp : param -> Prop) (Pb : body -> Prop).
  Hypothesis HNone : Pe ENone.
  Hypothesis HPlaceholder : Pe EPlaceholder.
  Hypothesis HLeaf : Pe ELeaf.
  Hypothesis HNode : forall l, Forall Pe l -> Pe (ENode l).
  Hypothesis HAs : forall e, Pe e -> Pe (EAs e).
  Hypothesis HFun : forall f, Pf f -> Pe (EFun f).
  Hypothesis HOther : Pe EOther.
  Hypothesis HFn : forall k ps ret a g b d c i o, Forall Pp ps -> Pb b -> Pf (FnSum k ps ret a g b d c i o).
  Hypothesis HParam : forall pat ty opt d decos inits prop name, Pe d -> Pp (Param pat ty opt d decos inits prop name).
  Hypothesis HBNone : Pb BNone.
  Hypothesis HBEmpty : Pb BEmpty.
  Hypothesis HBRet : Pb BRet.
  Hypothesis HBSuper : forall n, Pb (BSuper n).
  Hypothesis HBExpr : forall e, Pe e -> Pb (BExpr e).
  Hypothesis HBOther : Pb BOther.

  Fixpoint ecls_ind_strong (e : ecls) : Pe e :=
    match e return Pe e with
    | ENone => HNone
    | EPlaceholder => HPlaceholder
    | ELeaf => HLeaf
    | ENode l =>
        HNode l ((fix go (l : list ecls) : Forall Pe l :=
                    match l return Forall Pe l with
                    | [] => Forall_nil Pe
                    | x :: r => Forall_cons x (ecls_ind_strong x) (go r)
                    end) l)
    | EAs e' => HAs e' (ecls_ind_strong e')
    | EFun f => HFun f (fnsum_ind_strong f)
    | EOther => HOther
    end
  with fnsum_ind_strong (f : fnsum) : Pf f :=
    match f return Pf f with
    | FnSum k ps ret a g b d c i o =>
        HFn k ps ret a g b d c i o
          ((fix go (l : list param) : Forall Pp l :=
              match l return Forall Pp l with
              | [] => Forall_nil Pp
              | x :: r => Forall_cons x (param_ind_strong x) (go r)
              end) ps)
          (body_ind_strong b)
    end
  with param_ind_strong (p : param) : Pp p :=
    match p return Pp p with
    | Param pat ty opt d decos inits prop name => HParam pat ty opt d decos inits prop name (ecls_ind_strong d)
    end
  with body_ind_strong (b : body) : Pb b :=
    match b return Pb b with
    | BNone => HBNone
    | BEmpty => HBEmpty
    | BRet => HBRet
    | BSuper n => HBSuper n
    | BExpr e => HBExpr e (ecls_ind_strong e)
    | BOther => HBOther
    end.

  Lemma ecls_family_ind :
    (forall e, Pe e) /\ (forall f, Pf f) /\ (forall p, Pp p) /\ (forall b, Pb b).
  Proof.
    repeat split; [exact ecls_ind_strong | exact fnsum_ind_strong | exact param_ind_strong | exact body_ind_strong].
  Qed.
End EclsInd.

(* ---- classes *)
Inductive keycls := KIdent | KStr | KNum | KComputed | KHash | KHashMarker.
Record keyinfo := { k_cls : keycls; k_id : N }.

Inductive member : Type :=
| MCtor (a : acc) (f : fnsum)
| MMethod (key : keyinfo) (a : acc) (static abstract optional : bool) (f : fnsum)
| MProp (key : keyinfo) (a : acc) (static : bool) (ty : tyinfo)
        (declare definite optional readonly abstract override : bool) (init : ecls) (decos : bool)
| MAuto (key : keyinfo) (a : acc) (static : bool) (ty : tyinfo) (init : ecls) (decos : bool)
| MIndex (id : N)
| MStaticBlock
| MEmpty.

Inductive supercls := SNone | SSimple | SComplex.

Record classsum := {
  c_decos : bool; c_super : supercls; c_super_id : N; c_implements : list N;
  c_tpc : N; c_tpi : N; c_abstract : bool; c_members : list member }.

(* ---- items *)
Inductive exform := ExNone | ExNamed | ExDefault.

Record vdecl := { v_name : N; v_pat : patcls; v_ty : tyinfo; v_init : ecls; v_definite : bool }.

Inductive item : Type :=
| IImport (type_only : bool) (src : N) (specs : list (N * N * N))
| IExportNamed (type_only : bool) (src : option N) (specs : list (N * N * N))
| IExportAll (type_only : bool) (src : N)
| IFn (ex : exform) (name : N) (ambient : bool) (f : fnsum)
| IClass (ex : exform) (name : N) (ambient : bool) (c : classsum)
| IVar (ex : exform) (ambient : bool) (kind : N) (decls : list vdecl)
| IInterface (ex : exform) (name : N) (tpc tpi : N) (ext : list N) (body_id : N)
| IAlias (ex : exform) (name : N) (tpc tpi : N) (ty : N)
| IEnum (ex : exform) (name : N) (is_const : bool) (text : N)
| INamespace (ex : exform) (name : N) (ambient : bool) (items : list item)
| IDefaultExpr (e : ecls)
| IStmt
| IOther (code : N).

Section ItemInd.
  Variable P : item -> Prop.
  Hypothesis HImport : forall t s sp, P (IImport t s sp).
  Hypothesis HExportNamed : forall t s sp, P (IExportNamed t s sp).
  Hypothesis HExportAll : forall t s, P (IExportAll t s).
  Hypothesis HFn : forall ex n a f, P (IFn ex n a f).
  Hypothesis HClass : forall ex n a c, P (IClass ex n a c).
  Hypothesis HVar : forall ex a k d, P (IVar ex a k d).
  Hypothesis HInterface : forall ex n c i e b, P (IInterface ex n c i e b).
  Hypothesis HAlias : forall ex n c i t, P (IAlias ex n c i t).
  Hypothesis HEnum : forall ex n c t, P (IEnum ex n c t).
  Hypothesis HNamespace : forall ex n a its, Forall P its -> P (INamespace ex n a its).
  Hypothesis HDefaultExpr : forall e, P (IDefaultExpr e).
  Hypothesis HStmt : P IStmt.
  Hypothesis HOther : forall c, P (IOther c).

  Fixpoint item_ind_strong (it : item) : P it :=
    match it return P it with
    | IImport t s sp => HImport t s sp
    | IExportNamed t s sp => HExportNamed t s sp
    | IExportAll t s => HExportAll t s
    | IFn ex n a f => HFn ex n a f
    | IClass ex n a c => HClass ex n a c
    | IVar ex a k d => HVar ex a k d
    | IInterface ex n c i e b => HInterface ex n c i e b
    | IAlias ex n c i t => HAlias ex n c i t
    | IEnum ex n c t => HEnum ex n c t
    | INamespace ex n a its =>
        HNamespace ex n a its
          ((fix go (l : list item) : Forall P l :=
              match l return Forall P l with
              | [] => Forall_nil P
              | x :: r => Forall_cons x (item_ind_strong x) (go r)
              end) its)
    | IDefaultExpr e => HDefaultExpr e
    | IStmt => HStmt
    | IOther c => HOther c
    end.
End ItemInd.

Record modsum := { m_ambient : bool; m_items : list item }.

(* ================================================================ decoders *)

Definition dec_tycls (n : N) : option tycls :=
  match n with 0 => Some TyNone | 1 => Some TyAny | 2 => Some TyOther | _ => None end.

Definition dec_tyinfo (s : sexp) : option tyinfo :=
  match s with
  | L [A c; A i; st; pa] =>
      do c' <- dec_tycls c;
      do st' <- as_option as_atom st;
      do pa' <- as_bool pa;
      Some {| ty_cls := c'; ty_id := i; ty_strip := st'; ty_paren := pa' |}
  | _ => None
  end.

Definition dec_fkind (n : N) : option fkind :=
  match n with
  | 0 => Some FDecl | 1 => Some FExpr | 2 => Some FArrow | 3 => Some FMethod
  | 4 => Some FGetter | 5 => Some FSetter | 6 => Some FCtor | _ => None
  end.

Definition dec_patcls (n : N) : option patcls :=
  match n with
  | 0 => Some PIdent | 1 => Some PArray | 2 => Some PObject | 3 => Some PRest | 4 => Some POtherPat
  | _ => None
  end.

Definition dec_acc (n : N) : option acc :=
  match n with 0 => Some AccPublic | 1 => Some AccProtected | 2 => Some AccPrivate | _ => None end.

Definition dec_prop (s : sexp) : option (option (acc * bool)) :=
  match s with
  | L [] => Some None
  | L [L [A a; r]] => do a' <- dec_acc a; do r' <- as_bool r; Some (Some (a', r'))
  | _ => None
  end.

Fixpoint dec_ecls (s : sexp) : option ecls :=
  match s with
  | L [A 0] => Some ENone
  | L [A 1] => Some EPlaceholder
  | L [A 2] => Some ELeaf
  | L (A 3 :: l) => do l' <- ((fix go (l0 : list sexp) : option (list ecls) := match l0 with [] => Some [] | x :: r => match dec_ecls x with None => None | Some a => match go r with None => None | Some b0 => Some (a :: b0) end end end) l); Some (ENode l')
  | L [A 4; e] => do e' <- dec_ecls e; Some (EAs e')
  | L [A 5; f] => do f' <- dec_fn f; Some (EFun f')
  | L [A 6] => Some EOther
  | _ => None
  end
with dec_fn (s : sexp) : option fnsum :=
  match s with
  | L [A k; L ps; ret; a; g; b; d; A c; A i; o] =>
      do k' <- dec_fkind k;
      do ps' <- ((fix go (l0 : list sexp) : option (list param) := match l0 with [] => Some [] | x :: r => match dec_param x with None => None | Some a => match go r with None => None | Some b0 => Some (a :: b0) end end end) ps);
      do ret' <- dec_tyinfo ret;
      do a' <- as_bool a;
      do g' <- as_bool g;
      do b' <- dec_body b;
      do d' <- as_bool d;
      do o' <- as_bool o;
      Some (FnSum k' ps' ret' a' g' b' d' c i o')
  | _ => None
  end
with dec_param (s : sexp) : option param :=
  match s with
  | L [A pat; ty; opt; d; decos; inits; prop; A name] =>
      do pat' <- dec_patcls pat;
      do ty' <- dec_tyinfo ty;
      do opt' <- as_bool opt;
      do d' <- dec_ecls d;
      do decos' <- as_bool decos;
      do inits' <- as_bool inits;
      do prop' <- dec_prop prop;
      Some (Param pat' ty' opt' d' decos' inits' prop' name)
  | _ => None
  end
with dec_body (s : sexp) : option body :=
  match s with
  | L [A 0] => Some BNone
  | L [A 1] => Some BEmpty
  | L [A 2] => Some BRet
  | L [A 3; A n] => Some (BSuper n)
  | L [A 4; e] => do e' <- dec_ecls e; Some (BExpr e')
  | L [A 5] => Some BOther
  | _ => None
  end.

Definition dec_keycls (n : N) : option keycls :=
  match n with
  | 0 => Some KIdent | 1 => Some KStr | 2 => Some KNum | 3 => Some KComputed | 4 => Some KHash
  | 5 => Some KHashMarker | _ => None
  end.

Definition dec_key (s : sexp) : option keyinfo :=
  match s with
  | L [A c; A i] => do c' <- dec_keycls c; Some {| k_cls := c'; k_id := i |}
  | _ => None
  end.

Definition dec_member (s : sexp) : option member :=
  match s with
  | L [A 0; A a; f] => do a' <- dec_acc a; do f' <- dec_fn f; Some (MCtor a' f')
  | L [A 1; k; A a; st; ab; op; f] =>
      do k' <- dec_key k; do a' <- dec_acc a; do st' <- as_bool st; do ab' <- as_bool ab;
      do op' <- as_bool op; do f' <- dec_fn f;
      Some (MMethod k' a' st' ab' op' f')
  | L [A 2; k; A a; st; ty; de; df; op; ro; ab; ov; init; decos] =>
      do k' <- dec_key k; do a' <- dec_acc a; do st' <- as_bool st; do ty' <- dec_tyinfo ty;
      do de' <- as_bool de; do df' <- as_bool df; do op' <- as_bool op; do ro' <- as_bool ro;
      do ab' <- as_bool ab; do ov' <- as_bool ov; do init' <- dec_ecls init; do decos' <- as_bool decos;
      Some (MProp k' a' st' ty' de' df' op' ro' ab' ov' init' decos')
  | L [A 3; k; A a; st; ty; init; decos] =>
      do k' <- dec_key k; do a' <- dec_acc a; do st' <- as_bool st; do ty' <- dec_tyinfo ty;
      do init' <- dec_ecls init; do decos' <- as_bool decos;
      Some (MAuto k' a' st' ty' init' decos')
  | L [A 4; A i] => Some (MIndex i)
  | L [A 5] => Some MStaticBlock
  | L [A 6] => Some MEmpty
  | _ => None
  end.

Definition dec_supercls (n : N) : option supercls :=
  match n with 0 => Some SNone | 1 => Some SSimple | 2 => Some SComplex | _ => None end.

Definition dec_class (s : sexp) : option classsum :=
  match s with
  | L [d; A sc; A si; imp; A c; A i; ab; L ms] =>
      do d' <- as_bool d; do sc' <- dec_supercls sc; do imp' <- as_atoms imp; do ab' <- as_bool ab;
      do ms' <- map_opt dec_member ms;
      Some {| c_decos := d'; c_super := sc'; c_super_id := si; c_implements := imp';
              c_tpc := c; c_tpi := i; c_abstract := ab'; c_members := ms' |}
  | _ => None
  end.

Definition dec_exform (n : N) : option exform :=
  match n with 0 => Some ExNone | 1 => Some ExNamed | 2 => Some ExDefault | _ => None end.

Definition dec_vdecl (s : sexp) : option vdecl :=
  match s with
  | L [A n; A p; ty; init; df] =>
      do p' <- dec_patcls p; do ty' <- dec_tyinfo ty; do init' <- dec_ecls init; do df' <- as_bool df;
      Some {| v_name := n; v_pat := p'; v_ty := ty'; v_init := init'; v_definite := df' |}
  | _ => None
  end.

Definition dec_spec (s : sexp) : option (N * N * N) :=
  match s with L [A x; A y; A z] => Some (x, y, z) | _ => None end.

Fixpoint dec_item (s : sexp) : option item :=
  match s with
  | L [A 0; t; A src; L sp] => do t' <- as_bool t; do sp' <- map_opt dec_spec sp; Some (IImport t' src sp')
  | L [A 1; t; src; L sp] =>
      do t' <- as_bool t; do src' <- as_option as_atom src; do sp' <- map_opt dec_spec sp;
      Some (IExportNamed t' src' sp')
  | L [A 2; t; A src] => do t' <- as_bool t; Some (IExportAll t' src)
  | L [A 3; A ex; A n; am; f] =>
      do ex' <- dec_exform ex; do am' <- as_bool am; do f' <- dec_fn f; Some (IFn ex' n am' f')
  | L [A 4; A ex; A n; am; c] =>
      do ex' <- dec_exform ex; do am' <- as_bool am; do c' <- dec_class c; Some (IClass ex' n am' c')
  | L [A 5; A ex; am; A k; L ds] =>
      do ex' <- dec_exform ex; do am' <- as_bool am; do ds' <- map_opt dec_vdecl ds; Some (IVar ex' am' k ds')
  | L [A 6; A ex; A n; A c; A i; ext; A b] =>
      do ex' <- dec_exform ex; do ext' <- as_atoms ext; Some (IInterface ex' n c i ext' b)
  | L [A 7; A ex; A n; A c; A i; A t] => do ex' <- dec_exform ex; Some (IAlias ex' n c i t)
  | L [A 8; A ex; A n; c; A t] => do ex' <- dec_exform ex; do c' <- as_bool c; Some (IEnum ex' n c' t)
  | L [A 9; A ex; A n; am; L its] =>
      do ex' <- dec_exform ex; do am' <- as_bool am; do its' <- ((fix go (l0 : list sexp) : option (list item) := match l0 with [] => Some [] | x :: r => match dec_item x with None => None | Some a => match go r with None => None | Some b0 => Some (a :: b0) end end end) its);
      Some (INamespace ex' n am' its')
  | L [A 10; e] => do e' <- dec_ecls e; Some (IDefaultExpr e')
  | L [A 11] => Some IStmt
  | L [A 12; A c] => Some (IOther c)
  | _ => None
  end.

Definition dec_module (s : sexp) : option modsum :=
  match s with
  | L [am; L its] => do am' <- as_bool am; do its' <- map_opt dec_item its;
                     Some {| m_ambient := am'; m_items := its' |}
  | _ => None
  end.
