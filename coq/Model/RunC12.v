(* C12 wire-level entry point.

   input  (20 (world1 world2 ...) (step ...))
     world = (pkgs top hashes js first)
       pkg = (nv key (entry ...) ((spec outcome) ...) (dep ...));  outcome = (0 out) | (1) | (2 ((code spec) ...))
     step  = (world_index use_cache real_slots cacheless_real_slots dep_keys)
       slots    = ((spec (0) | (1 out depsid) | (2 ((code spec) ...))) ...)   what the REAL run showed
       dep_keys = ((spec (recorded key ...) (declared key ...)) ...)          per emitted module
   The model threads its OWN cache through the steps (starting empty).

   output per step:
     (predicted_slots predicted_cache predicted_traffic
      (judge all-or-nothing per package ...) judge(same outputs as cache-less)
      judge(recorded deps = declared) judge(cache entries agree with the current sources)
      [class tags]) *)
From DG Require Import Base.Util Base.Sexp Model.FcDriver.

Definition C12_CLASSTAG : N := 555555.
Definition SETTAG : N := 777777.

Definition dec_diag (s : sexp) : option diag := as_pair as_atom as_atom s.

Definition dec_outcome (s : sexp) : option outcome :=
  match s with
  | L [A 0; A o] => Some (OOk o)
  | L [A 1] => Some ONotEsm
  | L [A 2; ds] => do ds' <- as_list_of dec_diag ds; Some (OErr ds')
  | _ => None
  end.

Definition dec_pkg (s : sexp) : option pkg :=
  match s with
  | L [A nv; A key; entry; mods; deps] =>
      do entry' <- as_atoms entry;
      do mods' <- as_list_of (as_pair as_atom dec_outcome) mods;
      do deps' <- as_atoms deps;
      Some {| p_nv := nv; p_key := key; p_entry := entry'; p_modules := mods'; p_deps := deps' |}
  | _ => None
  end.

Definition dec_world (s : sexp) : option world :=
  match s with
  | L [pkgs; top; hashes; js; first] =>
      do pkgs' <- as_list_of dec_pkg pkgs;
      do top' <- as_atoms top;
      do hashes' <- as_list_of (as_pair as_atom as_atom) hashes;
      do js' <- as_atoms js;
      do first' <- as_bool first;
      Some {| w_pkgs := pkgs'; w_top := top'; w_hashes := hashes'; w_js := js'; w_first := first' |}
  | _ => None
  end.

(* a real slot: fres plus the id of the recorded dependencies *)
Definition dec_slot (s : sexp) : option (spec * (option fres * N)) :=
  match s with
  | L [A sp; L [A 0]] => Some (sp, (None, 0))
  | L [A sp; L [A 1; A o; A d]] => Some (sp, (Some (FOk o), d))
  | L [A sp; L [A 2; ds]] => do ds' <- as_list_of dec_diag ds; Some (sp, (Some (FErr ds'), 0))
  | _ => None
  end.

Definition dec_depkeys (s : sexp) : option (spec * (list N * list N)) :=
  match s with
  | L [A sp; a; b] => do a' <- as_atoms a; do b' <- as_atoms b; Some (sp, (a', b'))
  | _ => None
  end.

Definition enc_diags (ds : list diag) : sexp := L (map (fun d => L [A (fst d); A (snd d)]) ds).

Definition enc_slot (s : spec) (o : option fres) : sexp :=
  L [A s; match o with
          | None => L [A 0]
          | Some (FOk x) => L [A 1; A x]
          | Some (FErr ds) => L [A 2; enc_diags ds]
          end].

Definition enc_citem (si : spec * citem) : sexp :=
  L [A (fst si); match snd si with CInfo h o => L [A 0; A h; A o] | CDiag h => L [A 1; A h] end].

Definition enc_cache (c : cache) : sexp :=
  L (A SETTAG :: map (fun ke => L [A (fst ke); L (A SETTAG :: map A (ce_deps (snd ke))); L (map enc_citem (ce_modules (snd ke)))]) c).

(* FastCheckCache traffic of one run: a get per handled package with known exports (hit = the
   key is present, valid or not), a set per package that was transformed *)
Definition traffic (c : option cache) (w : world) : list sexp :=
  match c with
  | None => []
  | Some c' =>
      flat_map (fun p =>
        L [A (if has_key (p_key p) c' then 1 else 0); A (p_key p)]
        :: match snd (build_pkg c w p) with Some (k, _) => [L [A 2; A k]] | None => [] end)
        (pkgs_handled c w)
  end.

Definition real_slot (rs : list (spec * (option fres * N))) (s : spec) : option fres :=
  match lookup s rs with Some x => fst x | None => None end.

(* emitted modules with their recorded dependencies: (spec, out, depsid) *)
Definition real_outs (rs : list (spec * (option fres * N))) : list (spec * (N * N)) :=
  flat_map (fun x => match fst (snd x) with Some (FOk o) => [(fst x, (o, snd (snd x)))] | _ => [] end) rs.

Definition out3_eqb (a b : spec * (N * N)) : bool :=
  N.eqb (fst a) (fst b) && N.eqb (fst (snd a)) (fst (snd b)) && N.eqb (snd (snd a)) (snd (snd b)).
Definition same_real_outs (a b : list (spec * (N * N))) : bool :=
  forallb (fun x => existsb (out3_eqb x) b) a && forallb (fun x => existsb (out3_eqb x) a) b.

Fixpoint list_eqb (a b : list N) : bool :=
  match a, b with
  | [], [] => true
  | x :: a', y :: b' => N.eqb x y && list_eqb a' b'
  | _, _ => false
  end.

Definition run_step (ws : list world) (c : cache) (st : sexp) : option (sexp * cache) :=
  match st with
  | L [A wi; uc; rslots; cslots; dkeys] =>
      do uc' <- as_bool uc;
      do w <- nth_error ws (N.to_nat wi);
      do rs <- as_list_of dec_slot rslots;
      do cs <- as_list_of dec_slot cslots;
      do dk <- as_list_of dec_depkeys dkeys;
      let oc := if uc' then Some c else None in
      let final := final_result oc w in
      let c' := if uc' then cache_after oc w else c in
      let pred_slots := L (map (fun x => enc_slot (fst x) (slot_of w final (fst x))) rs) in
      let pred_cache := if uc' then enc_cache c' else L [A SETTAG] in
      let pred_traffic := L (A SETTAG :: traffic oc w) in
      let aon := map (fun p => aonb w p (real_slot rs)) (w_pkgs w) in
      let transparent := same_real_outs (real_outs rs) (real_outs cs) in
      let deps_ok := forallb (fun x => list_eqb (fst (snd x)) (snd (snd x))) dk in
      let sound := if uc' then cache_soundb c w else true in
      (* a failure is explained by a known class: F-C12a (1201) for all-or-nothing on a warm failed
         entry that misses an entrypoint; F-C12b (1202) when a valid entry disagrees with the sources *)
      let aon_unexplained :=
        existsb (fun p => negb (aonb w p (real_slot rs)) && negb (uc' && warm_gap_classb c w p)) (w_pkgs w) in
      let transp_unexplained := negb transparent && sound in
      (* a disagreement between a valid entry and the current sources is the known class only when
         every such entry is a FAILED one *)
      let sound_unexplained := negb sound && negb (stale_failed_onlyb c w) in
      let tags :=
        if aon_unexplained || transp_unexplained || sound_unexplained || negb deps_ok then []
        else (if existsb (fun p => negb (aonb w p (real_slot rs))) (w_pkgs w) then [of_atoms [C12_CLASSTAG; 1201]] else [])
             ++ (if negb sound then [of_atoms [C12_CLASSTAG; 1202]] else []) in
      Some (L ([pred_slots; pred_cache; pred_traffic; L (map judge aon); judge transparent; judge deps_ok; judge sound]
               ++ tags), c')
  | _ => None
  end.

Fixpoint run_steps (ws : list world) (c : cache) (steps : list sexp) : list sexp :=
  match steps with
  | [] => []
  | st :: r =>
      match run_step ws c st with
      | Some (out, c') => out :: run_steps ws c' r
      | None => [decode_error]
      end
  end.

(* kind 21: worlds with cross-package `export *` (not modelled): the real outputs with a cache are
   judged against the real outputs without; known class F-C12c (1203) = the input class computed by
   the harness from the sources *)
Definition run_rel_step (st : sexp) : sexp :=
  match st with
  | L [cl; rslots; cslots] =>
      match as_bool cl, as_list_of dec_slot rslots, as_list_of dec_slot cslots with
      | Some cl', Some rs, Some cs =>
          let transparent := same_real_outs (real_outs rs) (real_outs cs) in
          L ([judge transparent] ++ (if cl' && negb transparent then [of_atoms [C12_CLASSTAG; 1203]] else []))
      | _, _, _ => decode_error
      end
  | _ => decode_error
  end.

Definition run_c12 (s : sexp) : sexp :=
  match s with
  | L [A 21; L steps] => L (map run_rel_step steps)
  | L [A 20; worlds; L steps] =>
      match as_list_of dec_world worlds with
      | Some ws => L (run_steps ws [] steps)
      | None => decode_error
      end
  | _ => decode_error
  end.
