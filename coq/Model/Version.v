(* C06: JSR version selection (src/packages.rs).  Definitions only.

   Versions are abstract ids ([ver]); two ids are equal iff the two
   [deno_semver::Version]s are equal by [Eq]/[Hash] (which include build
   metadata).  [rank] is a total preorder representation of [Version::cmp]
   (equal rank <-> [Ordering::Equal]; build metadata is ignored by cmp, so two
   different ids MAY have the same rank), [matches v] is [VersionReq::matches]
   for the requirement at hand; both are data computed by the real crates.
   Dates are seconds (N); the registry info is the list of
   (version, info) pairs in the iteration order of the real HashMap. *)
From DG Require Import Base.Util.

Definition ver := N.
Record vinfo := { vi_yanked : bool; vi_created : option N }.
Definition pkginfo := list (ver * vinfo).

(* NewestDependencyDate::matches (packages.rs:32): date < self.0 *)
Definition cutoff_matches (cutoff t : N) : bool := N.ltb t cutoff.

(* JsrPackageInfoVersion::matches_newest_dependency_date (packages.rs:98-107):
   a version without creation date is assumed old *)
Definition vinfo_matches_date (i : vinfo) (cutoff : N) : bool :=
  match vi_created i with
  | Some t => cutoff_matches cutoff t
  | None => true
  end.

(* free fn matches_newest_dependency_date (packages.rs:533-543) *)
Definition matches_newest (i : option vinfo) (cutoff : option N) : bool :=
  match i with
  | Some i => match cutoff with
              | Some c => vinfo_matches_date i c
              | None => true
              end
  | None => true
  end.

(* ResolveVersionResult *)
Inductive rvres :=
| RSome (v : ver)
| RNone (had_higher_date_version : bool).

(* JsrVersionResolverResolvedVersion / JsrPackageReqNotFoundError.newest_dependency_date *)
Inductive res :=
| ROk (v : ver) (is_yanked : bool)
| RErr (newest_dependency_date : option N).

Section Select.
  Variable rank : ver -> N.
  Variable matches : ver -> bool.

  (* the for loop of resolve_version (packages.rs:506-524): state = (maybe_best_version, had_higher_date_version) *)
  Fixpoint rv_loop (cutoff : option N) (l : list (ver * option vinfo))
           (best : option ver) (had : bool) : option ver * bool :=
    match l with
    | [] => (best, had)
    | (v, i) :: tl =>
        if matches v then
          if matches_newest i cutoff then
            let is_best := match best with
                           | Some b => N.ltb (rank b) (rank v)     (* best.cmp(version).is_lt() *)
                           | None => true
                           end in
            rv_loop cutoff tl (if is_best then Some v else best) true
          else rv_loop cutoff tl best true
        else rv_loop cutoff tl best had
    end.

  (* resolve_version (packages.rs:502-531) *)
  Definition resolve_version (cutoff : option N) (l : list (ver * option vinfo)) : rvres :=
    match rv_loop cutoff l None false with
    | (Some v, _) => RSome v
    | (None, had) => RNone had
    end.

  Definition with_info (l : pkginfo) : list (ver * option vinfo) :=
    map (fun p => (fst p, Some (snd p))) l.

  (* JsrPackageVersionResolver::resolve_version (packages.rs:354-477).
     [cutoff] is self.newest_dependency_date, [existing] the iterator of
     already selected versions, [cached] the HashSet of cached manifests. *)
  Definition pkg_resolve (info : pkginfo) (cutoff : option N)
             (existing : list ver) (cached : list ver) : res :=
    (* 1. existing versions, no date, no info *)
    match resolve_version None (map (fun v => (v, None)) existing) with
    | RSome v =>
        ROk v (match lookup v info with Some i => vi_yanked i | None => false end)
    | RNone _ =>
        (* 1.5 unyanked versions whose manifest is cached *)
        let t15 :=
          match cached with
          | [] => RNone false
          | _ :: _ =>
              resolve_version cutoff
                (with_info (filter (fun p => negb (vi_yanked (snd p)) && mem (fst p) cached) info))
          end in
        match t15 with
        | RSome v => ROk v false
        | RNone _ =>
            (* 2. unyanked versions *)
            match resolve_version cutoff (with_info (filter (fun p => negb (vi_yanked (snd p))) info)) with
            | RSome v => ROk v false
            | RNone had2 =>
                (* 3. yanked versions *)
                match resolve_version cutoff (with_info (filter (fun p => vi_yanked (snd p)) info)) with
                | RSome v => ROk v true
                | RNone had3 =>
                    (* any_had.then_some(self.newest_dependency_date).flatten() *)
                    RErr (if had2 || had3 then cutoff else None)
                end
            end
        end
    end.
End Select.

(* ---------- NewestDependencyDateOptions::get_for_package (packages.rs:60-76) ---------- *)

Definition str := list N.      (* bytes of a package name *)

Fixpoint str_eqb (a b : str) : bool :=
  match a, b with
  | [], [] => true
  | x :: a', y :: b' => N.eqb x y && str_eqb a' b'
  | _, _ => false
  end.

(* str::starts_with *)
Fixpoint is_prefix (p s : str) : bool :=
  match p, s with
  | [], _ => true
  | x :: p', y :: s' => N.eqb x y && is_prefix p' s'
  | _ :: _, [] => false
  end.

Record ndd_options := {
  o_date : option N;
  o_exclude : list str;            (* exclude_jsr_pkgs *)
  o_exclude_prefixes : list str    (* exclude_jsr_pkg_prefixes *)
}.

Definition get_for_package (o : ndd_options) (name : str) : option N :=
  match o_date o with
  | None => None
  | Some d =>
      if existsb (str_eqb name) (o_exclude o)
         || existsb (fun p => is_prefix p name) (o_exclude_prefixes o)
      then None else Some d
  end.

(* JsrVersionResolver::get_for_package(name, info).resolve_version(req, existing, cached) *)
Definition jsr_resolve (rank : ver -> N) (matches : ver -> bool) (o : ndd_options) (name : str)
           (info : pkginfo) (existing cached : list ver) : res :=
  pkg_resolve rank matches info (get_for_package o name) existing cached.

(* ---------- decision procedure for the declarative statement (Proofs/VersionProofs.v) ---------- *)

Definition versions (info : pkginfo) : list ver := map fst info.
Definition yanked_of (info : pkginfo) (v : ver) : bool :=
  match lookup v info with Some i => vi_yanked i | None => false end.
Definition date_ok (cutoff : option N) (info : pkginfo) (v : ver) : bool :=
  matches_newest (lookup v info) cutoff.

Section Decide.
  Variable rank : ver -> N.
  Variable matches : ver -> bool.

  Definition bestb (P : ver -> bool) (vs : list ver) (v : ver) : bool :=
    mem v vs && P v && forallb (fun u => implb (P u) (N.leb (rank u) (rank v))) vs.
  Definition noneb (P : ver -> bool) (vs : list ver) : bool :=
    forallb (fun u => negb (P u)) vs.

  Definition t1b (v : ver) : bool := matches v.
  Definition t2b (info : pkginfo) (c : option N) (v : ver) : bool :=
    matches v && date_ok c info v && negb (yanked_of info v).
  Definition t15b (info : pkginfo) (c : option N) (cached : list ver) (v : ver) : bool :=
    t2b info c v && mem v cached.
  Definition t3b (info : pkginfo) (c : option N) (v : ver) : bool :=
    matches v && date_ok c info v && yanked_of info v.

  Definition opt_eqb (a b : option N) : bool :=
    match a, b with
    | None, None => true
    | Some x, Some y => N.eqb x y
    | _, _ => false
    end.

  (* is [r] an answer the property allows? *)
  Definition spec_okb (info : pkginfo) (c : option N) (existing cached : list ver) (r : res) : bool :=
    let vs := versions info in
    match r with
    | ROk v y =>
        (bestb t1b existing v && Bool.eqb y (yanked_of info v))
        || (noneb t1b existing && negb y &&
            (bestb (t15b info c cached) vs v
             || (noneb (t15b info c cached) vs && bestb (t2b info c) vs v)))
        || (noneb t1b existing && y && noneb (t2b info c) vs && bestb (t3b info c) vs v)
    | RErr f =>
        noneb t1b existing && noneb (t2b info c) vs && noneb (t3b info c) vs &&
        opt_eqb f (if existsb matches vs then c else None)
    end.

  (* boolean well-formedness of harness inputs *)
  Definition distinct_ranksb (l : list ver) : bool :=
    forallb (fun u => forallb (fun v => implb (N.eqb (rank u) (rank v)) (N.eqb u v)) l) l.
End Decide.

Fixpoint nodupb (l : list N) : bool :=
  match l with
  | [] => true
  | x :: l' => negb (mem x l') && nodupb l'
  end.

Definition res_eqb (a b : res) : bool :=
  match a, b with
  | ROk v y, ROk v' y' => N.eqb v v' && Bool.eqb y y'
  | RErr f, RErr f' => opt_eqb f f'
  | _, _ => false
  end.

(* two answers that name different versions of Equal precedence *)
Definition tie_onlyb (rank : ver -> N) (a b : res) : bool :=
  match a, b with
  | ROk v _, ROk v' _ => negb (N.eqb v v') && N.eqb (rank v) (rank v')
  | _, _ => false
  end.
