(* C04: completion order of outstanding loads.  The builder awaits its loads
   through a FuturesOrdered queue: a load's result is DELIVERED when it is at
   the head of the queue and has completed.  A schedule decides which
   outstanding load completes next and when the build future is polled; it
   cannot reorder deliveries.  (The loader is a function of its arguments, so
   the result of a load does not depend on when it completes; the two maps that
   were iterated in hash order are insertion-ordered since the fix: commit.) *)
From DG Require Import Base.Util Base.Sexp Model.Graph Model.Builder.

Inductive event :=
| Complete (i : nat)      (* the i-th outstanding load (in push order) completes *)
| Poll.                   (* the build future is polled *)

Record sstate := { ss_st : bstate; ss_done : list nat (* indices, relative to the queue head, that completed *) }.

Definition head_ready (s : sstate) : bool :=
  match st_pending (ss_st s) with
  | [] => true                       (* pending.next() yields None at once *)
  | _ :: _ => existsb (Nat.eqb 0) (ss_done s)
  end.

(* after a delivery the queue head is gone: indices shift down by one *)
Definition shift (l : list nat) : list nat :=
  flat_map (fun i => match i with O => [] | S j => [j] end) l.

Definition sstep (W : world) (o : bopts) (s : sstate) (e : event) : sstate :=
  match e with
  | Complete i => {| ss_st := ss_st s; ss_done := i :: ss_done s |}
  | Poll =>
      if idle (ss_st s) then s
      else if head_ready s then
        {| ss_st := loop_step W o (ss_st s);
           ss_done := match st_pending (ss_st s) with [] => ss_done s | _ => shift (ss_done s) end |}
      else s
  end.

Definition srun (W : world) (o : bopts) (s : sstate) (evs : list event) : sstate :=
  fold_left (sstep W o) evs s.
