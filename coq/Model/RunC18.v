(* C18 wire-level entry point: segment model, self-containedness decision
   procedure, comparison with a direct build, known-class predicates. *)
From DG Require Import Base.Util Base.Sexp Base.Reach Model.Graph Model.Walk Model.RunC15 Model.RunC02
  Model.RunC14 Model.Prune Model.RunC17.

Definition opt_spec_eqb (a b : option spec) : bool :=
  match a, b with
  | None, None => true
  | Some x, Some y => N.eqb x y
  | _, _ => false
  end.

Definition tryres_eqb (a b : tryres) : bool :=
  match a, b with
  | TOkNone, TOkNone => true
  | TOkMod m1, TOkMod m2 => N.eqb (m_spec m1) (m_spec m2)
  | TErr e1, TErr e2 => N.eqb e1 e2
  | _, _ => false
  end.

Definition dep_all_targets (d : dep) : list spec := res_targets (d_code d) ++ res_targets (d_type d).

(* every dependency of every module of the segment resolves as in the original *)
Definition deps_resolve_same (g seg : graph) : bool :=
  forallb (fun p : spec * slot =>
    match snd p with
    | SMod m =>
        forallb (fun d =>
          opt_spec_eqb (resolve_dependency seg (d_text d) (fst p) false)
                       (resolve_dependency g (d_text d) (fst p) false) &&
          opt_spec_eqb (resolve_dependency seg (d_text d) (fst p) true)
                       (resolve_dependency g (d_text d) (fst p) true) &&
          forallb (fun t => tryres_eqb (try_get seg t) (try_get g t)) (dep_all_targets d))
          (m_deps m)
    | _ => true
    end) (g_slots seg).

Definition seg_walk_opts (g : graph) (fd : bool) : wopts :=
  {| w_kind := g_kind g; w_follow_dynamic := fd; w_check_js := fun _ => true; w_prefer_fc := false |}.

Definition validate_same (g seg : graph) (roots : list spec) : bool :=
  Bool.eqb (verdict_ok (validate seg (seg_walk_opts g false) roots))
           (verdict_ok (validate g (seg_walk_opts g false) roots)) &&
  Bool.eqb (verdict_ok (validate seg (seg_walk_opts g true) roots))
           (verdict_ok (validate g (seg_walk_opts g true) roots)) &&
  Bool.eqb (verdict_ok (validate seg valid_opts roots)) (verdict_ok (validate g valid_opts roots)).

Definition self_contained (g seg : graph) (roots : list spec) : bool :=
  deps_resolve_same g seg && validate_same g seg roots.

(* known class F-C18a: a types-only walk replaces a JS module that has a types
   dependency by that dependency, so a types-only segment lacks that module *)
Definition has_substituted_module (g : graph) : bool :=
  match g_kind g with
  | KTypesOnly =>
      existsb (fun p => match snd p with
                        | SMod m => match m_kind m with
                                    | MkJs => negb (is_checkable (seg_walk_opts g true) (m_spec m) (m_media m)) ||
                                              match types_dep_target m with Some _ => true | None => false end
                                    | _ => false end
                        | _ => false end) (g_slots g)
  | _ => false
  end.

(* entries (specifier + module kind / error kind) and redirects *)
Definition slot_kind_eqb (g1 g2 : graph) (a b : slot) : bool :=
  match a, b with
  | SMod m1, SMod m2 => mkind_eqb (m_kind m1) (m_kind m2)
  | SErr _ e1, SErr _ e2 => N.eqb (errkind g1 e1) (errkind g2 e2)
  | SPending, SPending => true
  | _, _ => false
  end.

Definition entries_kind_eqb (skip : list spec) (g1 g2 : graph) : bool :=
  let keep := fun p : spec * slot => negb (mem (fst p) skip) in
  list_eqb (fun p q : spec * slot => N.eqb (fst p) (fst q) && slot_kind_eqb g1 g2 (snd p) (snd q))
           (filter keep (g_slots g1)) (filter keep (g_slots g2)) &&
  redirects_eqb g1 g2.

(* class shared with F-C14a/F-C14d: some entry sits at a specifier that is also a
   redirect source (redirect cycles store their TooManyRedirects error there):
   the walk stops at the entry and drops the redirect, the lookups follow it *)
Definition has_entry_at_redirect (g : graph) : bool :=
  existsb (fun p : spec * slot => match redirect_of g (fst p) with Some _ => true | None => false end)
          (g_slots g).

Definition run_c18 (input : sexp) : sexp :=
  match input with
  | L [gs; roots; segs; directs; A applicable] =>
      match dec_graph gs, as_atoms roots, dec_graph segs, dec_graph directs with
      | Some g, Some roots', Some seg_impl, Some direct =>
          match segment g roots' with
          | Some sm =>
              let sc := self_contained g seg_impl (dedup_keep_first roots') in
              let eq := N.eqb applicable 0 || entries_kind_eqb [] seg_impl direct in
              let ctx := context_dependent_specs seg_impl direct in
              let cyc := cycle_error_specs seg_impl direct in
              L [L [enc_graph_proj sm];
                 L ([judge sc] ++
                    (if sc then [] else if has_substituted_module g then [of_atoms [CLASSTAG; 1801]]
                     else if has_entry_at_redirect g then [of_atoms [CLASSTAG; 1804]] else []));
                 L ([judge eq] ++
                    (if eq then [] else
                       if has_substituted_module g then [of_atoms [CLASSTAG; 1801]]
                       else if has_entry_at_redirect g || has_entry_at_redirect direct then [of_atoms [CLASSTAG; 1804]]
                       else match ctx ++ cyc with
                            | [] => []
                            | sk => if entries_kind_eqb sk seg_impl direct
                                    then (match ctx with [] => [] | _ => [of_atoms [CLASSTAG; 1802]] end) ++
                                         (match cyc with [] => [] | _ => [of_atoms [CLASSTAG; 1803]] end)
                                    else []
                            end))]
          | None => L [A 424242]
          end
      | _, _, _, _ => decode_error
      end
  | _ => decode_error
  end.
