(* C19 wire-level entry point: histories of build / reload operations, each
   against its own world (sources change between operations), and judgement of
   the implementation's final graph against the graph of an alternative
   history (all roots at once / from scratch on the new sources). *)
From DG Require Import Base.Util Base.Sexp Base.Reach Model.Graph Model.Walk Model.RunC15 Model.RunC02
  Model.RunC14 Model.Prune Model.RunC17 Model.Builder Model.RunC01.

Inductive op :=
| OpBuild (W : world) (roots : list spec) (imports : list (spec * list dep))
| OpReload (W : world) (specs : list spec).

Definition dec_op (s : sexp) : option op :=
  match s with
  | L [A 0; w; roots; imps] =>
      do W <- dec_world w; do r <- as_atoms roots; do i <- dec_imports imps; Some (OpBuild W r i)
  | L [A 1; w; specs] =>
      do W <- dec_world w; do sp <- as_atoms specs; Some (OpReload W sp)
  | _ => None
  end.

Fixpoint run_ops (o : bopts) (g : bgraph) (ops : list op) : option bgraph :=
  match ops with
  | [] => Some g
  | OpBuild W roots imps :: rest =>
      match build W o g roots imps with Some g' => run_ops o g' rest | None => None end
  | OpReload W specs :: rest =>
      match reload W o g specs with Some g' => run_ops o g' rest | None => None end
  end.

(* ----- generic comparison of two keyed lists [(key payload) ...] given as sexps ----- *)
Definition keyed (s : sexp) : list (N * sexp) :=
  match s with
  | L items =>
      flat_map (fun it => match it with
                          | L [A k; payload] => [(k, payload)]
                          | A t => []            (* the set tag *)
                          | _ => [] end) items
  | _ => []
  end.

Definition differing_keys (a b : list (N * sexp)) : list N :=
  flat_map (fun p => match lookup (fst p) b with
                     | Some q => if sexp_eqb (snd p) q then [] else [fst p]
                     | None => [fst p] end) a
  ++ flat_map (fun p => match lookup (fst p) a with Some _ => [] | None => [fst p] end) b.

(* payload shapes (RunC01.enc_bslot): (0 module) with module = (kind spec media ...);
   (2 berr) with berr = (4 s media ref) for UnsupportedMediaType *)
Definition is_json_module_payload (p : sexp) : bool :=
  match p with L [A 0; L (A 1 :: _)] => true | _ => false end.
Definition is_unsupported_json_payload (p : sexp) : bool :=
  match p with L [A 2; L [A 4; _; A 12; _]] => true | _ => false end.

(* known class F-C19a: the only differing entries are specifiers where one graph
   holds "unsupported media type Json" and the other a Json module *)
Definition context_only (a b : list (N * sexp)) : bool :=
  match differing_keys a b with
  | [] => false
  | ks => forallb (fun k =>
            match lookup k a, lookup k b with
            | Some p, Some q => (is_json_module_payload p && is_unsupported_json_payload q) ||
                                (is_unsupported_json_payload p && is_json_module_payload q)
            | _, _ => false end) ks
  end.

(* known class F-C19b: the TooManyRedirects error of a redirect cycle sits at the
   specifier where the build entered the cycle: the only differing entries are
   one-sided TooManyRedirects errors *)
Definition is_too_many_redirects_payload (p : sexp) : bool :=
  match p with L [A 2; L [A 1; _; _; A 1]] => true | _ => false end.
Definition cycle_only (a b : list (N * sexp)) : bool :=
  match differing_keys a b with
  | [] => false
  | ks => forallb (fun k =>
            match lookup k a, lookup k b with
            | Some p, None => is_too_many_redirects_payload p
            | None, Some q => is_too_many_redirects_payload q
            | _, _ => false end) ks
  end.

(* known class F-C19c: the only differing entries are npm: specifiers for which one graph holds the npm
   module and the other the error of a failed dependency-graph resolution (the specifier was requested
   statically and dynamically: the dynamic request turns the failure into an error entry, and which
   request decides depends on the order of the builds) *)
Definition is_npm_module_payload (p : sexp) : bool :=
  match p with L [A 0; L (A 3 :: _)] => true | _ => false end.
Definition is_npm_depgraph_error_payload (p : sexp) : bool :=
  match p with L [A 2; L [A 8; _; _; A 1]] => true | _ => false end.
Definition npm_depgraph_only (a b : list (N * sexp)) : bool :=
  match differing_keys a b with
  | [] => false
  | ks => forallb (fun k =>
            match lookup k a, lookup k b with
            | Some p, Some q => (is_npm_module_payload p && is_npm_depgraph_error_payload q) ||
                                (is_npm_depgraph_error_payload p && is_npm_module_payload q)
            | _, _ => false end) ks
  end.

(* known class F-C19e: the only differing entries are specifiers for which the graph under test holds a
   WebAssembly module and the from-scratch graph the asset-only entry of a source-phase import (an
   earlier version of a reloaded module imported the file as a module, which upgraded the entry) *)
Definition is_wasm_module_payload (p : sexp) : bool :=
  match p with L [A 0; L (A 2 :: _)] => true | _ => false end.
Definition is_asset_entry_payload (p : sexp) : bool :=
  match p with L [A 1; A 1] => true | _ => false end.
Definition stale_upgrade_only (a b : list (N * sexp)) : bool :=
  match differing_keys a b with
  | [] => false
  | ks => forallb (fun k =>
            match lookup k a, lookup k b with
            | Some p, Some q => is_wasm_module_payload p && is_asset_entry_payload q
            | _, _ => false end) ks
  end.

(* restriction of a keyed list to a set of keys *)
Definition restrict (keys : list N) (a : list (N * sexp)) : list (N * sexp) :=
  filter (fun p => mem (fst p) keys) a.

(* input: [opts; ops; final_impl_slots; final_impl_redirects; alt_slots; alt_redirects; mode; keys]
   mode 0: the two graphs must be equal (incremental = at once; rebuild = identity)
   mode 1: equal on [keys] (everything reachable in the new sources), and entries of
           the final graph outside [keys] must equal [before] entries (never altered):
           for mode 1, alt_slots is followed by the pre-reload slots in [keys] position 8 *)
Definition run_c19 (input : sexp) : sexp :=
  match input with
  | L [o; ops; fs; fr; as_; ar; A mode; L [keys; reloaded]; before] =>
      match dec_bopts o, as_list_of dec_op ops, as_atoms keys, as_atoms reloaded with
      | Some o', Some ops', Some keys', Some reloaded' =>
          match run_ops o' (empty_bgraph (bo_kind o')) ops' with
          | Some g =>
              let fsl := keyed fs in let asl := keyed as_ in
              let frl := keyed fr in let arl := keyed ar in
              let ok :=
                match mode with
                | 0 => match differing_keys fsl asl, differing_keys frl arl with [], [] => true | _, _ => false end
                | _ =>
                    (match differing_keys (restrict keys' fsl) (restrict keys' asl) with [] => true | _ => false end) &&
                    (* entries outside the reachable set that existed before the reload and were
                       not themselves reloaded are unchanged (a reloaded specifier that is no
                       longer reachable, and what only it imports, is re-loaded as asked) *)
                    forallb (fun p => mem (fst p) keys' || mem (fst p) reloaded' ||
                                      match lookup (fst p) (keyed before) with
                                      | Some q => sexp_eqb (snd p) q
                                      | None => true end) fsl
                end in
              L [L [enc_bgraph g];
                 L ([judge ok] ++
                    (if ok then [] else
                       let fsl' := match mode with 0 => fsl | _ => restrict keys' fsl end in
                       let asl' := match mode with 0 => asl | _ => restrict keys' asl end in
                       let reds_same := match mode with
                                        | 0 => match differing_keys frl arl with [] => true | _ => false end
                                        | _ => true end in
                       if context_only fsl' asl' && reds_same then [of_atoms [CLASSTAG; 1901]]
                       else if cycle_only fsl' asl' && reds_same then [of_atoms [CLASSTAG; 1902]]
                       else if npm_depgraph_only fsl' asl' && reds_same then [of_atoms [CLASSTAG; 1903]]
                       else if cycle_only fsl' asl' &&
                               (* F-C19d: a chain longer than max_redirects entered at different points: the
                                  one-sided TooManyRedirects entries are redirected further in the other graph,
                                  and nothing else differs *)
                               (match mode with
                                | 0 => forallb (fun k => mem k (differing_keys fsl' asl')) (differing_keys frl arl)
                                | _ => true end)
                            then [of_atoms [CLASSTAG; 1904]]
                       else if stale_upgrade_only fsl' asl' && reds_same && negb (N.eqb mode 0) then [of_atoms [CLASSTAG; 1905]]
                       else []))]
          | None => L [A 424242]
          end
      | _, _, _, _ => decode_error
      end
  | _ => decode_error
  end.
