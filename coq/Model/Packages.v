(* C07 model (definitions only): registry URL <-> name@version conversion,
   version text parsing, JSR export lookup, PackageSpecifiers bookkeeping.

   Strings are lists of Unicode scalar values ([list N]).

   Anchors (current /repo):
     src/source/mod.rs:432-464  recommended_registry_package_url(_to_nv)
     deno_semver-0.10.0 src/npm.rs:70-97 parse_npm_version (= Version::parse_standard),
       src/common.rs:59-110 qualifier/pre/build/parts/part, monch-0.6.0 combinators
     deno_semver-0.10.0 src/jsr.rs:155-170 normalized_export_name
     src/packages.rs:140-173    JsrPackageVersionInfo::export / exports
     src/packages.rs:199-316    PackageSpecifiers *)
From DG Require Import Base.Util Base.Sexp.

Definition str := list N.

Fixpoint str_eqb (a b : str) : bool :=
  match a, b with
  | [], [] => true
  | x :: a', y :: b' => N.eqb x y && str_eqb a' b'
  | _, _ => false
  end.

Definition SLASH : N := 47.
Definition DOT : N := 46.
Definition DASH : N := 45.
Definition PLUS : N := 43.
Definition QMARK : N := 63.
Definition HASH : N := 35.
Definition COLON : N := 58.
Definition EQSIGN : N := 61.
Definition LOWER_V : N := 118.
Definition ZERO : N := 48.

Definition is_digit (c : N) : bool := N.leb 48 c && N.leb c 57.
Definition is_alpha (c : N) : bool := (N.leb 65 c && N.leb c 90) || (N.leb 97 c && N.leb c 122).
(* part ::= [-0-9A-Za-z]+ *)
Definition is_part_char (c : N) : bool := is_digit c || is_alpha c || N.eqb c DASH.

(* Rust char::is_whitespace (Unicode White_Space) *)
Definition is_ws (c : N) : bool :=
  (N.leb 9 c && N.leb c 13) || N.eqb c 32 || N.eqb c 133 || N.eqb c 160 || N.eqb c 5760 ||
  (N.leb 8192 c && N.leb c 8202) || N.eqb c 8232 || N.eqb c 8233 || N.eqb c 8239 ||
  N.eqb c 8287 || N.eqb c 12288.

Fixpoint strip_prefix (p s : str) : option str :=
  match p, s with
  | [], _ => Some s
  | a :: p', b :: s' => if N.eqb a b then strip_prefix p' s' else None
  | _ :: _, [] => None
  end.

Definition is_prefix_b (p s : str) : bool :=
  match strip_prefix p s with Some _ => true | None => false end.

(* ------------------------------------------------------------------ *)
(* Version text.  Numbers are kept as canonical decimal digit strings (what
   u64's Display prints), so no arithmetic is involved: parse::<u64> accepts a
   non-empty digit string iff its value is <= u64::MAX, and printing the value
   strips leading zeros. *)

Record version := {
  v_major : str; v_minor : str; v_patch : str;
  v_pre : list str; v_build : list str }.

Fixpoint join_dot (ps : list str) : str :=
  match ps with
  | [] => []
  | p :: r => match r with [] => p | _ => p ++ DOT :: join_dot r end
  end.

(* impl StringAppendable for &Version *)
Definition print_version (v : version) : str :=
  v_major v ++ DOT :: v_minor v ++ DOT :: v_patch v ++
  (match v_pre v with [] => [] | ps => DASH :: join_dot ps end) ++
  (match v_build v with [] => [] | ps => PLUS :: join_dot ps end).

Fixpoint drop_ws (s : str) : str :=
  match s with
  | c :: s' => if is_ws c then drop_ws s' else s
  | [] => []
  end.
(* str::trim *)
Definition trim (s : str) : str := rev (drop_ws (rev (drop_ws s))).

(* maybe(ch c) *)
Definition eat (c : N) (s : str) : str :=
  match s with
  | x :: s' => if N.eqb x c then s' else s
  | [] => s
  end.

Fixpoint span_digits (s : str) : str * str :=
  match s with
  | c :: s' => if is_digit c then let (d, r) := span_digits s' in (c :: d, r) else ([], s)
  | [] => ([], [])
  end.

Fixpoint strip_zeros (d : str) : str :=
  match d with
  | c :: d' => if N.eqb c ZERO then match d' with [] => d | _ => strip_zeros d' end else d
  | [] => []
  end.

(* 18446744073709551615 *)
Definition U64MAX : str := [49;56;52;52;54;55;52;52;48;55;51;55;48;57;53;53;49;54;49;53].

Fixpoint lex_le (a b : str) : bool :=
  match a, b with
  | [], _ => true
  | _ :: _, [] => false
  | x :: a', y :: b' => if N.ltb x y then true else if N.eqb x y then lex_le a' b' else false
  end.

Definition fits_u64 (d : str) : bool :=
  Nat.ltb (length d) 20 || (Nat.eqb (length d) 20 && lex_le d U64MAX).

(* nr: take_while_byte(is_ascii_digit), empty -> backtrace, parse::<u64> error -> failure *)
Definition nr (s : str) : option (str * str) :=
  let (d, r) := span_digits s in
  match d with
  | [] => None
  | _ => let c := strip_zeros d in if fits_u64 c then Some (c, r) else None
  end.

Definition expect (c : N) (s : str) : option str :=
  match s with
  | x :: s' => if N.eqb x c then Some s' else None
  | [] => None
  end.

(* monch separated_fold(part, ch('.'), ..): [cur] = the part being read.
   After a separator has been consumed a missing part does NOT restore the
   separator (the loop returns the input after the '.'), and at end of input
   the loop simply stops. *)
Fixpoint parts_go (cur : option str) (acc : list str) (s : str) : list str * str :=
  match s with
  | [] => (match cur with Some p => acc ++ [p] | None => acc end, [])
  | c :: s' =>
      if is_part_char c
      then parts_go (Some (match cur with Some p => p ++ [c] | None => [c] end)) acc s'
      else match cur with
           | None => (acc, s)
           | Some p => if N.eqb c DOT then parts_go None (acc ++ [p]) s' else (acc ++ [p], s)
           end
  end.

(* parts: empty result -> backtrace *)
Definition parts (s : str) : option (list str * str) :=
  match parts_go None [] s with
  | ([], _) => None
  | (ps, r) => Some (ps, r)
  end.

(* pre ::= preceded(maybe(ch('-')), parts) -- the dash is optional *)
Definition parse_pre (s : str) : option (list str * str) := parts (eat DASH s).
Definition parse_build (s : str) : option (list str * str) :=
  match s with
  | c :: s' => if N.eqb c PLUS then parts s' else None
  | [] => None
  end.

(* Version::parse_standard = npm::parse_npm_version inside with_failure_handling
   (trailing input is an error) *)
Definition parse_standard (text : str) : option version :=
  let s := trim text in
  let s := drop_ws (eat EQSIGN s) in
  let s := drop_ws (eat LOWER_V s) in
  do (maj, s) <- nr s;
  do s <- expect DOT s;
  do (mnr, s) <- nr s;
  do s <- expect DOT s;
  do (pat, s) <- nr s;
  let (pre, s) := match parse_pre s with Some (ps, r) => (ps, r) | None => ([], s) end in
  let (bld, s) := match parse_build s with Some (ps, r) => (ps, r) | None => ([], s) end in
  match s with
  | [] => Some {| v_major := maj; v_minor := mnr; v_patch := pat; v_pre := pre; v_build := bld |}
  | _ => None
  end.

(* ------------------------------------------------------------------ *)
(* recommended_registry_package_url_to_nv *)

(* one step of str::split('/'): the segment and, when a '/' was found, the rest *)
Fixpoint span_slash (s : str) : str * option str :=
  match s with
  | [] => ([], None)
  | x :: s' =>
      if N.eqb x SLASH then ([], Some s')
      else let (h, r) := span_slash s' in (x :: h, r)
  end.

(* the text of the version segment the real code hands to parse_standard *)
Definition nv_segments (base u : str) : option (str * str * str) :=
  do path <- strip_prefix base u;
  let path := eat SLASH path in
  let (scope, r1) := span_slash path in
  do p1 <- r1;
  let (name, r2) := span_slash p1 in
  do p2 <- r2;
  let (ver, _) := span_slash p2 in
  Some (scope, name, ver).

Definition to_nv (base u : str) : option (str * version) :=
  do (sn, ver) <- nv_segments base u;
  do v <- parse_standard ver;
  Some (fst sn ++ SLASH :: snd sn, v).

(* ------------------------------------------------------------------ *)
(* recommended_registry_package_url = registry_url.join("{name}/{version}/").
   Url::join is external; modelled at string level on the domain where the
   WHATWG path state copies its input verbatim: http(s) base as serialised by
   Url, relative reference made of characters outside the path percent-encode
   set, without backslash, not starting with '/', not scheme-like, without dot
   segments.  Outside that domain the model answers None (the run function
   then defers to the real result supplied as data). *)

Definition HTTP_PFX : str := [104;116;116;112;58;47;47].        (* http:// *)
Definition HTTPS_PFX : str := [104;116;116;112;115;58;47;47].   (* https:// *)

Definition printable (c : N) : bool := N.leb 33 c && N.leb c 126.
(* double quote, #, <, >, ?, backtick, {, }, backslash *)
Definition safe_char (c : N) : bool := printable c && negb (mem c [34;35;60;62;63;96;123;125;92]).

Definition base_ok (base : str) : bool :=
  (is_prefix_b HTTP_PFX base || is_prefix_b HTTPS_PFX base) && forallb printable base.

Fixpoint cut_query (s : str) : str :=
  match s with
  | [] => []
  | c :: s' => if N.eqb c QMARK || N.eqb c HASH then [] else c :: cut_query s'
  end.

(* keep everything through the last '/' *)
Fixpoint upto_last_slash (s : str) : str :=
  match s with
  | [] => []
  | x :: s' =>
      let r := upto_last_slash s' in
      if N.eqb x SLASH then x :: r else match r with [] => [] | _ => x :: r end
  end.

Definition dir_of (base : str) : str := upto_last_slash (cut_query base).

Fixpoint segs (s : str) : list str :=
  match s with
  | [] => [[]]
  | x :: s' =>
      if N.eqb x SLASH then [] :: segs s'
      else match segs s' with h :: t => (x :: h) :: t | [] => [[x]] end
  end.

(* the dot segments and their %2e spellings, exactly the strings the url crate matches in parse_path *)
Definition DOT_SEGS : list str :=
  [ [46;46]; [37;50;101;37;50;101]; [37;50;101;37;50;69]; [37;50;69;37;50;101]; [37;50;69;37;50;69];
    [37;50;101;46]; [37;50;69;46]; [46;37;50;101]; [46;37;50;69];
    [46]; [37;50;101]; [37;50;69] ].
Definition is_dot_seg (seg : str) : bool := existsb (str_eqb seg) DOT_SEGS.

Fixpoint scheme_rest (s : str) : bool :=
  match s with
  | [] => false
  | c :: s' =>
      if N.eqb c COLON then true
      else if is_alpha c || is_digit c || N.eqb c 43 || N.eqb c 45 || N.eqb c 46 then scheme_rest s'
      else false
  end.
Definition scheme_like (s : str) : bool :=
  match s with c :: s' => is_alpha c && scheme_rest s' | [] => false end.

Definition rel_ok (rel : str) : bool :=
  forallb safe_char rel && negb (scheme_like rel) &&
  match rel with c :: _ => negb (N.eqb c SLASH) | [] => false end &&
  negb (existsb is_dot_seg (segs rel)).

Definition url_join (base rel : str) : option str :=
  if base_ok base && rel_ok rel then Some (dir_of base ++ rel) else None.

Definition pkg_url (base name vtext : str) : option str :=
  url_join base (name ++ SLASH :: vtext ++ [SLASH]).

(* Url without its trailing slash (DESIGN: strip_slash) *)
Definition strip_slash (s : str) : str :=
  match rev s with
  | c :: r => if N.eqb c SLASH then rev r else s
  | [] => s
  end.

Definition ends_with_slash (s : str) : bool :=
  match rev s with c :: _ => N.eqb c SLASH | [] => false end.

(* a registry package name: scope/name with exactly one '/', non-empty scope *)
Definition wf_name_b (name : str) : bool :=
  match span_slash name with
  | (_ :: _, Some r) => match span_slash r with (_, None) => true | _ => false end
  | _ => false
  end.

(* a registry base as the functions expect it: http(s), no query/fragment, trailing slash *)
Definition wf_base_b (base : str) : bool :=
  base_ok base && ends_with_slash base && negb (existsb (fun c => N.eqb c QMARK || N.eqb c HASH) base).

(* ------------------------------------------------------------------ *)
(* normalized_export_name (deno_semver jsr.rs) *)

Definition DOT_STR : str := [DOT].
Definition DOT_SLASH : str := [DOT; SLASH].

Definition strip_suffix_slash (s : str) : str :=
  match rev s with
  | c :: r => if N.eqb c SLASH then rev r else s
  | [] => s
  end.

Definition norm_export (sub : option str) : str :=
  match sub with
  | None => DOT_STR
  | Some p =>
      if str_eqb p [] || str_eqb p [SLASH] || str_eqb p DOT_STR then DOT_STR
      else
        let p := strip_suffix_slash p in
        if is_prefix_b DOT_SLASH p then p
        else DOT_SLASH ++ eat SLASH p
  end.

(* ------------------------------------------------------------------ *)
(* JsrPackageVersionInfo::export / exports over the `exports` JSON value.
   Only the top level matters: a string, an object whose string-valued members
   count, anything else.  An object is given as its member list in document
   order; serde_json keeps the LAST value of a repeated key. *)

Inductive jval :=
| JStr (s : str)
| JOther (tag : N).

Inductive exports_json :=
| EStr (s : str)
| EObj (fields : list (str * jval))
| EOther (tag : N).

Fixpoint obj_get (k : str) (fields : list (str * jval)) : option jval :=
  match fields with
  | [] => None
  | (k', v) :: r =>
      match obj_get k r with
      | Some x => Some x
      | None => if str_eqb k k' then Some v else None
      end
  end.

Definition export (e : exports_json) (name : str) : option str :=
  match e with
  | EStr v => if str_eqb name DOT_STR then Some v else None
  | EObj f => match obj_get name f with Some (JStr v) => Some v | _ => None end
  | EOther _ => None
  end.

Definition str_mem (k : str) (l : list str) : bool := existsb (str_eqb k) l.

Fixpoint nub_keys (l : list str) : list str :=
  match l with
  | [] => []
  | k :: r => if str_mem k r then nub_keys r else k :: nub_keys r
  end.

Fixpoint keep_strings (f : list (str * jval)) (keys : list str) : list (str * str) :=
  match keys with
  | [] => []
  | k :: r =>
      match obj_get k f with
      | Some (JStr v) => (k, v) :: keep_strings f r
      | _ => keep_strings f r
      end
  end.

Definition exports (e : exports_json) : list (str * str) :=
  match e with
  | EStr v => [(DOT_STR, v)]
  | EObj f => keep_strings f (nub_keys (map fst f))
  | EOther _ => []
  end.

(* ------------------------------------------------------------------ *)
(* PackageSpecifiers as a state machine.  Requirements, package names,
   name@versions, dependency requirements and export strings are interned to N
   by EQUALITY (Eq) of the real values.  The BTreeMap/BTreeSet fields are keyed
   by Ord, and deno_semver's Ord on PackageReq / PackageNv ignores build
   metadata, so Eq-distinct values can be Ord-equal: [kc_req] / [kc_nv] give the
   Ord class of an id (supplied by the harness from the real cmp; the identity
   when nothing collides).  A map insert on an Ord-equal key keeps the OLD key
   and replaces the value; or_insert / set insert keep the old element. *)

Record keying := { kc_req : N -> N; kc_nv : N -> N }.

Inductive op :=
| AddNv (req name nv : N)          (* add_nv(req, nv); name = req.name *)
| Ensure (nv : N)                  (* ensure_package *)
| AddDep (nv dep : N)              (* add_dependency: unwraps packages.get_mut(nv) *)
| AddExport (nv k v : N)           (* add_export: unwraps packages.get_mut(nv) *)
| AddTop (nv : N)                  (* add_top_level_package *)
| AddYanked (nv : N).              (* add_used_yanked_package *)

Record pkginfo := { pi_exports : list (N * N); pi_deps : list N }.

(* class |-> (the key as stored, value) *)
Definition kmap (V : Type) := list (N * (N * V)).

Record table := {
  t_reqs : kmap N;                 (* package_reqs: BTreeMap<PackageReq, PackageNv> *)
  t_by_name : list (N * list N);   (* packages_by_name: HashMap<name, Vec<PackageNv>> *)
  t_packages : kmap pkginfo;       (* packages: BTreeMap<PackageNv, PackageNvInfo> *)
  t_top : kmap unit;               (* top_level_packages: BTreeSet<PackageNv> *)
  t_yanked : kmap unit }.          (* used_yanked_packages: BTreeSet<PackageNv> *)

Definition empty_table : table :=
  {| t_reqs := []; t_by_name := []; t_packages := []; t_top := []; t_yanked := [] |}.

(* plain map insert (keys compared by Eq): replace in place, else append *)
Fixpoint put {V : Type} (k : N) (v : V) (l : list (N * V)) : list (N * V) :=
  match l with
  | [] => [(k, v)]
  | (k', v') :: r => if N.eqb k k' then (k, v) :: r else (k', v') :: put k v r
  end.

(* BTreeMap::insert under class c: an existing entry keeps its stored key *)
Fixpoint kput {V : Type} (c k : N) (v : V) (l : kmap V) : kmap V :=
  match l with
  | [] => [(c, (k, v))]
  | (c', (k', v')) :: r => if N.eqb c c' then (c', (k', v)) :: r else (c', (k', v')) :: kput c k v r
  end.

Definition kget {V : Type} (c : N) (l : kmap V) : option V := option_map snd (lookup c l).

(* entry().or_insert / BTreeSet::insert: nothing changes when the class is present *)
Definition kensure {V : Type} (c k : N) (v : V) (l : kmap V) : kmap V :=
  match lookup c l with Some _ => l | None => l ++ [(c, (k, v))] end.

(* Vec push-if-absent / HashSet insert (Eq) *)
Definition add_set (x : N) (l : list N) : list N := if mem x l then l else l ++ [x].

Inductive result :=
| Ok (t : table)
| Panic.

Definition step (kc : keying) (t : table) (o : op) : result :=
  match o with
  | AddNv req name nv =>
      let nvs := match lookup name (t_by_name t) with Some l => l | None => [] end in
      Ok {| t_reqs := kput (kc_req kc req) req nv (t_reqs t);
            t_by_name := put name (add_set nv nvs) (t_by_name t);
            t_packages := t_packages t; t_top := t_top t; t_yanked := t_yanked t |}
  | Ensure nv =>
      Ok {| t_reqs := t_reqs t; t_by_name := t_by_name t;
            t_packages := kensure (kc_nv kc nv) nv {| pi_exports := []; pi_deps := [] |} (t_packages t);
            t_top := t_top t; t_yanked := t_yanked t |}
  | AddDep nv d =>
      match kget (kc_nv kc nv) (t_packages t) with
      | None => Panic
      | Some pi =>
          Ok {| t_reqs := t_reqs t; t_by_name := t_by_name t;
                t_packages := kput (kc_nv kc nv) nv
                                {| pi_exports := pi_exports pi; pi_deps := add_set d (pi_deps pi) |}
                                (t_packages t);
                t_top := t_top t; t_yanked := t_yanked t |}
      end
  | AddExport nv k v =>
      match kget (kc_nv kc nv) (t_packages t) with
      | None => Panic
      | Some pi =>
          Ok {| t_reqs := t_reqs t; t_by_name := t_by_name t;
                t_packages := kput (kc_nv kc nv) nv
                                {| pi_exports := put k v (pi_exports pi); pi_deps := pi_deps pi |}
                                (t_packages t);
                t_top := t_top t; t_yanked := t_yanked t |}
      end
  | AddTop nv =>
      Ok {| t_reqs := t_reqs t; t_by_name := t_by_name t; t_packages := t_packages t;
            t_top := kensure (kc_nv kc nv) nv tt (t_top t); t_yanked := t_yanked t |}
  | AddYanked nv =>
      Ok {| t_reqs := t_reqs t; t_by_name := t_by_name t; t_packages := t_packages t;
            t_top := t_top t; t_yanked := kensure (kc_nv kc nv) nv tt (t_yanked t) |}
  end.

(* runs the operations in order; a panic stops the sequence: the result is the
   table before the panicking operation and that operation's index *)
Fixpoint run_from (kc : keying) (t : table) (i : N) (ops : list op) : table * option N :=
  match ops with
  | [] => (t, None)
  | o :: r =>
      match step kc t o with
      | Ok t' => run_from kc t' (i + 1) r
      | Panic => (t, Some i)
      end
  end.

Definition run_ops (kc : keying) (ops : list op) : table * option N := run_from kc empty_table 0 ops.

(* observers *)
Definition mappings (t : table) : list (N * N) := map snd (t_reqs t).
Definition mapping_of (kc : keying) (t : table) (req : N) : option N := kget (kc_req kc req) (t_reqs t).
Definition versions_by_name (t : table) (name : N) : option (list N) := lookup name (t_by_name t).
Definition package_exports (kc : keying) (t : table) (nv : N) : option (list (N * N)) :=
  option_map pi_exports (kget (kc_nv kc nv) (t_packages t)).
Definition package_deps (kc : keying) (t : table) (nv : N) : option (list N) :=
  option_map pi_deps (kget (kc_nv kc nv) (t_packages t)).
Definition packages_with_deps (t : table) : list (N * list N) :=
  map (fun e => (fst (snd e), pi_deps (snd (snd e)))) (t_packages t).
Definition top_level_packages (t : table) : list N := map (fun e => fst (snd e)) (t_top t).
Definition used_yanked_packages (t : table) : list N := map (fun e => fst (snd e)) (t_yanked t).
Definition is_empty (t : table) : bool := match t_reqs t with [] => true | _ => false end.
Definition packages_len (t : table) : N := N.of_nat (length (t_packages t)).
Definition package_deps_sum (t : table) : N :=
  fold_right (fun e a => N.of_nat (length (pi_deps (snd (snd e)))) + a) 0 (t_packages t).

(* ------------------------------------------------------------------ *)
(* The abstract specification: what the observers must return, as functions
   of the operation history alone. *)

Definition is_ensure (kc : keying) (c : N) (o : op) : bool :=
  match o with Ensure n => N.eqb (kc_nv kc n) c | _ => false end.

(* does [o], coming after the history [seen], unwrap a missing package? *)
Definition op_panics (kc : keying) (seen : list op) (o : op) : bool :=
  match o with
  | AddDep nv _ | AddExport nv _ _ => negb (existsb (is_ensure kc (kc_nv kc nv)) seen)
  | _ => false
  end.

(* index of the first operation that panics *)
Fixpoint spec_panic_from (kc : keying) (seen : list op) (i : N) (ops : list op) : option N :=
  match ops with
  | [] => None
  | o :: r => if op_panics kc seen o then Some i else spec_panic_from kc (seen ++ [o]) (i + 1) r
  end.
Definition spec_panic (kc : keying) (ops : list op) : option N := spec_panic_from kc [] 0 ops.

(* mappings: the LAST add_nv of a requirement (up to Ord) wins *)
Definition spec_mapping (kc : keying) (ops : list op) (req : N) : option N :=
  fold_left (fun acc o => match o with
                          | AddNv r _ nv => if N.eqb (kc_req kc r) (kc_req kc req) then Some nv else acc
                          | _ => acc end) ops None.

(* exports of a package: the LAST add_export of a key wins *)
Definition spec_export (kc : keying) (ops : list op) (nv k : N) : option N :=
  fold_left (fun acc o => match o with
                          | AddExport n k' v =>
                              if N.eqb (kc_nv kc n) (kc_nv kc nv) && N.eqb k' k then Some v else acc
                          | _ => acc end) ops None.

Definition spec_has_package (kc : keying) (ops : list op) (nv : N) : bool :=
  existsb (is_ensure kc (kc_nv kc nv)) ops.

Definition spec_dep (kc : keying) (ops : list op) (nv d : N) : bool :=
  existsb (fun o => match o with
                    | AddDep n d' => N.eqb (kc_nv kc n) (kc_nv kc nv) && N.eqb d' d
                    | _ => false end) ops.

Definition spec_version (ops : list op) (name nv : N) : bool :=
  existsb (fun o => match o with
                    | AddNv _ n v => N.eqb n name && N.eqb v nv
                    | _ => false end) ops.

(* set-valued fields: membership up to Ord *)
Definition top_of (o : op) : option N := match o with AddTop n => Some n | _ => None end.
Definition yanked_of (o : op) : option N := match o with AddYanked n => Some n | _ => None end.

Definition spec_member (sel : op -> option N) (kc : keying) (ops : list op) (nv : N) : bool :=
  existsb (fun o => match sel o with Some n => N.eqb (kc_nv kc n) (kc_nv kc nv) | None => false end) ops.

Definition spec_top := spec_member top_of.
Definition spec_yanked := spec_member yanked_of.
