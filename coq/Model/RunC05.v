(* C05 wire-level entry point: the builder model's graph / loader calls / locker
   calls for a world with a lockfile, and the judgement of the implementation's
   calls and entries against the property. *)
From DG Require Import Base.Util Base.Sexp Base.Reach Model.Graph Model.Walk Model.RunC15 Model.RunC02
  Model.RunC14 Model.Prune Model.RunC17 Model.Builder Model.RunC01 Model.RunC19.

(* what the implementation did, decoded from enc_bgraph's shape *)
Record obs := {
  ob_slots : list (N * sexp);                              (* specifier -> payload *)
  ob_calls : list (spec * (bool * (bool * option N)));     (* specifier, asset, reload, presented checksum *)
  ob_sets : list (spec * N)
}.

Definition dec_call (s : sexp) : option (spec * (bool * (bool * option N))) :=
  match s with
  | L [A sp; a; r; ck] =>
      do a' <- as_bool a; do r' <- as_bool r; do ck' <- as_option as_atom ck;
      Some (sp, (a', (r', ck')))
  | _ => None
  end.

Definition strip_set (s : sexp) : list sexp :=
  match s with L (A _ :: items) => items | L items => items | _ => [] end.

Definition dec_obs (g : sexp) : option obs :=
  match g with
  | L (_ :: _ :: slots :: _ :: _ :: _ :: calls :: sets :: _) =>
      do calls' <- map_opt dec_call (strip_set calls);
      do sets' <- map_opt (as_pair as_atom as_atom) (strip_set sets);
      Some {| ob_slots := keyed slots; ob_calls := calls'; ob_sets := sets' |}
  | _ => None
  end.

Definition payload_is_module_or_external (p : sexp) : bool :=
  match p with L (A 0 :: _) => true | L (A 1 :: _) => true | _ => false end.
Definition payload_is_error (p : sexp) : bool :=
  match p with L (A 2 :: _) => true | _ => false end.
(* (0 (kind spec media ...)) with kind in {Js 0, Json 1, Wasm 2} *)
Definition payload_code_media (p : sexp) : option N :=
  match p with
  | L [A 0; L (A k :: _ :: A media :: _)] => if N.leb k 2 then Some media else None
  | _ => None
  end.
Definition media_is_declaration (m : N) : bool := N.eqb m 7 || N.eqb m 8 || N.eqb m 9.

Definition served_hash (r : wresp) : option N :=
  match r with WModule _ wm => Some (wm_hash_raw wm) | _ => None end.

(* the module answers of the world that report [final] as their final specifier
   (the requested specifier itself unless the loader answers under another name) *)
Definition answers_for (W : world) (final : spec) : list wmod :=
  flat_map (fun p : spec * wresp => match snd p with
                                    | WModule f wm => if N.eqb f final then [wm] else []
                                    | _ => [] end) (w_resp W ++ w_resp_reload W).

(* (1) every load of a resource whose checksum the lockfile knows presents it *)
Definition presented_ok (lock : list (spec * N)) (o : obs) : bool :=
  forallb (fun c => match lookup (fst c) lock with
                    | Some h => match snd (snd (snd c)) with Some h' => N.eqb h h' | None => false end
                    | None => true end) (ob_calls o).

(* (2) content the loader rejects under both cache settings is never admitted *)
Definition rejected_not_admitted (W : world) (lock : list (spec * N)) (o : obs) : bool :=
  forallb (fun p : spec * N =>
    let s := fst p in let h := snd p in
    let bad r := match served_hash r with Some h' => negb (N.eqb h h') | None => false end in
    if bad (resp_of W s) && (bad (resp_reload_of W s) ||
                             match resp_reload_of W s with WModule _ _ => false | _ => true end)
    then match lookup s (ob_slots o) with
         | Some payload => negb (payload_is_module_or_external payload)
         | None => true end
    else true) lock.

(* (3) a checksummed URL that redirects is rejected *)
Definition redirect_rejected (W : world) (lock : list (spec * N)) (o : obs) : bool :=
  forallb (fun p : spec * N =>
    match resp_of W (fst p) with
    | WRedirect _ =>
        if existsb (fun c => N.eqb (fst c) (fst p)) (ob_calls o)
        then match lookup (fst p) (ob_slots o) with Some payload => payload_is_error payload | None => false end
        else true
    | _ => true end) lock.

(* (4) recording: only new remote non-declaration modules, once each, never an
   existing entry, and the recorded value is the SHA-256 of the bytes served *)
Fixpoint nodup_keys (l : list (spec * N)) : bool :=
  match l with
  | [] => true
  | p :: l' => negb (existsb (fun q => N.eqb (fst p) (fst q)) l') && nodup_keys l'
  end.

Definition recorded_ok (W : world) (lock : list (spec * N)) (o : obs) (faithful_raw : bool) : bool :=
  nodup_keys (ob_sets o) &&
  forallb (fun p : spec * N =>
    negb (has_key (fst p) lock) && mem (fst p) (w_http W) &&
    match lookup (fst p) (ob_slots o) with
    | Some payload => match payload_code_media payload with
                      | Some m => negb (media_is_declaration m)
                      | None => false end
    | None => false end &&
    (negb faithful_raw ||
     existsb (fun wm => N.eqb (wm_hash_raw wm) (snd p)) (answers_for W (fst p)))) (ob_sets o) &&
  (* every new remote non-declaration module entry was recorded *)
  forallb (fun kv : N * sexp =>
    match payload_code_media (snd kv) with
    | Some m => media_is_declaration m || negb (mem (fst kv) (w_http W)) || has_key (fst kv) lock ||
                existsb (fun q => N.eqb (fst q) (fst kv)) (ob_sets o)
    | None => true end) (ob_slots o).

Definition c05_holds (W : world) (o : obs) : bool :=
  match w_lock W with
  | None => match ob_sets o with [] => true | _ => false end
  | Some lock =>
      presented_ok lock o && rejected_not_admitted W lock o && redirect_rejected W lock o &&
      recorded_ok W lock o true
  end.

(* known class F-C05a: everything holds except that the recorded value of some
   module whose decoded text differs from the served bytes (BOM, non-UTF-8
   charset) is the hash of the text, not of the bytes *)
Definition c05_known_class (W : world) (o : obs) : bool :=
  match w_lock W with
  | None => false
  | Some lock =>
      presented_ok lock o && rejected_not_admitted W lock o && redirect_rejected W lock o &&
      recorded_ok W lock o false &&
      forallb (fun p : spec * N =>
        existsb (fun wm => N.eqb (snd p) (wm_hash_raw wm) ||
                           (N.eqb (snd p) (wm_hash_text wm) && negb (N.eqb (wm_hash_raw wm) (wm_hash_text wm))))
                (answers_for W (fst p))) (ob_sets o)
  end.

Definition run_c05 (input : sexp) : sexp :=
  match input with
  | L [w; o; roots; imps; impl_graph] =>
      match dec_world w, dec_bopts o, as_atoms roots, dec_imports imps, dec_obs impl_graph with
      | Some W, Some o', Some roots', Some imps', Some ob =>
          match build W o' (empty_bgraph (bo_kind o')) roots' imps' with
          | Some g =>
              let ok := c05_holds W ob in
              L [L [enc_bgraph g];
                 L ([judge ok] ++ (if ok then [] else
                                     if c05_known_class W ob then [of_atoms [CLASSTAG; 501]] else []))]
          | None => L [A 424242]
          end
      | _, _, _, _, _ => decode_error
      end
  | _ => decode_error
  end.
