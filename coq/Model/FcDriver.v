(* The fast-check package driver and its cache (C12):
     range_finder.rs  PublicRangeFinder::find           (package worklist, cache lookup)
                      try_get_cache_item / is_cache_item_valid
     cache.rs         FastCheckCacheKey::build (as data: one key per (nv, entrypoints))
     mod.rs           build_fast_check_type_graph, transform_package (errors -> all
                      entrypoints; success -> all modules; cache fill)
     graph.rs         ModuleGraph::build_fast_check_type_graph (slot assignment)

   The tracer and the transform are NOT modelled: per package and per state of the
   sources, the world records what the tracer found (module_ranges in order, each with
   the outcome of transforming it: Ok out | NotEsm | Err diagnostics; tracer diagnostics
   are Err) and the package dependencies it met.  Emitted modules are opaque ids
   (text + source map interned by the harness); source hashes are data.

   Definitions only; theorems in Proofs/FcDriverProofs.v. *)
From DG Require Import Base.Util Base.Reach.

Definition spec := N.
Definition diag := (N * spec)%type.          (* (code, specifier); code 0 = Cached *)
Definition CACHED : N := 0.

Inductive outcome : Type :=
| OOk (o : N)                                 (* transform produced emitted module o *)
| ONotEsm                                     (* JSON / wasm module info: nothing to transform *)
| OErr (ds : list diag).                      (* tracer or transform diagnostics *)

Record pkg := {
  p_nv : N;
  p_key : N;                                  (* FastCheckCacheKey::build(seed, nv, entrypoints) *)
  p_entry : list spec;                        (* entrypoints (BTreeSet order) *)
  p_modules : list (spec * outcome);          (* module_ranges, in tracing order *)
  p_deps : list N }.                          (* package dependencies met while tracing *)

Record world := {
  w_pkgs : list pkg;                          (* packages whose exports are known to the graph *)
  w_top : list N;                             (* initial pending_nvs *)
  w_hashes : list (spec * N);                 (* source hash of every module with a source; else 0 *)
  w_js : list spec;                           (* specifiers whose slot is a JS module *)
  w_first : bool }.                           (* should_error_on_first_diagnostic *)

Inductive citem : Type :=
| CInfo (h : N) (o : N)
| CDiag (h : N).

Record centry := { ce_deps : list N; ce_modules : list (spec * citem) }.
Definition cache := list (N * centry).

Inductive fres : Type :=
| FOk (o : N)
| FErr (ds : list diag).

Definition item_hash (i : citem) : N := match i with CInfo h _ => h | CDiag h => h end.

Definition hash_of (w : world) (s : spec) : N :=
  match lookup s (w_hashes w) with Some h => h | None => 0 end.

Fixpoint find_pkg (ps : list pkg) (nv : N) : option pkg :=
  match ps with
  | [] => None
  | p :: r => if N.eqb (p_nv p) nv then Some p else find_pkg r nv
  end.

(* is_cache_item_valid *)
Definition valid (w : world) (e : centry) : bool :=
  forallb (fun si => N.eqb (hash_of w (fst si)) (item_hash (snd si))) (ce_modules e).

(* try_get_cache_item: Some only when a cache is in use, holds the key and validates *)
Definition cache_hit (c : option cache) (w : world) (p : pkg) : option centry :=
  match c with
  | None => None
  | Some c' =>
      match lookup (p_key p) c' with
      | Some e => if valid w e then Some e else None
      | None => None
      end
  end.

(* the package dependencies queued while handling nv: from the cache entry on a hit,
   from tracing otherwise *)
Definition deps_of (c : option cache) (w : world) (nv : N) : list N :=
  match find_pkg (w_pkgs w) nv with
  | None => []                                (* exports unknown: `continue` *)
  | Some p => match cache_hit c w p with Some e => ce_deps e | None => p_deps p end
  end.

Definition nv_universe (c : option cache) (w : world) : list N :=
  w_top w ++ flat_map p_deps (w_pkgs w)
  ++ match c with Some c' => flat_map (fun ke => ce_deps (snd ke)) c' | None => [] end.

(* PublicRangeFinder::find: the set of packages handled (pending_nvs / seen_nvs worklist).
   The queue discipline (FIFO in the code) is irrelevant for the SET handled
   (Reach.run_sound_complete); results are kept in a HashMap there. *)
Definition handled (c : option cache) (w : world) : list N :=
  let top := dedup_keep_first (w_top w) in
  match run (deps_of c w) (S (length top + length (nv_universe c w))) top top [] with
  | Some (out, _) => rev out
  | None => []
  end.

(* transform_package *)
Fixpoint transform_package (first : bool) (ms : list (spec * outcome))
         (errors : list diag) (fc : list (spec * N)) : list diag * list (spec * N) :=
  match ms with
  | [] => (errors, fc)
  | (s, oc) :: r =>
      match oc with
      | OOk o =>
          transform_package first r errors
            (match errors with [] => fc ++ [(s, o)] | _ => fc end)
      | ONotEsm => transform_package first r errors fc
      | OErr ds =>
          if first then (errors ++ ds, fc)
          else transform_package first r (errors ++ ds) fc
      end
  end.

Definition no_errors (errors : list diag) : bool := match errors with [] => true | _ => false end.

(* the cache items written for a package that was transformed *)
Definition fill_items (w : world) (errors : list diag) (fc : list (spec * N)) : list (spec * citem) :=
  map (fun so => (fst so, if no_errors errors then CInfo (hash_of w (fst so)) (snd so)
                          else CDiag (hash_of w (fst so)))) fc
  ++ map (fun d => (snd d, CDiag (hash_of w (snd d)))) errors.

Definition sorted_set (l : list N) : list N := sort_n (dedup l).

(* one package of build_fast_check_type_graph on freshly traced ranges *)
Definition build_traced (use_cache : bool) (w : world) (p : pkg)
           (mods : list (spec * outcome)) (deps : list N)
  : list (spec * fres) * option (N * centry) :=
  let '(errors, fc) := transform_package (w_first w) mods [] [] in
  let final :=
    (if no_errors errors then map (fun so => (fst so, FOk (snd so))) fc else [])
    ++ (if no_errors errors then [] else map (fun e => (e, FErr errors)) (p_entry p)) in
  (final,
   if use_cache
   then Some (p_key p, {| ce_deps := sorted_set deps; ce_modules := fill_items w errors fc |})
   else None).

Definition replay (si : spec * citem) : spec * fres :=
  match snd si with
  | CInfo _ o => (fst si, FOk o)
  | CDiag _ => (fst si, FErr [(CACHED, fst si)])
  end.

Definition is_some {T} (o : option T) : bool := match o with Some _ => true | None => false end.

(* one package: cache items when a valid entry with modules exists, else transform
   (a valid entry WITHOUT modules leaves module_ranges and dependencies empty) *)
Definition build_pkg (c : option cache) (w : world) (p : pkg)
  : list (spec * fres) * option (N * centry) :=
  match cache_hit c w p with
  | Some e =>
      match ce_modules e with
      | [] => build_traced (is_some c) w p [] []
      | _ => (map replay (ce_modules e), None)
      end
  | None => build_traced (is_some c) w p (p_modules p) (p_deps p)
  end.

Definition pkgs_handled (c : option cache) (w : world) : list pkg :=
  flat_map (fun nv => match find_pkg (w_pkgs w) nv with Some p => [p] | None => [] end) (handled c w).

Definition final_result (c : option cache) (w : world) : list (spec * fres) :=
  flat_map (fun p => fst (build_pkg c w p)) (pkgs_handled c w).

Fixpoint cache_set (c : cache) (k : N) (e : centry) : cache :=
  match c with
  | [] => [(k, e)]
  | (k', e') :: r => if N.eqb k k' then (k', e) :: r else (k', e') :: cache_set r k e
  end.

Definition cache_after (c : option cache) (w : world) : cache :=
  fold_left (fun acc p => match snd (build_pkg c w p) with
                          | Some (k, e) => cache_set acc k e
                          | None => acc end)
            (pkgs_handled c w)
            (match c with Some c' => c' | None => [] end).

(* ModuleGraph::build_fast_check_type_graph: later entries overwrite earlier ones; only
   JS module slots receive a fast-check slot *)
Fixpoint slot_of (w : world) (final : list (spec * fres)) (s : spec) : option fres :=
  match final with
  | [] => None
  | (s', r) :: rest =>
      match slot_of w rest s with
      | Some x => Some x
      | None => if N.eqb s s' && mem s (w_js w) then Some r else None
      end
  end.

Definition out_of (o : option fres) : option N :=
  match o with Some (FOk x) => Some x | _ => None end.
Definition has_diag (o : option fres) : bool :=
  match o with Some (FErr _) => true | _ => false end.

(* ---- the per-package statement ---- *)
Definition specs_of (p : pkg) : list spec := map fst (p_modules p) ++ p_entry p.

(* all-or-nothing for one package, on slots *)
Definition aonb (w : world) (p : pkg) (slot : spec -> option fres) : bool :=
  let esm := flat_map (fun so => match snd so with OOk _ => [fst so] | _ => [] end) (p_modules p) in
  let js := filter (fun s => mem s (w_js w)) in
  (forallb (fun s => is_some (out_of (slot s))) (js esm)
   && forallb (fun e => negb (has_diag (slot e))) (js (p_entry p)))
  || (forallb (fun s => negb (is_some (out_of (slot s)))) (specs_of p)
      && forallb (fun e => has_diag (slot e)) (js (p_entry p))).

Definition AllOrNothing (w : world) (p : pkg) (slot : spec -> option fres) : Prop :=
  ((forall s o, In (s, OOk o) (p_modules p) -> In s (w_js w) -> exists x, slot s = Some (FOk x))
   /\ (forall e, In e (p_entry p) -> In e (w_js w) -> has_diag (slot e) = false))
  \/ ((forall s, In s (specs_of p) -> out_of (slot s) = None)
      /\ (forall e, In e (p_entry p) -> In e (w_js w) -> has_diag (slot e) = true)).

(* ---- the read-set hypothesis of cache transparency, as a decidable predicate ----
   every valid entry of the cache agrees with what tracing + transforming the current
   sources would give: same dependencies (as a set) and same emitted modules *)
Definition outs_of_final (final : list (spec * fres)) : list (spec * N) :=
  flat_map (fun sr => match snd sr with FOk o => [(fst sr, o)] | FErr _ => [] end) final.

Definition same_set (a b : list N) : bool :=
  forallb (fun x => mem x b) a && forallb (fun x => mem x a) b.

Definition pair_mem (x : spec * N) (l : list (spec * N)) : bool :=
  existsb (fun y => N.eqb (fst x) (fst y) && N.eqb (snd x) (snd y)) l.
Definition same_outs (a b : list (spec * N)) : bool :=
  forallb (fun x => pair_mem x b) a && forallb (fun x => pair_mem x a) b.

(* per package: the dependencies queued and the modules emitted with the cache equal those
   without it *)
Definition pkg_agrees (c : cache) (w : world) (p : pkg) : bool :=
  same_set (deps_of (Some c) w (p_nv p)) (deps_of None w (p_nv p))
  && match find_pkg (w_pkgs w) (p_nv p) with
     | Some q => same_outs (outs_of_final (fst (build_pkg (Some c) w q)))
                           (outs_of_final (fst (build_pkg None w q)))
     | None => true
     end.

Definition cache_soundb (c : cache) (w : world) : bool := forallb (pkg_agrees c w) (w_pkgs w).

(* known class F-C12a: a valid FAILED entry that does not list every entrypoint *)
Definition failed_entry (e : centry) : bool :=
  existsb (fun si => match snd si with CDiag _ => true | CInfo _ _ => false end) (ce_modules e).
Definition warm_gap_classb (c : cache) (w : world) (p : pkg) : bool :=
  match cache_hit (Some c) w p with
  | Some e => failed_entry e
              && negb (forallb (fun x => mem x (map fst (ce_modules e)))
                               (filter (fun s => mem s (w_js w)) (p_entry p)))
  | None => false
  end.

(* known class F-C12b, narrowed: every package on which the cache disagrees with tracing the
   current sources is served from a valid FAILED entry (a failed entry hashes only the modules up
   to the first error).  A disagreement on a successful entry is outside the class. *)
Definition stale_failed_onlyb (c : cache) (w : world) : bool :=
  forallb (fun p => pkg_agrees c w p
                    || match find_pkg (w_pkgs w) (p_nv p) with
                       | Some q => match cache_hit (Some c) w q with
                                   | Some e => failed_entry e
                                   | None => false
                                   end
                       | None => false
                       end) (w_pkgs w).
