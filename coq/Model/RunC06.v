(* C06 wire-level entry point.  Four kinds of case (first atom):

   0  product : one registry info, every (options x requirement x existing x cached)
                combination of the listed values, model answer per combination
   1  explicit: per query two iteration orders of the same registry HashMap (and of the
                existing-versions iterator), the
                implementation's two answers (judged by the proved decision
                procedure spec_okb, and for order independence), model answers
   2  get_for_package over options x package names
   3  the free function resolve_version on explicit (version, info?) sequences

   world data computed by the real crates:
     ranks : rank of version id k is the k-th atom  (Version::cmp)
     mm    : mm[r][k] = VersionReq(r).matches(version k) *)
From DG Require Import Base.Util Base.Sexp Model.Version.

Definition C06_CLASSTAG : N := 555555.

Definition nth_n {T} (k : N) (l : list T) (d : T) : T := nth (N.to_nat k) l d.
Definition rank_of (ranks : list N) (v : ver) : N := nth_n v ranks 0.
Definition matches_of (mm : list (list bool)) (r : N) (v : ver) : bool := nth_n v (nth_n r mm []) false.

Definition dec_vinfo (s : sexp) : option vinfo :=
  match s with
  | L [y; c] =>
      do y' <- as_bool y;
      do c' <- as_option as_atom c;
      Some {| vi_yanked := y'; vi_created := c' |}
  | _ => None
  end.

Definition dec_entry (s : sexp) : option (ver * vinfo) :=
  match s with
  | L [A v; y; c] => do i <- dec_vinfo (L [y; c]); Some (v, i)
  | _ => None
  end.

Definition dec_info (s : sexp) : option pkginfo := as_list_of dec_entry s.

Definition dec_opts (s : sexp) : option ndd_options :=
  match s with
  | L [d; ex; pre] =>
      do d' <- as_option as_atom d;
      do ex' <- as_list_of as_atoms ex;
      do pre' <- as_list_of as_atoms pre;
      Some {| o_date := d'; o_exclude := ex'; o_exclude_prefixes := pre' |}
  | _ => None
  end.

Definition dec_res (s : sexp) : option res :=
  match s with
  | L [A 1; A v; y] => do y' <- as_bool y; Some (ROk v y')
  | L [A 0; f] => do f' <- as_option as_atom f; Some (RErr f')
  | _ => None
  end.

Definition enc_res (r : res) : sexp :=
  match r with
  | ROk v y => L [A 1; A v; of_bool y]
  | RErr f => L [A 0; of_option A f]
  end.

Definition enc_rvres (r : rvres) : sexp :=
  match r with
  | RSome v => L [A 1; A v]
  | RNone had => L [A 0; of_bool had]
  end.

(* ---- kind 0 ---- *)
Definition run_product (ranks : list N) (mm : list (list bool)) (info : pkginfo) (name : str)
           (opts : list ndd_options) (reqs : list N) (existings cacheds : list (list ver)) : list sexp :=
  flat_map (fun o =>
    flat_map (fun r =>
      flat_map (fun ex =>
        map (fun ca => enc_res (jsr_resolve (rank_of ranks) (matches_of mm r) o name info ex ca)) cacheds)
        existings) reqs) opts.

(* ---- kind 1 ---- *)
Definition run_query (ranks : list N) (mm : list (list bool)) (name : str) (q : sexp) : sexp :=
  match q with
  | L [i1; i2; o; A r; ex; ex2; ca; ir1; ir2] =>
      match dec_info i1, dec_info i2, dec_opts o, as_atoms ex, as_atoms ex2, as_atoms ca, dec_res ir1, dec_res ir2 with
      | Some info1, Some info2, Some o', Some ex', Some ex2', Some ca', Some impl1, Some impl2 =>
          let rank := rank_of ranks in
          let m := matches_of mm r in
          let c := get_for_package o' name in
          let wf := nodupb (versions info1) && distinct_ranksb rank (versions info1) && distinct_ranksb rank ex' in
          let ok := spec_okb rank m info1 c ex' ca' impl1 && spec_okb rank m info2 c ex2' ca' impl2 in
          let same := res_eqb impl1 impl2 in
          L ([enc_res (jsr_resolve rank m o' name info1 ex' ca');
              enc_res (jsr_resolve rank m o' name info2 ex2' ca');
              of_bool wf; judge ok; judge same]
             (* known class F-C06a: both answers are allowed by the statement and they name two
                different versions that compare Equal (build metadata) *)
             ++ (if ok && negb same && tie_onlyb rank impl1 impl2 then [of_atoms [C06_CLASSTAG; 601]] else []))
      | _, _, _, _, _, _, _, _ => decode_error
      end
  | _ => decode_error
  end.

(* ---- kind 2 ---- *)
Definition run_gfp (names : list str) (opts : list ndd_options) : list sexp :=
  flat_map (fun o => map (fun n => L [of_option A (get_for_package o n)]) names) opts.

(* ---- kind 3 ---- *)
Definition dec_item (s : sexp) : option (ver * option vinfo) :=
  match s with
  | L [A v; i] => do i' <- as_option dec_vinfo i; Some (v, i')
  | _ => None
  end.

Definition run_free (ranks : list N) (mm : list (list bool)) (q : sexp) : sexp :=
  match q with
  | L [A r; c; items] =>
      match as_option as_atom c, as_list_of dec_item items with
      | Some c', Some items' => enc_rvres (resolve_version (rank_of ranks) (matches_of mm r) c' items')
      | _, _ => decode_error
      end
  | _ => decode_error
  end.

Definition dec_mm (s : sexp) : option (list (list bool)) := as_list_of (as_list_of as_bool) s.

Definition run_c06 (input : sexp) : sexp :=
  match input with
  | L [A 0; ranks; mm; info; name; opts; reqs; exs; cas] =>
      match as_atoms ranks, dec_mm mm, dec_info info, as_atoms name, as_list_of dec_opts opts,
            as_atoms reqs, as_list_of as_atoms exs, as_list_of as_atoms cas with
      | Some ranks', Some mm', Some info', Some name', Some opts', Some reqs', Some exs', Some cas' =>
          L (run_product ranks' mm' info' name' opts' reqs' exs' cas')
      | _, _, _, _, _, _, _, _ => decode_error
      end
  | L [A 1; ranks; mm; name; L qs] =>
      match as_atoms ranks, dec_mm mm, as_atoms name with
      | Some ranks', Some mm', Some name' => L (map (run_query ranks' mm' name') qs)
      | _, _, _ => decode_error
      end
  | L [A 2; names; opts] =>
      match as_list_of as_atoms names, as_list_of dec_opts opts with
      | Some names', Some opts' => L (run_gfp names' opts')
      | _, _ => decode_error
      end
  | L [A 3; ranks; mm; L qs] =>
      match as_atoms ranks, dec_mm mm with
      | Some ranks', Some mm' => L (map (run_free ranks' mm') qs)
      | _, _ => decode_error
      end
  | _ => decode_error
  end.
