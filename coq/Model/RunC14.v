(* C14: lookups vs. walking.  [follow] is what a walk reaches from a
   specifier through redirects (slot first, then redirect; a cycle reaches
   nothing).  The run function reports the model's lookups and judges the
   implementation's lookups against [follow]. *)
From DG Require Import Base.Util Base.Sexp Base.Reach Model.Graph Model.Walk Model.RunC15 Model.RunC02.

Fixpoint follow (fuel : nat) (g : graph) (s : spec) : option spec :=
  match slot_of g s with
  | Some SPending => None
  | Some _ => Some s
  | None =>
      match redirect_of g s with
      | Some t => match fuel with O => None | S f => follow f g t end
      | None => None
      end
  end.

Definition follow_fuel (g : graph) : nat := S (length (g_redirects g)).
Definition walk_end (g : graph) (s : spec) : option spec := follow (follow_fuel g) g s.

(* number of redirect hops from s until a non-redirect key, None on a cycle *)
Fixpoint hops (fuel : nat) (g : graph) (s : spec) : option nat :=
  match redirect_of g s with
  | None => Some O
  | Some t => match fuel with O => None | S f => option_map S (hops f g t) end
  end.
Definition chain_hops (g : graph) (s : spec) : option nat := hops (follow_fuel g) g s.

(* does some specifier on the redirect chain from s, other than the last one
   reached by [follow], own a slot while also being a redirect key? *)
Fixpoint shadowed (fuel : nat) (g : graph) (s : spec) : bool :=
  match redirect_of g s with
  | None => false
  | Some t =>
      match slot_of g s with
      | Some _ => true
      | None => match fuel with O => false | S f => shadowed f g t end
      end
  end.

Definition enc_tryres (r : tryres) : sexp :=
  match r with
  | TOkNone => of_atoms [0]
  | TOkMod m => of_atoms [1; m_spec m]
  | TErr e => of_atoms [2; e]
  end.

Definition enc_opt_spec (o : option spec) : sexp := match o with None => L [] | Some s => L [A s] end.

Definition lookups (g : graph) (s : spec) : sexp :=
  L [A (resolve g s);
     enc_opt_spec (option_map m_spec (get g s));
     of_bool (contains g s);
     enc_tryres (try_get g s);
     enc_tryres (try_get_prefer_types g s);
     enc_opt_spec (walk_end g s)].

(* the property, judged on the implementation's answers (decoded from the query) *)
Definition tryres_of_slot (g : graph) (e : option spec) : sexp :=
  match e with
  | None => of_atoms [0]
  | Some x =>
      match slot_of g x with
      | Some (SMod m) => of_atoms [1; m_spec m]
      | Some (SErr _ er) => of_atoms [2; er]
      | _ => of_atoms [0]
      end
  end.

Fixpoint sexp_eqb (a b : sexp) {struct a} : bool :=
  match a, b with
  | A x, A y => N.eqb x y
  | L xs, L ys =>
      (fix go (xs ys : list sexp) {struct xs} : bool :=
         match xs, ys with
         | [], [] => true
         | x :: xs', y :: ys' => sexp_eqb x y && go xs' ys'
         | _, _ => false
         end) xs ys
  | _, _ => false
  end.

(* impl = [resolve; get; contains; try_get; try_get_prefer_types] as printed by the harness *)
Definition c14_holds (g : graph) (s : spec) (impl : sexp) : bool :=
  match impl with
  | L [A r; gt; A c; tg; _; we] =>
      (* the walk end is taken from the REAL walk (we), which the model's
         walk_end is separately compared with *)
      let e := match we with L [A x] => Some x | _ => None end in
      let expect_try := tryres_of_slot g e in
      (* idempotent *)
      N.eqb (resolve g r) r &&
      (* module lookup = module the walk reaches *)
      sexp_eqb gt (match expect_try with L [A 1; A m] => L [A m] | _ => L [] end) &&
      (* membership *)
      Bool.eqb (negb (N.eqb c 0)) (match expect_try with L [A 1; _] => true | _ => false end) &&
      (* error lookup *)
      sexp_eqb tg expect_try
  | _ => false
  end.

Definition c14_class (g : graph) (s : spec) : list sexp :=
  match chain_hops g s with
  | None => [of_atoms [CLASSTAG; 1401]]                      (* redirect cycle reachable from s *)
  | Some n =>
      if Nat.leb 10 n then [of_atoms [CLASSTAG; 1402]]        (* more than 9 hops *)
      else if shadowed (follow_fuel g) g s then [of_atoms [CLASSTAG; 1404]]
      else []
  end.

Definition run_c14_query (g : graph) (q : sexp) : sexp :=
  match q with
  | L [A s; impl] =>
      let holds := c14_holds g s impl in
      L ([lookups g s; judge holds] ++ (if holds then [] else c14_class g s))
  | _ => decode_error
  end.

(* specifiers(): the property wants every redirect source whose walk reaches an
   entry to be listed with that entry *)
Definition specifiers_expected (g : graph) : list (spec * spec) :=
  map (fun p => (fst p, fst p)) (filter (fun p => slot_visible (snd p)) (g_slots g))
  ++ flat_map (fun p : spec * spec =>
       match slot_of g (fst p) with
       | Some _ => []      (* listed as a slot already *)
       | None => match walk_end g (fst p) with Some e => [(fst p, e)] | None => [] end
       end) (g_redirects g).

Definition pair_mem (p : N * N) (l : list (N * N)) : bool :=
  existsb (fun q => N.eqb (fst p) (fst q) && N.eqb (snd p) (snd q)) l.

Definition enc_pairs (l : list (spec * spec)) : sexp :=
  set_of (map (fun p => of_atoms [fst p; snd p]) l).

(* resolve_dependency for every (module, dependency, prefer_types) *)
Definition all_dep_queries (g : graph) : list (spec * N) :=
  flat_map (fun p => match snd p with
                     | SMod m => map (fun d => (fst p, d_text d)) (m_deps m)
                     | _ => [] end) (g_slots g)
  ++ flat_map (fun p => map (fun d => (fst p, d_text d)) (snd p)) (g_imports g).

Definition graph_elem (g : graph) (impl_specifiers : list (N * N)) : sexp :=
  let expected := specifiers_expected g in
  let missing := filter (fun p => negb (pair_mem p impl_specifiers)) expected in
  (* a specifier that is both an entry and a redirect source may be listed in both roles *)
  let extra := filter (fun p => negb (pair_mem p expected) &&
                                negb (match slot_of g (fst p), redirect_of g (fst p) with
                                      | Some _, Some _ => true | _, _ => false end)) impl_specifiers in
  let holds := match missing, extra with [], [] => true | _, _ => false end in
  (* known class F-C14c: only redirect sources whose one-hop target is not an entry are missing *)
  let known := match extra with
               | [] => forallb (fun p => match redirect_of g (fst p) with
                                         | Some t => match slot_of g t with None => true | Some _ => false end
                                         | None => false end) missing
               | _ => false end in
  L ([enc_pairs (specifiers g);
      set_of (map (fun q => L [A (fst q); A (snd q);
                               enc_opt_spec (resolve_dependency g (snd q) (fst q) false);
                               enc_opt_spec (resolve_dependency g (snd q) (fst q) true)])
                  (all_dep_queries g));
      judge holds]
     ++ (if holds then [] else if known then [of_atoms [CLASSTAG; 1403]] else [])).

Definition run_c14 (input : sexp) : sexp :=
  match input with
  | L [gs; L qs; impl_specifiers] =>
      match dec_graph gs, as_list_of (as_pair as_atom as_atom) impl_specifiers with
      | Some g, Some isp => L (map (run_c14_query g) qs ++ [graph_elem g isp])
      | _, _ => decode_error
      end
  | _ => decode_error
  end.
