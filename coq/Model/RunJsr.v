(* Wire format of the stage-B2 (registry) builder model: decoding of worlds,
   encoding of the resulting graph, and [with_jsr], which lets a property's
   run function accept both its own inputs and tagged registry cases. *)
From DG Require Import Base.Util Base.Sexp Model.Graph Model.Jsr.

Definition JSRTAG : N := 31337.
Definition jset (l : list sexp) : sexp := L (A 777777 :: l).

Definition dec_jdep (s : sexp) : option jdep :=
  match s with
  | L [A t; A r; d] => do dy <- as_bool d; Some {| jd_target := t; jd_range := r; jd_dyn := dy |}
  | _ => None
  end.

Definition dec_resp (s : sexp) : option jresp :=
  match s with
  | L [A 0] => Some JMissing
  | L [A 1] => Some JError
  | L [A 2; A t] => Some (JRedirect t)
  | L [A 3; A f] => Some (JExternal f)
  | L [A 4; A f; A h; ok; decl; deps] =>
      do o <- as_bool ok; do d <- as_bool decl; do ds <- as_list_of dec_jdep deps;
      Some (JModule f {| jm_hash := h; jm_ok := o; jm_decl := d; jm_deps := ds |})
  | _ => None
  end.

Definition dec_cls (s : sexp) : option (spec * scls) :=
  match s with
  | L [A sp; A 1; A p; A r; A e] => Some (sp, CJsr p r e)
  | L [A sp; A 2] => Some (sp, CJsrBad)
  | L [A sp; A 3; A p; A v; A path] => Some (sp, CFile p v path)
  | _ => None
  end.

Definition dec_mfail (n : N) : option mfail :=
  match n with 0 => Some MfMissing | 1 => Some MfError | 2 => Some MfRedirect | 3 => Some MfBad | _ => None end.

Definition dec_pmeta (s : sexp) : option pmeta :=
  match s with
  | L [A 0; A f] => do x <- dec_mfail f; Some (PFail x)
  | L [A 1; vs] => do l <- as_list_of (as_pair as_atom as_bool) vs; Some (POk l)
  | _ => None
  end.

Definition dec_mchk (s : sexp) : option mchk :=
  match s with
  | L [A 0; A c] => Some (MSha c)
  | L [A 1] => Some MUnsupported
  | _ => None
  end.

Definition dec_vmeta (s : sexp) : option vmeta :=
  match s with
  | L [A 0; A f] => do x <- dec_mfail f; Some (VFail x)
  | L [A 2; A h] => Some (VBad h)
  | L [A 1; A h; lc; ex; man; mi] =>
      do l <- as_option as_atom lc;
      do e <- as_list_of (as_pair as_atom as_atom) ex;
      do m <- as_list_of (as_pair as_atom dec_mchk) man;
      do i <- as_list_of (as_pair as_atom (as_list_of dec_jdep)) mi;
      Some (VOk {| vi_hash := h; vi_lockfile_checksum := l; vi_exports := e; vi_manifest := m; vi_modinfo := i |})
  | _ => None
  end.

Definition dec_pkg (s : sexp) : option (N * pkgrec) :=
  match s with
  | L [A p; A u; mu; mr] =>
      do a <- dec_pmeta mu; do b <- dec_pmeta mr; Some (p, {| p_url := u; p_use := a; p_reload := b |})
  | _ => None
  end.

Definition dec_ver (s : sexp) : option (nv * verrec) :=
  match s with
  | L [A p; A v; A u; A b; m; c] =>
      do vm <- dec_vmeta m; do ca <- as_bool c;
      Some ((p, v), {| v_url := u; v_base := b; v_meta := vm; v_cached := ca |})
  | _ => None
  end.

Definition dec_lock_entry (s : sexp) : option (nv * N) :=
  match s with L [A p; A v; A c] => Some ((p, v), c) | _ => None end.

Definition dec_seed (s : sexp) : option (N * nv) :=
  match s with L [A r; A p; A v] => Some (r, (p, v)) | _ => None end.

Definition dec_jworld_seeded (s seeds late : sexp) : option jworld :=
  match s with
  | L (cls :: use :: only :: pkgs :: vers :: mt :: lp :: lr :: http :: A mc :: A mr :: _) =>
      do c <- as_list_of dec_cls cls;
      do u <- as_list_of (as_pair as_atom dec_resp) use;
      do o <- as_list_of (as_pair as_atom dec_resp) only;
      do p <- as_list_of dec_pkg pkgs;
      do v <- as_list_of dec_ver vers;
      do m <- as_list_of (as_pair as_atom as_atoms) mt;
      do l <- as_option (as_list_of dec_lock_entry) lp;
      do r <- as_list_of (as_pair as_atom as_atom) lr;
      do h <- as_atoms http;
      do sd <- as_list_of dec_seed seeds;
      do lt <- as_list_of (as_pair as_atom as_atom) late;
      Some {| jw_cls := c; jw_use := u; jw_only := o; jw_pkgs := p; jw_vers := v; jw_match := m;
              jw_lock_pkg := l; jw_lock_remote := r; jw_http := h; jw_missing_chk := mc;
              jw_max_redirects := N.to_nat mr; jw_seed := sd; jw_late := lt |}
  | _ => None
  end.

(* worlds written before lockfile seeding was modelled have eleven fields: no seeds *)
Definition dec_jworld (s : sexp) : option jworld :=
  match s with
  | L [_; _; _; _; _; _; _; _; _; _; _] => dec_jworld_seeded s (L []) (L [])
  | L [_; _; _; _; _; _; _; _; _; _; _; seeds] => dec_jworld_seeded s seeds (L [])
  | L [_; _; _; _; _; _; _; _; _; _; _; seeds; late] => dec_jworld_seeded s seeds late
  | _ => None
  end.

Definition enc_jdep (d : jdep) : sexp := L [A (jd_target d); A (jd_range d); of_bool (jd_dyn d)].
Definition enc_jslot (sl : jslot) : sexp :=
  match sl with
  | JsMod src deps => L [A 0; A src; L (map enc_jdep deps)]
  | JsExternal => L [A 1]
  | JsErr e => L [A 2; A (je_kind e); A (je_spec e); of_option A (je_ref e)]
  | JsPending => L [A 3]
  end.
Definition enc_nv (v : nv) : list sexp := [A (fst v); A (snd v)].
Definition enc_ptable (t : ptable) : sexp :=
  L [jset (map (fun p => L (A (fst p) :: enc_nv (snd p))) (pt_map t));
     jset (map (fun v => L (enc_nv v)) (pt_pkgs t));
     jset (map (fun p => L (enc_nv (fst p) ++ [A (snd p)])) (pt_exports t));
     jset (map (fun p => L (enc_nv (fst p) ++ [A (snd p)])) (pt_deps t));
     jset (map (fun v => L (enc_nv v)) (pt_yanked t))].
Definition enc_jcall (c : jcall) : sexp := L [A (jc_spec c); A (jc_setting c); of_option A (jc_checksum c)].

Definition enc_jgraph (g : jgraph) : sexp :=
  L [jset (map (fun p => L [A (fst p); enc_jslot (snd p)]) (jg_slots g));
     jset (map (fun p => L [A (fst p); A (snd p)]) (jg_redirects g));
     enc_ptable (jg_pkgs g);
     jset (map enc_jcall (jg_calls g));
     jset (map (fun p => L (enc_nv (fst p) ++ [A (snd p)])) (jg_lock_sets g));
     jset (map (fun p => L [A (fst p); A (snd p)]) (jg_remote_sets g))].

(* ---------- C01 judgement: nothing unreachable is present ---------- *)
Fixpoint reach (fuel : nat) (edges : spec -> list spec) (work seen : list spec) : list spec :=
  match fuel with
  | O => seen
  | S f =>
      match work with
      | [] => seen
      | s :: w => if mem s seen then reach f edges w seen else reach f edges (edges s ++ w) (s :: seen)
      end
  end.

(* the embedded module info of a package file, when its manifest has one *)
Definition modinfo_deps (W : jworld) (s : spec) : list jdep :=
  match cls_of W s with
  | CFile p v path =>
      match v_meta (ver_of W (p, v)) with
      | VOk vi => match lookup path (vi_modinfo vi) with Some mi => mi | None => [] end
      | _ => []
      end
  | _ => []
  end.

(* every export target a jsr specifier may have been sent to: the targets of its export in the selected
   versions of its package that satisfy its requirement *)
Definition jsr_targets (W : jworld) (g : jgraph) (s : spec) : list spec :=
  match cls_of W s with
  | CJsr p r e =>
      flat_map (fun v =>
        if N.eqb (fst v) p && matches W r (snd v) then
          match v_meta (ver_of W v) with
          | VOk vi => match lookup e (vi_exports vi) with Some t => [t] | None => [] end
          | _ => []
          end
        else []) (pt_pkgs (jg_pkgs g))
  | _ => []
  end.

(* edges of the final graph, with two relaxations that name the known ways an entry gets orphaned:
   [ra]: an error entry of a package file still counts the dependencies its embedded module info
         declared (they were followed before its content load failed);
   [rb]: a jsr specifier counts every selected version that satisfies it (its redirect was overwritten
         when the same specifier, queued twice, was resolved again after a higher version got selected) *)
Definition graph_edges (W : jworld) (g : jgraph) (ra rb : bool) (s : spec) : list spec :=
  (match lookup s (jg_redirects g) with Some t => [t] | None => [] end) ++
  (if rb then jsr_targets W g s else []) ++
  match lookup s (jg_slots g) with
  | Some (JsMod _ deps) => map jd_target deps
  | Some (JsErr _) => if ra then map jd_target (modinfo_deps W s) else []
  | _ => []
  end.

Definition reach_fuel (W : jworld) (g : jgraph) (roots : list spec) : nat :=
  (16 + length roots + 4 * (length (jg_slots g) + length (jg_redirects g)) * (1 + length (pt_pkgs (jg_pkgs g))) +
   length (jw_cls W) * (1 + length (pt_pkgs (jg_pkgs g))) +
   fold_left (fun n p => n + match snd p with JsMod _ deps => length deps | _ => 0 end +
                         length (modinfo_deps W (fst p))) (jg_slots g) 0)%nat.

Definition orphan_free_gen (W : jworld) (g : jgraph) (roots : list spec) (ra rb : bool) : bool :=
  let r := reach (reach_fuel W g roots) (graph_edges W g ra rb) roots [] in
  forallb (fun p => mem (fst p) r) (jg_slots g).
Definition orphan_free (W : jworld) (g : jgraph) (roots : list spec) (relaxed : bool) : bool :=
  orphan_free_gen W g roots relaxed false.

(* answers report the requested specifier as the final one (no aliases): with aliases an answer can
   replace the entry of another module and with it the only importer of something *)
Definition noalias_resp (p : spec * jresp) : bool :=
  match snd p with JExternal f => N.eqb f (fst p) | JModule f _ => N.eqb f (fst p) | _ => true end.
Definition noalias_jworld (W : jworld) : bool := forallb noalias_resp (jw_use W) && forallb noalias_resp (jw_only W).

Definition CLASSTAG : N := 555555.
Definition c01_judgement (W : jworld) (g : jgraph) (roots : list spec) : list sexp :=
  if negb (noalias_jworld W) then [judge true]
  else if orphan_free_gen W g roots false false then [judge true]
  else if orphan_free_gen W g roots true false then [judge false; L [A CLASSTAG; A 101]]
  else if orphan_free_gen W g roots false true then [judge false; L [A CLASSTAG; A 102]]
  else if orphan_free_gen W g roots true true then [judge false; L [A CLASSTAG; A 101; A 102]]
  else [judge false].

(* ---------- C06 judgement at graph level: lockfile-seeded selections are honoured ----------
   every requirement ends up mapped to a version that is not below the highest lockfile-seeded version
   of its package that satisfies it (the seeds are selected from the start, so "the highest version
   already selected that satisfies it" can never be lower). Class 602: the build restarted
   (Builder::restart makes a new graph: the seeds are gone). *)
Definition seed_respected (W : jworld) (e : N * nv) : bool :=
  match best_match W (fst e) (seeded_versions W (fst (snd e))) None with
  | Some m => negb (N.ltb (snd (snd e)) m)
  | None => true
  end.
(* the requirements this build resolved: those of the jsr specifiers it recorded a redirect for
   (a lockfile entry that no specifier asked for stays in the table as the lockfile wrote it) *)
Definition resolved_reqs (W : jworld) (g : jgraph) : list N :=
  flat_map (fun r => match cls_of W (fst r) with CJsr _ req _ => [req] | _ => [] end) (jg_redirects g).
Definition req_respected (W : jworld) (g : jgraph) (req : N) : bool :=
  match lookup req (pt_map (jg_pkgs g)) with
  | Some v => seed_respected W (req, v)
  | None => false          (* a resolved requirement is mapped *)
  end.
Definition c06_judgement (W : jworld) (g : jgraph) (roots : list spec) : list sexp :=
  if forallb (req_respected W g) (resolved_reqs W g) then [judge true]
  else if jg_restarted g then [judge false; L [A CLASSTAG; A 602]]
  else [judge false].

Definition run_jsr_judged (judgement : jworld -> jgraph -> list spec -> list sexp) (s : sexp) : sexp :=
  match s with
  | L [A _; w; L [pc]; roots] =>
      match dec_jworld w, as_bool pc, as_atoms roots with
      | Some W, Some p, Some rs =>
          if negb (wf_jworld W) then L [A 434343] else
          match jbuild W {| jo_prefer_cached := p |} rs with
          | Some g => L (enc_jgraph g :: judgement W g rs)
          | None => L [A 424242]
          end
      | _, _, _ => decode_error
      end
  | _ => decode_error
  end.
Definition run_jsr_gen (with_c01_judge : bool) : sexp -> sexp :=
  run_jsr_judged (fun W g rs => if with_c01_judge then c01_judgement W g rs else []).

Definition run_jsr : sexp -> sexp := run_jsr_gen false.

Definition is_jsr_case (s : sexp) : bool :=
  match s with L (A t :: _) => N.eqb t JSRTAG | _ => false end.

(* a case decided on the real code alone (relational): nothing to compute here *)
Definition RELTAG : N := 31338.
Definition is_rel_case (s : sexp) : bool :=
  match s with L (A t :: _) => N.eqb t RELTAG | _ => false end.

(* a registry case outside the model (package files imported as assets): the REAL loader-call log is judged
   by the statement of C05_registry_presents_manifest_checksum - every call for a file of a registry package
   presents the checksum the version manifest gives for that file *)
Definition CALLSTAG : N := 31339.
Definition is_calls_case (s : sexp) : bool :=
  match s with L (A t :: _) => N.eqb t CALLSTAG | _ => false end.
Definition call_presents_manifest (W : jworld) (c : jcall) : bool :=
  match cls_of W (jc_spec c) with
  | CFile p v path =>
      match v_meta (ver_of W (p, v)) with
      | VOk vi => match get_checksum W vi path, jc_checksum c with
                  | Some k, Some x => N.eqb x k
                  | _, _ => false end
      | _ => false
      end
  | _ => true
  end.
Definition dec_jcall (s : sexp) : option jcall :=
  match s with
  | L [A sp; A st; ck] => do c <- as_option as_atom ck; Some {| jc_spec := sp; jc_setting := st; jc_checksum := c |}
  | _ => None
  end.
Definition run_calls_judged (s : sexp) : sexp :=
  match s with
  | L [A _; w; calls] =>
      match dec_jworld w, as_list_of dec_jcall calls with
      | Some W, Some cs => L [judge (forallb (call_presents_manifest W) cs)]
      | _, _ => decode_error
      end
  | _ => decode_error
  end.

Definition with_jsr (f : sexp -> sexp) (s : sexp) : sexp :=
  if is_jsr_case s then run_jsr s else if is_calls_case s then run_calls_judged s else if is_rel_case s then L [] else f s.
(* the C01 stream also judges "nothing unreachable is present" on registry graphs *)
Definition with_jsr_c01 (f : sexp -> sexp) (s : sexp) : sexp :=
  if is_jsr_case s then run_jsr_gen true s else if is_rel_case s then L [] else f s.
(* the C06 stream also judges that lockfile-seeded selections are honoured *)
Definition with_jsr_c06 (f : sexp -> sexp) (s : sexp) : sexp :=
  if is_jsr_case s then run_jsr_judged c06_judgement s else if is_rel_case s then L [] else f s.
