(* ModuleGraph::prune_types (src/graph.rs:2428-2509) and ModuleGraph::segment
   (src/graph.rs:2381-2425) on the abstract graph.  Definitions only. *)
From DG Require Import Base.Util Base.Sexp Base.Reach Model.Graph Model.Walk.

(* ---------- prune_types ---------- *)

Definition prune_dep (d : dep) : dep :=
  {| d_text := d_text d; d_filelike := d_filelike d; d_code := d_code d; d_type := RNone;
     d_dyn := d_dyn d; d_deno_types := false; d_attr := d_attr d |}.

Definition prune_module (m : module) : module :=
  match m_kind m with
  | MkJs =>
      {| m_kind := MkJs; m_spec := m_spec m; m_media := m_media m; m_deps := map prune_dep (m_deps m);
         m_types_dep := None; m_fc_deps := None; m_dts := false |}
  | MkWasm =>
      (* the code clears source_dts; a Wasm module never has a types dependency or
         fast-check data, so clearing those fields too changes nothing on real graphs *)
      {| m_kind := MkWasm; m_spec := m_spec m; m_media := m_media m; m_deps := map prune_dep (m_deps m);
         m_types_dep := None; m_fc_deps := None; m_dts := false |}
  | _ => m
  end.

(* what the worklist adds when it takes specifier s: the redirect target if s
   is a redirect source (the slot is then NOT looked at), otherwise the code
   targets of all dependencies (static and dynamic) of a Js/Wasm module *)
Definition prune_expand (g : graph) (s : spec) : list spec :=
  match redirect_of g s with
  | Some t => [t]
  | None =>
      match slot_of g s with
      | Some (SMod m) =>
          match m_kind m with
          | MkJs | MkWasm => flat_map (fun d => res_targets (d_code d)) (m_deps m)
          | _ => []
          end
      | _ => []
      end
  end.

(* is s walked as a module (its slot modified)? *)
Definition prune_walked (g : graph) (s : spec) : bool :=
  match redirect_of g s with Some _ => false | None => true end.

Definition prune_universe (g : graph) : list spec :=
  flat_map (fun p => match snd p with
                     | SMod m => flat_map (fun d => res_targets (d_code d)) (m_deps m)
                     | _ => [] end) (g_slots g)
  ++ map snd (g_redirects g).

Definition prune_fuel (g : graph) : nat :=
  (length (g_roots g) + length (dedup (prune_universe g)))%nat.

(* The code's worklist is FIFO (SeenPendingCollection); only the final seen set
   is used, and Reach.run_sound_complete shows that set does not depend on the
   discipline, so the generic front-pushing [run] is used here. *)
Definition prune_seen (g : graph) : option (list spec) :=
  let roots := dedup (g_roots g) in
  match run (prune_expand g) (prune_fuel g) roots roots [] with
  | Some (out, _) => Some out
  | None => None
  end.

Definition prune_slot (g : graph) (s : spec) (sl : slot) : slot :=
  match sl with
  | SMod m => if prune_walked g s then SMod (prune_module m) else sl
  | _ => sl
  end.

Definition prune (g : graph) : option graph :=
  if negb (include_types (g_kind g)) then Some g
  else
    match prune_seen g with
    | None => None
    | Some seen =>
        Some {| g_kind := KCodeOnly;
                g_roots := g_roots g;
                g_slots := map (fun p => (fst p, prune_slot g (fst p) (snd p)))
                               (filter (fun p => mem (fst p) seen) (g_slots g));
                g_redirects := filter (fun p => mem (fst p) seen) (g_redirects g);
                g_imports := [];
                g_schemes := g_schemes g;
                g_has_node := existsb (fun p => mem (fst p) seen && prune_walked g (fst p) &&
                                                match snd p with
                                                | SMod m => match m_kind m with MkNode => true | _ => false end
                                                | _ => false end) (g_slots g);
                g_errkinds := g_errkinds g |}
    end.

(* ---------- segment ---------- *)

Definition segment_opts (g : graph) : wopts :=
  {| w_kind := g_kind g; w_follow_dynamic := true; w_check_js := fun _ => true; w_prefer_fc := false |}.

Definition subset_b (a b : list spec) : bool := forallb (fun x => mem x b) a.

Definition segment (g : graph) (roots : list spec) : option graph :=
  let roots' := dedup_keep_first roots in
  if subset_b roots' (g_roots g) then Some g
  else
    match walk g (segment_opts g) (fun _ => false) roots' with
    | None => None
    | Some ys =>
        Some {| g_kind := g_kind g;
                g_roots := roots';
                g_slots := filter (fun p => existsb (fun y => N.eqb (fst y) (fst p) &&
                                            match snd y with ERedirect _ => false | _ => true end) ys)
                                  (g_slots g);
                g_redirects := filter (fun p => existsb (fun y => N.eqb (fst y) (fst p) &&
                                            match snd y with ERedirect _ => true | _ => false end) ys)
                                      (g_redirects g);
                g_imports := g_imports g;
                g_schemes := g_schemes g;
                g_has_node := g_has_node g;
                g_errkinds := g_errkinds g |}
    end.
