(* Wire-level entry point for the walk model: decodes a graph and a list of
   queries, runs walk / walk_errors / validate, encodes the observations in
   the same shape the harness prints for the implementation. *)
From DG Require Import Base.Util Base.Sexp Base.Reach Model.Graph Model.Walk.

Definition SETTAG : N := 777777.
Definition set_of (l : list sexp) : sexp := L (A SETTAG :: l).

Definition enc_yield (y : spec * entry) : sexp := of_atoms (fst y :: enc_entry_tag (snd y)).

Definition run_walk_query (g : graph) (q : sexp) : sexp :=
  match q with
  | L [o; roots; skip] =>
      match dec_wopts o, as_atoms roots, as_atoms skip with
      | Some o', Some roots', Some skip' =>
          let sk := fun s => mem s skip' in
          match walk g o' sk roots', walk_errors g o' roots' with
          | Some ys, Some es =>
              L [set_of (map enc_yield ys);
                 set_of (map enc_gerr es);
                 of_atoms [match es with [] => 0 | _ => 1 end]]
          | _, _ => L [A 424242]    (* out of fuel: excluded by theorem, never expected *)
          end
      | _, _, _ => decode_error
      end
  | _ => decode_error
  end.

Definition run_c15 (input : sexp) : sexp :=
  match input with
  | L [gs; L qs] =>
      match dec_graph gs with
      | Some g => L (map (run_walk_query g) qs)
      | None => decode_error
      end
  | _ => decode_error
  end.
