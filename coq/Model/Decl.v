(* C01, second layer: how a module's recorded dependencies follow from the
   dependency descriptors of its analysis (src/graph.rs fill_module_dependencies):
   one entry per specifier text in order of first occurrence; the code target is
   resolved from the first code import, the type target from the first of
   @deno-types / a type import / (when types are included) the import itself
   unless it resolves to the code target or is a failing side-effect import;
   the `type` attribute is the first one seen; and static wins: the entry is
   dynamic only if every code import of the text is dynamic.
   What each text resolves to is data (real resolution of the text alone).
   Only string arguments of dynamic imports are modelled (templates and
   expressions induce no entry outside file: modules).  Definitions only. *)
From DG Require Import Base.Util Base.Sexp.

Inductive ikind := IkEs | IkEsSource | IkRequire | IkTsType | IkAug.
Record desc := {
  ds_text : N; ds_kind : ikind; ds_dyn : bool; ds_attr : N;      (* attr 0 = no `type` attribute *)
  ds_side : bool; ds_range : N;
  ds_types : option (N * N)                                       (* @deno-types / types specifier: text, range *)
}.
(* what a text resolves to: a target, an error, for execution and for types *)
Inductive rout := OTarget (t : N) | OErr (e : N).
Record rtab := { rt_exec : list (N * rout); rt_types : list (N * rout) }.

Inductive dres := DNone | DOk (target range : N) | DErr (e range : N).
Definition dres_spec (r : dres) : option N := match r with DOk t _ => Some t | _ => None end.
Definition is_dnone (r : dres) : bool := match r with DNone => true | _ => false end.
Definition is_derr (r : dres) : bool := match r with DErr _ _ => true | _ => false end.
Definition optN_eqb (a b : option N) : bool :=
  match a, b with Some x, Some y => N.eqb x y | None, None => true | _, _ => false end.

Definition resolve_in (tab : list (N * rout)) (text range : N) : dres :=
  match lookup text tab with
  | Some (OTarget t) => DOk t range
  | Some (OErr e) => DErr e range
  | None => DErr 0 range
  end.

Record dacc := {
  da_text : N; da_attr : N; da_code : dres; da_type : dres; da_dyn : bool;
  da_deno : option N; da_imports : N; da_nonaug : N
}.
Definition empty_acc (text : N) : dacc :=
  {| da_text := text; da_attr := 0; da_code := DNone; da_type := DNone; da_dyn := false; da_deno := None;
     da_imports := 0; da_nonaug := 0 |}.

Record dopts := { do_types : bool; do_decl : bool; do_typed : bool }.  (* include_types, is_declaration, is_typed *)

Definition is_type_kind (k : ikind) : bool := match k with IkTsType | IkAug => true | _ => false end.
Definition is_aug (k : ikind) : bool := match k with IkAug => true | _ => false end.

(* one import added to the entry of its specifier *)
Definition add_import (T : rtab) (o : dopts) (a : dacc) (i : desc) : dacc :=
  let attr := if N.eqb (da_attr a) 0 then ds_attr i else da_attr a in
  let '(deno1, type1) :=
    match ds_types i with
    | Some (ty, tr) => if do_types o && is_dnone (da_type a) then (Some ty, resolve_in (rt_types T) ty tr)
                       else (da_deno a, da_type a)
    | None => (da_deno a, da_type a)
    end in
  let '(code2, type2, dyn2) :=
    if is_type_kind (ds_kind i) then
      (da_code a, (if is_dnone type1 then resolve_in (rt_types T) (ds_text i) (ds_range i) else type1), da_dyn a)
    else if negb (do_decl o) then
      (if is_dnone (da_code a) then (resolve_in (rt_exec T) (ds_text i) (ds_range i), type1, ds_dyn i)
       else (da_code a, type1, da_dyn a && ds_dyn i))
    else (da_code a, type1, da_dyn a) in
  let type3 :=
    if do_types o && is_dnone type2 then
      let mt := resolve_in (rt_types T) (ds_text i) (ds_range i) in
      if negb (ds_side i && is_derr mt) && negb (optN_eqb (dres_spec mt) (dres_spec code2)) then mt else type2
    else type2 in
  {| da_text := da_text a; da_attr := attr; da_code := code2; da_type := type3; da_dyn := dyn2; da_deno := deno1;
     da_imports := da_imports a + 1; da_nonaug := da_nonaug a + (if is_aug (ds_kind i) then 0 else 1) |}.

(* descriptors of type-only kinds induce nothing when types are not included *)
Definition skipped (o : dopts) (i : desc) : bool := is_type_kind (ds_kind i) && negb (do_types o).

Fixpoint upd (T : rtab) (o : dopts) (i : desc) (l : list dacc) : list dacc :=
  match l with
  | [] => [add_import T o (empty_acc (ds_text i)) i]
  | a :: l' => if N.eqb (da_text a) (ds_text i) then add_import T o a i :: l' else a :: upd T o i l'
  end.

Definition fold_descs (T : rtab) (o : dopts) (ds : list desc) : list dacc :=
  fold_left (fun l i => if skipped o i then l else upd T o i l) ds [].

(* module-augmentation imports that point at nothing to augment induce no dependency *)
Definition retained (o : dopts) (a : dacc) : bool :=
  negb (do_typed o) || (match dres_spec (da_type a) with Some _ => true | None => false end) || negb (N.eqb (da_nonaug a) 0).

(* ... and such imports are dropped from the entries that stay for other reasons *)
Definition drop_aug (o : dopts) (a : dacc) : dacc :=
  if do_typed o && (match dres_spec (da_type a) with Some _ => false | None => true end)
  then {| da_text := da_text a; da_attr := da_attr a; da_code := da_code a; da_type := da_type a; da_dyn := da_dyn a;
          da_deno := da_deno a; da_imports := da_nonaug a; da_nonaug := da_nonaug a |}
  else a.

Definition declared (T : rtab) (o : dopts) (ds : list desc) : list dacc :=
  map (drop_aug o) (filter (retained o) (fold_descs T o ds)).

(* ---------- the whole declaration: what precedes the descriptors ----------
   parse_js_module_from_module_info: self-types and triple-slash references, the JSX import source,
   JSDoc imports and the x-typescript-types header are entered BEFORE the descriptors are folded in,
   so an import of the same text finds their entry. *)
Inductive tsref := TsPath (text range : N) | TsTypes (text range : N).
Inductive rtypes := RtNone | RtErr (e : N) | RtOk (target : N).   (* Resolver::resolve_types: Ok(None) / Err / Ok(Some) *)
Record extras := {
  ex_self : option (N * N);            (* @ts-self-types: text, range *)
  ex_refs : list tsref;
  ex_jsx : option (N * N);             (* "<source>/jsx-runtime" as text, range of the pragma *)
  ex_jsx_types : option (N * N);       (* "<types source>/jsx-runtime" as text, range *)
  ex_jsdoc : list (N * N);
  ex_header : option N;                (* x-typescript-types header text *)
  (* what a Resolver adds (all absent without one) *)
  ex_def_jsx : option N;               (* default_jsx_import_source, as "<source>/<jsx module>" *)
  ex_def_jsx_types : option N;         (* default_jsx_import_source_types, as "<source>/<jsx module>" *)
  ex_res_types : rtypes                (* resolve_types of the module itself *)
}.
(* media is JSX/TSX; the id of the zeroed range; the module's own specifier as a text *)
Record fopts := { fo_base : dopts; fo_jsx : bool; fo_zero_range : N; fo_self_text : N }.

(* modify the entry of [text], creating it when absent *)
Fixpoint with_entry (text : N) (f : dacc -> dacc) (l : list dacc) : list dacc :=
  match l with
  | [] => [f (empty_acc text)]
  | a :: l' => if N.eqb (da_text a) text then f a :: l' else a :: with_entry text f l'
  end.
Definition bump (a : dacc) : dacc :=
  {| da_text := da_text a; da_attr := da_attr a; da_code := da_code a; da_type := da_type a; da_dyn := da_dyn a;
     da_deno := da_deno a; da_imports := da_imports a + 1; da_nonaug := da_nonaug a + 1 |}.
Definition set_type_if_none (r : dres) (a : dacc) : dacc :=
  {| da_text := da_text a; da_attr := da_attr a; da_code := da_code a; da_type := (if is_dnone (da_type a) then r else da_type a);
     da_dyn := da_dyn a; da_deno := da_deno a; da_imports := da_imports a; da_nonaug := da_nonaug a |}.

Definition tdep := option (N * dres).    (* maybe_types_dependency: text, resolution *)

Definition add_ref (T : rtab) (o : dopts) (st : tdep * list dacc) (r : tsref) : tdep * list dacc :=
  let '(td, l) := st in
  match r with
  | TsPath text range =>
      (td, with_entry text (fun a => bump (set_type_if_none (resolve_in (rt_types T) text range) a)) l)
  | TsTypes text range =>
      if negb (do_typed o) then
        match td with
        | Some _ => (td, l)
        | None => (Some (text, resolve_in (rt_types T) text range), l)
        end
      else (td, with_entry text (fun a => bump (set_type_if_none (resolve_in (rt_types T) text range) a)) l)
  end.

(* the JSX import source in force: the pragma, else the resolver's default (zeroed range); its types:
   the pragma's, else - only when the source itself is not from a pragma - the resolver's default *)
Definition jsx_eff (fo : fopts) (x : extras) : option (N * N) :=
  match ex_jsx x with
  | Some p => Some p
  | None => option_map (fun t => (t, fo_zero_range fo)) (ex_def_jsx x)
  end.
Definition jsx_types_eff (fo : fopts) (x : extras) : option (N * N) :=
  match ex_jsx_types x with
  | Some p => Some p
  | None => match ex_jsx x with
            | None => option_map (fun t => (t, fo_zero_range fo)) (ex_def_jsx_types x)
            | Some _ => None
            end
  end.

Definition add_jsx (T : rtab) (o : dopts) (jsx jsx_types : option (N * N)) (l : list dacc) : list dacc :=
  match jsx with
  | None => l
  | Some (text, range) =>
      with_entry text (fun a =>
        let code := if is_dnone (da_code a) then resolve_in (rt_exec T) text range else da_code a in
        let '(ty, deno) :=
          if do_types o && is_dnone (da_type a) then
            match jsx_types with
            | Some (jt, tr) => (resolve_in (rt_types T) jt tr, Some jt)
            | None =>
                let r := resolve_in (rt_types T) text range in
                (if optN_eqb (dres_spec r) (dres_spec code) then da_type a else r, da_deno a)
            end
          else (da_type a, da_deno a) in
        bump {| da_text := da_text a; da_attr := da_attr a; da_code := code; da_type := ty; da_dyn := da_dyn a;
                da_deno := deno; da_imports := da_imports a; da_nonaug := da_nonaug a |}) l
  end.

Definition pre_phase (T : rtab) (fo : fopts) (x : extras) : tdep * list dacc :=
  let o := fo_base fo in
  let st0 : tdep * list dacc :=
    if do_types o then
      fold_left (add_ref T o) (ex_refs x)
        (match ex_self x with Some (t, r) => Some (t, resolve_in (rt_types T) t r) | None => None end, [])
    else (None, []) in
  let l1 := if fo_jsx fo then add_jsx T o (jsx_eff fo x) (jsx_types_eff fo x) (snd st0) else snd st0 in
  let l2 := if do_types o
            then fold_left (fun l j => with_entry (fst j) (fun a => bump (set_type_if_none (resolve_in (rt_types T) (fst j) (snd j)) a)) l)
                           (ex_jsdoc x) l1
            else l1 in
  let td := match fst st0, ex_header x with
            | None, Some h => if do_types o then Some (h, resolve_in (rt_types T) h (fo_zero_range fo)) else None
            | td0, _ => td0
            end in
  (* Resolver::resolve_types: only when nothing else gave a types dependency and the media type is untyped *)
  let td := match td with
            | Some _ => td
            | None =>
                if do_types o && negb (do_typed o) then
                  match ex_res_types x with
                  | RtNone => None
                  | RtErr e => Some (fo_self_text fo, DErr e (fo_zero_range fo))
                  | RtOk t => Some (fo_self_text fo, DOk t (fo_zero_range fo))
                  end
                else None
            end in
  (td, l2).

Definition declared_full (T : rtab) (fo : fopts) (x : extras) (ds : list desc) : tdep * list dacc :=
  let o := fo_base fo in
  let '(td, l0) := pre_phase T fo x in
  (td, map (drop_aug o) (filter (retained o)
             (fold_left (fun l i => if skipped o i then l else upd T o i l) ds l0))).

Definition no_extras : extras :=
  {| ex_self := None; ex_refs := []; ex_jsx := None; ex_jsx_types := None; ex_jsdoc := []; ex_header := None;
     ex_def_jsx := None; ex_def_jsx_types := None; ex_res_types := RtNone |}.
