(* C02: decision procedure for "validation fails exactly when a followed edge
   reaches a failure", evaluated on the implementation's verdict, and the
   known-class predicate for the follow_dynamic/Missing finding. *)
From DG Require Import Base.Util Base.Sexp Base.Reach Model.Graph Model.Walk Model.RunC15.

(* a visited entry that constitutes a failure in the property's sense *)
Definition res_policy_fails (g : graph) (m : module) (filelike : bool) (r : res) : bool :=
  match r with
  | RErr _ => true
  | ROk t _ =>
      let rs := scheme_of g (m_spec m) in
      let ts := scheme_of g t in
      match rs, ts with
      | SchHttps, SchHttp => true
      | _, _ => is_httpish rs && (match ts with SchFile => true | _ => false end) && filelike
      end
  | RNone => false
  end.

Definition dep_fails (g : graph) (o : wopts) (m : module) (d : dep) : bool :=
  dep_followed o d &&
  (res_policy_fails g m (d_filelike d) (d_code d) ||
   (check_types o m && res_policy_fails g m (d_filelike d) (d_type d))).

Definition entry_fails (g : graph) (o : wopts) (e : entry) : bool :=
  match e with
  | EErr _ _ => true
  | ERedirect _ => false
  | EModule m =>
      (include_types (w_kind o) &&
       match m_types_dep m with
       | Some td => res_policy_fails g m (td_filelike td) (td_res td)
       | None => false end)
      || existsb (dep_fails g o m) (selected_deps o m)
  end.

Definition failsb (g : graph) (o : wopts) (roots : list spec) : option bool :=
  match walk g o (fun _ => false) roots with
  | Some ys => Some (existsb (fun y => entry_fails g o (snd y)) ys)
  | None => None
  end.

(* known class F-C02a: with follow_dynamic the Missing slot error is dropped in
   favour of the importing dependency; input class = follow_dynamic and every
   failing visited entry is a Missing error slot *)
Definition is_missing_entry (e : entry) : bool :=
  match e with EErr (Some _) _ => true | _ => false end.

Definition c02_known_class (g : graph) (o : wopts) (roots : list spec) : bool :=
  w_follow_dynamic o &&
  match walk g o (fun _ => false) roots with
  | Some ys => forallb (fun y => negb (entry_fails g o (snd y)) || is_missing_entry (snd y)) ys
  | None => false
  end.

Definition CLASSTAG : N := 555555.

(* query = [opts; roots; impl_ok] ; output = [model verdict; property holds on impl verdict] (+ class tag) *)
Definition run_c02_query (g : graph) (q : sexp) : sexp :=
  match q with
  | L [o; roots; A impl_ok] =>
      match dec_wopts o, as_atoms roots with
      | Some o', Some roots' =>
          match validate g o' roots', failsb g o' roots' with
          | Some v, Some f =>
              let model_ok := match v with None => true | Some _ => false end in
              let impl_ok_b := negb (N.eqb impl_ok 0) in
              let holds := Bool.eqb impl_ok_b (negb f) in
              L ([of_bool model_ok; judge holds]
                 ++ (if holds then [] else
                       if c02_known_class g o' roots' then [of_atoms [CLASSTAG; 201]] else []))
          | _, _ => L [A 424242]
          end
      | _, _ => decode_error
      end
  | _ => decode_error
  end.

Definition run_c02 (input : sexp) : sexp :=
  match input with
  | L [gs; L qs] =>
      match dec_graph gs with
      | Some g => L (map (run_c02_query g) qs)
      | None => decode_error
      end
  | _ => decode_error
  end.
