(* Per-output closure facts of a fast-check run and the decision procedure
   closedb that judges them (C09, clauses 1-5 of the per-output check).

   The facts are computed by the harness from the REAL emitted modules
   (re-parsed with deno_ast + scope analysis, source map decoded); nothing
   here models the transform.  What is proved (Proofs/FcClosureProofs.v) is
   that the executable judge decides the declarative statement Closed. *)
From DG Require Import Base.Util Base.Reach Model.Lattice.

Record smseg := { sg_gl : N; sg_gc : N; sg_src : N; sg_ol : N; sg_oc : N; sg_code : N }.

Record srcmap := {
  sm_decodes : bool;            (* JSON + base64-VLQ well formed, no negative absolute value *)
  sm_nsrc : N;                  (* number of sources *)
  sm_out_lens : list N;         (* UTF-16 length of every line of the emitted text *)
  sm_orig_lens : list N;        (* same for the original text *)
  sm_segs : list smseg }.       (* code: 0 no identifier at the generated position, 1 same identifier,
                                   2 keyword / modifier keyword / same name as string-literal key,
                                   3 a different token, 4 different but shadowed by a correct segment
                                   at the same generated position *)

Record modfacts := {
  mf_id : N;
  mf_out : bool;                (* has an emitted module *)
  mf_parse : bool;              (* emitted text parses with the media type of the source *)
  mf_open : bool;               (* export table unknown: may export anything *)
  mf_own : list N;              (* names exported by own declarations / export lists / named re-exports *)
  mf_stars : list N;            (* targets of `export * from` *)
  mf_unres : list N;            (* identifiers unresolved in the output, outside private class members *)
  mf_unres_priv : list N;       (* ... occurring only inside TS-private / #private class members *)
  mf_top : list N;              (* identifiers bound at module level in the original *)
  mf_imports : list (N * N);    (* (target module, name) imported or re-exported by name *)
  mf_rel : list bool;           (* per relative specifier of the output: resolves in the graph *)
  mf_sm : srcmap }.

Fixpoint find_mod (ms : list modfacts) (t : N) : option modfacts :=
  match ms with
  | [] => None
  | m :: r => if N.eqb (mf_id m) t then Some m else find_mod r t
  end.

Definition star_expand (ms : list modfacts) (t : N) : list N :=
  match find_mod ms t with Some m => mf_stars m | None => [] end.

Definition star_universe (ms : list modfacts) : list N := flat_map mf_stars ms.

Definition star_reach (ms : list modfacts) (t : N) : list N :=
  match run (star_expand ms) (S (length (star_universe ms))) [t] [t] [] with
  | Some (out, _) => out
  | None => []
  end.

(* u provides x: u is unknown / open, or exports x itself *)
Definition providesb (ms : list modfacts) (u x : N) : bool :=
  match find_mod ms u with
  | None => true
  | Some m => mf_open m || mem x (mf_own m)
  end.

Definition exportedb (ms : list modfacts) (t x : N) : bool :=
  providesb ms t x
  || (negb (N.eqb x DEFAULT) && existsb (fun u => providesb ms u x) (star_reach ms t)).

Definition nth_len (l : list N) (k : N) : option N := nth_error l (N.to_nat k).

Definition seg_okb (sm : srcmap) (s : smseg) : bool :=
  N.ltb (sg_src s) (sm_nsrc sm)
  && match nth_len (sm_out_lens sm) (sg_gl s) with Some len => N.leb (sg_gc s) len | None => false end
  && match nth_len (sm_orig_lens sm) (sg_ol s) with Some len => N.leb (sg_oc s) len | None => false end
  && negb (N.eqb (sg_code s) 3).

Definition srcmap_okb (sm : srcmap) : bool := sm_decodes sm && forallb (seg_okb sm) (sm_segs sm).

Definition disjointb (a b : list N) : bool := forallb (fun x => negb (mem x b)) a.

Definition c1b (m : modfacts) : bool := mf_parse m.
Definition c2b (m : modfacts) : bool := disjointb (mf_unres m) (mf_top m) && disjointb (mf_unres_priv m) (mf_top m).
Definition c3b (ms : list modfacts) (m : modfacts) : bool :=
  forallb (fun tx => exportedb ms (fst tx) (snd tx)) (mf_imports m).
Definition c4b (m : modfacts) : bool := forallb (fun b => b) (mf_rel m).
Definition c5b (m : modfacts) : bool := srcmap_okb (mf_sm m).

Definition closedb (ms : list modfacts) (m : modfacts) : bool :=
  negb (mf_out m) || (c1b m && c2b m && c3b ms m && c4b m && c5b m).

(* known class F-C09a: the only dangling identifiers sit inside private
   members (kept verbatim in ambient classes, never traced) *)
Definition private_member_classb (m : modfacts) : bool :=
  mf_out m && disjointb (mf_unres m) (mf_top m) && negb (disjointb (mf_unres_priv m) (mf_top m)).

(* ---- the declarative statement ---- *)
Definition Provides (ms : list modfacts) (u x : N) : Prop :=
  match find_mod ms u with
  | None => True
  | Some m => mf_open m = true \/ In x (mf_own m)
  end.

(* x is exported by t: by t itself, or (x <> default) by a module reachable
   through `export *` chains *)
Definition Exported (ms : list modfacts) (t x : N) : Prop :=
  Provides ms t x
  \/ (x <> DEFAULT /\ exists u, Reachable (star_expand ms) [t] u /\ Provides ms u x).

Definition SegOk (sm : srcmap) (s : smseg) : Prop :=
  sg_src s < sm_nsrc sm
  /\ (exists len, nth_len (sm_out_lens sm) (sg_gl s) = Some len /\ sg_gc s <= len)
  /\ (exists len, nth_len (sm_orig_lens sm) (sg_ol s) = Some len /\ sg_oc s <= len)
  /\ sg_code s <> 3.

Definition SrcMapOk (sm : srcmap) : Prop :=
  sm_decodes sm = true /\ forall s, In s (sm_segs sm) -> SegOk sm s.

Definition Closed (ms : list modfacts) (m : modfacts) : Prop :=
  mf_out m = true ->
  (* 1 *) mf_parse m = true
  (* 2 *) /\ (forall x, In x (mf_unres m) \/ In x (mf_unres_priv m) -> ~ In x (mf_top m))
  (* 3 *) /\ (forall t x, In (t, x) (mf_imports m) -> Exported ms t x)
  (* 4 *) /\ (forall b, In b (mf_rel m) -> b = true)
  (* 5 *) /\ SrcMapOk (mf_sm m).
