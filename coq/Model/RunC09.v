(* C09 wire-level entry point.  Case kinds (first atom):

   0  (0 state0 ops)    NamedSubset operation sequence; op = (0 parts) from_parts | (1 k) add
                        | (2 k parts) add_qualified | (3 k exports) add_named | (4 named) extend;
                        output per op: (state result) with result = () or (difference)
   1  (1 ((cur new) ...))  Exports::extend; output per pair (cur' ()|(difference))
   2  (2 state0 (new ...)) ImportedExports::add applied in sequence; output per step (state ()|(diff))
   3  (3 cur (new ...))    ImportedExports::add of the same state against each increment
   10 (10 (module facts ...)) closure facts of one real fast-check run; output per module
                        (id has_output judge1 .. judge5 [class tag])

   values: Exports = 0 (All) | ((k e) ...) ; NamedSubset = ((k e) ...) ;
           ImportedExports = 0 (Star) | 1 (StarWithDefault) | (named) *)
From DG Require Import Base.Util Base.Sexp Model.Lattice Model.FcClosure.

Definition C09_CLASSTAG : N := 555555.

Fixpoint dec_e (s : sexp) : option exports :=
  match s with
  | A 0 => Some EAll
  | A _ => None
  | L l =>
      option_map ESub
        ((fix go (l : list sexp) : option named :=
            match l with
            | [] => Some NNil
            | L [A k; e] :: r =>
                match dec_e e, go r with
                | Some e', Some r' => Some (NCons k e' r')
                | _, _ => None
                end
            | _ => None
            end) l)
  end.

Definition dec_n (s : sexp) : option named :=
  match dec_e s with Some (ESub n) => Some n | _ => None end.

Definition dec_i (s : sexp) : option imported :=
  match s with
  | A 0 => Some IStar
  | A 1 => Some IStarDef
  | L [n] => option_map ISub (dec_n n)
  | _ => None
  end.

Fixpoint enc_e (e : exports) : sexp :=
  match e with
  | EAll => A 0
  | ESub s => L (enc_n s)
  end
with enc_n (s : named) : list sexp :=
  match s with
  | NNil => []
  | NCons k e r => L [A k; enc_e e] :: enc_n r
  end.

Definition enc_named (s : named) : sexp := L (enc_n s).
Definition enc_i (i : imported) : sexp :=
  match i with
  | IStar => A 0
  | IStarDef => A 1
  | ISub s => L [enc_named s]
  end.

(* ---- kind 0 ---- *)
Definition apply_op (st : named) (op : sexp) : option (named * sexp) :=
  match op with
  | L [A 0; parts] => do p <- as_atoms parts; Some (n_from_parts p, L [])
  | L [A 1; A k] => Some (n_add st k, L [])
  | L [A 2; A k; parts] => do p <- as_atoms parts; Some (n_add_qualified st k p, L [])
  | L [A 3; A k; e] => do e' <- dec_e e; Some (n_add_named st k e', L [])
  | L [A 4; n] => do n' <- dec_n n; let '(st', d) := n_extend st n' in Some (st', L [enc_named d])
  | _ => None
  end.

Fixpoint run_ops (st : named) (ops : list sexp) : list sexp :=
  match ops with
  | [] => []
  | op :: r =>
      match apply_op st op with
      | Some (st', res) => L [enc_named st'; res] :: run_ops st' r
      | None => [decode_error]
      end
  end.

(* ---- kind 1 ---- *)
Definition run_ext_pair (s : sexp) : sexp :=
  match s with
  | L [a; b] =>
      match dec_e a, dec_e b with
      | Some a', Some b' =>
          let '(c, d) := ext_e a' b' in L [enc_e c; of_option enc_e d]
      | _, _ => decode_error
      end
  | _ => decode_error
  end.

(* ---- kinds 2, 3 ---- *)
Fixpoint run_iseq (st : imported) (news : list sexp) : list sexp :=
  match news with
  | [] => []
  | n :: r =>
      match dec_i n with
      | Some n' =>
          let '(st', d) := i_add st n' in
          L [enc_i st'; of_option enc_i d] :: run_iseq st' r
      | None => [decode_error]
      end
  end.

Definition run_ipair (st : imported) (n : sexp) : sexp :=
  match dec_i n with
  | Some n' => let '(st', d) := i_add st n' in L [enc_i st'; of_option enc_i d]
  | None => decode_error
  end.

(* ---- kind 10 ---- *)
Definition dec_seg (s : sexp) : option smseg :=
  match s with
  | L [A a; A b; A c; A d; A e; A f] =>
      Some {| sg_gl := a; sg_gc := b; sg_src := c; sg_ol := d; sg_oc := e; sg_code := f |}
  | _ => None
  end.

Definition dec_sm (s : sexp) : option srcmap :=
  match s with
  | L [d; A n; ol; gl; segs] =>
      do d' <- as_bool d;
      do ol' <- as_atoms ol;
      do gl' <- as_atoms gl;
      do segs' <- as_list_of dec_seg segs;
      Some {| sm_decodes := d'; sm_nsrc := n; sm_out_lens := ol'; sm_orig_lens := gl'; sm_segs := segs' |}
  | _ => None
  end.

Definition dec_mod (s : sexp) : option modfacts :=
  match s with
  | L [A id; out; parse; open; own; stars; unres; unresp; top; imports; rel; sm] =>
      do out' <- as_bool out;
      do parse' <- as_bool parse;
      do open' <- as_bool open;
      do own' <- as_atoms own;
      do stars' <- as_atoms stars;
      do unres' <- as_atoms unres;
      do unresp' <- as_atoms unresp;
      do top' <- as_atoms top;
      do imports' <- as_list_of (as_pair as_atom as_atom) imports;
      do rel' <- as_list_of as_bool rel;
      do sm' <- dec_sm sm;
      Some {| mf_id := id; mf_out := out'; mf_parse := parse'; mf_open := open'; mf_own := own';
              mf_stars := stars'; mf_unres := unres'; mf_unres_priv := unresp'; mf_top := top';
              mf_imports := imports'; mf_rel := rel'; mf_sm := sm' |}
  | _ => None
  end.

Definition judge_mod (ms : list modfacts) (m : modfacts) : sexp :=
  let o := mf_out m in
  let j1 := negb o || c1b m in
  let j2 := negb o || c2b m in
  let j3 := negb o || c3b ms m in
  let j4 := negb o || c4b m in
  let j5 := negb o || c5b m in
  L ([A (mf_id m); of_bool o; judge j1; judge j2; judge j3; judge j4; judge j5]
     (* known class F-C09a: the only failing clause is 2, and only through identifiers inside
        private class members *)
     ++ (if private_member_classb m && j1 && j3 && j4 && j5 then [of_atoms [C09_CLASSTAG; 901]] else [])).

Definition run_c09 (s : sexp) : sexp :=
  match s with
  | L [A 0; st; L ops] =>
      match dec_n st with Some st' => L (run_ops st' ops) | None => decode_error end
  | L [A 1; L pairs] => L (map run_ext_pair pairs)
  | L [A 2; st; L news] =>
      match dec_i st with Some st' => L (run_iseq st' news) | None => decode_error end
  | L [A 3; st; L news] =>
      match dec_i st with Some st' => L (map (run_ipair st') news) | None => decode_error end
  | L [A 10; mods] =>
      match as_list_of dec_mod mods with
      | Some ms => L (map (judge_mod ms) ms)
      | None => decode_error
      end
  | _ => decode_error
  end.
