(* C20 model: how deno_graph turns the bytes a loader supplied into the stored
   module text (src/graph.rs new_source_with_text, ModuleTextSource), following
   the code line by line through the crates it delegates to:

     deno_graph::source::resolve_media_type_and_charset_from_headers
       = deno_media_type::resolve_media_type_and_charset_from_content_type   [header_charset]
     deno_media_type::encoding::detect_charset / detect_charset_local_file   [detect_charset]
     deno_media_type::encoding::convert_to_utf8
       = encoding_rs::Encoding::for_label + decode_without_bom_handling      [for_label, convert_to_utf8]
     deno_media_type::encoding::decode_arc_source_detail                     [decode_detail]
     ModuleTextSource::try_get_original_bytes                                [original_bytes]
     JsModule::size / JsonModule::size / serialize_source                    [size, serialized_size]

   Bytes are N (< 256), characters of the header value are Unicode scalar
   values (N), stored text is a list of UTF-8 bytes.  UTF-8 (WHATWG decoder,
   maximal-subpart replacement), UTF-16LE/BE (encoding_rs Utf16Decoder) and
   the label tables of these three encodings are modelled; every other label
   is answered by DATA the harness computes with encoding_rs ([other]):
   unsupported, or supported with its borrow rule and the decoded text.
   Definitions only. *)
From DG Require Import Base.Util.

(* ------------------------------------------------------------------ *)
(* Unicode scalar values and their UTF-8 encoding                       *)

Definition REPL : N := 0xFFFD.   (* U+FFFD *)
Definition BOMC : N := 0xFEFF.   (* U+FEFF, deno_media_type::encoding::BOM_CHAR *)

Definition is_scalar (c : N) : bool :=
  (c <? 0xD800) || ((0xDFFF <? c) && (c <? 0x110000)).

Definition enc1 (c : N) : list N :=
  if c <? 0x80 then [c]
  else if c <? 0x800 then [0xC0 + c / 64; 0x80 + c mod 64]
  else if c <? 0x10000 then [0xE0 + c / 4096; 0x80 + (c / 64) mod 64; 0x80 + c mod 64]
  else [0xF0 + c / 262144; 0x80 + (c / 4096) mod 64; 0x80 + (c / 64) mod 64; 0x80 + c mod 64].

Definition utf8_encode (cps : list N) : list N := flat_map enc1 cps.

(* ------------------------------------------------------------------ *)
(* UTF-8 decoder of the WHATWG Encoding Standard (what encoding_rs
   implements for UTF_8 with replacement): a byte-at-a-time state machine.
   U8Pend rem lo hi acc: rem continuation bytes still needed, the next one
   must lie in [lo, hi], acc is the code point so far. *)

Inductive u8st := U8Init | U8Pend (rem lo hi acc : N).

Definition feed0 (b : N) : list N * u8st :=
  if b <? 0x80 then ([b], U8Init)
  else if (0xC2 <=? b) && (b <=? 0xDF) then ([], U8Pend 1 0x80 0xBF (b - 0xC0))
  else if (0xE0 <=? b) && (b <=? 0xEF) then
    ([], U8Pend 2 (if b =? 0xE0 then 0xA0 else 0x80) (if b =? 0xED then 0x9F else 0xBF) (b - 0xE0))
  else if (0xF0 <=? b) && (b <=? 0xF4) then
    ([], U8Pend 3 (if b =? 0xF0 then 0x90 else 0x80) (if b =? 0xF4 then 0x8F else 0xBF) (b - 0xF0))
  else ([REPL], U8Init).

Definition feed (s : u8st) (b : N) : list N * u8st :=
  match s with
  | U8Init => feed0 b
  | U8Pend rem lo hi acc =>
      if (lo <=? b) && (b <=? hi) then
        let acc' := acc * 64 + (b - 0x80) in
        if rem =? 1 then ([acc'], U8Init) else ([], U8Pend (rem - 1) 0x80 0xBF acc')
      else
        (* error; the byte is processed again in the initial state *)
        let '(o, s') := feed0 b in (REPL :: o, s')
  end.

Fixpoint u8dec (s : u8st) (l : list N) : list N :=
  match l with
  | [] => match s with U8Init => [] | U8Pend _ _ _ _ => [REPL] end
  | b :: r => let '(o, s') := feed s b in o ++ u8dec s' r
  end.

Definition utf8_decode (l : list N) : list N := u8dec U8Init l.

(* encoding_rs utf8_valid_up_to(bytes) == bytes.len(): validation by the
   well-formed byte sequence table (Unicode Table 3-7), with look-ahead. *)
Definition is_cont (b : N) : bool := (0x80 <=? b) && (b <=? 0xBF).
Definition second3_ok (b0 b1 : N) : bool :=
  ((if b0 =? 0xE0 then 0xA0 else 0x80) <=? b1) && (b1 <=? (if b0 =? 0xED then 0x9F else 0xBF)).
Definition second4_ok (b0 b1 : N) : bool :=
  ((if b0 =? 0xF0 then 0x90 else 0x80) <=? b1) && (b1 <=? (if b0 =? 0xF4 then 0x8F else 0xBF)).

Fixpoint valid_utf8b (l : list N) : bool :=
  match l with
  | [] => true
  | b0 :: r0 =>
      if b0 <? 0x80 then valid_utf8b r0 else
      match r0 with
      | [] => false
      | b1 :: r1 =>
          if (0xC2 <=? b0) && (b0 <=? 0xDF) then is_cont b1 && valid_utf8b r1 else
          match r1 with
          | [] => false
          | b2 :: r2 =>
              if (0xE0 <=? b0) && (b0 <=? 0xEF) then second3_ok b0 b1 && is_cont b2 && valid_utf8b r2 else
              match r2 with
              | [] => false
              | b3 :: r3 =>
                  (0xF0 <=? b0) && (b0 <=? 0xF4) && second4_ok b0 b1 && is_cont b2 && is_cont b3
                  && valid_utf8b r3
              end
          end
      end
  end.

(* ------------------------------------------------------------------ *)
(* UTF-16 (encoding_rs utf_16.rs): code units, then surrogate pairing.
   A pending high surrogate followed by anything but a low surrogate is one
   U+FFFD and the unit is processed again; a lone low surrogate is U+FFFD;
   at the end a pending high surrogate (with or without a dangling byte) is
   one U+FFFD, otherwise a dangling byte is one U+FFFD. *)

Fixpoint units (be : bool) (l : list N) : list N * bool :=
  match l with
  | [] => ([], false)
  | [_] => ([], true)
  | b0 :: b1 :: r =>
      let '(us, odd) := units be r in
      ((if be then b0 * 256 + b1 else b1 * 256 + b0) :: us, odd)
  end.

Definition is_high (u : N) : bool := (0xD800 <=? u) && (u <=? 0xDBFF).
Definition is_low (u : N) : bool := (0xDC00 <=? u) && (u <=? 0xDFFF).
Definition surr_pair (h l : N) : N := 0x10000 + (h - 0xD800) * 1024 + (l - 0xDC00).

Fixpoint u16dec (pend : option N) (us : list N) (odd : bool) : list N :=
  match us with
  | [] => match pend with
          | Some _ => [REPL]
          | None => if odd then [REPL] else []
          end
  | u :: r =>
      if is_high u then
        match pend with
        | Some _ => REPL :: u16dec (Some u) r odd
        | None => u16dec (Some u) r odd
        end
      else if is_low u then
        match pend with
        | Some h => surr_pair h u :: u16dec None r odd
        | None => REPL :: u16dec None r odd
        end
      else
        match pend with
        | Some _ => REPL :: u :: u16dec None r odd
        | None => u :: u16dec None r odd
        end
  end.

Definition utf16_decode (be : bool) (l : list N) : list N :=
  let '(us, odd) := units be l in u16dec None us odd.

(* ------------------------------------------------------------------ *)
(* Content-Type header -> charset label
   (resolve_media_type_and_charset_from_content_type):
     content_type.split(';') ; skip the first item ; map(str::trim) ;
     find_map(|s| s.strip_prefix("charset="))                           *)

(* char::is_whitespace = Unicode White_Space *)
Definition is_ws (c : N) : bool :=
  ((0x09 <=? c) && (c <=? 0x0D)) || (c =? 0x20) || (c =? 0x85) || (c =? 0xA0) || (c =? 0x1680)
  || ((0x2000 <=? c) && (c <=? 0x200A)) || (c =? 0x2028) || (c =? 0x2029) || (c =? 0x202F)
  || (c =? 0x205F) || (c =? 0x3000).

Fixpoint drop_while (p : N -> bool) (l : list N) : list N :=
  match l with
  | [] => []
  | c :: r => if p c then drop_while p r else l
  end.

Definition trim_with (p : N -> bool) (l : list N) : list N :=
  rev (drop_while p (rev (drop_while p l))).

(* first segment, remaining segments *)
Fixpoint split_on (sep : N) (l : list N) : list N * list (list N) :=
  match l with
  | [] => ([], [])
  | c :: r => let '(h, t) := split_on sep r in
              if c =? sep then ([], h :: t) else (c :: h, t)
  end.

Fixpoint strip_prefix (p l : list N) : option (list N) :=
  match p with
  | [] => Some l
  | a :: p' => match l with
               | b :: l' => if a =? b then strip_prefix p' l' else None
               | [] => None
               end
  end.

Definition charset_eq : list N := [99; 104; 97; 114; 115; 101; 116; 61].   (* "charset=" *)

Fixpoint find_charset (params : list (list N)) : option (list N) :=
  match params with
  | [] => None
  | p :: r => match strip_prefix charset_eq (trim_with is_ws p) with
              | Some l => Some l
              | None => find_charset r
              end
  end.

Definition header_charset (hdr : option (list N)) : option (list N) :=
  match hdr with
  | None => None
  | Some v => find_charset (snd (split_on 59 v))
  end.

(* detect_charset(specifier, bytes): BOM sniffing for file: URLs only *)
Definition l_utf8 : list N := [117; 116; 102; 45; 56].                      (* "utf-8" *)
Definition l_utf16le : list N := [117; 116; 102; 45; 49; 54; 108; 101].     (* "utf-16le" *)
Definition l_utf16be : list N := [117; 116; 102; 45; 49; 54; 98; 101].      (* "utf-16be" *)

Definition detect_charset (is_file : bool) (bytes : list N) : list N :=
  if is_file then
    match bytes with
    | b0 :: b1 :: _ =>
        if (b0 =? 0xFF) && (b1 =? 0xFE) then l_utf16le
        else if (b0 =? 0xFE) && (b1 =? 0xFF) then l_utf16be
        else l_utf8
    | _ => l_utf8
    end
  else l_utf8.

Definition charset_label (hdr : option (list N)) (is_file : bool) (bytes : list N) : list N :=
  match header_charset hdr with
  | Some l => l
  | None => detect_charset is_file bytes
  end.

(* ------------------------------------------------------------------ *)
(* encoding_rs::Encoding::for_label: ASCII-whitespace trimmed, ASCII
   lower-cased, looked up in the label table.  The rows of UTF-8, UTF-16LE
   and UTF-16BE are modelled; any other label is answered by [other]. *)

Inductive brule := BAscii | BIso2022jp | BNever.
  (* when decode_without_bom_handling borrows: all bytes ASCII / ASCII without
     0x0E 0x0F 0x1B / never (replacement) *)

Inductive enc :=
| EUtf8
| EUtf16 (be : bool)
| EOther (r : brule) (cps : list N).  (* cps: what encoding_rs decodes the bytes to, as scalar values *)

Definition is_label_ws (c : N) : bool :=
  (c =? 0x09) || (c =? 0x0A) || (c =? 0x0C) || (c =? 0x0D) || (c =? 0x20).
Definition lower (c : N) : N := if (65 <=? c) && (c <=? 90) then c + 32 else c.
Definition label_norm (l : list N) : list N := map lower (trim_with is_label_ws l).

Fixpoint list_eqb (a b : list N) : bool :=
  match a, b with
  | [], [] => true
  | x :: a', y :: b' => (x =? y) && list_eqb a' b'
  | _, _ => false
  end.

Definition utf8_labels : list (list N) :=
  [ [117; 110; 105; 99; 111; 100; 101; 45; 49; 45; 49; 45; 117; 116; 102; 45; 56] (* unicode-1-1-utf-8 *);
    [117; 110; 105; 99; 111; 100; 101; 49; 49; 117; 116; 102; 56] (* unicode11utf8 *);
    [117; 110; 105; 99; 111; 100; 101; 50; 48; 117; 116; 102; 56] (* unicode20utf8 *);
    [117; 116; 102; 45; 56] (* utf-8 *);
    [117; 116; 102; 56] (* utf8 *);
    [120; 45; 117; 110; 105; 99; 111; 100; 101; 50; 48; 117; 116; 102; 56] (* x-unicode20utf8 *) ].
Definition utf16le_labels : list (list N) :=
  [ [99; 115; 117; 110; 105; 99; 111; 100; 101] (* csunicode *);
    [105; 115; 111; 45; 49; 48; 54; 52; 54; 45; 117; 99; 115; 45; 50] (* iso-10646-ucs-2 *);
    [117; 99; 115; 45; 50] (* ucs-2 *);
    [117; 110; 105; 99; 111; 100; 101] (* unicode *);
    [117; 110; 105; 99; 111; 100; 101; 102; 101; 102; 102] (* unicodefeff *);
    [117; 116; 102; 45; 49; 54] (* utf-16 *);
    [117; 116; 102; 45; 49; 54; 108; 101] (* utf-16le *) ].
Definition utf16be_labels : list (list N) :=
  [ [117; 110; 105; 99; 111; 100; 101; 102; 102; 102; 101] (* unicodefffe *);
    [117; 116; 102; 45; 49; 54; 98; 101] (* utf-16be *) ].

Definition for_label (label : list N) (other : option (brule * list N)) : option enc :=
  let n := label_norm label in
  if existsb (list_eqb n) utf8_labels then Some EUtf8
  else if existsb (list_eqb n) utf16le_labels then Some (EUtf16 false)
  else if existsb (list_eqb n) utf16be_labels then Some (EUtf16 true)
  else match other with
       | Some (r, cps) => Some (EOther r cps)
       | None => None
       end.

(* ------------------------------------------------------------------ *)
(* convert_to_utf8 = encoding.decode_without_bom_handling(bytes).0 : Cow *)

Inductive cow := Borrowed (t : list N) | Owned (t : list N).

Definition borrowable (r : brule) (bytes : list N) : bool :=
  match r with
  | BAscii => forallb (fun b => b <? 0x80) bytes
  | BIso2022jp => forallb (fun b => (b <? 0x80) && negb ((b =? 0x1B) || (b =? 0x0E) || (b =? 0x0F))) bytes
  | BNever => false
  end.

Definition convert_to_utf8 (e : enc) (bytes : list N) : cow :=
  match e with
  | EUtf8 => if valid_utf8b bytes then Borrowed bytes else Owned (utf8_encode (utf8_decode bytes))
  | EUtf16 be => Owned (utf8_encode (utf16_decode be bytes))
  | EOther r cps => if borrowable r bytes then Borrowed bytes else Owned (utf8_encode cps)
  end.

(* decode_arc_source_detail *)
Inductive kind := Unchanged | Changed | OnlyUtf8Bom.

Record src := { s_text : list N; s_kind : kind }.

Definition starts_with_bom (t : list N) : bool :=     (* text.starts_with(BOM_CHAR) on UTF-8 *)
  match t with
  | b0 :: b1 :: b2 :: _ => (b0 =? 0xEF) && (b1 =? 0xBB) && (b2 =? 0xBF)
  | _ => false
  end.

Definition decode_detail (c : cow) : src :=
  match c with
  | Borrowed t =>
      if starts_with_bom t then {| s_text := skipn 3 t; s_kind := OnlyUtf8Bom |}   (* text[3..].to_string() *)
      else {| s_text := t; s_kind := Unchanged |}                                  (* the Arc<[u8]> itself *)
  | Owned t =>
      {| s_text := if starts_with_bom t then skipn 3 t else t; s_kind := Changed |} (* strip_bom_mut *)
  end.

(* new_source_with_text; None = ModuleLoadError::Decode *)
Definition load_text (hdr : option (list N)) (is_file : bool) (other : option (brule * list N))
           (bytes : list N) : option src :=
  match for_label (charset_label hdr is_file bytes) other with
  | None => None
  | Some e => Some (decode_detail (convert_to_utf8 e bytes))
  end.

(* ModuleTextSource::try_get_original_bytes *)
Definition original_bytes (s : src) : option (list N) :=
  match s_kind s with
  | Unchanged => Some (s_text s)                              (* the same allocation, reinterpreted *)
  | Changed => None
  | OnlyUtf8Bom => Some (0xEF :: 0xBB :: 0xBF :: s_text s)    (* BOM added back *)
  end.

(* JsModule::size / JsonModule::size *)
Definition size (s : src) : N := N.of_nat (length (s_text s)).
(* serialize_source: text.len() as u32 *)
Definition serialized_size (s : src) : N := size s mod 4294967296.

(* ModuleTextSource::new_unknown (parse_module_from_ast) *)
Definition new_unknown (text : list N) : src := {| s_text := text; s_kind := Changed |}.

(* parse_module_source_and_info for a root / attribute-typed module, as far
   as text is concerned.  The media class is data (MediaType resolution is
   done by the real crate). *)
Inductive mclass := MJs | MJson | MOtherMedia.
Inductive outcome :=
| ODecodeErr
| OUnsupported
| OModule (json : bool) (s : src).

Definition parse_module_model (m : mclass) (hdr : option (list N)) (is_file : bool)
           (other : option (brule * list N)) (bytes : list N) : outcome :=
  match m with
  | MOtherMedia => OUnsupported
  | MJs => match load_text hdr is_file other bytes with Some s => OModule false s | None => ODecodeErr end
  | MJson => match load_text hdr is_file other bytes with Some s => OModule true s | None => ODecodeErr end
  end.

(* JSR packages whose version manifest carries the module info: the module is
   created with empty content and filled in later
   (handle_jsr_registry_pending_content_loads): the response is matched as
   `LoadResponse::Module { content, specifier, mtime: _, maybe_headers: _ }`
   and decoded by new_source_with_text(&specifier, content, None, None): the
   headers the loader supplied are dropped, the URL is https, the media type was
   fixed from the URL when the slot was made. *)
Definition jsr_fill_model (m : mclass) (bytes : list N) : outcome :=
  parse_module_model m None false None bytes.

(* ------------------------------------------------------------------ *)
(* Specification side: the decoding the property speaks of, as scalar
   values, and removal of one leading byte-order mark. *)

Definition whatwg_decode (e : enc) (bytes : list N) : list N :=
  match e with
  | EUtf8 => utf8_decode bytes
  | EUtf16 be => utf16_decode be bytes
  | EOther r cps => if borrowable r bytes then bytes else cps
      (* oracle; encoding_rs borrows only when the input is ASCII and the
         encoding maps ASCII to itself *)
  end.

Definition strip_one_bom (cps : list N) : list N :=
  match cps with
  | c :: r => if c =? BOMC then r else cps
  | [] => []
  end.
