(* Wire format of the builder model: world/options decoders, graph encoder. *)
From DG Require Import Base.Util Base.Sexp Base.Reach Model.Graph Model.Walk Model.RunC15 Model.RunC02
  Model.RunC14 Model.Prune Model.RunC17 Model.Builder.

(* per-dependency flags: a bare boolean (is_asset, no source-phase referrer) or [is_asset; referrer option] *)
Definition dec_dflags (s : sexp) : option dflags :=
  match s with
  | L [a; sp] => do a' <- as_bool a; do sp' <- as_option as_atom sp; Some {| dfl_asset := a'; dfl_sp := sp' |}
  | _ => do a' <- as_bool s; Some {| dfl_asset := a'; dfl_sp := None |}
  end.

Definition dec_wmod (hr ht : N) (media parse_ok mk deps tdep : sexp) : option wmod :=
  do media' <- dec_media media; do ok <- as_bool parse_ok; do mk' <- dec_mkind mk;
  do deps' <- as_list_of (as_pair dec_dep dec_dflags) deps;
  do tdep' <- as_option dec_typesdep tdep;
  Some {| wm_hash_raw := hr; wm_hash_text := ht; wm_media := media'; wm_parse_ok := ok; wm_kind := mk';
          wm_deps := deps'; wm_tdep := tdep' |}.

Definition dec_wresp (s : sexp) : option wresp :=
  match s with
  | L [A 0] => Some WMissing
  | L [A 1] => Some WError
  | L [A 2; A to] => Some (WRedirect to)
  | L [A 3; A final] => Some (WExternal final)
  | L [A 4; A final; A hr; A ht; media; ok; mk; deps; tdep] =>
      do wm <- dec_wmod hr ht media ok mk deps tdep; Some (WModule final wm)
  | _ => None
  end.

Definition dec_sclass (s : sexp) : option sclass :=
  match s with
  | A 0 => Some SUrl | A 1 => Some SNode | A 2 => Some SBad | A 3 => Some SPass
  | L [A 4; A r] => Some (SNpm r)
  | _ => None
  end.

Definition dec_world (s : sexp) : option world :=
  match s with
  | L (resps :: reloads :: classes :: files :: https :: lock :: A maxr :: rest) =>
      (* an eighth field: the npm resolver's answers (absent in worlds written before it was modelled) *)
      do npm' <- match rest with
                 | [] => Some None
                 | n :: _ => as_option (as_list_of (as_pair as_atom as_atom)) n
                 end;
      do wasm' <- match rest with
                  | _ :: w :: _ => as_atoms w
                  | _ => Some []
                  end;
      do nodts' <- match rest with
                   | [_; _; d] => as_atoms d
                   | [] | [_] | [_; _] => Some []
                   | _ => None
                   end;
      do resps' <- as_list_of (as_pair as_atom dec_wresp) resps;
      do reloads' <- as_list_of (as_pair as_atom dec_wresp) reloads;
      do classes' <- as_list_of (as_pair as_atom dec_sclass) classes;
      do files' <- as_atoms files;
      do https' <- as_atoms https;
      do lock' <- as_option (as_list_of (as_pair as_atom as_atom)) lock;
      Some {| w_resp := resps'; w_resp_reload := reloads'; w_http := https'; w_lock := lock';
              w_class := classes'; w_file := files'; w_max_redirects := N.to_nat maxr; w_wasm_ext := wasm'; w_wasm_nodts := nodts'; w_npm := npm' |}
  | _ => None
  end.

Definition dec_bopts (s : sexp) : option bopts :=
  match s with
  | L [k; isd; skd; b; t; c] =>
      do k' <- dec_gkind k; do isd' <- as_bool isd; do skd' <- as_bool skd;
      do b' <- as_bool b; do t' <- as_bool t; do c' <- as_bool c;
      Some {| bo_kind := k'; bo_is_dynamic := isd'; bo_skip_dynamic := skd';
              bo_unstable_bytes := b'; bo_unstable_text := t'; bo_unstable_css := c' |}
  | _ => None
  end.

Definition enc_ref (r : option N) : sexp := of_option A r.

Definition enc_berr (e : berr) : sexp :=
  match e with
  | BMissing s r => L [A 0; A s; enc_ref r]
  | BLoad s r k => L [A 1; A s; enc_ref r; A k]
  | BParse s => L [A 2; A s]
  | BWasmParse s => L [A 3; A s]
  | BUnsupportedMedia s m r => L [A 4; A s; A (enc_media m); enc_ref r]
  | BInvalidTypeAssertion s r m => L [A 5; A s; A r; A (enc_media m)]
  | BUnsupportedAttr s r k => L [A 6; A s; A r; A k]
  | BBadSpecifier s r => L [A 7; A s; enc_ref r]
  | BNpm s r k => L [A 8; A s; enc_ref r; A k]
  | BSourcePhase s r => L [A 9; A s; A r]
  end.

Definition enc_bslot (sl : bslot) : sexp :=
  match sl with
  | BMod m => L [A 0; enc_module m]
  | BExternal a => L [A 1; of_bool a]
  | BErr e => L [A 2; enc_berr e]
  | BPending a => L [A 3; of_bool a]
  end.

Definition enc_bgraph (g : bgraph) : sexp :=
  L [A (enc_gkind (bg_kind g));
     L (map A (bg_roots g));
     set_of (map (fun p => L [A (fst p); enc_bslot (snd p)]) (bg_slots g));
     set_of (map (fun p => of_atoms [fst p; snd p]) (bg_redirects g));
     L (map (fun p => L [A (fst p); enc_deps (snd p)]) (bg_imports g));
     of_bool (bg_has_node g);
     set_of (map (fun c => L [A (lc_spec c); of_bool (lc_asset c); of_bool (lc_reload c);
                              of_option A (lc_checksum c)]) (bg_calls g));
     set_of (map (fun p => of_atoms [fst p; snd p]) (bg_lock_sets g));
     L [L (map of_atoms (bg_npm_calls g)); of_bool (bg_npm_dep_ok g)]].

Definition dec_imports (s : sexp) : option (list (spec * list dep)) :=
  as_list_of (as_pair as_atom dec_deps) s.

(* input: [world; opts; roots; imports]; output: the graph the builder produces *)
Definition run_c01 (input : sexp) : sexp :=
  match input with
  | L [w; o; roots; imps] =>
      match dec_world w, dec_bopts o, as_atoms roots, dec_imports imps with
      | Some W, Some o', Some roots', Some imps' =>
          match build W o' (empty_bgraph (bo_kind o')) roots' imps' with
          | Some g => L [enc_bgraph g]
          | None => L [A 424242]
          end
      | _, _, _, _ => decode_error
      end
  | _ => decode_error
  end.
