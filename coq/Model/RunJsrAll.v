(* Run functions of the properties whose case streams include registry
   (stage B2) cases besides their own. *)
From DG Require Import Base.Util Base.Sexp Model.Graph Model.Builder Model.Jsr Model.RunJsr Model.Decl Model.RunDecl Model.RunC01 Model.RunC05 Model.RunC07 Model.RunC06 Model.RunC13.

(* ---------- C01, stage B1: "nothing unreachable is present", judged on the graph the model computes (which
   must equal the real one) for worlds whose answers report the requested specifier as the final one.
   Edges: recorded redirects, and the recorded dependencies and types dependency of module entries.
   [relaxed] names the one known way an entry gets orphaned there (F-C01c): an error entry filed by an
   asset request (a source-phase import of something that is not WebAssembly, an attribute type the options
   do not allow) REPLACES whatever entry the target had - also a module entry whose dependencies were
   already followed; relaxed, such an error entry still counts the dependencies of the world's module. *)
Definition b1_dep_targets (d : dep) : list spec := res_targets (d_code d) ++ res_targets (d_type d).
Definition b1_edges (W : world) (g : bgraph) (relaxed : bool) (s : spec) : list spec :=
  (match lookup s (bg_redirects g) with Some t => [t] | None => [] end) ++
  match lookup s (bg_slots g) with
  | Some (BMod m) =>
      flat_map b1_dep_targets (m_deps m) ++
      match m_types_dep m with Some td => res_targets (td_res td) | None => [] end
  | Some (BErr (BSourcePhase _ _)) | Some (BErr (BUnsupportedAttr _ _ _)) =>
      if relaxed then match resp_of W s with WModule _ wm => wmod_targets wm | _ => [] end else []
  | _ => []
  end.
Definition b1_starts (roots : list spec) (imps : list (spec * list dep)) : list spec :=
  roots ++ flat_map (fun p => flat_map (fun d => res_targets (d_type d)) (snd p)) imps.
Definition b1_reach_fuel (W : world) (g : bgraph) (starts : list spec) : nat :=
  (16 + length starts + 4 * (length (bg_slots g) + length (bg_redirects g)) +
   fold_left (fun n p => n + match snd p with
                             | BMod m => 2 * length (m_deps m) + 1
                             | BErr _ => match resp_of W (fst p) with WModule _ wm => length (wmod_targets wm) | _ => 0 end
                             | _ => 0 end) (bg_slots g) 0)%nat.
Definition b1_orphan_free (W : world) (g : bgraph) (starts : list spec) (relaxed : bool) : bool :=
  let r := reach (b1_reach_fuel W g starts) (b1_edges W g relaxed) starts [] in
  forallb (fun p => mem (fst p) r) (bg_slots g).
Definition noalias_wresp (p : spec * wresp) : bool :=
  match snd p with WExternal f => N.eqb f (fst p) | WModule f _ => N.eqb f (fst p) | _ => true end.
Definition noalias_world (W : world) : bool := forallb noalias_wresp (w_resp W) && forallb noalias_wresp (w_resp_reload W).
Definition c01_b1_judgement (W : world) (g : bgraph) (roots : list spec) (imps : list (spec * list dep)) : list sexp :=
  let starts := b1_starts roots imps in
  if negb (noalias_world W) then [judge true]
  else if b1_orphan_free W g starts false then [judge true]
  else if b1_orphan_free W g starts true then [judge false; L [A CLASSTAG; A 103]]
  else [judge false].

Definition run_c01_judged (input : sexp) : sexp :=
  match input with
  | L [w; o; roots; imps] =>
      match dec_world w, dec_bopts o, as_atoms roots, dec_imports imps with
      | Some W, Some o', Some roots', Some imps' =>
          match build W o' (empty_bgraph (bo_kind o')) roots' imps' with
          | Some g => L (enc_bgraph g :: c01_b1_judgement W g roots' imps')
          | None => L [A 424242]
          end
      | _, _, _, _ => decode_error
      end
  | _ => decode_error
  end.

(* C01 also has declaration-layer cases *)
Definition run_c01j : sexp -> sexp := fun s => if is_decl_case s then run_decl_any s else with_jsr_c01 run_c01_judged s.
Definition run_c03 : sexp -> sexp := with_jsr run_c01.
Definition run_c04 : sexp -> sexp := with_jsr run_c01.
Definition run_c05j : sexp -> sexp := with_jsr run_c05.
Definition run_c07j : sexp -> sexp := with_jsr run_c07.
Definition run_c06j : sexp -> sexp := with_jsr_c06 run_c06.
Definition run_c13j : sexp -> sexp := with_jsr run_c13.
