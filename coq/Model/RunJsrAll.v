(* Run functions of the properties whose case streams include registry
   (stage B2) cases besides their own. *)
From DG Require Import Base.Util Base.Sexp Model.Jsr Model.RunJsr Model.Decl Model.RunDecl Model.RunC01 Model.RunC05 Model.RunC07 Model.RunC06 Model.RunC13.

(* C01 also has declaration-layer cases *)
Definition run_c01j : sexp -> sexp := fun s => if is_decl_case s then run_decl_any s else with_jsr_c01 run_c01 s.
Definition run_c03 : sexp -> sexp := with_jsr run_c01.
Definition run_c04 : sexp -> sexp := with_jsr run_c01.
Definition run_c05j : sexp -> sexp := with_jsr run_c05.
Definition run_c07j : sexp -> sexp := with_jsr run_c07.
Definition run_c06j : sexp -> sexp := with_jsr_c06 run_c06.
Definition run_c13j : sexp -> sexp := with_jsr run_c13.
