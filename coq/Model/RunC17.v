(* C17 / C18 wire-level entry points: graph encoder, observational equality
   on code views, decision procedures and known-class predicates. *)
From DG Require Import Base.Util Base.Sexp Base.Reach Model.Graph Model.Walk Model.RunC15 Model.RunC02
  Model.RunC14 Model.Prune.

(* ---------- encoder (inverse of the decoders of Graph.v, without the tables) ---------- *)

Definition enc_res (r : res) : sexp :=
  match r with
  | RNone => of_atoms [0]
  | ROk t rg => of_atoms [1; t; rg]
  | RErr e => of_atoms [2; e]
  end.
Definition enc_dep (d : dep) : sexp :=
  L [A (d_text d); of_bool (d_filelike d); enc_res (d_code d); enc_res (d_type d); of_bool (d_dyn d);
     of_bool (d_deno_types d); A (d_attr d)].
Definition enc_deps (ds : list dep) : sexp := L (map enc_dep ds).
Definition enc_mkind (k : mkind) : N :=
  match k with MkJs => 0 | MkJson => 1 | MkWasm => 2 | MkNpm => 3 | MkNode => 4 | MkExternal => 5 end.
Definition enc_media (m : media) : N :=
  match m with
  | MJavaScript => 0 | MJsx => 1 | MMjs => 2 | MCjs => 3 | MTypeScript => 4 | MMts => 5 | MCts => 6
  | MDts => 7 | MDmts => 8 | MDcts => 9 | MTsx => 10 | MCss => 11 | MJson => 12 | MJsonc => 13
  | MJson5 => 14 | MHtml => 15 | MMarkdown => 16 | MSql => 17 | MWasm => 18 | MSourceMap => 19
  | MUnknown => 20 end.
Definition enc_module (m : module) : sexp :=
  L [A (enc_mkind (m_kind m)); A (m_spec m); A (enc_media (m_media m)); enc_deps (m_deps m);
     of_option (fun td => L [A (td_text td); of_bool (td_filelike td); enc_res (td_res td)]) (m_types_dep m);
     of_option enc_deps (m_fc_deps m); of_bool (m_dts m)].
Definition enc_slot (sl : slot) : sexp :=
  match sl with
  | SMod m => L [A 0; enc_module m]
  | SErr ms e => L [A 1; of_option A ms; A e]
  | SPending => L [A 2]
  end.
Definition enc_gkind (k : gkind) : N := match k with KAll => 0 | KCodeOnly => 1 | KTypesOnly => 2 end.

(* the graph without its attribute tables *)
Definition enc_graph_proj (g : graph) : sexp :=
  L [A (enc_gkind (g_kind g)); set_of (map A (g_roots g));
     L (map (fun p => L [A (fst p); enc_slot (snd p)]) (g_slots g));
     L (map (fun p => of_atoms [fst p; snd p]) (g_redirects g));
     L (map (fun p => L [A (fst p); enc_deps (snd p)]) (g_imports g));
     of_bool (g_has_node g)].

(* ---------- C17 ---------- *)

Definition errkind (g : graph) (e : N) : N :=
  match lookup e (g_errkinds g) with Some k => k | None => 99 end.

Definition res_eqb (a b : res) : bool :=
  match a, b with
  | RNone, RNone => true
  | ROk t r, ROk t' r' => N.eqb t t' && N.eqb r r'
  | RErr e, RErr e' => N.eqb e e'
  | _, _ => false
  end.

Definition is_rnone (r : res) : bool := match r with RNone => true | _ => false end.

(* code view of an entry: module kind + code edges, or error kind *)
Definition code_edges (m : module) : list dep :=
  filter (fun d => negb (is_rnone (d_code d))) (m_deps m).

Definition edge_eqb (a b : dep) : bool :=
  N.eqb (d_text a) (d_text b) && res_eqb (d_code a) (d_code b) && Bool.eqb (d_dyn a) (d_dyn b).

Fixpoint list_eqb {T} (eq : T -> T -> bool) (a b : list T) : bool :=
  match a, b with
  | [], [] => true
  | x :: a', y :: b' => eq x y && list_eqb eq a' b'
  | _, _ => false
  end.

Definition mkind_eqb (a b : mkind) : bool := N.eqb (enc_mkind a) (enc_mkind b).

Definition slot_code_eqb (g1 g2 : graph) (a b : slot) : bool :=
  match a, b with
  | SMod m1, SMod m2 =>
      mkind_eqb (m_kind m1) (m_kind m2) && N.eqb (enc_media (m_media m1)) (enc_media (m_media m2)) &&
      (* edges compared as a set keyed by specifier text: the order of the
         dependency map is not part of the property *)
      Nat.eqb (length (code_edges m1)) (length (code_edges m2)) &&
      forallb (fun a => existsb (edge_eqb a) (code_edges m2)) (code_edges m1)
  | SErr _ e1, SErr _ e2 => N.eqb (errkind g1 e1) (errkind g2 e2)
  | SPending, SPending => true
  | _, _ => false
  end.

(* entries compared as maps keyed by specifier; [skip] = specifiers excused by a known class *)
Definition entries_code_eqb (skip : list spec) (g1 g2 : graph) : bool :=
  let keep := fun p : spec * slot => negb (mem (fst p) skip) in
  list_eqb (fun p q : spec * slot => N.eqb (fst p) (fst q) && slot_code_eqb g1 g2 (snd p) (snd q))
           (filter keep (g_slots g1)) (filter keep (g_slots g2)).

Definition redirects_eqb (g1 g2 : graph) : bool :=
  list_eqb (fun p q : spec * spec => N.eqb (fst p) (fst q) && N.eqb (snd p) (snd q))
           (g_redirects g1) (g_redirects g2).

Definition verdict_ok (v : option (option gerr)) : bool :=
  match v with Some None => true | _ => false end.

Definition obs_code_eqb (skip : list spec) (g1 g2 : graph) : bool :=
  entries_code_eqb skip g1 g2 && redirects_eqb g1 g2 &&
  (match skip with [] => Bool.eqb (verdict_ok (valid g1)) (verdict_ok (valid g2)) | _ => true end).

(* nothing type-related left *)
Definition dep_no_types (d : dep) : bool := is_rnone (d_type d) && negb (d_deno_types d).
Definition module_no_types (m : module) : bool :=
  forallb dep_no_types (m_deps m) &&
  match m_types_dep m with None => true | Some _ => false end &&
  match m_fc_deps m with None => true | Some _ => false end &&
  negb (m_dts m).
Definition no_types_left (g : graph) : bool :=
  match g_kind g with KCodeOnly => true | _ => false end &&
  match g_imports g with [] => true | _ => false end &&
  forallb (fun p => match snd p with SMod m => module_no_types m | _ => true end) (g_slots g).

(* known class F-C17a / F-C18b / F-C19a: whether an attribute-less JSON (or
   other non-JS) module is accepted depends on how its FIRST request reached
   it; class = the only differing entries are specifiers where one graph
   holds an UnsupportedMediaType error (kind 5) and the other a Json module *)
Definition context_dependent_specs (g1 g2 : graph) : list spec :=
  flat_map (fun p : spec * slot =>
    match snd p, slot_of g2 (fst p) with
    | SErr _ e, Some (SMod m) =>
        if N.eqb (errkind g1 e) 5 && mkind_eqb (m_kind m) MkJson then [fst p] else []
    | SMod m, Some (SErr _ e) =>
        if N.eqb (errkind g2 e) 5 && mkind_eqb (m_kind m) MkJson then [fst p] else []
    | _, _ => []
    end) (g_slots g1).

(* known class F-C17b: the TooManyRedirects error of a redirect cycle is stored
   at the specifier at which the build entered the cycle; class = the only
   differing entries are Load errors (kind 0) present in one graph and absent
   in the other, at specifiers lying on a redirect cycle *)
Definition cycle_error_specs (g1 g2 : graph) : list spec :=
  let one_sided := fun (ga gb : graph) =>
    flat_map (fun p : spec * slot =>
      match snd p, slot_of gb (fst p) with
      | SErr _ e, None =>
          if N.eqb (errkind ga e) 0 &&
             match chain_hops ga (fst p) with None => true | Some _ => false end
          then [fst p] else []
      | _, _ => []
      end) (g_slots ga) in
  one_sided g1 g2 ++ one_sided g2 g1.

Definition run_c17 (input : sexp) : sexp :=
  match input with
  | L [ga; gp; gc] =>
      match dec_graph ga, dec_graph gp, dec_graph gc with
      | Some g_all, Some g_pruned_impl, Some g_code =>
          match prune g_all with
          | Some pm =>
              let post := no_types_left g_pruned_impl in
              let eq := obs_code_eqb [] g_pruned_impl g_code in
              let ctx := context_dependent_specs g_pruned_impl g_code in
              L [L [enc_graph_proj pm];
                 L ([judge post]);
                 L ([judge eq] ++
                    (if eq then [] else
                       let cyc := cycle_error_specs g_pruned_impl g_code in
                       match ctx, cyc with
                       | [], [] => []
                       | _ :: _, [] => if obs_code_eqb ctx g_pruned_impl g_code then [of_atoms [CLASSTAG; 1701]] else []
                       | [], _ :: _ => if obs_code_eqb cyc g_pruned_impl g_code then [of_atoms [CLASSTAG; 1702]] else []
                       | _, _ => if obs_code_eqb (ctx ++ cyc) g_pruned_impl g_code
                                 then [of_atoms [CLASSTAG; 1701]; of_atoms [CLASSTAG; 1702]] else []
                       end))]
          | None => L [A 424242]
          end
      | _, _, _ => decode_error
      end
  | _ => decode_error
  end.
