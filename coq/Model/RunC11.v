(* C11 - fast check preserves the public API and drops everything else.

   The relational statement on (summary of the original module, summary of the
   module fast check emitted for it, entrypoint flag, resolved export name sets,
   names the generator knows to be outside the public API), its decision
   procedure [api_preservedb] (proved equivalent in Proofs/FcApiProofs.v) and
   the wire-level entry point run_c11.

   What "carried over unchanged" means here (documented behaviour of the
   transform, src/fast_check/transform.rs):
   * the emitted items are the original items in their order with some dropped
     ([SubRel]); after them come the namespaces synthesised for expando
     properties (`f.x = e` -> `namespace f { export var x = e }`);
   * a retained declaration keeps kind, name, export form, type parameters,
     heritage clauses; every type annotation WRITTEN in the source is found
     again with the same text (interned canonical text: equal id <-> equal
     text), modulo the optional/default-parameter normalisation
       x?: T  -> x?: T   or   x: T | undefined   (before a required parameter)
       x: T = e -> x?: T or   x: T | undefined
   * documented erasures are NOT "signature changes": the implementation
     signature of an overloaded function (replaced by `(param0?: any, ...): any`),
     TS-private members (become `declare private k: any`; repeated private
     methods of one name collapse), parameters of a private constructor,
     #private members, static blocks, auto-accessors (become properties),
     parameter properties (become leading `declare` properties);
   * imports / export lists keep a sub-list of their specifiers. *)
From DG Require Import Base.Util Base.Sexp Model.FcSummary Model.RunC10.

(* ================================================================ generic: ordered sub-list up to a relation *)

Inductive SubRel {A B : Type} (R : A -> B -> Prop) : list A -> list B -> Prop :=
| SRnil : forall l, SubRel R l []
| SRkeep : forall a b l l', R a b -> SubRel R l l' -> SubRel R (a :: l) (b :: l')
| SRdrop : forall a l l', SubRel R l l' -> SubRel R (a :: l) l'.

Section SubRelB.
  Context {A B : Type}.
  Variable r : A -> B -> bool.
  (* greedy: the first original element that matches the next emitted one is taken *)
  Fixpoint subrelb (l : list A) (l' : list B) : bool :=
    match l' with
    | [] => true
    | b :: lb =>
        match l with
        | [] => false
        | a :: la => if r a b then subrelb la lb else subrelb la l'
        end
    end.
End SubRelB.

Inductive Forall2R {A B : Type} (R : A -> B -> Prop) : list A -> list B -> Prop :=
| F2nil : Forall2R R [] []
| F2cons : forall a b l l', R a b -> Forall2R R l l' -> Forall2R R (a :: l) (b :: l').

Section Forall2B.
  Context {A B : Type}.
  Variable r : A -> B -> bool.
  Fixpoint forall2b (l : list A) (l' : list B) : bool :=
    match l, l' with
    | [], [] => true
    | a :: la, b :: lb => r a b && forall2b la lb
    | _, _ => false
    end.
End Forall2B.

(* ================================================================ equality tests on the small enumerations *)

Definition patcls_eqb (a b : patcls) : bool :=
  match a, b with
  | PIdent, PIdent | PArray, PArray | PObject, PObject | PRest, PRest | POtherPat, POtherPat => true
  | _, _ => false
  end.
Definition fkind_eqb (a b : fkind) : bool :=
  match a, b with
  | FDecl, FDecl | FExpr, FExpr | FArrow, FArrow | FMethod, FMethod | FGetter, FGetter
  | FSetter, FSetter | FCtor, FCtor => true
  | _, _ => false
  end.
Definition acc_eqb (a b : acc) : bool :=
  match a, b with
  | AccPublic, AccPublic | AccProtected, AccProtected | AccPrivate, AccPrivate => true
  | _, _ => false
  end.
Definition exform_eqb (a b : exform) : bool :=
  match a, b with
  | ExNone, ExNone | ExNamed, ExNamed | ExDefault, ExDefault => true
  | _, _ => false
  end.
Definition keycls_eqb (a b : keycls) : bool :=
  match a, b with
  | KIdent, KIdent | KStr, KStr | KNum, KNum | KComputed, KComputed | KHash, KHash
  | KHashMarker, KHashMarker => true
  | _, _ => false
  end.
Definition key_eqb (a b : keyinfo) : bool := keycls_eqb (k_cls a) (k_cls b) && N.eqb (k_id a) (k_id b).
Definition optN_eqb (a b : option N) : bool :=
  match a, b with
  | None, None => true
  | Some x, Some y => N.eqb x y
  | _, _ => false
  end.
Fixpoint listN_eqb (a b : list N) : bool :=
  match a, b with
  | [], [] => true
  | x :: a', y :: b' => N.eqb x y && listN_eqb a' b'
  | _, _ => false
  end.

(* ================================================================ declarative statement *)

(* a written annotation is carried over *)
Definition TyCarried (o e : tyinfo) : Prop := has_ty o = true -> ty_id e = ty_id o.

(* a parameter, with the optional/default normalisation *)
Definition ParamMatch (o e : param) : Prop :=
  p_pat o = p_pat e /\
  (p_pat o = PIdent -> p_name e = p_name o) /\
  (has_ty (p_ty o) = true ->
     (ty_id (p_ty e) = ty_id (p_ty o) /\
      (p_optional e = p_optional o \/ (p_default o <> ENone /\ p_optional e = true)))
     \/ ((p_optional o = true \/ p_default o <> ENone) /\ p_optional e = false /\
         ty_strip (p_ty e) = Some (ty_id (p_ty o)))).

(* where the normalisation applies: a parameter is optional-like when it is optional, has a default
   or is a rest parameter; a plain-identifier parameter with a default stays optional-like (`x?: T`,
   or its leavable default kept) when only optional-like parameters follow it; it may become the
   required `x: T | undefined` only when a required parameter follows (ParamsOptionalStartIndex) *)
Definition optional_like (p : param) : bool :=
  p_optional p || negb (match p_default p with ENone => true | _ => false end) ||
  match p_pat p with PRest => true | _ => false end.
Definition required_follows (ps : list param) : bool := existsb (fun p => negb (optional_like p)) ps.
Fixpoint optrunb (os es : list param) : bool :=
  match os, es with
  | o :: os', e :: es' =>
      (match p_pat o, p_default o with
       | PIdent, ENone => true
       | PIdent, _ => required_follows os' || optional_like e
       | _, _ => true
       end) && optrunb os' es'
  | _, _ => true
  end.
Definition OptRun (os es : list param) : Prop := optrunb os es = true.

(* the signature of a function-like; the implementation of an overloaded function is exempt *)
Definition FnMatch (o e : fnsum) : Prop :=
  fn_kind e = fn_kind o /\
  (fn_ovl o = false ->
     fn_tpc e = fn_tpc o /\ fn_tpi e = fn_tpi o /\
     Forall2R ParamMatch (fn_params o) (fn_params e) /\ TyCarried (fn_ret o) (fn_ret e) /\
     OptRun (fn_params o) (fn_params e)).

(* a function / arrow expression that is the (retained) initialiser keeps its signature *)
Definition InitFnMatch (o e : ecls) : Prop :=
  match o, e with EFun fo, EFun fe => FnMatch fo fe | _, _ => True end.

Definition is_private_acc (a : acc) : bool := match a with AccPrivate => true | _ => false end.

(* a retained member; TS-private members only keep key / static-ness *)
Definition MemberMatch (o e : member) : Prop :=
  match o, e with
  | MCtor ao fo, MCtor ae fe => ae = ao /\ (ao <> AccPrivate -> FnMatch fo fe)
  | MMethod ko ao so abo opo fo, MMethod ke ae se abe ope fe =>
      (* (a TS-private method survives as a method only in an ambient class) *)
      ke = ko /\ ae = ao /\ se = so /\ (ao <> AccPrivate -> abe = abo /\ ope = opo /\ FnMatch fo fe)
  | MMethod ko AccPrivate so _ _ _, MProp ke AccPrivate se _ _ _ _ _ _ _ _ _ => ke = ko /\ se = so
  | MProp ko ao so tyo _ _ opo roo _ _ inito _, MProp ke ae se tye _ _ ope roe _ _ inite _ =>
      ke = ko /\ ae = ao /\ se = so /\
      (ao <> AccPrivate -> ope = opo /\ roe = roo /\ TyCarried tyo tye /\ InitFnMatch inito inite)
  | MAuto ko ao so tyo _ _, MProp ke ae se tye _ _ _ _ _ _ _ _ =>
      ke = ko /\ ae = ao /\ se = so /\ (ao <> AccPrivate -> TyCarried tyo tye)
  | MIndex io, MIndex ie => ie = io
  | _, _ => False
  end.

(* parameter properties of the original constructors, in order *)
Definition ctor_props (m : member) : list param :=
  match m with
  | MCtor _ f => filter (fun p => match p_prop p with Some _ => true | None => false end) (fn_params f)
  | _ => []
  end.
Definition class_param_props (ms : list member) : list param := flat_map ctor_props ms.

(* the property declaration synthesised for a parameter property *)
Definition ParamPropMatch (p : param) (e : member) : Prop :=
  match e, p_prop p with
  | MProp ke ae se tye de _ ope roe _ _ init _, Some (ap, rop) =>
      k_cls ke = KIdent /\ k_id ke = p_name p /\ se = false /\ de = true /\ init = ENone /\
      ae = ap /\ roe = rop /\ (ap <> AccPrivate -> TyCarried (p_ty p) tye)
  | _, _ => False
  end.

(* emitted members = [marker] ++ properties of parameter properties ++ retained members in order *)
Definition MembersPreserved (oms ems : list member) : Prop :=
  exists mk pp rest,
    ems = mk ++ pp ++ rest /\ Forall (fun m => is_marker m = true) mk /\
    SubRel ParamPropMatch (class_param_props oms) pp /\
    SubRel MemberMatch oms rest.

Definition ClassMatch (o e : classsum) : Prop :=
  c_tpc e = c_tpc o /\ c_tpi e = c_tpi o /\ c_super_id e = c_super_id o /\
  c_implements e = c_implements o /\ c_abstract e = c_abstract o /\
  MembersPreserved (c_members o) (c_members e).

Definition VDeclMatch (o e : vdecl) : Prop :=
  v_name e = v_name o /\ v_pat e = v_pat o /\ TyCarried (v_ty o) (v_ty e) /\ InitFnMatch (v_init o) (v_init e).

Definition SpecMatch (o e : N * N * N) : Prop := e = o.

(* namespace synthesised for expando properties: only exported `var` declarations *)
Definition ExpandoItem (it : item) : Prop :=
  match it with IVar ExNamed false _ _ => True | _ => False end.
Definition Expando (it : item) : Prop :=
  match it with INamespace _ _ _ its => Forall ExpandoItem its | _ => False end.

Inductive ItemMatch : item -> item -> Prop :=
| IMImport : forall t s s' sp sp', SubRel SpecMatch sp sp' -> ItemMatch (IImport t s sp) (IImport t s' sp')
| IMExportNamed : forall t s s' sp sp',
    (s = None <-> s' = None) -> SubRel SpecMatch sp sp' -> ItemMatch (IExportNamed t s sp) (IExportNamed t s' sp')
| IMExportAll : forall t s s', ItemMatch (IExportAll t s) (IExportAll t s')
| IMFn : forall ex n a f f', FnMatch f f' -> ItemMatch (IFn ex n a f) (IFn ex n a f')
| IMClass : forall ex n a c c', ClassMatch c c' -> ItemMatch (IClass ex n a c) (IClass ex n a c')
| IMVar : forall ex a k ds ds', SubRel VDeclMatch ds ds' -> ItemMatch (IVar ex a k ds) (IVar ex a k ds')
| IMInterface : forall ex n c i e b, ItemMatch (IInterface ex n c i e b) (IInterface ex n c i e b)
| IMAlias : forall ex n c i t, ItemMatch (IAlias ex n c i t) (IAlias ex n c i t)
| IMEnum : forall ex n c t, ItemMatch (IEnum ex n c t) (IEnum ex n c t)
| IMNamespace : forall ex n a its main tail,
    SubRel ItemMatch its main -> Forall Expando tail ->
    ItemMatch (INamespace ex n a its) (INamespace ex n a (main ++ tail))
| IMDefaultExpr : forall e e', ItemMatch (IDefaultExpr e) (IDefaultExpr e')
| IMOther : forall c, ItemMatch (IOther c) (IOther c).

Definition ItemsPreserved (o e : list item) : Prop :=
  exists main tail, e = main ++ tail /\ SubRel ItemMatch o main /\ Forall Expando tail.

(* names declared at the top level of a module *)
Definition item_names (it : item) : list N :=
  match it with
  | IFn _ n _ _ | IClass _ n _ _ | IInterface _ n _ _ _ _ | IAlias _ n _ _ _ | IEnum _ n _ _
  | INamespace _ n _ _ => [n]
  | IVar _ _ _ ds => map v_name ds
  | _ => []
  end.
Definition module_names (m : modsum) : list N := flat_map item_names (m_items m).

(* a declaration reached through nested namespaces: [a; b; c] = `c` declared in namespace `b` of
   namespace `a` (recursion on the path) *)
Fixpoint declares_path (p : list N) (its : list item) : bool :=
  match p with
  | [] => false
  | [n] => mem n (flat_map item_names its)
  | n :: rest =>
      existsb (fun it => match it with
                         | INamespace _ m _ sub => N.eqb m n && declares_path rest sub
                         | _ => false
                         end) its
  end.

Record c11_obs := {
  o_entry : bool;             (* the module is an export target of its package *)
  o_orig : modsum;
  o_emit : modsum;
  o_orig_exports : list N;    (* resolved export names of the original (real symbol API) *)
  o_emit_exports : list N;    (* resolved export names of the emitted module (same API, second graph) *)
  o_exports_known : bool;     (* both sets could be computed *)
  o_must_drop : list N;       (* generator intent: declared names outside the public API *)
  o_must_drop_paths : list (list N)   (* ... and nested ones: namespace path ending in the declared name *)
}.

(* THE PROPERTY on one (original, emitted) module pair *)
Definition ApiPreserved (x : c11_obs) : Prop :=
  (o_exports_known x = true ->
     (forall n, In n (o_emit_exports x) -> In n (o_orig_exports x)) /\
     (o_entry x = true -> forall n, In n (o_orig_exports x) -> In n (o_emit_exports x))) /\
  ItemsPreserved (m_items (o_orig x)) (m_items (o_emit x)) /\
  (forall n, In n (o_must_drop x) -> ~ In n (module_names (o_emit x))) /\
  (forall p, In p (o_must_drop_paths x) -> declares_path p (m_items (o_emit x)) = false).

(* ================================================================ decision procedure *)

Definition tycarriedb (o e : tyinfo) : bool := negb (has_ty o) || N.eqb (ty_id e) (ty_id o).

Definition parammatchb (o e : param) : bool :=
  patcls_eqb (p_pat o) (p_pat e) &&
  (negb (patcls_eqb (p_pat o) PIdent) || N.eqb (p_name e) (p_name o)) &&
  (negb (has_ty (p_ty o)) ||
   (N.eqb (ty_id (p_ty e)) (ty_id (p_ty o)) &&
    (Bool.eqb (p_optional e) (p_optional o) || (negb (is_enone (p_default o)) && p_optional e)))
   || ((p_optional o || negb (is_enone (p_default o))) && negb (p_optional e) &&
       optN_eqb (ty_strip (p_ty e)) (Some (ty_id (p_ty o))))).

Definition fnmatchb (o e : fnsum) : bool :=
  fkind_eqb (fn_kind e) (fn_kind o) &&
  (fn_ovl o ||
   (N.eqb (fn_tpc e) (fn_tpc o) && N.eqb (fn_tpi e) (fn_tpi o) &&
    forall2b parammatchb (fn_params o) (fn_params e) && tycarriedb (fn_ret o) (fn_ret e) &&
    optrunb (fn_params o) (fn_params e))).

Definition initfnmatchb (o e : ecls) : bool :=
  match o, e with EFun fo, EFun fe => fnmatchb fo fe | _, _ => true end.

Definition membermatchb (o e : member) : bool :=
  match o, e with
  | MCtor ao fo, MCtor ae fe => acc_eqb ae ao && (is_private_acc ao || fnmatchb fo fe)
  | MMethod ko ao so abo opo fo, MMethod ke ae se abe ope fe =>
      key_eqb ke ko && acc_eqb ae ao && Bool.eqb se so &&
      (is_private_acc ao || (Bool.eqb abe abo && Bool.eqb ope opo && fnmatchb fo fe))
  | MMethod ko AccPrivate so _ _ _, MProp ke AccPrivate se _ _ _ _ _ _ _ _ _ => key_eqb ke ko && Bool.eqb se so
  | MProp ko ao so tyo _ _ opo roo _ _ inito _, MProp ke ae se tye _ _ ope roe _ _ inite _ =>
      key_eqb ke ko && acc_eqb ae ao && Bool.eqb se so &&
      (is_private_acc ao || (Bool.eqb ope opo && Bool.eqb roe roo && tycarriedb tyo tye && initfnmatchb inito inite))
  | MAuto ko ao so tyo _ _, MProp ke ae se tye _ _ _ _ _ _ _ _ =>
      key_eqb ke ko && acc_eqb ae ao && Bool.eqb se so && (is_private_acc ao || tycarriedb tyo tye)
  | MIndex io, MIndex ie => N.eqb ie io
  | _, _ => false
  end.

Definition parampropmatchb (p : param) (e : member) : bool :=
  match e, p_prop p with
  | MProp ke ae se tye de _ ope roe _ _ init _, Some (ap, rop) =>
      keycls_eqb (k_cls ke) KIdent && N.eqb (k_id ke) (p_name p) && negb se && de && is_enone init &&
      acc_eqb ae ap && Bool.eqb roe rop && (is_private_acc ap || tycarriedb (p_ty p) tye)
  | _, _ => false
  end.

(* the leading markers *)
Fixpoint drop_markers (ems : list member) : list member :=
  match ems with
  | m :: r => if is_marker m then drop_markers r else ems
  | [] => []
  end.

(* try every split point pp ++ rest of the members after the markers *)
Definition splitsb {X : Type} (f : list X -> list X -> bool) (l : list X) : bool :=
  existsb (fun k => f (firstn k l) (skipn k l)) (seq 0 (S (length l))).

Definition memberspreservedb (oms ems : list member) : bool :=
  existsb (fun j =>
    forallb is_marker (firstn j ems) &&
    splitsb (fun pp rest => subrelb parampropmatchb (class_param_props oms) pp && subrelb membermatchb oms rest)
            (skipn j ems))
    (seq 0 (S (length ems))).

Definition classmatchb (o e : classsum) : bool :=
  N.eqb (c_tpc e) (c_tpc o) && N.eqb (c_tpi e) (c_tpi o) && N.eqb (c_super_id e) (c_super_id o) &&
  listN_eqb (c_implements e) (c_implements o) && Bool.eqb (c_abstract e) (c_abstract o) &&
  memberspreservedb (c_members o) (c_members e).

Definition vdeclmatchb (o e : vdecl) : bool :=
  N.eqb (v_name e) (v_name o) && patcls_eqb (v_pat e) (v_pat o) && tycarriedb (v_ty o) (v_ty e) &&
  initfnmatchb (v_init o) (v_init e).

Definition specmatchb (o e : N * N * N) : bool :=
  match o, e with (a, b, c), (a', b', c') => N.eqb a' a && N.eqb b' b && N.eqb c' c end.

Definition expandoitemb (it : item) : bool :=
  match it with IVar ExNamed false _ _ => true | _ => false end.
Definition expandob (it : item) : bool :=
  match it with INamespace _ _ _ its => forallb expandoitemb its | _ => false end.

Definition is_none_N (o : option N) : bool := match o with None => true | Some _ => false end.

Fixpoint itemmatchb (o e : item) : bool :=
  match o, e with
  | IImport t _ sp, IImport t' _ sp' => Bool.eqb t t' && subrelb specmatchb sp sp'
  | IExportNamed t s sp, IExportNamed t' s' sp' =>
      Bool.eqb t t' && Bool.eqb (is_none_N s) (is_none_N s') && subrelb specmatchb sp sp'
  | IExportAll t _, IExportAll t' _ => Bool.eqb t t'
  | IFn ex n a f, IFn ex' n' a' f' => exform_eqb ex ex' && N.eqb n n' && Bool.eqb a a' && fnmatchb f f'
  | IClass ex n a c, IClass ex' n' a' c' => exform_eqb ex ex' && N.eqb n n' && Bool.eqb a a' && classmatchb c c'
  | IVar ex a k ds, IVar ex' a' k' ds' =>
      exform_eqb ex ex' && Bool.eqb a a' && N.eqb k k' && subrelb vdeclmatchb ds ds'
  | IInterface ex n c i ext b, IInterface ex' n' c' i' ext' b' =>
      exform_eqb ex ex' && N.eqb n n' && N.eqb c c' && N.eqb i i' && listN_eqb ext ext' && N.eqb b b'
  | IAlias ex n c i t, IAlias ex' n' c' i' t' =>
      exform_eqb ex ex' && N.eqb n n' && N.eqb c c' && N.eqb i i' && N.eqb t t'
  | IEnum ex n c t, IEnum ex' n' c' t' => exform_eqb ex ex' && N.eqb n n' && Bool.eqb c c' && N.eqb t t'
  | INamespace ex n a its, INamespace ex' n' a' its' =>
      exform_eqb ex ex' && N.eqb n n' && Bool.eqb a a' &&
      existsb (fun k => subrelb itemmatchb its (firstn k its') && forallb expandob (skipn k its'))
              (seq 0 (S (length its')))
  | IDefaultExpr _, IDefaultExpr _ => true
  | IOther c, IOther c' => N.eqb c c'
  | _, _ => false
  end.

Definition itemspreservedb (o e : list item) : bool :=
  existsb (fun k => subrelb itemmatchb o (firstn k e) && forallb expandob (skipn k e)) (seq 0 (S (length e))).

Definition subsetb (a b : list N) : bool := forallb (fun n => mem n b) a.
Definition disjointb (a b : list N) : bool := forallb (fun n => negb (mem n b)) a.

(* the four clauses *)
Definition c11_subsetb (x : c11_obs) : bool :=
  negb (o_exports_known x) || subsetb (o_emit_exports x) (o_orig_exports x).
Definition c11_entryb (x : c11_obs) : bool :=
  negb (o_exports_known x) || negb (o_entry x) || subsetb (o_orig_exports x) (o_emit_exports x).
Definition c11_itemsb (x : c11_obs) : bool := itemspreservedb (m_items (o_orig x)) (m_items (o_emit x)).
Definition c11_dropb (x : c11_obs) : bool :=
  disjointb (o_must_drop x) (module_names (o_emit x)) &&
  forallb (fun p => negb (declares_path p (m_items (o_emit x)))) (o_must_drop_paths x).

Definition api_preservedb (x : c11_obs) : bool :=
  c11_subsetb x && c11_entryb x && c11_itemsb x && c11_dropb x.

(* ================================================================ known class F-C11a *)

(* a parameter whose written type needs parentheses inside a union and that the transform turns
   into `T | undefined`: the emitted text `() => R | undefined` re-parses as a different type *)
Definition paren_victim (p : param) : bool :=
  ty_paren (p_ty p) && (p_optional p || negb (is_enone (p_default p))).

Definition no_ty : tyinfo := {| ty_cls := TyNone; ty_id := 0; ty_strip := None; ty_paren := false |}.

(* the same original with the annotation of every such parameter forgotten *)
Definition relax_param (p : param) : param :=
  if paren_victim p then
    match p with Param pat _ opt d de i pr n => Param pat no_ty opt d de i pr n end
  else p.
Definition relax_fn (f : fnsum) : fnsum :=
  match f with FnSum k ps ret a g b d c i o => FnSum k (map relax_param ps) ret a g b d c i o end.
Definition relax_init (e : ecls) : ecls := match e with EFun f => EFun (relax_fn f) | _ => e end.
Definition relax_member (m : member) : member :=
  match m with
  | MCtor a f => MCtor a (relax_fn f)
  | MMethod k a s ab op f => MMethod k a s ab op (relax_fn f)
  | MProp k a s ty de df op ro ab ov init decos => MProp k a s ty de df op ro ab ov (relax_init init) decos
  | _ => m
  end.
Definition relax_class (c : classsum) : classsum :=
  {| c_decos := c_decos c; c_super := c_super c; c_super_id := c_super_id c; c_implements := c_implements c;
     c_tpc := c_tpc c; c_tpi := c_tpi c; c_abstract := c_abstract c; c_members := map relax_member (c_members c) |}.
Definition relax_vdecl (v : vdecl) : vdecl :=
  {| v_name := v_name v; v_pat := v_pat v; v_ty := v_ty v; v_init := relax_init (v_init v); v_definite := v_definite v |}.
Fixpoint relax_item (it : item) : item :=
  match it with
  | IFn ex n a f => IFn ex n a (relax_fn f)
  | IClass ex n a c => IClass ex n a (relax_class c)
  | IVar ex a k ds => IVar ex a k (map relax_vdecl ds)
  | INamespace ex n a its => INamespace ex n a (map relax_item its)
  | _ => it
  end.
Definition relax_obs (x : c11_obs) : c11_obs :=
  {| o_entry := o_entry x;
     o_orig := {| m_ambient := m_ambient (o_orig x); m_items := map relax_item (m_items (o_orig x)) |};
     o_emit := o_emit x; o_orig_exports := o_orig_exports x; o_emit_exports := o_emit_exports x;
     o_exports_known := o_exports_known x; o_must_drop := o_must_drop x;
     o_must_drop_paths := o_must_drop_paths x |}.

(* class 1101: the pair violates the property, and does not once those annotations are ignored *)
Definition c11_classes (x : c11_obs) : list N :=
  if api_preservedb x then [] else if api_preservedb (relax_obs x) then [1101] else [].

(* ================================================================ wire *)

Definition dec_c11_obs (s : sexp) : option c11_obs :=
  match s with
  | L (en :: o :: e :: oe :: ee :: kn :: md :: rest) =>
      do en' <- as_bool en; do o' <- dec_module o; do e' <- dec_module e;
      do oe' <- as_atoms oe; do ee' <- as_atoms ee; do kn' <- as_bool kn; do md' <- as_atoms md;
      (* an eighth field: nested names (absent in cases written before they were modelled) *)
      do mp' <- match rest with [] => Some [] | [mp] => as_list_of as_atoms mp | _ => None end;
      Some {| o_entry := en'; o_orig := o'; o_emit := e'; o_orig_exports := oe'; o_emit_exports := ee';
              o_exports_known := kn'; o_must_drop := md'; o_must_drop_paths := mp' |}
  | _ => None
  end.

(* one module pair -> [number of declared names in the emitted module; judgement of each clause:
   exports subset, exports equal at an entrypoint, declarations preserved, intent-dropped names absent] *)
Definition run_c11_pair (s : sexp) : sexp :=
  match dec_c11_obs s with
  | Some x =>
      L ([A (N.of_nat (length (module_names (o_emit x))));
          judge (c11_subsetb x); judge (c11_entryb x); judge (c11_itemsb x); judge (c11_dropb x)]
         ++ map (fun c => of_atoms [CLASSTAG10; c]) (c11_classes x))
  | None => decode_error
  end.

Definition run_c11 (input : sexp) : sexp :=
  match input with
  | L [A 0; L ps] => L (map run_c11_pair ps)
  | _ => decode_error
  end.
