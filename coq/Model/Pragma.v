(* C08 layer (a), part 2: the pragma / triple-slash recognisers of
   src/analysis.rs:402-500 and comment_source_to_position_range
   (src/ast/mod.rs:922-942).

   Rust `regex` semantics that matter here (regex 1.11 / regex-syntax 0.8,
   Unicode mode, no flags but (?i)):
     * leftmost-first: an unanchored search tries start positions left to right;
       at a start position every pattern below is deterministic (each greedy
       repetition is followed by something outside the repeated class), except
       the alternation of @deno-types, where the first alternative wins;
     * `^` is the start of the text only (no multi-line mode);
     * `\s` = Unicode White_Space, `\S` its complement;
     * a negated class [^Q] (Q = the two quote characters U+0022, U+0027): it matches U+000A too; `.` does not;
     * (?i) = Unicode simple case folding; for the ASCII letters of the keywords
       the only non-ASCII members of a folding class are U+017F (long s) for s
       and U+212A (Kelvin sign) for k.
   A recogniser returns the captured text, the rest of the comment text after
   the capture, and whether the capture is quote-less; the byte range of the
   capture (what regex::Match::range() is) follows from the lengths. *)
From DG Require Import Base.Util Model.TextPos.

Definition is_ws (c : N) : bool :=
  ((9 <=? c) && (c <=? 13)) || (c =? 32) || (c =? 133) || (c =? 160) || (c =? 5760)
  || ((8192 <=? c) && (c <=? 8202)) || (c =? 8232) || (c =? 8233) || (c =? 8239)
  || (c =? 8287) || (c =? 12288).

Definition is_quote (c : N) : bool := (c =? 34) || (c =? 39).
Definition not_quote (c : N) : bool := negb (is_quote c).
Definition not_ws (c : N) : bool := negb (is_ws c).

(* does character c match the (lower-case ASCII) pattern character k under (?i) *)
Definition ci_match (k c : N) : bool :=
  (c =? k)
  || ((97 <=? k) && (k <=? 122) && (c =? k - 32))
  || ((k =? 115) && (c =? 383))
  || ((k =? 107) && (c =? 8490)).

Fixpoint lit_ci (kw : list N) (s : text) : option text :=
  match kw with
  | [] => Some s
  | k :: kw' =>
      match s with
      | c :: s' => if ci_match k c then lit_ci kw' s' else None
      | [] => None
      end
  end.

(* greedy star: the rest after the longest prefix of characters satisfying f *)
Fixpoint skip (f : N -> bool) (s : text) : text :=
  match s with
  | c :: s' => if f c then skip f s' else s
  | [] => []
  end.

Fixpoint span (f : N -> bool) (s : text) : text * text :=
  match s with
  | c :: s' => if f c then (let p := span f s' in (c :: fst p, snd p)) else ([], s)
  | [] => ([], [])
  end.

Definition is_nil (s : text) : bool := match s with [] => true | _ => false end.

(* Q (not-Q star) Q, capture = the star part; plus instead of star when nonempty (Q = one of the two quote characters):
   capture and the rest STARTING AT the closing quote *)
Definition quoted (nonempty : bool) (s : text) : option (text * text) :=
  match s with
  | q :: s1 =>
      if is_quote q then
        let t := fst (span not_quote s1) in
        let r := snd (span not_quote s1) in
        match r with
        | [] => None
        | _ :: _ => if nonempty && is_nil t then None else Some (t, r)
        end
      else None
  | [] => None
  end.

(* capture group of one or more \S *)
Definition nonspace (s : text) : option (text * text) :=
  let t := fst (span not_ws s) in
  if is_nil t then None else Some (t, snd (span not_ws s)).

(* one character equal to c *)
Definition chr (c : N) (s : text) : option text :=
  match s with
  | d :: s' => if d =? c then Some s' else None
  | [] => None
  end.

(* unanchored search: leftmost start position at which p matches *)
Fixpoint search {T} (p : text -> option T) (s : text) : option T :=
  match p s with
  | Some r => Some r
  | None => match s with [] => None | _ :: s' => search p s' end
  end.

(* keywords, lower case *)
Definition kw_reference : list N := [60; 114; 101; 102; 101; 114; 101; 110; 99; 101].   (* <reference *)
Definition kw_path : list N := [112; 97; 116; 104].
Definition kw_types : list N := [116; 121; 112; 101; 115].
Definition kw_resolution_mode : list N :=
  [114; 101; 115; 111; 108; 117; 116; 105; 111; 110; 45; 109; 111; 100; 101].
Definition kw_jsx_import_source : list N :=
  [64; 106; 115; 120; 105; 109; 112; 111; 114; 116; 115; 111; 117; 114; 99; 101].         (* @jsximportsource *)
Definition kw_jsx_import_source_types : list N := kw_jsx_import_source ++ kw_types.
Definition kw_source_mapping_url : list N :=
  [115; 111; 117; 114; 99; 101; 109; 97; 112; 112; 105; 110; 103; 117; 114; 108].
Definition kw_ts_self_types : list N := [64; 116; 115; 45; 115; 101; 108; 102; 45; 116; 121; 112; 101; 115].
Definition kw_ts_types : list N := [64; 116; 115; 45; 116; 121; 112; 101; 115].
Definition kw_deno_types : list N := [64; 100; 101; 110; 111; 45; 116; 121; 112; 101; 115].

(* (?i)^/\s*<reference\s.*?/>   (is_match) *)
Fixpoint has_close (s : text) : bool :=
  match s with
  | c :: s' =>
      if c =? LF then false
      else match s' with
           | d :: _ => if (c =? 47) && (d =? 62) then true else has_close s'
           | [] => false
           end
  | [] => false
  end.

Definition is_triple_slash_reference (s : text) : bool :=
  match chr 47 s with
  | Some s1 =>
      match lit_ci kw_reference (skip is_ws s1) with
      | Some (c :: s2) => is_ws c && has_close s2
      | _ => false
      end
  | None => false
  end.

(* \s <kw> \s* = \s* Q (not-Q star) Q   at the start of s *)
Definition attr_at (kw : list N) (s : text) : option (text * text) :=
  match s with
  | c :: s1 =>
      if is_ws c then
        match lit_ci kw s1 with
        | Some s2 =>
            match chr 61 (skip is_ws s2) with
            | Some s3 => quoted false (skip is_ws s3)
            | None => None
            end
        | None => None
        end
      else None
  | [] => None
  end.

Definition star_or_ws (c : N) : bool := is_ws c || (c =? 42).

(* ^ [\s or star]* <kw> \s+ (capture: one or more \S) *)
Definition jsx_at (kw : list N) (s : text) : option (text * text) :=
  match lit_ci kw (skip star_or_ws s) with
  | Some (c :: s1) => if is_ws c then nonspace (skip is_ws s1) else None
  | _ => None
  end.

(* ^ [#@] \s* sourceMappingURL \s* = \s* (capture: one or more \S) *)
Definition source_map_at (s : text) : option (text * text) :=
  match s with
  | c :: s1 =>
      if (c =? 35) || (c =? 64) then
        match lit_ci kw_source_mapping_url (skip is_ws s1) with
        | Some s2 =>
            match chr 61 (skip is_ws s2) with
            | Some s3 => nonspace (skip is_ws s3)
            | None => None
            end
        | None => None
        end
      else None
  | [] => None
  end.

(* ^\s*<kw>\s*=\s*  : the rest after the equals sign and the blanks *)
Definition types_prefix (kw : list N) (s : text) : option text :=
  match lit_ci kw (skip is_ws s) with
  | Some s1 =>
      match chr 61 (skip is_ws s1) with
      | Some s2 => Some (skip is_ws s2)
      | None => None
      end
  | None => None
  end.

Inductive pragma :=
| PPath | PTypes | PResolutionMode | PJsxImportSource | PJsxImportSourceTypes
| PSourceMappingUrl | PTsSelfTypes | PTsTypes | PDenoTypes.

Definition with_ql (ql : bool) (o : option (text * text)) : option (text * text * bool) :=
  match o with Some (t, r) => Some (t, r, ql) | None => None end.

(* find_path_reference .. find_deno_types: (capture, rest after capture, quoteless) where quoteless is
   the is_specifier_quoteless flag the call site in ast/mod.rs hands to
   comment_source_to_position_range: constant true for the JSX import source (+types) and
   the source map URL, the flag of the match for @deno-types, false elsewhere *)
Definition recognise (p : pragma) (s : text) : option (text * text * bool) :=
  match p with
  | PPath => with_ql false (search (attr_at kw_path) s)
  | PTypes => with_ql false (search (attr_at kw_types) s)
  | PResolutionMode => with_ql false (search (attr_at kw_resolution_mode) s)
  | PJsxImportSource => with_ql true (jsx_at kw_jsx_import_source s)
  | PJsxImportSourceTypes => with_ql true (jsx_at kw_jsx_import_source_types s)
  | PSourceMappingUrl => with_ql true (source_map_at s)
  | PTsSelfTypes =>
      match types_prefix kw_ts_self_types s with
      | Some r => with_ql false (quoted true r)
      | None => None
      end
  | PTsTypes =>
      match types_prefix kw_ts_types s with
      | Some r => with_ql false (quoted true r)
      | None => None
      end
  | PDenoTypes =>
      match types_prefix kw_deno_types s with
      | Some r =>
          match quoted true r with
          | Some m => with_ql false (Some m)
          | None => with_ql true (nonspace r)
          end
      | None => None
      end
  end.

(* regex::Match::range() of the capture inside the comment text *)
Definition match_start (ctext cap rest : text) : N := byte_len ctext - byte_len rest - byte_len cap.
Definition match_end (ctext rest : text) : N := byte_len ctext - byte_len rest.

(* comment_source_to_position_range: comment_start is the byte offset of the
   comment's first delimiter character in src *)
Definition comment_range (src : text) (comment_start m_start m_end : N) (quoteless : bool) : range :=
  let cs := comment_start + 2 in
  let pad := if quoteless then 0 else 1 in
  {| r_start := pos_of_offset src (cs + m_start - pad);
     r_end := pos_of_offset src (cs + m_end + pad) |}.

(* comment delimiters: two slashes (line), slash star (block) *)
Definition open_delim (block : bool) : text := if block then [47; 42] else [47; 47].
