(* C03 termination, builder stage B1: every iteration of resolve_pending's loop
   strictly decreases a natural-number measure, so the loop stops whatever the
   loader answers (missing, errors, redirects - chains and cycles -, externals,
   modules answered under other final specifiers, checksum failures).

   The measure [tmeasure U st] is defined in Model/Builder.v (the model's fuel
   is computed from it).  U is a duplicate-free list of specifiers containing
   every specifier the world can mention (targets of redirects, final
   specifiers, dependency targets) and every specifier queued in the state. *)
From Coq Require Import Arith Lia.
From RecordUpdate Require Import RecordSet.
Import RecordSetNotations.
From DG Require Import Base.Util Base.Sexp Model.Graph Model.Builder Proofs.BuilderProofs Proofs.ClosureProofs.
Local Open Scope nat_scope.

(* ---------- sums ---------- *)
Lemma sum_le : forall (f g : spec -> nat) U,
  (forall u, In u U -> f u <= g u) -> sum_nat (map f U) <= sum_nat (map g U).
Proof.
  intros f g U. induction U as [|a U IH]; intro H; cbn [map sum_nat]; [lia|].
  pose proof (H a (or_introl eq_refl)). assert (sum_nat (map f U) <= sum_nat (map g U)).
  { apply IH. intros u Hu. apply H. right; exact Hu. }
  lia.
Qed.

Lemma sum_at : forall (f g : spec -> nat) s U,
  NoDup U -> In s U -> (forall u, In u U -> u <> s -> f u <= g u) ->
  sum_nat (map f U) + g s <= sum_nat (map g U) + f s.
Proof.
  intros f g s U. induction U as [|a U IH]; intros Hnd Hin H; [destruct Hin|].
  inversion Hnd as [|? ? Hna Hnd']; subst. cbn [map sum_nat].
  destruct (N.eq_dec a s) as [->|Hne].
  - assert (sum_nat (map f U) <= sum_nat (map g U)).
    { apply sum_le. intros u Hu. apply H; [right; exact Hu|]. intro; subst. contradiction. }
    lia.
  - destruct Hin as [Heq|Hin]; [contradiction|].
    assert (f a <= g a) by (apply H; [left; reflexivity | exact Hne]).
    assert (sum_nat (map f U) + g s <= sum_nat (map g U) + f s).
    { apply IH; [exact Hnd' | exact Hin |]. intros u Hu. apply H. right; exact Hu. }
    lia.
Qed.

(* the general form used below: f and g agree up to <= away from s; at s, f s + dn <= g s + up *)
Lemma sum_change : forall (f g : spec -> nat) s U up,
  NoDup U -> (forall u, In u U -> u <> s -> f u <= g u) -> f s <= g s + up ->
  sum_nat (map f U) <= sum_nat (map g U) + up.
Proof.
  intros f g s U up Hnd H Hs. destruct (in_dec N.eq_dec s U) as [Hin|Hnin].
  - pose proof (sum_at f g s U Hnd Hin H). lia.
  - assert (sum_nat (map f U) <= sum_nat (map g U)); [|lia].
    apply sum_le. intros u Hu. apply H; [exact Hu|]. intro; subst; contradiction.
Qed.

Lemma sum_drop : forall (f g : spec -> nat) s U dn,
  NoDup U -> In s U -> (forall u, In u U -> u <> s -> f u <= g u) -> f s + dn <= g s ->
  sum_nat (map f U) + dn <= sum_nat (map g U).
Proof. intros f g s U dn Hnd Hin H Hs. pose proof (sum_at f g s U Hnd Hin H). lia. Qed.

Lemma filter_len_le : forall (f g : spec -> bool) U,
  (forall u, f u = true -> g u = true) -> length (filter f U) <= length (filter g U).
Proof.
  intros f g U H. induction U as [|a U IH]; cbn [filter]; [lia|].
  destruct (f a) eqn:Ef.
  - rewrite (H a Ef). cbn [length]. lia.
  - destruct (g a); cbn [length]; lia.
Qed.

(* ---------- assoc-list facts ---------- *)
Lemma has_key_or_insert : forall {V} k k0 (v : V) l,
  has_key k0 (or_insert k v l) = (N.eqb k0 k || has_key k0 l).
Proof.
  intros V k k0 v l. unfold or_insert. destruct (lookup k l) eqn:El.
  - destruct (N.eqb_spec k0 k) as [->|Hne]; [|reflexivity]. unfold has_key. rewrite El. reflexivity.
  - unfold has_key. induction l as [|[k' v'] l IH]; cbn [lookup app].
    + destruct (N.eqb k0 k); reflexivity.
    + cbn [lookup] in El. destruct (N.eqb k k') eqn:Ekk; [discriminate|].
      destruct (N.eqb k0 k') eqn:E0.
      * destruct (N.eqb k0 k); reflexivity.
      * apply IH. exact El.
Qed.

Lemma length_or_insert : forall {V} k (v : V) l,
  length (or_insert k v l) = (if has_key k l then length l else S (length l)).
Proof.
  intros V k v l. unfold or_insert, has_key. destruct (lookup k l); [reflexivity|].
  rewrite app_length. cbn [length]. lia.
Qed.

Lemma in_or_insert : forall {V} k (v : V) l k0 v0,
  In (k0, v0) (or_insert k v l) -> In (k0, v0) l \/ (k0 = k /\ v0 = v).
Proof.
  intros V k v l k0 v0 H. unfold or_insert in H. destruct (lookup k l); [left; exact H|].
  apply in_app_or in H. destruct H as [H|[H|[]]]; [left; exact H|]. inversion H; subst. right; split; reflexivity.
Qed.

Lemma in_set_assoc_key : forall {V} k (v : V) l k0 v0,
  In (k0, v0) (set_assoc k v l) -> In k0 (map fst l) \/ k0 = k.
Proof.
  intros V k v l. induction l as [|[k' v'] l IH]; intros k0 v0 H; cbn [set_assoc] in H.
  - destruct H as [H|[]]. inversion H; subst. right; reflexivity.
  - destruct (N.eqb_spec k k') as [->|Hne].
    + destruct H as [H|H]; [inversion H; subst; right; reflexivity|].
      left. cbn [map fst In]. right. apply (in_map fst) in H. exact H.
    + destruct H as [H|H]; [inversion H; subst; left; left; reflexivity|].
      destruct (IH _ _ H) as [H'|H']; [left; right; exact H' | right; exact H'].
Qed.

Lemma rstar_end : forall reds s e, RStar reds s e -> e = s \/ exists a, In (a, e) reds.
Proof.
  intros reds s e H. induction H as [s|s r e Hl _ IH]; [left; reflexivity|].
  destruct IH as [->|IH]; [|right; exact IH]. right. exists s. apply lookup_In. exact Hl.
Qed.

(* ---------- what the world can mention ---------- *)
Lemma resp_targets : forall W s x, In x (wresp_targets (resp_of W s)) -> In x (world_specs W).
Proof.
  intros W s x H. unfold resp_of in H. destruct (lookup s (w_resp W)) as [r|] eqn:El; [|destruct H].
  unfold world_specs. apply in_flat_map. exists (s, r). split; [|exact H].
  apply in_or_app. left. apply lookup_In. exact El.
Qed.

Lemma resp_reload_targets : forall W s x, In x (wresp_targets (resp_reload_of W s)) -> In x (world_specs W).
Proof.
  intros W s x H. unfold resp_reload_of in H. destruct (lookup s (w_resp_reload W)) as [r|] eqn:El.
  - unfold world_specs. apply in_flat_map. exists (s, r). split; [|exact H].
    apply in_or_app. right. apply lookup_In. exact El.
  - eapply resp_targets. exact H.
Qed.

Definition presult_specs (res : presult) : list spec :=
  match res with
  | PErr e => [berr_spec e]
  | PRedirect to => [to]
  | PExternal f _ => [f]
  | PJson f wm => f :: wmod_targets wm
  | PCode f wm => f :: wmod_targets wm
  end.

Lemma accept_err_spec : forall W f wm a r root dyn e, accept W f wm a r root dyn = AccErr e -> berr_spec e = f.
Proof.
  intros W f wm a r root dyn e Ea. unfold accept in Ea.
  repeat match type of Ea with
  | context [if ?c then _ else _] => destruct c
  | context [match ?m with _ => _ end] => destruct m
  end; inversion Ea; reflexivity.
Qed.

Lemma module_result_specs : forall W it f wm x,
  In x (presult_specs (module_result W it f wm)) -> In x (f :: wmod_targets wm).
Proof.
  intros W it f wm x H. unfold module_result in H.
  destruct (accept W f wm (pi_attr it) (pi_range it) (pi_root it) (pi_dyn it)) as [| |e] eqn:Ea;
    cbn [presult_specs] in H; try exact H.
  destruct H as [H|[]]. rewrite (accept_err_spec _ _ _ _ _ _ _ _ Ea) in H. left. exact H.
Qed.

Lemma module_result_not_asset : forall W it f wm g, module_result W it f wm <> PExternal g true.
Proof.
  intros W it f wm g. unfold module_result.
  destruct (accept W f wm (pi_attr it) (pi_range it) (pi_root it) (pi_dyn it)); discriminate.
Qed.

Lemma try_load_specs : forall W it res calls,
  try_load W it = (res, calls) ->
  (forall x, In x (presult_specs res) -> x = pi_spec it \/ In x (world_specs W)) /\
  (forall f, res = PExternal f true -> f = pi_spec it /\ pi_asset it = true).
Proof.
  intros W it res calls H. unfold try_load in H.
  assert (T1 : forall x, In x (wresp_targets (resp_of W (pi_spec it))) -> In x (world_specs W))
    by (intros; eapply resp_targets; eassumption).
  assert (T2 : forall x, In x (wresp_targets (resp_reload_of W (pi_spec it))) -> In x (world_specs W))
    by (intros; eapply resp_reload_targets; eassumption).
  unfold loader_call in H.
  destruct (resp_of W (pi_spec it)) as [| |to|f|f wm] eqn:Er.
  - inversion H; subst. split; [intros x [Hx|[]]; left; symmetry; exact Hx | discriminate].
  - inversion H; subst. split; [intros x [Hx|[]]; left; symmetry; exact Hx | discriminate].
  - inversion H; subst. split.
    + destruct (pi_checksum it); [intros x [Hx|[]]; left; symmetry; exact Hx|].
      destruct (Nat.leb (w_max_redirects W) (pi_count it) || N.eqb to (pi_spec it)).
      * intros x [Hx|[]]; left; symmetry; exact Hx.
      * intros x [Hx|[]]. right. apply T1. left. exact Hx.
    + destruct (pi_checksum it); [discriminate|].
      destruct (Nat.leb (w_max_redirects W) (pi_count it) || N.eqb to (pi_spec it)); discriminate.
  - inversion H; subst. destruct (pi_asset it) eqn:Ea.
    + split; [intros x [Hx|[]]; left; symmetry; exact Hx|]. intros g Hg. inversion Hg; subst. split; reflexivity.
    + split; [intros x [Hx|[]]; right; apply T1; left; exact Hx | discriminate].
  - assert (Main : forall r c, (if pi_asset it then PExternal (pi_spec it) true else module_result W it f wm, c) = (r, calls) ->
              (forall x, In x (wresp_targets (WModule f wm)) -> In x (world_specs W)) ->
              (forall x, In x (presult_specs r) -> x = pi_spec it \/ In x (world_specs W)) /\
              (forall g, r = PExternal g true -> g = pi_spec it /\ pi_asset it = true)).
    { intros r c Hr T. destruct (pi_asset it) eqn:Ea; inversion Hr; subst.
      - split; [intros x [Hx|[]]; left; symmetry; exact Hx|]. intros g Hg. inversion Hg; subst. split; reflexivity.
      - split; [|intros g Hg; exfalso; eapply module_result_not_asset; exact Hg].
        intros x Hx. right. apply T. apply module_result_specs in Hx. exact Hx. }
    destruct (pi_checksum it) as [c|].
    + destruct (N.eqb c (wm_hash_raw wm)); [eapply Main; [exact H | exact T1]|].
      (* checksum failure: one retry with Reload *)
      destruct (resp_reload_of W (pi_spec it)) as [| |to2|f2|f2 wm2] eqn:Er2;
        try (inversion H; subst; split; [intros x [Hx|[]]; left; symmetry; exact Hx | discriminate]).
      * destruct (pi_asset it) eqn:Ea; inversion H; subst.
        -- split; [intros x [Hx|[]]; left; symmetry; exact Hx|]. intros g Hg. inversion Hg; subst. split; reflexivity.
        -- split; [intros x [Hx|[]]; left; symmetry; exact Hx | discriminate].
      * destruct (N.eqb c (wm_hash_raw wm2)).
        -- assert (Main2 : forall r c0, (if pi_asset it then PExternal (pi_spec it) true else module_result W it f2 wm2, c0) = (r, calls) ->
              (forall x, In x (presult_specs r) -> x = pi_spec it \/ In x (world_specs W)) /\
              (forall g, r = PExternal g true -> g = pi_spec it /\ pi_asset it = true)).
           { intros r c0 Hr. destruct (pi_asset it) eqn:Ea; inversion Hr; subst.
             - split; [intros x [Hx|[]]; left; symmetry; exact Hx|]. intros g Hg. inversion Hg; subst. split; reflexivity.
             - split; [|intros g Hg; exfalso; eapply module_result_not_asset; exact Hg].
               intros x Hx. right. apply T2. apply module_result_specs in Hx. exact Hx. }
           eapply Main2. exact H.
        -- inversion H; subst; split; [intros x [Hx|[]]; left; symmetry; exact Hx | discriminate].
    + eapply Main; [exact H | exact T1].
Qed.

Lemma sum_nat_app : forall a b, sum_nat (a ++ b) = sum_nat a + sum_nat b.
Proof. induction a as [|x a IH]; intro b; cbn [app sum_nat]; [reflexivity | rewrite IH; lia]. Qed.

Definition item_weight_of (asset : bool) : nat := if asset then 3 else 1.

(* ---------- the invariants and the measure ---------- *)
Section Term.
Variable W : world.
Variable o : bopts.
Variable U : list spec.
Hypothesis HU : NoDup U.
Hypothesis HW : forall x, In x (world_specs W) -> In x U.

(* every specifier the state can still ask for is in U *)
Record UInv (st : bstate) : Prop := {
  ui_pend : forall it, In it (st_pending st) -> In (pi_spec it) U;
  ui_dyn : forall k b, In (k, b) (st_dyn st) -> In k U;
  ui_def : forall k d, In (k, d) (st_deferred st) -> In k U;
  ui_red : forall a b, In (a, b) (st_redirects st) -> In b U
}.

(* dynamic branches are collected only before they are followed *)
Definition DynInv (st : bstate) : Prop := st_in_dyn st = true -> st_dyn st = [].

Definition Ok (st : bstate) : Prop := UInv st /\ DynInv st.

(* st' is a good successor of st: invariants hold and the measure did not grow *)
Definition Dec (st st' : bstate) : Prop := Ok st' /\ tmeasure U st' <= tmeasure U st.

Lemma dec_refl : forall st, Ok st -> Dec st st.
Proof. intros st H. split; [exact H | lia]. Qed.

Lemma dec_trans : forall a b c, Dec a b -> Dec b c -> Dec a c.
Proof. intros a b c [_ H1] [H2 H3]. split; [exact H2 | lia]. Qed.

Lemma load_target_in : forall st spec0, UInv st -> In spec0 U -> In (load_target st spec0) U.
Proof.
  intros st spec0 H Hin. unfold load_target.
  pose proof (resolve_rstar (redirect_graph (st_redirects st)) spec0) as HR. cbn [redirect_graph g_redirects] in HR.
  destruct (rstar_end _ _ _ HR) as [->|[a Ha]]; [exact Hin|]. eapply ui_red; eassumption.
Qed.

(* --- credit under slot updates --- *)
Lemma credit_set_other : forall slots reds defs s v u,
  u <> s -> credit (set_assoc s v slots) reds defs u = credit slots reds defs u.
Proof. intros. unfold credit. rewrite lookup_set_assoc_other; [reflexivity | assumption]. Qed.

Lemma credit_set_same : forall slots reds defs s v,
  credit (set_assoc s v slots) reds defs s =
  match v with
  | BExternal true => 2
  | BPending true => if has_key s defs then 0 else 2
  | _ => 0
  end.
Proof. intros. unfold credit. rewrite lookup_set_assoc_same. reflexivity. Qed.

Definition zero_credit (v : bslot) : Prop :=
  match v with BExternal true | BPending true => False | _ => True end.

(* setting a slot to something that costs nothing *)
Lemma set_slot_zero_dec : forall st s v, Ok st -> zero_credit v -> Dec st (set_slot st s v).
Proof.
  intros st s v [HUi HD] Hz. split.
  - split; [|exact HD]. destruct HUi. constructor; assumption.
  - unfold tmeasure, set_slot. cbn.
    assert (sum_nat (map (credit (set_assoc s v (st_slots st)) (st_redirects st) (st_deferred st)) U)
            <= sum_nat (map (credit (st_slots st) (st_redirects st) (st_deferred st)) U)); [|lia].
    apply sum_le. intros u _.
    destruct (N.eq_dec u s) as [->|Hne].
    + rewrite credit_set_same. destruct v as [m|[|]|e|[|]]; cbn in Hz; try contradiction; lia.
    + rewrite credit_set_other by exact Hne. lia.
Qed.

Lemma berr_zero : forall e, zero_credit (BErr e). Proof. intros; exact I. Qed.

(* --- queue_load --- *)
Lemma queue_load_dec : forall st s range asset in_dyn root attr count,
  Ok st -> In s U ->
  (lookup s (st_slots st) = None /\ has_key s (st_redirects st) = false) \/
  (lookup s (st_slots st) = Some (BExternal true) /\ asset = false) ->
  Dec st (queue_load st s range asset in_dyn root attr count).
Proof.
  intros st s range asset in_dyn root attr count [HUi HD] Hin Hcase. split.
  - split; [|exact HD]. destruct HUi as [P1 P2 P3 P4]. constructor; cbn; try assumption.
    intros it Hit. apply in_app_or in Hit. destruct Hit as [Hit|[Hit|[]]]; [apply P1; exact Hit|].
    subst it. cbn. exact Hin.
  - unfold tmeasure, queue_load, set_slot. cbn. rewrite map_app, sum_nat_app. cbn [map sum_nat].
    assert (Hs : sum_nat (map (credit (set_assoc s (BPending asset) (st_slots st)) (st_redirects st) (st_deferred st)) U)
                 + item_weight_of asset
                 <= sum_nat (map (credit (st_slots st) (st_redirects st) (st_deferred st)) U)).
    { apply (sum_drop _ _ s); [exact HU | exact Hin | |].
      - intros u _ Hne. rewrite credit_set_other by exact Hne. lia.
      - rewrite credit_set_same. unfold credit.
        destruct Hcase as [[H1 H2]|[H1 H2]].
        + rewrite H1, H2. unfold item_weight_of. destruct asset; [destruct (has_key s (st_deferred st))|]; lia.
        + subst asset. rewrite H1. unfold item_weight_of. lia. }
    unfold item_weight, item_weight_of in *. cbn. destruct asset; lia.
Qed.

(* states that differ only in fields the measure and the invariants do not read *)
Lemma ok_ext : forall st st',
  st_slots st' = st_slots st -> st_redirects st' = st_redirects st -> st_deferred st' = st_deferred st ->
  st_pending st' = st_pending st -> st_dyn st' = st_dyn st -> st_in_dyn st' = st_in_dyn st ->
  Ok st -> Dec st st'.
Proof.
  intros st st' E1 E2 E3 E4 E5 E6 [[P1 P2 P3 P4] HD]. split.
  - split.
    + constructor; rewrite ?E4, ?E5, ?E3, ?E2; assumption.
    + unfold DynInv. rewrite E5, E6. exact HD.
  - unfold tmeasure. rewrite E1, E2, E3, E4, E5, E6. lia.
Qed.

(* --- a module request deferred behind an asset load in flight --- *)
Lemma defer_dec : forall st s d,
  Ok st -> In s U -> lookup s (st_slots st) = Some (BPending true) ->
  Dec st (st <| st_deferred := or_insert s d (st_deferred st) |>).
Proof.
  intros st s d [[P1 P2 P3 P4] HD] Hin Hl. split.
  - split; [|exact HD]. constructor; cbn; try assumption.
    intros k d0 Hk. apply in_or_insert in Hk. destruct Hk as [Hk|[-> _]]; [eapply P3; exact Hk | exact Hin].
  - unfold tmeasure. cbn. rewrite length_or_insert.
    destruct (has_key s (st_deferred st)) eqn:Ek; cbv beta iota.
    + assert (sum_nat (map (credit (st_slots st) (st_redirects st) (or_insert s d (st_deferred st))) U)
              <= sum_nat (map (credit (st_slots st) (st_redirects st) (st_deferred st)) U)); [|unfold spec in *; lia].
      apply sum_le. intros u _. unfold credit. rewrite has_key_or_insert.
      destruct (lookup u (st_slots st)) as [[m|[|]|e|[|]]|]; try lia.
      destruct (N.eqb_spec u s) as [->|Hne]; cbn [orb]; [rewrite Ek|]; lia.
    + assert (sum_nat (map (credit (st_slots st) (st_redirects st) (or_insert s d (st_deferred st))) U) + 2
              <= sum_nat (map (credit (st_slots st) (st_redirects st) (st_deferred st)) U)); [|unfold spec in *; lia].
      apply (sum_drop _ _ s); [exact HU | exact Hin | |].
      * intros u _ Hne. unfold credit. rewrite has_key_or_insert.
        destruct (lookup u (st_slots st)) as [[m|[|]|e|[|]]|]; try lia.
        destruct (N.eqb_spec u s) as [->|_]; [contradiction|]. cbn [orb]. lia.
      * unfold credit. rewrite Hl, has_key_or_insert, N.eqb_refl, Ek. cbn [orb]. lia.
Qed.

(* --- load_with_redirect_count --- *)
Definition proceed_of (st : bstate) (s : spec) (range : option N) (asset in_dyn root : bool) (attr : lattr) (count : nat)
  : bstate :=
  if has_key s (st_redirects st) then set_slot st s (BErr (BLoad s range 1))
  else match class_of W s with
       | SNode => (set_slot st s (BMod (node_module s))) <| st_has_node := true |>
       | SPass => set_slot st s (BExternal false)
       | SNpm r => st <| st_npm := st_npm st ++ [{| ni_spec := s; ni_req := r; ni_range := range; ni_dyn := in_dyn |}] |>
       | SBad => set_slot st s (BErr (BBadSpecifier s range))
       | SUrl => queue_load st s range asset in_dyn root attr count
       end.

Lemma proceed_dec : forall st s range asset in_dyn root attr count,
  Ok st -> In s U ->
  lookup s (st_slots st) = None \/ (lookup s (st_slots st) = Some (BExternal true) /\ asset = false) ->
  Dec st (proceed_of st s range asset in_dyn root attr count).
Proof.
  intros st s range asset in_dyn root attr count HOk Hin Hc. unfold proceed_of.
  destruct (has_key s (st_redirects st)) eqn:Ek; [apply set_slot_zero_dec; [exact HOk | exact I]|].
  destruct (class_of W s) as [| | | |r].
  - apply queue_load_dec; [exact HOk | exact Hin |]. destruct Hc as [Hc|Hc]; [left; split; assumption | right; exact Hc].
  - eapply dec_trans; [apply (set_slot_zero_dec st s (BMod (node_module s))); [exact HOk | exact I]|].
    apply ok_ext; try reflexivity. apply set_slot_zero_dec; [exact HOk | exact I].
  - apply set_slot_zero_dec; [exact HOk | exact I].
  - apply set_slot_zero_dec; [exact HOk | exact I].
  - apply ok_ext; try reflexivity. exact HOk.
Qed.

Lemma load_dec : forall st spec0 range asset in_dyn root attr count,
  Ok st -> In spec0 U -> Dec st (load W o st spec0 range asset in_dyn root attr count).
Proof.
  intros st spec0 range asset in_dyn root attr count HOk Hin.
  pose proof (load_target_in st spec0 (proj1 HOk) Hin) as Hs.
  unfold load. fold (proceed_of st (load_target st spec0) range asset in_dyn root attr count).
  set (s := load_target st spec0) in *.
  destruct (sp_reject W s asset attr); [apply set_slot_zero_dec; [exact HOk | exact I]|].
  destruct (attr_reject o asset attr);
    [apply set_slot_zero_dec; [exact HOk | exact I]|].
  cbv zeta. fold (proceed_of st s range asset in_dyn root attr count).
  destruct (lookup s (st_slots st)) as [sl|] eqn:El.
  - destruct sl as [m|[|]|e|[|]]; destruct asset; cbn [negb];
      try (apply dec_refl; exact HOk).
    + apply proceed_dec; [exact HOk | exact Hs |]. right. split; [exact El | reflexivity].
    + apply defer_dec; [exact HOk | exact Hs | exact El].
  - apply proceed_dec; [exact HOk | exact Hs | left; exact El].
Qed.

Lemma load_dyn_same : forall st spec0 range asset in_dyn root attr count,
  st_in_dyn (load W o st spec0 range asset in_dyn root attr count) = st_in_dyn st.
Proof.
  intros. unfold load.
  repeat match goal with
  | |- context [if ?c then _ else _] => destruct c
  | |- context [match ?m with _ => _ end] => destruct m
  end; reflexivity.
Qed.

(* --- add_redirect --- *)
Lemma check_specifier_dec : forall st req s, Ok st -> In s U -> Dec st (check_specifier st req s).
Proof.
  intros st req s HOk Hin. unfold check_specifier.
  destruct (N.eqb_spec req s) as [_|Hne]; [apply dec_refl; exact HOk|].
  destruct HOk as [[P1 P2 P3 P4] HD]. split.
  - split; [|exact HD]. constructor; cbn; try assumption.
    intros a b Hab. apply in_or_insert in Hab. destruct Hab as [Hab|[_ ->]]; [eapply P4; exact Hab | exact Hin].
  - unfold tmeasure. cbn.
    match goal with |- sum_nat (map (credit ?sl _ _) _) + _ + _ + _ <= _ => set (slots' := sl) end.
    assert (sum_nat (map (credit slots' (or_insert req s (st_redirects st)) (st_deferred st)) U)
            <= sum_nat (map (credit (st_slots st) (st_redirects st) (st_deferred st)) U)); [|lia].
    apply sum_le. intros u _. unfold credit. rewrite has_key_or_insert.
    destruct (N.eq_dec u req) as [->|Hu].
    + rewrite N.eqb_refl. cbn [orb]. unfold slots'.
      destruct (lookup req (st_slots st)) as [[m|[|]|e|[|]]|] eqn:El; rewrite ?lookup_remove_assoc_same, ?El; lia.
    + assert (Hl : lookup u slots' = lookup u (st_slots st)).
      { unfold slots'. destruct (lookup req (st_slots st)) as [[m|b|e|b]|]; try reflexivity.
        apply lookup_remove_assoc_other. exact Hu. }
      rewrite Hl. apply N.eqb_neq in Hu. rewrite Hu. cbn [orb]. lia.
Qed.

(* --- dependencies of a visited module --- *)
Lemma with_dyn_dec : forall st t b,
  Ok st -> st_in_dyn st = false -> In t U -> Dec st (with_dyn st (set_assoc t b (st_dyn st))).
Proof.
  intros st t b [[P1 P2 P3 P4] HD] Hf Hin. split.
  - split.
    + constructor; cbn; try assumption. intros k b0 Hk. apply in_set_assoc_key in Hk.
      destruct Hk as [Hk| ->]; [|exact Hin]. apply in_map_iff in Hk. destruct Hk as [[k' b'] [Hk1 Hk2]].
      cbn in Hk1. subst k'. eapply P2. exact Hk2.
    + unfold DynInv, with_dyn. cbn. rewrite Hf. discriminate.
  - unfold tmeasure, with_dyn. cbn. rewrite Hf. unfold dyn_credit.
    assert (length (filter (fun u => negb (has_key u (set_assoc t b (st_dyn st)))) U)
            <= length (filter (fun u => negb (has_key u (st_dyn st))) U)); [|lia].
    apply filter_len_le. intros u Hu. rewrite has_key_set_assoc in Hu.
    destruct (has_key u (st_dyn st)); [|reflexivity]. rewrite orb_true_r in Hu. discriminate.
Qed.

Lemma visit_dep_dec : forall st da,
  Ok st -> (forall x, In x (dep_targets (fst da)) -> In x U) -> Dec st (fst (visit_dep W o st da)).
Proof.
  intros st [d [asset sp]] HOk HT. unfold visit_dep. cbn [fst snd dfl_asset dfl_sp] in *.
  destruct (d_dyn d && bo_skip_dynamic o); [apply dec_refl; exact HOk|]. cbn [fst].
  unfold dep_targets in HT.
  set (st1 := if include_code (bo_kind o) || is_rnone (d_type d) then _ else st).
  assert (H1 : Dec st st1).
  { unfold st1. destruct (include_code (bo_kind o) || is_rnone (d_type d)); [|apply dec_refl; exact HOk].
    destruct (d_code d) as [|t rg|e] eqn:Ec; try (apply dec_refl; exact HOk).
    assert (Ht : In t U) by (apply HT; apply in_or_app; left; left; reflexivity).
    destruct (d_dyn d && negb (st_in_dyn st)) eqn:Edyn.
    - apply with_dyn_dec; [exact HOk | | exact Ht].
      apply andb_true_iff in Edyn. destruct Edyn as [_ E]. destruct (st_in_dyn st); [discriminate | reflexivity].
    - apply load_dec; [exact HOk | exact Ht]. }
  eapply dec_trans; [exact H1|]. destruct H1 as [HOk1 _].
  destruct (include_types (bo_kind o)); [|apply dec_refl; exact HOk1].
  destruct (d_type d) as [|t rg|e] eqn:Ety; try (apply dec_refl; exact HOk1).
  assert (Ht : In t U) by (apply HT; apply in_or_app; right; left; reflexivity).
  destruct (d_dyn d && negb (st_in_dyn st1)) eqn:Edyn.
  - apply with_dyn_dec; [exact HOk1 | | exact Ht].
    apply andb_true_iff in Edyn. destruct Edyn as [_ E]. destruct (st_in_dyn st1); [discriminate | reflexivity].
  - apply load_dec; [exact HOk1 | exact Ht].
Qed.

Lemma visit_deps_dec : forall ds st,
  Ok st -> (forall da x, In da ds -> In x (dep_targets (fst da)) -> In x U) -> Dec st (fst (visit_deps W o st ds)).
Proof.
  induction ds as [|da ds IH]; intros st HOk HT; cbn [visit_deps]; [apply dec_refl; exact HOk|].
  pose proof (visit_dep_dec st da HOk (fun x Hx => HT da x (or_introl eq_refl) Hx)) as H1.
  destruct (visit_dep W o st da) as [st1 d'] eqn:E1. cbn [fst] in H1.
  pose proof (IH st1 (proj1 H1) (fun da0 x Hd Hx => HT da0 x (or_intror Hd) Hx)) as H2.
  destruct (visit_deps W o st1 ds) as [st2 rest] eqn:E2. cbn [fst] in *.
  eapply dec_trans; eassumption.
Qed.

Lemma load_types_dep_dec : forall st tdep,
  Ok st -> (forall td x, tdep = Some td -> In x (res_targets (td_res td)) -> In x U) ->
  Dec st (load_types_dep W o st tdep).
Proof.
  intros st tdep HOk HT. unfold load_types_dep.
  destruct (include_types (bo_kind o)); [|apply dec_refl; exact HOk].
  destruct tdep as [td|]; [|apply dec_refl; exact HOk].
  destruct (td_res td) as [|t rg|e] eqn:Er; try (apply dec_refl; exact HOk).
  apply load_dec; [exact HOk|]. apply (HT td); [reflexivity|]. rewrite Er. left; reflexivity.
Qed.

Lemma visit_module_dec : forall st final wm,
  Ok st -> (forall x, In x (wmod_targets wm) -> In x U) -> Dec st (fst (visit_module W o st final wm)).
Proof.
  intros st final wm HOk HT. unfold visit_module.
  assert (HD : forall da x, In da (wm_deps wm) -> In x (dep_targets (fst da)) -> In x U).
  { intros da x Hd Hx. apply HT. unfold wmod_targets. apply in_or_app. left. apply in_flat_map. exists da. split; assumption. }
  destruct (wm_kind wm); cbn [fst];
    try (apply visit_deps_dec; [exact HOk | exact HD]).
  all: (eapply dec_trans;
        [ instantiate (1 := fst (if follow_deps o wm then visit_deps W o st (wm_deps wm) else (st, [])));
          destruct (follow_deps o wm); [apply visit_deps_dec; [exact HOk | exact HD] | apply dec_refl; exact HOk]
        | ]).
  all: match goal with |- Dec ?a _ => assert (HA : Ok a) end.
  all: try (destruct (follow_deps o wm); [apply (visit_deps_dec _ _ HOk HD) | exact HOk]).
  all: apply load_types_dep_dec; [exact HA|];
       intros td x Htd Hx; apply HT; unfold wmod_targets; apply in_or_app; right; rewrite Htd; exact Hx.
Qed.

(* --- one completed load --- *)
Lemma add_resolved_root_dec : forall st s, Ok st -> Dec st (add_resolved_root st s).
Proof. intros st s H. apply ok_ext; try reflexivity. exact H. Qed.

Lemma record_checksum_dec : forall st final media wm, Ok st -> Dec st (record_checksum W st final media wm).
Proof.
  intros st final media wm H. unfold record_checksum.
  destruct (st_lock st) as [l|]; [|apply dec_refl; exact H].
  destruct (negb (is_declaration media) && mem final (w_http W) && negb (has_key final l)); [|apply dec_refl; exact H].
  apply ok_ext; try reflexivity. exact H.
Qed.

Lemma root_dec : forall st (b : bool) s, Ok st -> Dec st (if b then add_resolved_root st s else st).
Proof. intros st b s H. destruct b; [apply add_resolved_root_dec | apply dec_refl]; exact H. Qed.

(* an asset load that completes leaves an asset-only entry: it can cost 2 again *)
Lemma set_slot_asset_ext : forall st s,
  Ok st -> Ok (set_slot st s (BExternal true)) /\ tmeasure U (set_slot st s (BExternal true)) <= tmeasure U st + 2.
Proof.
  intros st s [HUi HD]. split.
  - split; [|exact HD]. destruct HUi. constructor; assumption.
  - unfold tmeasure, set_slot. cbn.
    assert (sum_nat (map (credit (set_assoc s (BExternal true) (st_slots st)) (st_redirects st) (st_deferred st)) U)
            <= sum_nat (map (credit (st_slots st) (st_redirects st) (st_deferred st)) U) + 2); [|lia].
    apply (sum_change _ _ s); [exact HU | |].
    + intros u _ Hne. rewrite credit_set_other by exact Hne. lia.
    + rewrite credit_set_same. lia.
Qed.

Lemma process_dec : forall st it,
  Ok st -> In (pi_spec it) U ->
  Ok (process W o st it) /\ tmeasure U (process W o st it) + 1 <= tmeasure U st + item_weight it.
Proof.
  intros st it HOk Hit. unfold process.
  destruct (try_load W it) as [res calls] eqn:Et.
  destruct (try_load_specs W it res calls Et) as [HS HA].
  assert (HS' : forall x, In x (presult_specs res) -> In x U).
  { intros x Hx. destruct (HS x Hx) as [->|Hw]; [exact Hit | apply HW; exact Hw]. }
  set (st0 := st <| st_calls := rev calls ++ st_calls st |>).
  assert (H0 : Dec st st0) by (apply ok_ext; try reflexivity; exact HOk).
  assert (Hw : 1 <= item_weight it) by (unfold item_weight; destruct (pi_asset it); lia).
  assert (Fin : forall st', Dec st st' -> Ok st' /\ tmeasure U st' + 1 <= tmeasure U st + item_weight it).
  { intros st' [A B]. split; [exact A | lia]. }
  destruct res as [e|to|final wa|final wm|final wm]; cbn [presult_specs] in HS'.
  - apply Fin. eapply dec_trans; [exact H0|].
    eapply dec_trans; [apply check_specifier_dec; [exact (proj1 H0) | apply HS'; left; reflexivity]|].
    apply set_slot_zero_dec; [|exact I].
    apply check_specifier_dec; [exact (proj1 H0) | apply HS'; left; reflexivity].
  - apply Fin. eapply dec_trans; [exact H0|].
    assert (H1 : Dec st0 (check_specifier st0 (pi_spec it) to))
      by (apply check_specifier_dec; [exact (proj1 H0) | apply HS'; left; reflexivity]).
    eapply dec_trans; [exact H1|]. apply load_dec; [exact (proj1 H1) | apply HS'; left; reflexivity].
  - assert (H1 : Dec st0 (check_specifier st0 (pi_spec it) final))
      by (apply check_specifier_dec; [exact (proj1 H0) | apply HS'; left; reflexivity]).
    set (st1 := check_specifier st0 (pi_spec it) final) in *.
    assert (H2 : Dec st1 (if pi_root it then add_resolved_root st1 final else st1)) by (apply root_dec; exact (proj1 H1)).
    set (st2 := if pi_root it then add_resolved_root st1 final else st1) in *.
    assert (H02 : Dec st st2) by (eapply dec_trans; [exact H0 | eapply dec_trans; eassumption]).
    assert (Hset : Ok (set_slot st2 final (BExternal wa)) /\
                   tmeasure U (set_slot st2 final (BExternal wa)) + 1 <= tmeasure U st + item_weight it).
    { destruct wa.
      - destruct (HA final eq_refl) as [_ Hasset].
        destruct (set_slot_asset_ext st2 final (proj1 H02)) as [A B]. split; [exact A|].
        destruct H02 as [_ C]. unfold item_weight. rewrite Hasset. lia.
      - apply Fin. eapply dec_trans; [exact H02|]. apply set_slot_zero_dec; [exact (proj1 H02) | exact I]. }
    destruct (lookup final (st_slots st2)) as [[m|b|e|b]|]; try exact Hset; apply Fin; exact H02.
  - apply Fin. eapply dec_trans; [exact H0|].
    assert (H1 : Dec st0 (check_specifier st0 (pi_spec it) final))
      by (apply check_specifier_dec; [exact (proj1 H0) | apply HS'; left; reflexivity]).
    set (st1 := check_specifier st0 (pi_spec it) final) in *.
    assert (H2 : Dec st1 (if pi_root it then add_resolved_root st1 final else st1)) by (apply root_dec; exact (proj1 H1)).
    set (st2 := if pi_root it then add_resolved_root st1 final else st1) in *.
    assert (H3 : Dec st2 (record_checksum W st2 final MJson wm)) by (apply record_checksum_dec; exact (proj1 H2)).
    eapply dec_trans; [exact H1|]. eapply dec_trans; [exact H2|]. eapply dec_trans; [exact H3|].
    apply set_slot_zero_dec; [exact (proj1 H3) | exact I].
  - apply Fin. eapply dec_trans; [exact H0|].
    assert (H1 : Dec st0 (check_specifier st0 (pi_spec it) final))
      by (apply check_specifier_dec; [exact (proj1 H0) | apply HS'; left; reflexivity]).
    set (st1 := check_specifier st0 (pi_spec it) final) in *.
    assert (H2 : Dec st1 (if pi_root it then add_resolved_root st1 final else st1)) by (apply root_dec; exact (proj1 H1)).
    set (st2 := if pi_root it then add_resolved_root st1 final else st1) in *.
    set (media := match wm_kind wm with MkWasm => MWasm | _ => match wm_media wm with MUnknown => MJavaScript | m => m end end).
    assert (H3 : Dec st2 (record_checksum W st2 final media wm)) by (apply record_checksum_dec; exact (proj1 H2)).
    set (st3 := record_checksum W st2 final media wm) in *.
    assert (H4 : Dec st3 (fst (visit_module W o st3 final wm))).
    { apply visit_module_dec; [exact (proj1 H3)|]. intros x Hx. apply HS'. right. exact Hx. }
    eapply dec_trans; [exact H1|]. eapply dec_trans; [exact H2|]. eapply dec_trans; [exact H3|].
    eapply dec_trans; [exact H4|]. apply set_slot_zero_dec; [exact (proj1 H4) | exact I].
Qed.

(* --- the end of an iteration: deferred module loads, then dynamic branches --- *)
Lemma load_branches_dec : forall bs st,
  Ok st -> (forall s b, In (s, b) bs -> In s U) -> Dec st (load_branches W o st bs).
Proof.
  induction bs as [|[s b] bs IH]; intros st HOk HT; cbn [load_branches]; [apply dec_refl; exact HOk|].
  assert (H1 : Dec st (load W o st s (Some (br_range b)) (br_asset b) true (mem s (st_resolved_roots st)) (br_attr b) 0)).
  { apply load_dec; [exact HOk|]. eapply HT. left; reflexivity. }
  eapply dec_trans; [exact H1|]. apply IH; [exact (proj1 H1)|]. intros s0 b0 H. eapply HT. right; exact H.
Qed.

Lemma load_deferred_dec : forall ds st,
  Ok st -> (forall s d, In (s, d) ds -> In s U) -> Dec st (load_deferred W o st ds).
Proof.
  induction ds as [|[s d] ds IH]; intros st HOk HT; cbn [load_deferred]; [apply dec_refl; exact HOk|].
  assert (H1 : Dec st (load W o st s (df_range d) false (df_dyn d) (df_root d) (df_attr d) 0)).
  { apply load_dec; [exact HOk|]. eapply HT. left; reflexivity. }
  eapply dec_trans; [exact H1|]. apply IH; [exact (proj1 H1)|]. intros s0 d0 H. eapply HT. right; exact H.
Qed.

Definition tail (st1 : bstate) : bstate :=
  match st_pending st1 with
  | _ :: _ => st1
  | [] =>
      match st_deferred st1 with
      | _ :: _ => load_deferred W o (st1 <| st_deferred := [] |>) (st_deferred st1)
      | [] =>
          if st_in_dyn st1 then st1
          else load_branches W o (st1 <| st_dyn := [] |> <| st_in_dyn := true |>) (st_dyn st1)
      end
  end.

Lemma loop_step_tail : forall st,
  loop_step W o st = tail (match st_pending st with
                           | it :: rest => process W o (st <| st_pending := rest |>) it
                           | [] => st
                           end).
Proof. reflexivity. Qed.

Lemma tail_spec : forall st1,
  Ok st1 -> PendInv None st1 ->
  Ok (tail st1) /\ tmeasure U (tail st1) <= tmeasure U st1 /\
  (st_pending st1 = [] -> idle st1 = false -> tmeasure U (tail st1) < tmeasure U st1).
Proof.
  intros st1 HOk HP. unfold tail, idle.
  destruct (st_pending st1) as [|i r] eqn:Ep.
  2: { split; [exact HOk|]. split; [lia|]. discriminate. }
  assert (NoPend : forall s a, lookup s (st_slots st1) <> Some (BPending a)).
  { intros s a Hl. specialize (HP s a ltac:(discriminate) Hl). rewrite Ep in HP. destruct HP. }
  destruct (st_deferred st1) as [|d ds] eqn:Ed.
  - destruct (st_in_dyn st1) eqn:Ei.
    + split; [exact HOk|]. split; [lia|]. intros _ Hidle. destruct HOk as [_ HD]. rewrite (HD Ei) in Hidle. discriminate.
    + set (sb := st1 <| st_dyn := [] |> <| st_in_dyn := true |>).
      assert (Hsb : Ok sb /\ tmeasure U sb < tmeasure U st1).
      { destruct HOk as [[P1 P2 P3 P4] HD]. split.
        - split; [constructor; cbn; try assumption; intros k b []|]. intros _. reflexivity.
        - unfold tmeasure, sb. cbn. rewrite Ei. unfold dyn_credit. lia. }
      destruct Hsb as [Hok Hlt].
      assert (HB : Dec sb (load_branches W o sb (st_dyn st1))).
      { apply load_branches_dec; [exact Hok|]. intros s b Hb. destruct HOk as [[_ P2 _ _] _]. eapply P2. exact Hb. }
      destruct HB as [HB1 HB2]. split; [exact HB1|]. split; [lia|]. intros _ _. lia.
  - set (sd := st1 <| st_deferred := [] |>).
    assert (Hsd : Ok sd /\ tmeasure U sd < tmeasure U st1).
    { destruct HOk as [[P1 P2 P3 P4] HD]. split.
      - split; [constructor; cbn; try assumption; intros k b []|exact HD].
      - unfold tmeasure, sd. cbn. rewrite Ed. cbn [length].
        assert (sum_nat (map (credit (st_slots st1) (st_redirects st1) []) U)
                <= sum_nat (map (credit (st_slots st1) (st_redirects st1) (d :: ds)) U)); [|lia].
        apply sum_le. intros u _. unfold credit.
        destruct (lookup u (st_slots st1)) as [[m|[|]|e|[|]]|] eqn:El; try lia.
        exfalso. eapply NoPend. exact El. }
    destruct Hsd as [Hok Hlt].
    assert (HB : Dec sd (load_deferred W o sd (d :: ds))).
    { apply load_deferred_dec; [exact Hok|]. intros s d0 Hd. destruct HOk as [[_ _ P3 _] _]. eapply P3. rewrite Ed. exact Hd. }
    destruct HB as [HB1 HB2]. split; [exact HB1|]. split; [lia|]. intros _ _. lia.
Qed.

Theorem loop_step_decreases : forall st,
  Ok st -> PendInv None st -> idle st = false ->
  Ok (loop_step W o st) /\ tmeasure U (loop_step W o st) < tmeasure U st.
Proof.
  intros st HOk HP Hidle. rewrite loop_step_tail.
  destruct (st_pending st) as [|it rest] eqn:Ep.
  - destruct (tail_spec st HOk HP) as [A [_ C]]. split; [exact A | apply C; assumption].
  - set (sa := st <| st_pending := rest |>).
    assert (Hsa : Ok sa).
    { destruct HOk as [[P1 P2 P3 P4] HD]. split; [|exact HD]. constructor; cbn; try assumption.
      intros i Hi. apply P1. rewrite Ep. right; exact Hi. }
    assert (Hit : In (pi_spec it) U).
    { destruct HOk as [[P1 _ _ _] _]. apply P1. rewrite Ep. left; reflexivity. }
    assert (Hm : tmeasure U sa + item_weight it = tmeasure U st).
    { unfold tmeasure, sa. cbn. rewrite Ep. cbn [map sum_nat]. lia. }
    destruct (process_dec sa it Hsa Hit) as [H1 H2].
    assert (HP1 : PendInv None (process W o sa it)).
    { apply process_inv. intros s0 a Hx Hl. cbn in *.
      specialize (HP s0 a). rewrite Ep in HP. cbn [map In] in HP.
      destruct (HP ltac:(discriminate) Hl) as [Heq|Hin]; [congruence | exact Hin]. }
    destruct (tail_spec _ H1 HP1) as [A [B _]]. split; [exact A | lia].
Qed.

Theorem resolve_pending_terminates : forall fuel st,
  Ok st -> PendInv None st -> tmeasure U st <= fuel -> resolve_pending fuel W o st <> None.
Proof.
  induction fuel as [|f IH]; intros st HOk HP Hm; cbn [resolve_pending].
  - destruct (idle st) eqn:Ei; [discriminate|].
    destruct (loop_step_decreases st HOk HP Ei) as [_ Hlt]. lia.
  - destruct (idle st) eqn:Ei; [discriminate|].
    destruct (loop_step_decreases st HOk HP Ei) as [HOk' Hlt].
    apply IH; [exact HOk' | apply loop_step_inv; exact HP | lia].
Qed.
End Term.

(* ---------- instantiated with the universe computed from the world and the state ---------- *)
Theorem resolve_pending_term_fuel : forall W o st,
  PendInv None st -> (st_in_dyn st = true -> st_dyn st = []) ->
  resolve_pending (term_fuel W st) W o st <> None.
Proof.
  intros W o st HP HD. unfold term_fuel.
  apply (resolve_pending_terminates W o (universe W st)).
  - apply dedup_NoDup.
  - intros x Hx. apply dedup_In. apply in_or_app. left; exact Hx.
  - split; [|exact HD]. unfold universe, state_specs. constructor.
    + intros it Hit. apply dedup_In. apply in_or_app. right. apply in_or_app. left. apply in_map. exact Hit.
    + intros k b Hk. apply dedup_In. apply in_or_app. right. apply in_or_app. right. apply in_or_app. left.
      apply (in_map fst) in Hk. exact Hk.
    + intros k d Hk. apply dedup_In. apply in_or_app. right. apply in_or_app. right. apply in_or_app. right.
      apply in_or_app. left. apply (in_map fst) in Hk. exact Hk.
    + intros a b Hab. apply dedup_In. apply in_or_app. right. apply in_or_app. right. apply in_or_app. right.
      apply in_or_app. right. apply (in_map snd) in Hab. exact Hab.
  - exact HP.
  - lia.
Qed.


(* ---------- whole operations ---------- *)
Lemma load_dyn_list_same : forall W o st spec0 range asset in_dyn root attr count,
  st_dyn (load W o st spec0 range asset in_dyn root attr count) = st_dyn st.
Proof.
  intros. unfold load.
  repeat match goal with
  | |- context [if ?c then _ else _] => destruct c
  | |- context [match ?m with _ => _ end] => destruct m
  end; reflexivity.
Qed.

Lemma load_roots_dyn : forall W o roots st, st_dyn (load_roots W o st roots) = st_dyn st.
Proof.
  intros W o roots. induction roots as [|r rs IH]; intro st; cbn [load_roots]; [reflexivity|].
  rewrite IH. apply load_dyn_list_same.
Qed.

Lemma load_import_deps_dyn : forall W o ds st, st_dyn (load_import_deps W o st ds) = st_dyn st.
Proof.
  intros W o ds. induction ds as [|d ds IH]; intro st; cbn [load_import_deps]; [reflexivity|].
  rewrite IH. destruct (d_type d); try reflexivity. apply load_dyn_list_same.
Qed.

Lemma load_imports_dyn : forall W o imps st, st_dyn (load_imports W o st imps) = st_dyn st.
Proof.
  intros W o imps. induction imps as [|[k ds] rest IH]; intro st; cbn [load_imports]; [reflexivity|].
  rewrite IH. apply load_import_deps_dyn.
Qed.

Lemma reload_specs_dyn : forall W o specs st, st_dyn (reload_specs W o st specs) = st_dyn st.
Proof.
  intros W o specs. induction specs as [|s rest IH]; intro st; cbn [reload_specs]; [reflexivity|].
  rewrite IH. rewrite load_dyn_list_same. reflexivity.
Qed.

(* C03: a build returns, whatever the loader answers and whatever graph it starts from *)
Theorem build_terminates : forall W o g roots imports,
  no_pending (bg_slots g) -> build W o g roots imports <> None.
Proof.
  intros W o g roots imports Hg. unfold build.
  match goal with |- context [resolve_pending (term_fuel W ?st) W o ?st] => set (st2 := st) end.
  assert (HT : resolve_pending (term_fuel W st2) W o st2 <> None).
  { apply resolve_pending_term_fuel.
    - unfold st2. apply load_imports_inv. apply load_roots_inv. apply init_state_inv. exact Hg.
    - intros _. unfold st2. rewrite load_imports_dyn, load_roots_dyn. reflexivity. }
  destruct (resolve_pending (term_fuel W st2) W o st2); [discriminate | contradiction].
Qed.

Theorem reload_terminates : forall W o g specs,
  no_pending (bg_slots g) -> reload W o g specs <> None.
Proof.
  intros W o g specs Hg. unfold reload.
  match goal with |- context [resolve_pending (term_fuel W ?st) W o ?st] => set (st1 := st) end.
  assert (HT : resolve_pending (term_fuel W st1) W o st1 <> None).
  { apply resolve_pending_term_fuel.
    - unfold st1. apply reload_specs_inv. apply init_state_inv. exact Hg.
    - intros _. unfold st1. rewrite reload_specs_dyn. reflexivity. }
  destruct (resolve_pending (term_fuel W st1) W o st1); [discriminate | contradiction].
Qed.

(* every graph reached by a history of builds and reloads from the empty graph exists (the model never
   runs out of fuel) and has no pending entry *)
Theorem build_from_empty_terminates : forall W o k roots imports,
  exists g, build W o (empty_bgraph k) roots imports = Some g /\ no_pending (bg_slots g).
Proof.
  intros W o k roots imports.
  assert (He : no_pending (bg_slots (empty_bgraph k))) by (intros s a H; discriminate).
  destruct (build W o (empty_bgraph k) roots imports) as [g|] eqn:Eb.
  - exists g. split; [reflexivity|]. eapply build_no_pending; eassumption.
  - exfalso. eapply build_terminates; eassumption.
Qed.
