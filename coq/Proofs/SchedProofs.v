(* C04: whatever the schedule, a build that completes reaches the state the
   sequential loop reaches. *)
From Coq Require Import Arith.
From DG Require Import Base.Util Base.Sexp Model.Graph Model.Builder Model.Sched.

Fixpoint iter_step (W : world) (o : bopts) (n : nat) (st : bstate) : bstate :=
  match n with O => st | S k => iter_step W o k (loop_step W o st) end.

Lemma iter_step_S : forall W o n st, iter_step W o (S n) st = loop_step W o (iter_step W o n st).
Proof.
  intros W o n. induction n as [|n IH]; intros st; [reflexivity|].
  cbn [iter_step] in *. rewrite IH. reflexivity.
Qed.

(* the scheduled state is always some number of sequential loop iterations,
   none of which started from an idle state *)
Definition Tracks (W : world) (o : bopts) (st0 : bstate) (s : sstate) : Prop :=
  exists n, ss_st s = iter_step W o n st0 /\ forall k, (k < n)%nat -> idle (iter_step W o k st0) = false.

Lemma sstep_tracks : forall W o st0 s e, Tracks W o st0 s -> Tracks W o st0 (sstep W o s e).
Proof.
  intros W o st0 s e [n [Hn Hk]]. destruct e as [i|]; cbn [sstep].
  - exists n. split; assumption.
  - destruct (idle (ss_st s)) eqn:Ei; [exists n; split; assumption|].
    destruct (head_ready s); [|exists n; split; assumption].
    exists (S n). cbn [ss_st]. split.
    + rewrite iter_step_S, Hn. reflexivity.
    + intros k Hlt. destruct (Nat.eq_dec k n) as [->|Hne]; [rewrite <- Hn; exact Ei | apply Hk; lia].
Qed.

Lemma srun_tracks : forall W o st0 evs s, Tracks W o st0 s -> Tracks W o st0 (srun W o s evs).
Proof.
  intros W o st0 evs. induction evs as [|e evs IH]; intros s H; cbn [srun fold_left]; [exact H|].
  apply IH. apply sstep_tracks. exact H.
Qed.

Definition start (st0 : bstate) : sstate := {| ss_st := st0; ss_done := [] |}.

Theorem schedule_independent : forall W o st0 evs1 evs2,
  idle (ss_st (srun W o (start st0) evs1)) = true ->
  idle (ss_st (srun W o (start st0) evs2)) = true ->
  ss_st (srun W o (start st0) evs1) = ss_st (srun W o (start st0) evs2).
Proof.
  intros W o st0 evs1 evs2 H1 H2.
  assert (T0 : Tracks W o st0 (start st0)).
  { exists 0%nat. split; [reflexivity | intros k Hk; lia]. }
  destruct (srun_tracks W o st0 evs1 _ T0) as [n1 [E1 K1]].
  destruct (srun_tracks W o st0 evs2 _ T0) as [n2 [E2 K2]].
  rewrite E1 in H1. rewrite E2 in H2.
  assert (n1 = n2).
  { destruct (lt_eq_lt_dec n1 n2) as [[Hlt|Heq]|Hgt]; [|exact Heq|].
    - specialize (K2 n1 Hlt). congruence.
    - specialize (K1 n2 Hgt). congruence. }
  subst. rewrite E1, E2. reflexivity.
Qed.

(* ... and that state is the one the sequential loop (resolve_pending) returns *)
Lemma resolve_pending_iter : forall fuel W o st st',
  resolve_pending fuel W o st = Some st' ->
  exists n, st' = iter_step W o n st /\ idle st' = true /\
            forall k, (k < n)%nat -> idle (iter_step W o k st) = false.
Proof.
  induction fuel as [|f IH]; intros W o st st' H; cbn [resolve_pending] in H.
  - destruct (idle st) eqn:Ei; [|discriminate]. inversion H; subst.
    exists 0%nat. repeat split; [exact Ei | intros k Hk; lia].
  - destruct (idle st) eqn:Ei.
    + inversion H; subst. exists 0%nat. repeat split; [exact Ei | intros k Hk; lia].
    + destruct (IH _ _ _ _ H) as [n [E [Hi Hk]]]. exists (S n). cbn [iter_step]. repeat split; try assumption.
      intros k Hlt. destruct k as [|k]; [exact Ei|]. cbn [iter_step]. apply Hk. lia.
Qed.

Theorem scheduled_equals_sequential : forall fuel W o st0 st' evs,
  resolve_pending fuel W o st0 = Some st' ->
  idle (ss_st (srun W o (start st0) evs)) = true ->
  ss_st (srun W o (start st0) evs) = st'.
Proof.
  intros fuel W o st0 st' evs HR Hi.
  destruct (resolve_pending_iter _ _ _ _ _ HR) as [n [E [Hidle Hk]]].
  assert (T0 : Tracks W o st0 (start st0)).
  { exists 0%nat. split; [reflexivity | intros k Hlt; lia]. }
  destruct (srun_tracks W o st0 evs _ T0) as [m [Em Km]].
  rewrite Em in Hi |- *. subst st'.
  assert (m = n).
  { destruct (lt_eq_lt_dec m n) as [[Hlt|Heq]|Hgt]; [|exact Heq|].
    - specialize (Hk m Hlt). congruence.
    - specialize (Km n Hgt). congruence. }
  subst. reflexivity.
Qed.

(* a fair schedule (every outstanding head eventually completes, the future keeps
   being polled) makes progress: polling with a completed head delivers it *)
Theorem poll_delivers : forall W o s,
  idle (ss_st s) = false -> head_ready s = true ->
  ss_st (sstep W o s Poll) = loop_step W o (ss_st s).
Proof. intros W o s Hi Hr. cbn [sstep]. rewrite Hi, Hr. reflexivity. Qed.
