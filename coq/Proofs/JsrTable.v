(* C06/C07, registry stage: the package table the builder leaves behind.
   Every requirement is mapped to a version that satisfies it, and every export
   recorded as used is an export of that version's manifest. *)
From Coq Require Import Arith.
From RecordUpdate Require Import RecordSet.
Import RecordSetNotations.
From DG Require Import Base.Util Base.Sexp Model.Graph Model.Builder Proofs.BuilderProofs Proofs.ChecksumProofs
  Proofs.ClosureProofs Model.Jsr Proofs.JsrProofs.

Section T.
Variable W : jworld.

Definition MapOK (t : ptable) : Prop :=
  forall req v, lookup req (pt_map t) = Some v -> matches W req (snd v) = true \/ In (req, v) (jw_seed W).
Definition ExportsOK (t : ptable) : Prop :=
  forall v e, In (v, e) (pt_exports t) ->
    exists vi target, v_meta (ver_of W v) = VOk vi /\ lookup e (vi_exports vi) = Some target /\ target <> 0.
(* lockfile-seeded selections: they stay selected, and a requirement is mapped either as the lockfile
   wrote it or to a version not below any seeded version of its package that satisfies it *)
Definition SeedOK (t : ptable) : Prop :=
  (forall r p v, In (r, (p, v)) (jw_seed W) -> In (p, v) (pt_by_name t)) /\
  (forall req p v, lookup req (pt_map t) = Some (p, v) ->
     In (req, (p, v)) (jw_seed W) \/
     forall s, In s (seeded_versions W p) -> matches W req s = true -> (s <= v)%N).
Definition PInv (st : jstate) : Prop := MapOK (js_pkgs st) /\ ExportsOK (js_pkgs st) /\ SeedOK (js_pkgs st).

Lemma pinv_ext : forall st st',
  pt_map (js_pkgs st') = pt_map (js_pkgs st) -> pt_exports (js_pkgs st') = pt_exports (js_pkgs st) ->
  pt_by_name (js_pkgs st') = pt_by_name (js_pkgs st) ->
  PInv st -> PInv st'.
Proof.
  intros st st' H1 H2 H3 [A [B C]]. unfold PInv, MapOK, ExportsOK, SeedOK in *. rewrite H1, H2, H3.
  split; [|split]; assumption.
Qed.

Ltac pext H := (eapply pinv_ext; [| | |exact H]; reflexivity).

Lemma best_match_ge : forall req vs best b,
  best_match W req vs best = Some b ->
  (forall x, In x vs -> matches W req x = true -> (x <= b)%N) /\ (forall b0, best = Some b0 -> (b0 <= b)%N).
Proof.
  intros req vs. induction vs as [|x vs IH]; intros best b H; cbn [best_match] in H.
  - split; [intros x []|]. intros b0 Hb. rewrite Hb in H. inversion H. apply N.le_refl.
  - apply IH in H. destruct H as [H1 H2]. split.
    + intros y [<-|Hin] Hm; [|apply H1; assumption]. rewrite Hm in H2.
      destruct best as [b0|]; [|apply H2; reflexivity].
      destruct (N.ltb b0 x) eqn:El; [apply H2; reflexivity|].
      apply N.ltb_ge in El. etransitivity; [exact El | apply H2; reflexivity].
    + intros b0 Hb. subst best. destruct (matches W req x); [|apply H2; reflexivity].
      destruct (N.ltb b0 x) eqn:El; [|apply H2; reflexivity].
      apply N.ltb_lt in El. apply N.lt_le_incl. eapply N.lt_le_trans; [exact El | apply H2; reflexivity].
Qed.

Lemma best_match_none : forall req vs best,
  best_match W req vs best = None -> forall x, In x vs -> matches W req x = false.
Proof.
  intros req vs. induction vs as [|x vs IH]; intros best H y Hin; [destruct Hin|]. cbn [best_match] in H.
  destruct Hin as [<-|Hin]; [|apply (IH _ H y Hin)].
  destruct (matches W req x) eqn:Em; [|reflexivity]. exfalso.
  assert (G : forall vs0 b0, best_match W req vs0 (Some b0) <> None).
  { induction vs0 as [|z vs0 IH0]; intros b0; cbn [best_match]; [discriminate|].
    destruct (matches W req z); [destruct (N.ltb b0 z)|]; apply IH0. }
  destruct best as [b0|]; [destruct (N.ltb b0 x)|]; apply (G _ _ H).
Qed.

Lemma resolve_version_ge : forall req versions existing cached late v y,
  resolve_version W req versions existing cached late = Some (v, y) ->
  forall s, In s existing -> matches W req s = true -> (s <= v)%N.
Proof.
  intros req versions existing cached late v y H s Hin Hm. unfold resolve_version in H.
  destruct (best_match W req existing None) as [v0|] eqn:E0.
  - inversion H; subst. apply (proj1 (best_match_ge _ _ _ _ E0) s Hin Hm).
  - rewrite (best_match_none _ _ _ E0 s Hin) in Hm. discriminate.
Qed.

Lemma in_add2 : forall k l x, In x l -> In x (add2 k l).
Proof. intros k l x H. unfold add2. destruct (mem2 k l); [exact H | apply in_or_app; left; exact H]. Qed.

Lemma seeded_by_name : forall t p s,
  (forall r p0 v, In (r, (p0, v)) (jw_seed W) -> In (p0, v) (pt_by_name t)) ->
  In s (seeded_versions W p) -> In s (versions_by_name t p).
Proof.
  intros t p s Hs Hin. unfold seeded_versions in Hin. apply in_map_iff in Hin.
  destruct Hin as [[r [p0 v]] [Hv Hf]]. cbn in Hv. subst v. apply filter_In in Hf. destruct Hf as [Hin Hp].
  cbn in Hp. apply N.eqb_eq in Hp. subst p0.
  unfold versions_by_name. apply in_map_iff. exists (p, s). split; [reflexivity|].
  apply filter_In. split; [apply (Hs r p s Hin) | cbn; apply N.eqb_refl].
Qed.

Lemma pinv_mark : forall st req r, PInv st -> PInv (mark_jsr_dep st req r).
Proof. intros st req r H. unfold mark_jsr_dep. destruct r as [[rg [v|]]|]; exact H. Qed.
Lemma pinv_queue_pkg : forall st p, PInv st -> PInv (queue_pkg W st p).
Proof. intros st p H. unfold queue_pkg. destruct (mem p (js_pq st)); [exact H | pext H]. Qed.
Lemma pinv_queue_ver : forall st v, PInv st -> PInv (queue_ver W st v).
Proof. intros st v H. unfold queue_ver. destruct (existsb _ (js_vq st)); [exact H | pext H]. Qed.
Lemma pinv_lock_set : forall st v c, PInv st -> PInv (lock_set_pkg st v c).
Proof. intros st v c H. unfold lock_set_pkg. destruct (js_lock_pkg st); [|exact H]. destruct c; [pext H | exact H]. Qed.
Lemma pinv_record_remote : forall st f d src, PInv st -> PInv (record_remote W st f d src).
Proof.
  intros st f d src H. unfold record_remote. destruct (js_lock_pkg st); [|exact H].
  destruct (negb d && mem f (jw_http W) && negb (has_key f (js_lock_remote st))); [pext H | exact H].
Qed.
Lemma pinv_check_specifier : forall st req s, PInv st -> PInv (check_specifier st req s).
Proof. intros st req s H. unfold check_specifier. destruct (N.eqb req s); [exact H | pext H]. Qed.

Lemma load_pinv : forall st spec0 rng dyn root vinfo count,
  PInv st -> PInv (load W st spec0 rng dyn root vinfo count).
Proof.
  intros st spec0 rng dyn root vinfo count H. unfold load.
  set (s := load_target st spec0).
  destruct (lookup s (js_slots st)) as [sl|].
  { destruct (cls_of W spec0); try exact H. apply pinv_mark. exact H. }
  assert (Hby : PInv
    match cls_of W s with
    | CJsr pkg req exp =>
        (queue_pkg W (mark_jsr_dep st req rng) pkg)
          <| js_res := js_res (queue_pkg W (mark_jsr_dep st req rng) pkg) ++
               [{| jr_spec := s; jr_pkg := pkg; jr_req := req; jr_exp := exp; jr_rng := rng; jr_dyn := dyn; jr_root := root |}] |>
    | CJsrBad => set_err st s EPackageFormat s rng
    | CFile p v _ =>
        push_item (queue_ver W st (p, v))
          {| ji_spec := s; ji_rng := rng; ji_count := count; ji_dyn := dyn; ji_root := root; ji_probe := None;
             ji_checksum := lock_remote_get st s; ji_vinfo := None; ji_fetch := Some (p, v) |}
    | CPlain =>
        push_item st
          {| ji_spec := s; ji_rng := rng; ji_count := count; ji_dyn := dyn; ji_root := root; ji_probe := None;
             ji_checksum := lock_remote_get st s; ji_vinfo := None; ji_fetch := None |}
    end).
  { destruct (cls_of W s) as [pkg req exp| |p v pa|].
    - pose proof (pinv_queue_pkg _ pkg (pinv_mark st req rng H)) as H1. pext H1.
    - pext H.
    - pose proof (pinv_queue_ver st (p, v) H) as H1. pext H1.
    - pext H. }
  destruct (has_key s (js_redirects st)); [pext H|].
  destruct vinfo as [[vp vv]|]; [|exact Hby].
  destruct (cls_of W s) as [pkg req exp| |p v pa|]; try exact Hby.
  destruct (N.eqb vp p && N.eqb vv v); [|exact Hby].
  destruct (vinfo_of W st (p, v)) as [vi|]; [|exact Hby].
  destruct (get_checksum W vi pa) as [c|]; [|pext H].
  destruct (lookup pa (vi_modinfo vi)) as [mi|]; pext H.
Qed.

Lemma visit_deps_pinv : forall referrer vinfo ds st, PInv st -> PInv (visit_deps W st referrer vinfo ds).
Proof.
  intros referrer vinfo ds. induction ds as [|d ds IH]; intros st H; cbn [visit_deps]; [exact H|].
  apply IH. unfold visit_dep. destruct (jd_dyn d && negb (js_in_dyn st)); [pext H | apply load_pinv; exact H].
Qed.

Lemma process_pinv : forall st it, PInv st -> PInv (process W st it).
Proof.
  intros st it H. unfold process.
  destruct (try_load W st it) as [res calls vinfo https]. cbn [t_res t_calls t_vinfo t_https].
  set (st1 := st <| js_calls := rev calls ++ js_calls st |>).
  set (st2 := match https with
              | Some (v, cfl) => (lock_set_pkg st1 v cfl) <| js_pkgs := ensure_package (js_pkgs (lock_set_pkg st1 v cfl)) v |>
              | None => st1 end).
  assert (H2 : PInv st2).
  { unfold st2. destruct https as [[v cfl]|]; [|pext H].
    assert (H1 : PInv st1) by pext H. pose proof (pinv_lock_set st1 v cfl H1) as H1'. pext H1'. }
  clearbody st2. clear st1 H.
  destruct res as [e|to|final|final src decl deps content].
  - pose proof (pinv_check_specifier st2 (ji_spec it) (je_spec e) H2) as H3. pext H3.
  - apply load_pinv. apply pinv_check_specifier. exact H2.
  - pose proof (pinv_check_specifier st2 (ji_spec it) final H2) as H3.
    set (st3 := check_specifier st2 (ji_spec it) final) in *. clearbody st3.
    set (st4 := if ji_root it then add_resolved_root st3 final else st3).
    assert (H4 : PInv st4) by (unfold st4; destruct (ji_root it); [pext H3 | exact H3]). clearbody st4.
    destruct (lookup final (js_slots st4)) as [[s0 d0| |e0|]|]; try exact H4; pext H4.
  - pose proof (pinv_check_specifier st2 (ji_spec it) final H2) as H3.
    set (st3 := check_specifier st2 (ji_spec it) final) in *. clearbody st3.
    set (st4 := if ji_root it then add_resolved_root st3 final else st3).
    assert (H4 : PInv st4) by (unfold st4; destruct (ji_root it); [pext H3 | exact H3]). clearbody st4.
    set (st5 := match content with
                | Some c => (log_call st4 final 0 (Some c)) <| js_content := js_content st4 ++ [{| ci_spec := final; ci_rng := ji_rng it; ci_checksum := c |}] |>
                | None => match vinfo with None => record_remote W st4 final decl src | Some _ => st4 end end).
    assert (H5 : PInv st5).
    { unfold st5. destruct content; [pext H4|]. destruct vinfo; [exact H4 | apply pinv_record_remote; exact H4]. }
    clearbody st5.
    pose proof (visit_deps_pinv (file_nv W final) vinfo deps st5 H5) as H6. pext H6.
Qed.

Lemma probe_all_pinv : forall pkg cands st cached, PInv st -> PInv (fst (probe_all W st pkg cands cached)).
Proof.
  intros pkg cands. induction cands as [|v cands IH]; intros st cached H; cbn [probe_all fst]; [exact H|].
  apply IH. pext H.
Qed.

Lemma lookup_set_assoc_inv : forall {V} k (v : V) l k0 v0,
  lookup k0 (set_assoc k v l) = Some v0 -> (k0 = k /\ v0 = v) \/ lookup k0 l = Some v0.
Proof.
  intros V k v l k0 v0 H. destruct (N.eq_dec k0 k) as [->|Hne].
  - rewrite lookup_set_assoc_same in H. inversion H. left. split; reflexivity.
  - rewrite lookup_set_assoc_other in H by exact Hne. right. exact H.
Qed.

Lemma resolve_reqs_pinv : forall o items st memo acc, PInv st -> PInv (fst (resolve_reqs W o st memo items acc)).
Proof.
  intros o items. induction items as [|it rest IH]; intros st memo acc H; cbn [resolve_reqs]; [exact H|].
  destruct (pmeta_of W st (jr_pkg it)) as [f|versions]; [apply IH; pext H|].
  set (pr := if negb (jo_prefer_cached o) || unification_decides W st (jr_pkg it) (jr_req it)
             then (st, memo, []) else probe W st memo (jr_pkg it) (jr_req it) versions).
  assert (Hpr : PInv (fst (fst pr))).
  { unfold pr. destruct (negb (jo_prefer_cached o) || unification_decides W st (jr_pkg it) (jr_req it)); [exact H|].
    unfold probe. destruct (match lookup (jr_pkg it) memo with Some m => m | None => ([], []) end) as [probed cached].
    set (cands := map fst (filter _ versions)).
    pose proof (probe_all_pinv (jr_pkg it) cands st cached H) as Hp.
    destruct (probe_all W st (jr_pkg it) cands cached) as [st1 cached']. exact Hp. }
  destruct pr as [[st1 memo1] cached]. cbn [fst] in Hpr.
  destruct (resolve_version W (jr_req it) versions (versions_by_name (js_pkgs st1) (jr_pkg it)) cached (late_of W (jr_pkg it))) as [[v yanked]|] eqn:Er.
  - apply IH. apply pinv_queue_ver. destruct Hpr as [A [B [C1 C2]]]. split; [|split; [|split]].
    + intros req v0 Hl. cbn in Hl. destruct yanked; cbn in Hl; apply lookup_set_assoc_inv in Hl;
        (destruct Hl as [[-> ->]|Hl]; [cbn; left; apply (resolve_version_matches W _ _ _ _ _ _ _ Er) | apply (A req v0 Hl)]).
    + intros v0 e Hin. apply (B v0 e). destruct yanked; exact Hin.
    + intros r p0 v0 Hin. apply C1 in Hin. destruct yanked; cbn; apply in_add2; exact Hin.
    + intros req p0 v0 Hl.
      assert (Hl' : lookup req (set_assoc (jr_req it) (jr_pkg it, v) (pt_map (js_pkgs st1))) = Some (p0, v0))
        by (destruct yanked; exact Hl).
      apply lookup_set_assoc_inv in Hl'. destruct Hl' as [[-> Heq]|Hl']; [|apply (C2 req p0 v0 Hl')].
      inversion Heq; subst p0 v0. right. intros s Hs Hm.
      apply (resolve_version_ge _ _ _ _ _ _ _ Er s (seeded_by_name _ _ _ C1 Hs) Hm).
  - destruct (js_busting st1); [apply IH; pext Hpr | exact Hpr].
Qed.

Lemma in_add_pair : forall k x l k0 x0, In (k0, x0) (add_pair k x l) -> (k0 = k /\ x0 = x) \/ In (k0, x0) l.
Proof.
  intros k x l k0 x0 H. unfold add_pair in H. destruct (mem_pair k x l); [right; exact H|].
  apply in_app_or in H. destruct H as [H|[H|[]]]; [right; exact H | inversion H; left; split; reflexivity].
Qed.

Lemma resolve_vers_pinv : forall ct items st, PInv st -> PInv (resolve_vers W ct st items).
Proof.
  intros ct items. induction items as [|x rest IH]; intros st H; cbn [resolve_vers]; [exact H|].
  apply IH.
  destruct (ver_result W st (vr_nv x)) as [[vi cfl]|k] eqn:Ev; [|pext H].
  set (st1 := st <| js_pkgs := ensure_package (js_pkgs st) (vr_nv x) |>).
  assert (H1 : PInv st1) by pext H.
  pose proof (pinv_lock_set st1 (vr_nv x) cfl H1) as H2.
  set (st2 := lock_set_pkg st1 (vr_nv x) cfl) in *. clearbody st2.
  destruct (lookup (jr_exp (vr_item x)) (vi_exports vi)) as [target|] eqn:El; [|pext H2].
  destruct target as [|p]; [pext H2|].
  apply load_pinv.
  assert (H3 : forall stx, pt_map (js_pkgs stx) = pt_map (js_pkgs st2) ->
               pt_by_name (js_pkgs stx) = pt_by_name (js_pkgs st2) ->
               (forall v0 e, In (v0, e) (pt_exports (js_pkgs stx)) -> In (v0, e) (add_pair (vr_nv x) (jr_exp (vr_item x)) (pt_exports (js_pkgs st2)))) ->
               PInv stx).
  { intros stx Hm Hbn He. destruct H2 as [A [B C]]. split; [|split].
    - unfold MapOK. rewrite Hm. exact A.
    - intros v0 e Hin. apply He in Hin. apply in_add_pair in Hin. destruct Hin as [[-> ->]|Hin]; [|apply (B v0 e Hin)].
      exists vi, (N.pos p). split; [apply (ver_result_meta W st _ _ cfl); exact Ev | split; [exact El | discriminate]].
    - unfold SeedOK. rewrite Hm, Hbn. exact C. }
  destruct (jr_root (vr_item x)); apply H3; try reflexivity; destruct ct; cbn; auto.
Qed.

Lemma load_branches_pinv : forall bs st, PInv st -> PInv (load_branches W st bs).
Proof.
  intros bs. induction bs as [|[s b] bs IH]; intros st H; cbn [load_branches]; [exact H|].
  apply IH. apply load_pinv. exact H.
Qed.

Lemma loop_step_pinv : forall o st,
  PInv st -> match loop_step W o st with inl st' => PInv st' | inr _ => True end.
Proof.
  intros o st H. unfold loop_step.
  set (st1 := match js_pending st with it :: rest => process W (st <| js_pending := rest |>) it | [] => st end).
  assert (H1 : PInv st1).
  { unfold st1. destruct (js_pending st) as [|it rest]; [exact H|]. apply process_pinv. pext H. }
  clearbody st1.
  destruct (js_pending st1) as [|i1 r1]; [|exact H1].
  unfold resolve_jsr.
  match goal with
  | |- context [resolve_reqs ?a ?b ?c ?d ?e ?f] =>
      assert (Hr : PInv (fst (resolve_reqs a b c d e f))) by (apply resolve_reqs_pinv; pext H1);
      destruct (resolve_reqs a b c d e f) as [st2 [vs|]]
  end; cbn [fst] in Hr; [|exact I].
  pose proof (resolve_vers_pinv (match pt_top (js_pkgs st1) with [] => true | _ => false end) vs st2 Hr) as H3.
  set (st3 := resolve_vers W _ st2 vs) in *. clearbody st3.
  destruct (js_pending st3); [|exact H3].
  destruct (js_in_dyn st3); [exact H3|].
  apply load_branches_pinv. pext H3.
Qed.

Lemma resolve_pending_pinv : forall o fuel st,
  PInv st -> match resolve_pending fuel W o st with LDone st' => PInv st' | _ => True end.
Proof.
  intros o fuel. induction fuel as [|f IH]; intros st H; cbn [resolve_pending].
  - destruct (idle st); [exact H | exact I].
  - destruct (idle st); [exact H|].
    pose proof (loop_step_pinv o st H) as Hs. destruct (loop_step W o st) as [st'|st']; [apply IH; exact Hs | exact I].
Qed.

Lemma load_roots_pinv : forall roots st, PInv st -> PInv (load_roots W st roots).
Proof.
  intros roots. induction roots as [|r rs IH]; intros st H; cbn [load_roots]; [exact H|].
  apply IH. apply load_pinv. exact H.
Qed.

Lemma content_loads_pkgs : forall st, js_pkgs (content_loads W st) = js_pkgs st.
Proof.
  intros st. unfold content_loads.
  assert (G : forall cs st0, js_pkgs (fold_left (content_load W) cs st0) = js_pkgs st0).
  { induction cs as [|c cs IH]; intros st0; cbn [fold_left]; [reflexivity|]. rewrite IH. unfold content_load.
    destruct (check_resp (use_of W (ci_spec c)) (Some (ci_checksum c))) as [[| |t|f|f m]|]; try reflexivity.
    destruct (N.eqb f (ci_spec c)); [|reflexivity].
    destruct (lookup (ci_spec c) (js_slots st0)) as [[src deps| |e|]|]; reflexivity. }
  rewrite G. reflexivity.
Qed.

Lemma seed_table_map : forall seeds t req v,
  lookup req (pt_map (fold_left (fun t p => add_nv t (fst p) (snd p)) seeds t)) = Some v ->
  In (req, v) seeds \/ lookup req (pt_map t) = Some v.
Proof.
  induction seeds as [|[r nv0] seeds IH]; intros t req v H; cbn [fold_left] in H; [right; exact H|].
  apply IH in H. destruct H as [H|H]; [left; right; exact H|].
  cbn [fst snd add_nv] in H. cbn in H. apply lookup_set_assoc_inv in H.
  destruct H as [[-> ->]|H]; [left; left; reflexivity | right; exact H].
Qed.

Lemma seed_table_exports : forall seeds t,
  pt_exports (fold_left (fun t p => add_nv t (fst p) (snd p)) seeds t) = pt_exports t.
Proof. induction seeds as [|[r nv0] seeds IH]; intros t; cbn [fold_left]; [reflexivity|]. rewrite IH. reflexivity. Qed.

Lemma mem2_in : forall k l, mem2 k l = true -> In k l.
Proof.
  intros k l. induction l as [|x l IH]; cbn [mem2]; [discriminate|]. intro H.
  apply Bool.orb_true_iff in H. destruct H as [H|H]; [left; apply nv_eqb_eq in H; symmetry; exact H | right; apply IH; exact H].
Qed.

Lemma seed_table_by_name : forall seeds t p v,
  In (p, v) (pt_by_name t) \/ (exists r, In (r, (p, v)) seeds) ->
  In (p, v) (pt_by_name (fold_left (fun t p => add_nv t (fst p) (snd p)) seeds t)).
Proof.
  induction seeds as [|[r nv0] seeds IH]; intros t p v H; cbn [fold_left].
  - destruct H as [H|[r [] ]]. exact H.
  - apply IH. destruct H as [H|[r0 [H|H]]].
    + left. cbn. apply in_add2. exact H.
    + left. inversion H; subst. cbn. unfold add2. destruct (mem2 (p, v) (pt_by_name t)) eqn:Em.
      * apply mem2_in. exact Em.
      * apply in_or_app. right. left. reflexivity.
    + right. exists r0. exact H.
Qed.

Theorem jbuild_table : forall o roots g,
  jbuild W o roots = Some g -> MapOK (jg_pkgs g) /\ ExportsOK (jg_pkgs g) /\ SeedOK (jg_pkgs g).
Proof.
  intros o roots g. unfold jbuild.
  assert (P1 : forall st, js_pkgs st = seed_table (jw_seed W) -> PInv st).
  { intros st Hp. unfold PInv, MapOK, ExportsOK, SeedOK. rewrite Hp. unfold seed_table. split; [|split; [|split]].
    - intros req v Hl. apply seed_table_map in Hl. destruct Hl as [Hl|Hl]; [right; exact Hl | discriminate].
    - intros v e Hin. rewrite seed_table_exports in Hin. destruct Hin.
    - intros r p v Hin. apply seed_table_by_name. right. exists r. exact Hin.
    - intros req p v Hl. apply seed_table_map in Hl. destruct Hl as [Hl|Hl]; [left; exact Hl | discriminate]. }
  pose proof (resolve_pending_pinv o (jfuel W) (load_roots W (init_state W) roots)
                (load_roots_pinv roots _ (P1 (init_state W) eq_refl))) as H1.
  destruct (resolve_pending (jfuel W) W o (load_roots W (init_state W) roots)) as [st|st|]; [| |discriminate].
  - intro E. inversion E; subst. cbn [finish jg_pkgs]. rewrite content_loads_pkgs. exact H1.
  - pose proof (resolve_pending_pinv o (jfuel W) (load_roots W (restart_state W st) roots)
                  (load_roots_pinv roots _ (P1 (restart_state W st) eq_refl))) as H2.
    destruct (resolve_pending (jfuel W) W o (load_roots W (restart_state W st) roots)) as [st2|st2|]; try discriminate.
    intro E. inversion E; subst. cbn [finish jg_pkgs]. rewrite content_loads_pkgs. exact H2.
Qed.
End T.
