(* C01 completeness: nothing reachable is absent.  After a completed build
   (from an empty graph, no lockfile) every root, every configured type import
   target, and every followed dependency target (and types dependency) of every
   module entry is SETTLED: following the recorded redirects from it reaches an
   entry. *)
From Coq Require Import Arith.
From RecordUpdate Require Import RecordSet.
Import RecordSetNotations.
From DG Require Import Base.Util Base.Sexp Model.Graph Model.Builder Proofs.BuilderProofs Proofs.ChecksumProofs.

(* ---------- settledness, with a list of specifiers assumed settled ---------- *)
Inductive SettX (slots : list (spec * bslot)) (reds : list (spec * spec)) (xs : list spec) : spec -> Prop :=
| SX_slot : forall t, has_key t slots = true -> SettX slots reds xs t
| SX_exc : forall t, In t xs -> SettX slots reds xs t
| SX_red : forall t r, lookup t reds = Some r -> SettX slots reds xs r -> SettX slots reds xs t.

Lemma settx_mono : forall slots reds xs slots' reds' xs',
  (forall k, has_key k slots = true -> SettX slots' reds' xs' k) ->
  (forall x, In x xs -> SettX slots' reds' xs' x) ->
  (forall t r, lookup t reds = Some r -> lookup t reds' = Some r) ->
  forall t, SettX slots reds xs t -> SettX slots' reds' xs' t.
Proof.
  intros slots reds xs slots' reds' xs' Hs Hx Hr t H.
  induction H as [t Hk | t Hin | t r Hl _ IH].
  - apply Hs; exact Hk.
  - apply Hx; exact Hin.
  - eapply SX_red; [apply Hr; exact Hl | exact IH].
Qed.

Lemma has_key_set_assoc : forall {V} k k0 (v : V) l,
  has_key k0 (set_assoc k v l) = (N.eqb k0 k || has_key k0 l).
Proof.
  intros V k k0 v l. unfold has_key. destruct (N.eq_dec k0 k) as [->|Hne].
  - rewrite lookup_set_assoc_same, N.eqb_refl. reflexivity.
  - rewrite lookup_set_assoc_other by exact Hne. apply N.eqb_neq in Hne. rewrite Hne. reflexivity.
Qed.

Lemma lookup_or_insert_keep : forall {V} k (v : V) l t r,
  lookup t l = Some r -> lookup t (or_insert k v l) = Some r.
Proof.
  intros V k v l t r H. unfold or_insert. destruct (lookup k l); [exact H|].
  apply lookup_app_l. exact H.
Qed.

Lemma lookup_or_insert_new : forall {V} k (v : V) l,
  lookup k l = None -> lookup k (or_insert k v l) = Some v.
Proof.
  intros V k v l H. unfold or_insert. rewrite H. apply lookup_app_new. exact H.
Qed.

Lemma has_key_remove_assoc : forall {V} k k0 (l : list (N * V)),
  k0 <> k -> has_key k0 (remove_assoc k l) = has_key k0 l.
Proof. intros V k k0 l H. unfold has_key. rewrite lookup_remove_assoc_other by exact H. reflexivity. Qed.

Definition Sx (xs : list spec) (st : bstate) (t : spec) : Prop :=
  SettX (st_slots st) (st_redirects st) xs t.

Section Closure.
Variable W : world.
Variable o : bopts.
(* the closure theorem is about builds without an npm resolver: with one, an npm: specifier has no
   entry until the resolver stage at the very end of the build (what that stage adds is decided per
   case by the correspondence; the no-pending theorem covers it) *)
Hypothesis Hnonpm : forall s r, class_of W s <> SNpm r.

Definition TOk (xs : list spec) (st : bstate) (t : spec) : Prop :=
  Sx xs st t \/ (st_in_dyn st = false /\ has_key t (st_dyn st) = true).

Definition DepOK (xs : list spec) (st : bstate) (d : dep) : Prop :=
  (d_dyn d && bo_skip_dynamic o) = false ->
  forall t rg, d_code d = ROk t rg \/ d_type d = ROk t rg -> TOk xs st t.

Definition ModOK (xs : list spec) (st : bstate) (m : module) : Prop :=
  (forall d, In d (m_deps m) -> DepOK xs st d) /\
  (forall td t rg, m_types_dep m = Some td -> td_res td = ROk t rg -> Sx xs st t).

(* a state transformation that only adds slots, redirects and pending dynamic
   branches; module entries it creates have no dependencies *)
Definition trivial_mod (m : module) : Prop := m_deps m = [] /\ m_types_dep m = None.

Record Grows (st st' : bstate) : Prop := {
  gr_slots : forall k, has_key k (st_slots st) = true -> has_key k (st_slots st') = true;
  gr_reds : forall t r, lookup t (st_redirects st) = Some r -> lookup t (st_redirects st') = Some r;
  gr_reds_new : forall t r, lookup t (st_redirects st') = Some r -> lookup t (st_redirects st) = Some r;
  gr_in_dyn : st_in_dyn st' = st_in_dyn st;
  gr_dyn : forall k, has_key k (st_dyn st) = true -> has_key k (st_dyn st') = true;
  gr_mods : forall s m, lookup s (st_slots st') = Some (BMod m) ->
              lookup s (st_slots st) = Some (BMod m) \/ ModOK [] st' m;
  gr_lock : st_lock st' = st_lock st;
  gr_pend : forall it, In it (st_pending st') -> In it (st_pending st) \/ pi_checksum it = lock_get st (pi_spec it)
}.

Lemma grows_refl : forall st, Grows st st.
Proof. intros st. constructor; auto. Qed.

Lemma grows_sx : forall xs st st' t, Grows st st' -> Sx xs st t -> Sx xs st' t.
Proof.
  intros xs st st' t G H. unfold Sx in *.
  eapply settx_mono; [| |exact (gr_reds _ _ G)|exact H].
  - intros k Hk. apply SX_slot. apply (gr_slots _ _ G). exact Hk.
  - intros x Hx. apply SX_exc. exact Hx.
Qed.

Lemma grows_tok : forall xs st st' t, Grows st st' -> TOk xs st t -> TOk xs st' t.
Proof.
  intros xs st st' t G [H|[H1 H2]]; [left; eapply grows_sx; eassumption|].
  right. split; [rewrite (gr_in_dyn _ _ G); exact H1 | apply (gr_dyn _ _ G); exact H2].
Qed.

Lemma grows_depok : forall xs st st' d, Grows st st' -> DepOK xs st d -> DepOK xs st' d.
Proof. intros xs st st' d G H Hs t rg Ht. eapply grows_tok; [exact G | exact (H Hs t rg Ht)]. Qed.

Lemma grows_modok : forall xs st st' m, Grows st st' -> ModOK xs st m -> ModOK xs st' m.
Proof.
  intros xs st st' m G [H1 H2]. split.
  - intros d Hd. eapply grows_depok; [exact G | apply H1; exact Hd].
  - intros td t rg Ht Hr. eapply grows_sx; [exact G | eapply H2; eassumption].
Qed.

Lemma trivial_modok : forall xs st m, trivial_mod m -> ModOK xs st m.
Proof.
  intros xs st m [H1 H2]. split.
  - rewrite H1. intros d [].
  - rewrite H2. intros td t rg H. discriminate.
Qed.

Lemma grows_trans : forall a b c, Grows a b -> Grows b c -> Grows a c.
Proof.
  intros a b c GA GB. pose proof GA as [A1 A2 A3 A4 A5 A6 A7 A8]. pose proof GB as [B1 B2 B3 B4 B5 B6 B7 B8].
  constructor; auto.
  - congruence.
  - intros s m H. destruct (B6 s m H) as [H'|H']; [|right; exact H'].
    destruct (A6 s m H') as [H''|H'']; [left; exact H'' | right; eapply grows_modok; eassumption].
  - congruence.
  - intros it H. destruct (B8 it H) as [H'|H']; [apply A8; exact H'|].
    right. rewrite H'. unfold lock_get. rewrite A7. reflexivity.
Qed.

Lemma grows_ext : forall st st',
  st_slots st' = st_slots st -> st_redirects st' = st_redirects st -> st_in_dyn st' = st_in_dyn st ->
  st_dyn st' = st_dyn st -> st_lock st' = st_lock st -> st_pending st' = st_pending st -> Grows st st'.
Proof.
  intros st st' Hs Hr Hi Hd Hl Hp. constructor; rewrite ?Hs, ?Hr, ?Hi, ?Hd, ?Hl, ?Hp; auto.
Qed.

Lemma set_slot_sx : forall xs st s v t, Sx xs st t -> Sx xs (set_slot st s v) t.
Proof.
  intros xs st s v t H. unfold Sx in *. eapply settx_mono; [| | |exact H].
  - intros k Hk. apply SX_slot. unfold set_slot. cbn. rewrite has_key_set_assoc, Hk. apply orb_true_r.
  - intros x Hx. apply SX_exc; exact Hx.
  - auto.
Qed.

Lemma set_slot_tok : forall xs st s v t, TOk xs st t -> TOk xs (set_slot st s v) t.
Proof. intros xs st s v t [H|H]; [left; apply set_slot_sx; exact H | right; exact H]. Qed.

Lemma set_slot_modok : forall xs st s v m, ModOK xs st m -> ModOK xs (set_slot st s v) m.
Proof.
  intros xs st s v m [H1 H2]. split.
  - intros d Hd Hsk t rg Ht. apply set_slot_tok. exact (H1 d Hd Hsk t rg Ht).
  - intros td t rg Htd Hr. apply set_slot_sx. eapply H2; eassumption.
Qed.

(* setting an entry: a module entry must already be fine *)
Lemma grows_set_slot : forall st s v,
  (forall m, v = BMod m -> ModOK [] st m) -> Grows st (set_slot st s v).
Proof.
  intros st s v Hv. constructor; unfold set_slot; cbn; auto.
  - intros k Hk. rewrite has_key_set_assoc, Hk. apply orb_true_r.
  - intros s0 m H. destruct (N.eq_dec s0 s) as [->|Hne].
    + rewrite lookup_set_assoc_same in H. inversion H; subst. right.
      apply (set_slot_modok [] st s (BMod m) m). apply Hv. reflexivity.
    + rewrite lookup_set_assoc_other in H by exact Hne. left; exact H.
Qed.

Lemma set_slot_has : forall st s v, has_key s (st_slots (set_slot st s v)) = true.
Proof. intros st s v. unfold set_slot. cbn. rewrite has_key_set_assoc, N.eqb_refl. reflexivity. Qed.

Lemma grows_queue_load : forall st s range asset in_dyn root attr count,
  Grows st (queue_load st s range asset in_dyn root attr count).
Proof.
  intros. unfold queue_load.
  pose proof (grows_set_slot st s (BPending asset) ltac:(intros m E; discriminate)) as G.
  destruct G as [G1 G2 G3 G4 G5 G6 G7 G8]. constructor; cbn in *; auto.
  intros it Hin. apply in_app_or in Hin. destruct Hin as [Hin|[<-|[]]]; [left; exact Hin | right; reflexivity].
Qed.

Definition onehop (st : bstate) (t : spec) : spec := load_target st t.

(* following recorded redirects *)
Inductive RStar (reds : list (spec * spec)) : spec -> spec -> Prop :=
| RS_refl : forall s, RStar reds s s
| RS_step : forall s r e, lookup s reds = Some r -> RStar reds r e -> RStar reds s e.

Lemma rstar_trans1 : forall reds s e r, RStar reds s e -> lookup e reds = Some r -> RStar reds s r.
Proof.
  intros reds s e r H. induction H as [s|s r0 e Hl _ IH]; intro Hr.
  - eapply RS_step; [exact Hr | apply RS_refl].
  - eapply RS_step; [exact Hl | apply IH; exact Hr].
Qed.

Lemma resolve_loop_rstar : forall f g start cur seen,
  RStar (g_redirects g) start cur -> RStar (g_redirects g) start (resolve_loop f g cur seen).
Proof.
  induction f as [|f IH]; intros g start cur seen H; cbn [resolve_loop]; [exact H|].
  unfold redirect_of. destruct (lookup cur (g_redirects g)) as [nxt|] eqn:El; [|exact H].
  destruct (mem nxt seen); [exact H|].
  destruct (Nat.leb MAX_REDIRECTS (length (nxt :: seen))).
  - eapply rstar_trans1; eassumption.
  - apply IH. eapply rstar_trans1; eassumption.
Qed.

Lemma resolve_rstar : forall g s, RStar (g_redirects g) s (resolve g s).
Proof.
  intros g s. unfold resolve, redirect_of. destruct (lookup s (g_redirects g)) as [s1|] eqn:El; [|apply RS_refl].
  apply resolve_loop_rstar. eapply RS_step; [exact El | apply RS_refl].
Qed.

Lemma settx_rstar : forall slots reds reds' xs s e,
  RStar reds s e -> (forall t r, lookup t reds = Some r -> lookup t reds' = Some r) ->
  SettX slots reds' xs e -> SettX slots reds' xs s.
Proof.
  intros slots reds reds' xs s e H Hm He. induction H as [s|s r e Hl _ IH]; [exact He|].
  eapply SX_red; [apply Hm; exact Hl | apply IH; exact He].
Qed.

Lemma node_trivial : forall st s m, BMod (node_module s) = BMod m -> ModOK [] st m.
Proof. intros st s m H. inversion H; subst. apply trivial_modok. split; reflexivity. Qed.

(* load only adds, and afterwards the one-hop image of its target has an entry *)
Lemma load_grows : forall st spec0 range asset in_dyn root attr count,
  Grows st (load W o st spec0 range asset in_dyn root attr count) /\
  has_key (onehop st spec0) (st_slots (load W o st spec0 range asset in_dyn root attr count)) = true.
Proof.
  intros st spec0 range asset in_dyn root attr count. unfold load, onehop.
  set (s := load_target st spec0).
  destruct (sp_reject W s asset attr).
  { split; [apply grows_set_slot; intros m E; discriminate | apply set_slot_has]. }
  destruct (attr_reject o asset attr).
  { split; [apply grows_set_slot; intros m E; discriminate | apply set_slot_has]. }
  assert (Hp : Grows st match class_of W s with
                 | SNode => (set_slot st s (BMod (node_module s))) <| st_has_node := true |>
                 | SPass => set_slot st s (BExternal false)
                 | SNpm r => st <| st_npm := st_npm st ++ [{| ni_spec := s; ni_req := r; ni_range := range; ni_dyn := in_dyn |}] |>
                 | SBad => set_slot st s (BErr (BBadSpecifier s range))
                 | SUrl => queue_load st s range asset in_dyn root attr count
                 end /\
               has_key s (st_slots match class_of W s with
                 | SNode => (set_slot st s (BMod (node_module s))) <| st_has_node := true |>
                 | SPass => set_slot st s (BExternal false)
                 | SNpm r => st <| st_npm := st_npm st ++ [{| ni_spec := s; ni_req := r; ni_range := range; ni_dyn := in_dyn |}] |>
                 | SBad => set_slot st s (BErr (BBadSpecifier s range))
                 | SUrl => queue_load st s range asset in_dyn root attr count
                 end) = true).
  { destruct (class_of W s) eqn:Ec.
    - split; [apply grows_queue_load|]. unfold queue_load. cbn. rewrite has_key_set_assoc, N.eqb_refl. reflexivity.
    - split; [eapply grows_trans; [apply (grows_set_slot st s (BMod (node_module s)) (node_trivial st s))|apply grows_ext; reflexivity]|].
      cbn. rewrite has_key_set_assoc, N.eqb_refl. reflexivity.
    - split; [apply grows_set_slot; intros m E; discriminate | apply set_slot_has].
    - split; [apply grows_set_slot; intros m E; discriminate | apply set_slot_has].
    - exfalso. exact (Hnonpm s _ Ec). }
  assert (Hp' : Grows st (if has_key s (st_redirects st) then set_slot st s (BErr (BLoad s range 1))
                 else match class_of W s with
                 | SNode => (set_slot st s (BMod (node_module s))) <| st_has_node := true |>
                 | SPass => set_slot st s (BExternal false)
                 | SNpm r => st <| st_npm := st_npm st ++ [{| ni_spec := s; ni_req := r; ni_range := range; ni_dyn := in_dyn |}] |>
                 | SBad => set_slot st s (BErr (BBadSpecifier s range))
                 | SUrl => queue_load st s range asset in_dyn root attr count
                 end) /\
               has_key s (st_slots (if has_key s (st_redirects st) then set_slot st s (BErr (BLoad s range 1))
                 else match class_of W s with
                 | SNode => (set_slot st s (BMod (node_module s))) <| st_has_node := true |>
                 | SPass => set_slot st s (BExternal false)
                 | SNpm r => st <| st_npm := st_npm st ++ [{| ni_spec := s; ni_req := r; ni_range := range; ni_dyn := in_dyn |}] |>
                 | SBad => set_slot st s (BErr (BBadSpecifier s range))
                 | SUrl => queue_load st s range asset in_dyn root attr count
                 end)) = true).
  { destruct (has_key s (st_redirects st)); [|exact Hp].
    split; [apply grows_set_slot; intros m E; discriminate | apply set_slot_has]. }
  clear Hp. rename Hp' into Hp.
  destruct (lookup s (st_slots st)) as [sl|] eqn:El; [|exact Hp].
  assert (Hk : has_key s (st_slots st) = true) by (unfold has_key; rewrite El; reflexivity).
  destruct (match sl with BExternal true => negb asset | _ => false end); [exact Hp|].
  destruct (match sl with BPending true => negb asset | _ => false end).
  - split; [apply grows_ext; reflexivity | exact Hk].
  - split; [apply grows_refl | exact Hk].
Qed.

Lemma load_settles : forall xs st spec0 range asset in_dyn root attr count,
  Sx xs (load W o st spec0 range asset in_dyn root attr count) spec0.
Proof.
  intros xs st spec0 range asset in_dyn root attr count.
  destruct (load_grows st spec0 range asset in_dyn root attr count) as [G Hk].
  unfold Sx, onehop, load_target in *.
  eapply settx_rstar; [apply (resolve_rstar (redirect_graph (st_redirects st)) spec0) | | apply SX_slot; exact Hk].
  cbn [g_redirects redirect_graph]. apply (gr_reds _ _ G).
Qed.

(* ---------- what is required of a target, and of a module entry ---------- *)

(* ---------- visiting dependencies ---------- *)
Lemma with_dyn_grows : forall st k b, Grows st (with_dyn st (set_assoc k b (st_dyn st))).
Proof.
  intros st k b. unfold with_dyn. constructor; cbn; auto.
  intros k0 H. rewrite has_key_set_assoc, H. apply orb_true_r.
Qed.

Lemma visit_dep_spec : forall xs st da,
  Grows st (fst (visit_dep W o st da)) /\ DepOK xs (fst (visit_dep W o st da)) (snd (visit_dep W o st da)).
Proof.
  intros xs st [d [asset sp]]. unfold visit_dep. cbn [fst snd dfl_asset dfl_sp].
  destruct (d_dyn d && bo_skip_dynamic o) eqn:Esk.
  { cbn [fst snd]. split; [apply grows_refl|]. intros Hs. congruence. }
  cbn [fst snd].
  set (code_side := include_code (bo_kind o) || is_rnone (d_type d)).
  set (st1 := if code_side
              then match d_code d with
                   | ROk t range =>
                       if d_dyn d && negb (st_in_dyn st) then
                         with_dyn st (set_assoc t
                            (if asset then match lookup t (st_dyn st) with
                                           | Some b => b
                                           | None => {| br_range := range; br_attr := _; br_asset := asset |} end
                             else {| br_range := br_range match lookup t (st_dyn st) with
                                           | Some b => b
                                           | None => {| br_range := range; br_attr := _; br_asset := asset |} end;
                                     br_attr := br_attr match lookup t (st_dyn st) with
                                           | Some b => b
                                           | None => {| br_range := range; br_attr := _; br_asset := asset |} end;
                                     br_asset := false |}) (st_dyn st))
                       else load W o st t (Some range) asset (st_in_dyn st) (mem t (st_resolved_roots st)) _ 0
                   | _ => st end
              else st).
  assert (G1 : Grows st st1 /\
               (code_side = true -> forall t rg, d_code d = ROk t rg -> TOk xs st1 t)).
  { unfold st1. destruct code_side; [|split; [apply grows_refl | discriminate]].
    destruct (d_code d) as [|t range|e] eqn:Ec; try (split; [apply grows_refl | intros _ t rg H; discriminate]).
    destruct (d_dyn d && negb (st_in_dyn st)) eqn:Ed.
    - split; [apply with_dyn_grows|]. intros _ t' rg H. inversion H; subst.
      right. apply andb_true_iff in Ed. destruct Ed as [_ Ei]. apply negb_true_iff in Ei.
      split; [exact Ei|]. cbn. rewrite has_key_set_assoc, N.eqb_refl. reflexivity.
    - split; [apply load_grows|]. intros _ t' rg H. inversion H; subst. left. apply load_settles. }
  destruct G1 as [G1 C1].
  set (st2 := if include_types (bo_kind o) then
                match d_type d with
                | ROk t range =>
                    if d_dyn d && negb (st_in_dyn st1) then
                      with_dyn st1 (set_assoc t {| br_range := range; br_attr := _; br_asset := asset |} (st_dyn st1))
                    else load W o st1 t (Some range) asset (st_in_dyn st1) (mem t (st_resolved_roots st1)) _ 0
                | _ => st1 end
              else st1).
  assert (G2 : Grows st1 st2 /\
               (include_types (bo_kind o) = true -> forall t rg, d_type d = ROk t rg -> TOk xs st2 t)).
  { unfold st2. destruct (include_types (bo_kind o)); [|split; [apply grows_refl | discriminate]].
    destruct (d_type d) as [|t range|e] eqn:Et; try (split; [apply grows_refl | intros _ t rg H; discriminate]).
    destruct (d_dyn d && negb (st_in_dyn st1)) eqn:Ed.
    - split; [apply with_dyn_grows|]. intros _ t' rg H. inversion H; subst.
      right. apply andb_true_iff in Ed. destruct Ed as [_ Ei]. apply negb_true_iff in Ei.
      split; [exact Ei|]. cbn. rewrite has_key_set_assoc, N.eqb_refl. reflexivity.
    - split; [apply load_grows|]. intros _ t' rg H. inversion H; subst. left. apply load_settles. }
  destruct G2 as [G2 C2].
  split; [eapply grows_trans; eassumption|].
  intros _ t rg Ht. cbn [d_code d_type] in Ht. destruct Ht as [Ht|Ht].
  - destruct code_side eqn:Ecs; [|discriminate]. eapply grows_tok; [exact G2 | apply (C1 eq_refl t rg Ht)].
  - destruct (include_types (bo_kind o)) eqn:Eit; [|discriminate]. apply (C2 eq_refl t rg Ht).
Qed.

Lemma visit_deps_spec : forall xs ds st,
  Grows st (fst (visit_deps W o st ds)) /\
  forall d, In d (snd (visit_deps W o st ds)) -> DepOK xs (fst (visit_deps W o st ds)) d.
Proof.
  intros xs ds. induction ds as [|da ds IH]; intros st; cbn [visit_deps].
  - cbn [fst snd]. split; [apply grows_refl | intros d []].
  - destruct (visit_dep W o st da) as [st1 d1] eqn:E1.
    destruct (visit_deps W o st1 ds) as [st2 rest] eqn:E2. cbn [fst snd].
    destruct (visit_dep_spec xs st da) as [G1 D1]. rewrite E1 in G1, D1. cbn [fst snd] in G1, D1.
    destruct (IH st1) as [G2 D2]. rewrite E2 in G2, D2. cbn [fst snd] in G2, D2.
    split; [eapply grows_trans; eassumption|].
    intros d [Hd|Hd]; [subst; eapply grows_depok; eassumption | apply D2; exact Hd].
Qed.

Lemma load_types_dep_spec : forall xs st tdep,
  Grows st (load_types_dep W o st tdep) /\
  (include_types (bo_kind o) = true -> forall td t rg, tdep = Some td -> td_res td = ROk t rg ->
     Sx xs (load_types_dep W o st tdep) t).
Proof.
  intros xs st tdep. unfold load_types_dep.
  destruct (include_types (bo_kind o)); [|split; [apply grows_refl | discriminate]].
  destruct tdep as [td|]; [|split; [apply grows_refl | intros _ td t rg H; discriminate]].
  destruct (td_res td) as [|t range|e] eqn:Er.
  - split; [apply grows_refl | intros _ td' t rg H Hr; inversion H; subst; congruence].
  - split; [apply load_grows|]. intros _ td' t' rg H Hr. inversion H; subst. rewrite Er in Hr. inversion Hr; subst.
    apply load_settles.
  - split; [apply grows_refl | intros _ td' t rg H Hr; inversion H; subst; congruence].
Qed.

Lemma visit_module_spec : forall xs st final wm,
  Grows st (fst (visit_module W o st final wm)) /\
  ModOK xs (fst (visit_module W o st final wm)) (snd (visit_module W o st final wm)).
Proof.
  intros xs st final wm. unfold visit_module.
  destruct (visit_deps_spec xs (wm_deps wm) st) as [Gd Dd].
  destruct (wm_kind wm) eqn:Ek; cbn [fst snd].
  all: try (
    set (r := if follow_deps o wm then visit_deps W o st (wm_deps wm) else (st, []));
    assert (Hr : Grows st (fst r) /\ forall d, In d (snd r) -> DepOK xs (fst r) d)
      by (unfold r; destruct (follow_deps o wm); [split; assumption | cbn [fst snd]; split; [apply grows_refl | intros d []]]);
    destruct Hr as [Gr Dr];
    destruct (load_types_dep_spec xs (fst r) (wm_tdep wm)) as [Gt St];
    split; [eapply grows_trans; eassumption|];
    split; cbn [m_deps m_types_dep];
    [ intros d Hd; eapply grows_depok; [exact Gt | apply Dr; exact Hd]
    | intros td t rg Htd Hres; destruct (include_types (bo_kind o)) eqn:Ei; [|discriminate];
      eapply St; [reflexivity | exact Htd | exact Hres] ]).
  (* wasm *)
  split; [exact Gd|]. split; cbn [m_deps m_types_dep]; [exact Dd | intros td t rg H; discriminate].
Qed.


(* ---------- one completed load ---------- *)
Definition wtarget (s : spec) : option spec :=
  match resp_of W s with
  | WRedirect to => Some to
  | WExternal f => Some f
  | WModule f _ => Some f
  | _ => None
  end.

Definition result_target (it : pitem) (res : presult) : spec :=
  match res with
  | PErr e => berr_spec e
  | PRedirect to => to
  | PExternal f _ => f
  | PJson f _ => f
  | PCode f _ => f
  end.

Lemma try_load_target : forall it res calls,
  pi_checksum it = None -> try_load W it = (res, calls) ->
  result_target it res = pi_spec it \/ wtarget (pi_spec it) = Some (result_target it res).
Proof.
  intros it res calls Hc H. unfold try_load, loader_call in H. rewrite Hc in H. unfold wtarget.
  destruct (resp_of W (pi_spec it)) as [| |to|f|f wm] eqn:Er.
  - inversion H; subst. left; reflexivity.
  - inversion H; subst. left; reflexivity.
  - destruct (Nat.leb (w_max_redirects W) (pi_count it) || N.eqb to (pi_spec it)); inversion H; subst;
      [left; reflexivity | right; reflexivity].
  - destruct (pi_asset it); inversion H; subst; [left; reflexivity | right; reflexivity].
  - destruct (pi_asset it); [inversion H; subst; left; reflexivity|].
    unfold module_result in H.
    destruct (accept W f wm (pi_attr it) (pi_range it) (pi_root it) (pi_dyn it)) as [| |e] eqn:Ea;
      inversion H; subst; cbn [result_target]; try (right; reflexivity).
    (* accept errors carry the final specifier *)
    right. f_equal. unfold accept in Ea.
    repeat match type of Ea with
    | context [if ?c then _ else _] => destruct c
    | context [match ?m with _ => _ end] => destruct m
    end; inversion Ea; reflexivity.
Qed.

Definition RedOK (st : bstate) : Prop :=
  forall a b, lookup a (st_redirects st) = Some b -> wtarget a = Some b.

(* check_specifier: what was settled stays settled once the new target is *)
Lemma check_specifier_sx : forall st req s t,
  req <> s -> RedOK st -> wtarget req = Some s ->
  Sx [] st t -> Sx [s] (check_specifier st req s) t.
Proof.
  intros st req s t Hne HR Hw H. unfold Sx in *. unfold check_specifier.
  apply N.eqb_neq in Hne. rewrite Hne. cbn.
  assert (Hl : lookup req (or_insert req s (st_redirects st)) = Some s).
  { destruct (lookup req (st_redirects st)) as [x|] eqn:E.
    - pose proof (HR req x E) as Hx. rewrite Hw in Hx. inversion Hx; subst.
      apply lookup_or_insert_keep. exact E.
    - apply lookup_or_insert_new. exact E. }
  eapply settx_mono; [| | |exact H].
  - intros k Hk. destruct (N.eq_dec k req) as [->|Hn].
    + eapply SX_red; [exact Hl | apply SX_exc; left; reflexivity].
    + apply SX_slot. destruct (lookup req (st_slots st)) as [[m|b|e|b]|]; try exact Hk.
      rewrite has_key_remove_assoc by exact Hn. exact Hk.
  - intros x [].
  - intros t0 r0 H0. apply lookup_or_insert_keep. exact H0.
Qed.

Lemma discharge : forall xs st s t,
  Sx xs st s -> Sx (s :: xs) st t -> Sx xs st t.
Proof.
  intros xs st s t Hs H. unfold Sx in *. eapply settx_mono; [| | |exact H].
  - intros k Hk. apply SX_slot; exact Hk.
  - intros x [Hx|Hx]; [subst; exact Hs | apply SX_exc; exact Hx].
  - auto.
Qed.

Lemma check_specifier_tok : forall st req s t,
  req <> s -> RedOK st -> wtarget req = Some s ->
  TOk [] st t -> TOk [s] (check_specifier st req s) t.
Proof.
  intros st req s t Hne HR Hw [H|[H1 H2]]; [left; apply check_specifier_sx; assumption|].
  right. unfold check_specifier. apply N.eqb_neq in Hne. rewrite Hne. cbn. split; assumption.
Qed.

Lemma check_specifier_redok : forall st req s,
  RedOK st -> (req = s \/ wtarget req = Some s) -> RedOK (check_specifier st req s).
Proof.
  intros st req s HR Hw. unfold check_specifier. destruct (N.eqb req s) eqn:E; [exact HR|].
  apply N.eqb_neq in E. destruct Hw as [Hw|Hw]; [congruence|].
  intros a b H. cbn in H. unfold or_insert in H.
  destruct (lookup req (st_redirects st)) as [x|] eqn:El; [apply HR; exact H|].
  destruct (N.eq_dec a req) as [->|Hn].
  - rewrite (lookup_app_new req (st_redirects st) s El) in H. inversion H; subst. exact Hw.
  - apply HR. clear -H Hn. induction (st_redirects st) as [|[k v] l IH]; cbn [app lookup] in *.
    + apply N.eqb_neq in Hn. rewrite Hn in H. discriminate.
    + destruct (N.eqb a k); [exact H | apply IH; exact H].
Qed.

Lemma check_specifier_mods : forall st req s s0 m,
  lookup s0 (st_slots (check_specifier st req s)) = Some (BMod m) -> lookup s0 (st_slots st) = Some (BMod m).
Proof.
  intros st req s s0 m H. unfold check_specifier in H. destruct (N.eqb req s); [exact H|]. cbn in H.
  destruct (lookup req (st_slots st)) as [[m'|b|e|b]|] eqn:E; try exact H.
  destruct (N.eq_dec s0 req) as [->|Hn].
  - rewrite lookup_remove_assoc_same in H. discriminate.
  - rewrite lookup_remove_assoc_other in H by exact Hn. exact H.
Qed.

(* the invariant: module entries and the requested specifiers R are fine *)
Record CInv (R : list spec) (st : bstate) : Prop := {
  cv_mods : forall s m, lookup s (st_slots st) = Some (BMod m) -> ModOK [] st m;
  cv_req : forall t, In t R -> TOk [] st t;
  cv_reds : RedOK st;
  cv_lock : st_lock st = None;
  cv_pend : forall it, In it (st_pending st) -> pi_checksum it = None
}.

Lemma cinv_grows : forall R st st', Grows st st' -> CInv R st -> CInv R st'.
Proof.
  intros R st st' G [H1 H2 H3 H4 H5]. constructor.
  - intros s m H. destruct (gr_mods _ _ G s m H) as [H'|H']; [eapply grows_modok; [exact G | eapply H1; exact H'] | exact H'].
  - intros t Ht. eapply grows_tok; [exact G | apply H2; exact Ht].
  - intros a b H. apply H3. apply (gr_reds_new _ _ G). exact H.
  - rewrite (gr_lock _ _ G). exact H4.
  - intros it Hin. destruct (gr_pend _ _ G it Hin) as [H'|H']; [apply H5; exact H'|].
    rewrite H'. unfold lock_get. rewrite H4. reflexivity.
Qed.

(* transfer of all facts across: check_specifier to s, then growth, then s settled *)
Lemma modok_transfer : forall st0 req s st2 m,
  RedOK st0 -> (req = s \/ wtarget req = Some s) ->
  Grows (check_specifier st0 req s) st2 -> Sx [] st2 s ->
  ModOK [] st0 m -> ModOK [] st2 m.
Proof.
  intros st0 req s st2 m HR Hw G Hs [H1 H2].
  assert (Tsx : forall t, Sx [] st0 t -> Sx [] st2 t).
  { intros t Ht. destruct (N.eq_dec req s) as [->|Hne].
    - unfold check_specifier in G. rewrite N.eqb_refl in G. eapply grows_sx; eassumption.
    - destruct Hw as [Hw|Hw]; [congruence|].
      apply (discharge [] st2 s t Hs). eapply grows_sx; [exact G|].
      apply check_specifier_sx; assumption. }
  assert (Ttok : forall t, TOk [] st0 t -> TOk [] st2 t).
  { intros t [Ht|[Ha Hb]]; [left; apply Tsx; exact Ht|]. right.
    rewrite (gr_in_dyn _ _ G). split.
    - unfold check_specifier. destruct (N.eqb req s); exact Ha.
    - apply (gr_dyn _ _ G). unfold check_specifier. destruct (N.eqb req s); exact Hb. }
  split.
  - intros d Hd Hsk t rg Ht. apply Ttok. exact (H1 d Hd Hsk t rg Ht).
  - intros td t rg Htd Hr. apply Tsx. eapply H2; eassumption.
Qed.

Lemma tok_transfer : forall st0 req s st2 t,
  RedOK st0 -> (req = s \/ wtarget req = Some s) ->
  Grows (check_specifier st0 req s) st2 -> Sx [] st2 s ->
  TOk [] st0 t -> TOk [] st2 t.
Proof.
  intros st0 req s st2 t HR Hw G Hs Ht.
  pose (m := {| m_kind := MkJs; m_spec := 0; m_media := MJavaScript;
                m_deps := [{| d_text := 0; d_filelike := false; d_code := ROk t 0; d_type := RNone; d_dyn := false;
                              d_deno_types := false; d_attr := 0 |}];
                m_types_dep := None; m_fc_deps := None; m_dts := false |}).
  assert (Hm : ModOK [] st0 m).
  { split; [|intros td t0 rg H; discriminate]. intros d [<-|[]] _ t0 rg [H|H]; inversion H; subst; exact Ht. }
  destruct (modok_transfer st0 req s st2 m HR Hw G Hs Hm) as [H1 _].
  apply (H1 _ (or_introl eq_refl) eq_refl t 0). left; reflexivity.
Qed.

Lemma cinv_transfer : forall R st0 req s st2,
  CInv R st0 -> (req = s \/ wtarget req = Some s) ->
  Grows (check_specifier st0 req s) st2 -> Sx [] st2 s ->
  CInv R st2.
Proof.
  intros R st0 req s st2 [H1 H2 H3 H4 H5] Hw G Hs. constructor.
  - intros s0 m H. destruct (gr_mods _ _ G s0 m H) as [H'|H']; [|exact H'].
    apply check_specifier_mods in H'. eapply modok_transfer; try eassumption. eapply H1; exact H'.
  - intros t Ht. eapply tok_transfer; try eassumption. apply H2; exact Ht.
  - intros a b H. apply (check_specifier_redok st0 req s H3 Hw). apply (gr_reds_new _ _ G). exact H.
  - rewrite (gr_lock _ _ G). unfold check_specifier. destruct (N.eqb req s); exact H4.
  - intros it Hin. destruct (gr_pend _ _ G it Hin) as [H'|H'].
    + apply H5. unfold check_specifier in H'. destruct (N.eqb req s); exact H'.
    + rewrite H'. unfold lock_get. unfold check_specifier. destruct (N.eqb req s); cbn; rewrite H4; reflexivity.
Qed.


Lemma record_checksum_nolock : forall st f media wm,
  st_lock st = None -> record_checksum W st f media wm = st.
Proof. intros st f media wm H. unfold record_checksum. rewrite H. reflexivity. Qed.

Lemma check_specifier_lock : forall st a b, st_lock (check_specifier st a b) = st_lock st.
Proof. intros st a b. unfold check_specifier. destruct (N.eqb a b); reflexivity. Qed.

Lemma process_cinv : forall R st it,
  CInv R st -> pi_checksum it = None -> CInv R (process W o st it).
Proof.
  intros R st it HI Hc. unfold process.
  destruct (try_load W it) as [res calls] eqn:Et.
  pose proof (try_load_target it res calls Hc Et) as Hw.
  set (st0 := st <| st_calls := rev calls ++ st_calls st |>).
  assert (H0 : CInv R st0) by (eapply cinv_grows; [|exact HI]; apply grows_ext; reflexivity).
  assert (L0 : st_lock st0 = None) by exact (cv_lock R st0 H0).
  assert (Hw' : pi_spec it = result_target it res \/ wtarget (pi_spec it) = Some (result_target it res))
    by (destruct Hw as [Hw|Hw]; [left; symmetry; exact Hw | right; exact Hw]).
  clear Hw. rename Hw' into Hw.
  destruct res as [e|to|final wa|final wm|final wm]; cbn [result_target] in Hw.
  - (* error *)
    eapply (cinv_transfer R st0 (pi_spec it) (berr_spec e)); [exact H0 | exact Hw | apply grows_set_slot; intros m E; discriminate|].
    apply SX_slot. apply set_slot_has.
  - (* redirect *)
    eapply (cinv_transfer R st0 (pi_spec it) to); [exact H0 | exact Hw | apply load_grows | apply load_settles].
  - (* external *)
    set (st1 := check_specifier st0 (pi_spec it) final).
    set (st2 := if pi_root it then add_resolved_root st1 final else st1).
    assert (G12 : Grows st1 st2) by (unfold st2; destruct (pi_root it); [apply grows_ext; reflexivity | apply grows_refl]).
    destruct (lookup final (st_slots st2)) as [[m|b|e|b]|] eqn:El.
    + eapply (cinv_transfer R st0 (pi_spec it) final); [exact H0 | exact Hw | exact G12 | apply SX_slot; unfold has_key; rewrite El; reflexivity].
    + eapply (cinv_transfer R st0 (pi_spec it) final); [exact H0 | exact Hw | exact G12 | apply SX_slot; unfold has_key; rewrite El; reflexivity].
    + eapply (cinv_transfer R st0 (pi_spec it) final); [exact H0 | exact Hw | exact G12 | apply SX_slot; unfold has_key; rewrite El; reflexivity].
    + eapply (cinv_transfer R st0 (pi_spec it) final); [exact H0 | exact Hw | | apply SX_slot; apply set_slot_has].
      eapply grows_trans; [exact G12 | apply grows_set_slot; intros m E; discriminate].
    + eapply (cinv_transfer R st0 (pi_spec it) final); [exact H0 | exact Hw | | apply SX_slot; apply set_slot_has].
      eapply grows_trans; [exact G12 | apply grows_set_slot; intros m E; discriminate].
  - (* json *)
    set (st1 := check_specifier st0 (pi_spec it) final).
    set (st2 := if pi_root it then add_resolved_root st1 final else st1).
    assert (G12 : Grows st1 st2) by (unfold st2; destruct (pi_root it); [apply grows_ext; reflexivity | apply grows_refl]).
    assert (L2 : st_lock st2 = None).
    { unfold st2, st1. destruct (pi_root it); cbn; rewrite check_specifier_lock; exact L0. }
    rewrite (record_checksum_nolock st2 final MJson wm L2).
    eapply (cinv_transfer R st0 (pi_spec it) final); [exact H0 | exact Hw | | apply SX_slot; apply set_slot_has].
    eapply grows_trans; [exact G12 | apply grows_set_slot].
    intros m E. inversion E; subst. apply trivial_modok. split; reflexivity.
  - (* code *)
    set (st1 := check_specifier st0 (pi_spec it) final).
    set (st2 := if pi_root it then add_resolved_root st1 final else st1).
    assert (G12 : Grows st1 st2) by (unfold st2; destruct (pi_root it); [apply grows_ext; reflexivity | apply grows_refl]).
    assert (L2 : st_lock st2 = None).
    { unfold st2, st1. destruct (pi_root it); cbn; rewrite check_specifier_lock; exact L0. }
    rewrite (record_checksum_nolock st2 final _ wm L2).
    destruct (visit_module_spec [] st2 final wm) as [Gv Mv].
    eapply (cinv_transfer R st0 (pi_spec it) final); [exact H0 | exact Hw | | apply SX_slot; apply set_slot_has].
    eapply grows_trans; [exact G12|]. eapply grows_trans; [exact Gv|].
    apply grows_set_slot. intros m E. inversion E; subst. exact Mv.
Qed.

Lemma load_branches_spec : forall bs st,
  Grows st (load_branches W o st bs) /\
  forall t, has_key t bs = true -> Sx [] (load_branches W o st bs) t.
Proof.
  induction bs as [|[s b] bs IH]; intros st; cbn [load_branches].
  - split; [apply grows_refl | intros t H; discriminate].
  - set (st1 := load W o st s (Some (br_range b)) (br_asset b) true (mem s (st_resolved_roots st)) (br_attr b) 0).
    destruct (IH st1) as [G2 S2]. destruct (load_grows st s (Some (br_range b)) (br_asset b) true (mem s (st_resolved_roots st)) (br_attr b) 0) as [G1 _].
    fold st1 in G1. split; [eapply grows_trans; eassumption|].
    intros t Ht. unfold has_key in Ht. cbn [lookup] in Ht.
    destruct (N.eqb t s) eqn:E.
    + apply N.eqb_eq in E. subst. eapply grows_sx; [exact G2 | apply load_settles].
    + apply S2. exact Ht.
Qed.

Lemma load_deferred_grows : forall ds st, Grows st (load_deferred W o st ds).
Proof.
  induction ds as [|[s d] ds IH]; intros st; cbn [load_deferred]; [apply grows_refl|].
  eapply grows_trans; [apply load_grows | apply IH].
Qed.

Lemma loop_step_cinv : forall R st, CInv R st -> CInv R (loop_step W o st).
Proof.
  intros R st HI. unfold loop_step.
  set (st1 := match st_pending st with
              | it :: rest => process W o (st <| st_pending := rest |>) it
              | [] => st end).
  assert (H1 : CInv R st1).
  { unfold st1. destruct (st_pending st) as [|it rest] eqn:Ep; [exact HI|].
    apply process_cinv.
    - destruct HI as [A B C D E]. constructor; cbn; auto.
      intros it' Hin. apply E. rewrite Ep. right; exact Hin.
    - apply (cv_pend R st HI). rewrite Ep. left; reflexivity. }
  destruct (st_pending st1) as [|i r] eqn:Ep1; [|exact H1].
  destruct (st_deferred st1) as [|d ds].
  - destruct (st_in_dyn st1) eqn:Ei; [exact H1|].
    (* the dynamic branches are loaded: every recorded branch target becomes settled *)
    set (st2 := st1 <| st_dyn := [] |> <| st_in_dyn := true |>).
    destruct (load_branches_spec (st_dyn st1) st2) as [G S].
    assert (Tsx : forall t, Sx [] st1 t -> Sx [] (load_branches W o st2 (st_dyn st1)) t).
    { intros t Ht. eapply grows_sx; [exact G|]. exact Ht. }
    assert (Ttok : forall t, TOk [] st1 t -> TOk [] (load_branches W o st2 (st_dyn st1)) t).
    { intros t [Ht|[_ Hk]]; left; [apply Tsx; exact Ht | apply S; exact Hk]. }
    destruct H1 as [A B C D E]. constructor.
    + intros s m H. destruct (gr_mods _ _ G s m H) as [H'|H']; [|exact H'].
      destruct (A s m H') as [M1 M2]. split.
      * intros d0 Hd Hsk t rg Ht. apply Ttok. exact (M1 d0 Hd Hsk t rg Ht).
      * intros td t rg Htd Hr. apply Tsx. eapply M2; eassumption.
    + intros t Ht. apply Ttok. apply B; exact Ht.
    + intros a b H. apply C. apply (gr_reds_new _ _ G) in H. exact H.
    + rewrite (gr_lock _ _ G). exact D.
    + intros it Hin. destruct (gr_pend _ _ G it Hin) as [H'|H'].
      * cbn in H'. rewrite Ep1 in H'. destruct H'.
      * rewrite H'. unfold lock_get. cbn. rewrite D. reflexivity.
  - eapply cinv_grows; [|exact H1].
    eapply grows_trans; [|apply load_deferred_grows]. apply grows_ext; try reflexivity.
Qed.

Lemma resolve_pending_cinv : forall R fuel st st',
  CInv R st -> resolve_pending fuel W o st = Some st' -> CInv R st' /\ idle st' = true.
Proof.
  intros R. induction fuel as [|f IH]; intros st st' H HR; cbn [resolve_pending] in HR.
  - destruct (idle st) eqn:Ei; [inversion HR; subst; split; assumption | discriminate].
  - destruct (idle st) eqn:Ei; [inversion HR; subst; split; assumption|].
    eapply IH; [apply loop_step_cinv; exact H | exact HR].
Qed.

(* loading the roots and the configured imports settles them *)
Lemma load_roots_spec : forall roots st,
  Grows st (load_roots W o st roots) /\ forall r, In r roots -> Sx [] (load_roots W o st roots) r.
Proof.
  induction roots as [|r rs IH]; intros st; cbn [load_roots].
  - split; [apply grows_refl | intros r []].
  - set (st1 := load W o st r None false (bo_is_dynamic o) true no_attr 0).
    destruct (IH st1) as [G2 S2].
    destruct (load_grows st r None false (bo_is_dynamic o) true no_attr 0) as [G1 _]. fold st1 in G1.
    split; [eapply grows_trans; eassumption|].
    intros r' [<-|Hr]; [eapply grows_sx; [exact G2 | apply load_settles] | apply S2; exact Hr].
Qed.

Definition import_targets (imps : list (spec * list dep)) : list spec :=
  flat_map (fun p => flat_map (fun d => match d_type d with ROk t _ => [t] | _ => [] end) (snd p)) imps.

Lemma load_import_deps_spec : forall ds st,
  Grows st (load_import_deps W o st ds) /\
  forall d t rg, In d ds -> d_type d = ROk t rg -> Sx [] (load_import_deps W o st ds) t.
Proof.
  induction ds as [|d ds IH]; intros st; cbn [load_import_deps].
  - split; [apply grows_refl | intros d t rg []].
  - set (st1 := match d_type d with
                | ROk t range => load W o st t (Some range) false (st_in_dyn st) (mem t (st_resolved_roots st)) no_attr 0
                | _ => st end).
    destruct (IH st1) as [G2 S2].
    assert (G1 : Grows st st1) by (unfold st1; destruct (d_type d); try apply grows_refl; apply load_grows).
    split; [eapply grows_trans; eassumption|].
    intros d' t rg [<-|Hd] Ht.
    + eapply grows_sx; [exact G2|]. unfold st1. rewrite Ht. apply load_settles.
    + eapply S2; eassumption.
Qed.

Lemma load_imports_spec : forall imps st,
  Grows st (load_imports W o st imps) /\
  forall t, In t (import_targets imps) -> Sx [] (load_imports W o st imps) t.
Proof.
  induction imps as [|[r ds] rest IH]; intros st; cbn [load_imports import_targets flat_map].
  - split; [apply grows_refl | intros t []].
  - destruct (load_import_deps_spec ds st) as [G1 S1].
    destruct (IH (load_import_deps W o st ds)) as [G2 S2].
    split; [eapply grows_trans; eassumption|].
    intros t Ht. apply in_app_or in Ht. destruct Ht as [Ht|Ht]; [|apply S2; exact Ht].
    cbn [snd] in Ht. apply in_flat_map in Ht. destruct Ht as [d [Hd Hx]].
    destruct (d_type d) as [|t' rg|e] eqn:Et; [destruct Hx | | destruct Hx].
    destruct Hx as [Hx|[]]. subst t'.
    eapply grows_sx; [exact G2 | eapply S1; eassumption].
Qed.

(* ---------- the theorem ---------- *)
Definition Settled (g : bgraph) (t : spec) : Prop := SettX (bg_slots g) (bg_redirects g) [] t.

Theorem build_complete : forall k roots imports g',
  w_lock W = None ->
  build W o (empty_bgraph k) roots imports = Some g' ->
  (forall r, In r roots -> Settled g' r) /\
  (forall t, In t (import_targets imports) -> Settled g' t) /\
  (forall s m, lookup s (bg_slots g') = Some (BMod m) ->
     (forall d t rg, In d (m_deps m) -> (d_dyn d && bo_skip_dynamic o) = false ->
        d_code d = ROk t rg \/ d_type d = ROk t rg -> Settled g' t) /\
     (forall td t rg, m_types_dep m = Some td -> td_res td = ROk t rg -> Settled g' t)).
Proof.
  intros k roots imports g' Hl Hb. unfold build in Hb. cbn [bg_roots bg_imports empty_bgraph] in Hb.
  assert (Ft : forall (T : Type) (f : T -> bool) (l : list T), (forall x, f x = true) -> filter f l = l).
  { intros T f l Hf. induction l as [|x l IHl]; [reflexivity|]. cbn [filter]. rewrite Hf, IHl. reflexivity. }
  assert (Ef : forall (l : list spec), filter (fun r => negb (mem r [])) l = l)
    by (intro l; apply Ft; intro x; reflexivity).
  assert (Eg : forall (l : list (spec * list dep)), filter (fun p => negb (has_key (fst p) (@nil (spec * list dep)))) l = l)
    by (intro l; apply Ft; intro x; reflexivity).
  unfold spec in *. rewrite Ef, Eg in Hb.
  set (roots' := dedup_keep_first roots) in *.
  set (st0 := init_state W o (empty_bgraph k)) in *.
  match type of Hb with context [resolve_pending ?f W o ?stx] => destruct (resolve_pending f W o stx) as [st|] eqn:HR end;
    [|discriminate].
  inversion Hb; subst; clear Hb. unfold Settled. cbn [bg_slots bg_redirects finish].
  destruct (load_roots_spec roots' st0) as [G1 S1].
  destruct (load_imports_spec imports (load_roots W o st0 roots')) as [G2 S2].
  set (R := roots' ++ import_targets imports).
  set (st2 := load_imports W o (load_roots W o st0 roots') imports) in *.
  assert (G02 : Grows st0 st2) by (eapply grows_trans; eassumption).
  assert (HI2 : CInv R st2).
  { constructor.
    - intros s m H. destruct (gr_mods _ _ G02 s m H) as [H'|H']; [cbn in H'; discriminate | exact H'].
    - intros t Ht. left. apply in_app_or in Ht. destruct Ht as [Ht|Ht].
      + eapply grows_sx; [exact G2 | apply S1; exact Ht].
      + apply S2; exact Ht.
    - intros a b H. apply (gr_reds_new _ _ G02) in H. cbn in H. discriminate.
    - rewrite (gr_lock _ _ G02). cbn. exact Hl.
    - intros it Hin. destruct (gr_pend _ _ G02 it Hin) as [H'|H']; [cbn in H'; destruct H'|].
      rewrite H'. unfold lock_get. cbn. rewrite Hl. reflexivity. }
  destruct (resolve_pending_cinv R _ _ _ HI2 HR) as [HI Hidle].
  assert (Hdyn : st_dyn st = []).
  { unfold idle in Hidle. destruct (st_pending st); [|discriminate]. destruct (st_dyn st); [reflexivity | discriminate]. }
  set (new := no_slots (npm_resolve W (st_npm st))).
  assert (Lift : forall t, Sx [] st t -> SettX (npm_fill (st_slots st) new) (st_redirects st) [] t).
  { intros t H. unfold Sx in H. eapply settx_mono; [| | |exact H].
    - intros k0 Hk. apply SX_slot. unfold has_key in *. destruct (lookup k0 (st_slots st)) as [v|] eqn:E; [|discriminate].
      rewrite (npm_fill_keeps new (st_slots st) k0 v E). reflexivity.
    - intros x [].
    - intros a b Hab. exact Hab. }
  assert (Tfin : forall t, TOk [] st t -> SettX (npm_fill (st_slots st) new) (st_redirects st) [] t).
  { intros t [H|[_ H]]; [apply Lift; exact H|]. rewrite Hdyn in H. discriminate. }
  split; [|split].
  - intros r Hr. apply Tfin. apply (cv_req R st HI). apply in_or_app. left.
    unfold roots'. apply dedup_keep_first_In. exact Hr.
  - intros t Ht. apply Tfin. apply (cv_req R st HI). apply in_or_app. right. exact Ht.
  - intros s m Hs. apply npm_fill_lookup in Hs. destruct Hs as [Hs|Hin].
    + destruct (cv_mods R st HI s m Hs) as [M1 M2]. split.
      * intros d t rg Hd Hsk Ht. apply Tfin. exact (M1 d Hd Hsk t rg Ht).
      * intros td t rg Htd Hr. apply Lift. eapply M2; eassumption.
    + apply npm_resolve_shape in Hin. destruct Hin as [[s0 E]|[s0 [r0 [k0 E]]]]; [|discriminate].
      inversion E; subst. split; [intros d t rg [] | intros td t rg Htd; discriminate].
Qed.

End Closure.
