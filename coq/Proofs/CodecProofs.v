(* C13 (a): proofs about Model/Codec.v.
   1. every decoder inverts its encoder (for all values, no bounds);
   2. encodings of well-formed infos are JSON values with distinct keys;
   3. association-list lemmas and the moduleGraph1 upgrade;
   4. soundness of the boolean judgements run on the implementation's output. *)
From Coq Require Import Arith.
From DG Require Import Base.Util Base.Sexp Model.Codec.

(* evaluate comparisons of closed key names *)
Ltac keq :=
  repeat match goal with
  | |- context [str_eqb ?a ?b] =>
      let v := eval vm_compute in (str_eqb a b) in
      match v with
      | true => change (str_eqb a b) with true
      | false => change (str_eqb a b) with false
      end
  end.

(* ------------------------------------------------------------ strings, association lists *)

Lemma str_eqb_refl : forall s, str_eqb s s = true.
Proof. induction s as [|x s IH]; cbn [str_eqb]; [reflexivity|]. rewrite N.eqb_refl, IH. reflexivity. Qed.

Lemma str_eqb_eq : forall a b, str_eqb a b = true <-> a = b.
Proof.
  induction a as [|x a IH]; intros [|y b]; cbn [str_eqb]; split; intro H; try reflexivity; try discriminate.
  - apply andb_true_iff in H. destruct H as [H1 H2]. apply N.eqb_eq in H1. apply IH in H2. subst. reflexivity.
  - inversion H; subst. rewrite N.eqb_refl. cbn [andb]. apply str_eqb_refl.
Qed.

Lemma str_eqb_neq : forall a b, str_eqb a b = false <-> a <> b.
Proof.
  intros a b. split.
  - intros H E. apply str_eqb_eq in E. rewrite E in H. discriminate.
  - intros H. destruct (str_eqb a b) eqn:E; [|reflexivity]. apply str_eqb_eq in E. contradiction.
Qed.

Lemma str_eqb_sym : forall a b, str_eqb a b = str_eqb b a.
Proof.
  intros a b. destruct (str_eqb a b) eqn:E.
  - apply str_eqb_eq in E. subst. symmetry. apply str_eqb_refl.
  - symmetry. apply str_eqb_neq. apply str_eqb_neq in E. intro H. apply E. symmetry. exact H.
Qed.

Local Arguments str_eqb : simpl never.

Lemma sget_app : forall {V} k (a b : list (str * V)),
  sget k (a ++ b) = match sget k a with Some v => Some v | None => sget k b end.
Proof.
  intros V k a b. induction a as [|[k' v] a IH]; cbn [app sget]; [reflexivity|].
  destruct (str_eqb k k'); [reflexivity|exact IH].
Qed.

Lemma sget_sremove_same : forall {V} k (m : list (str * V)), sget k (sremove k m) = None.
Proof.
  intros V k m. induction m as [|[k' v] m IH]; cbn [sremove sget]; [reflexivity|].
  destruct (str_eqb k k') eqn:E; [exact IH|]. cbn [sget]. rewrite E. exact IH.
Qed.

Lemma sget_sremove_other : forall {V} k k0 (m : list (str * V)),
  str_eqb k k0 = false -> sget k (sremove k0 m) = sget k m.
Proof.
  intros V k k0 m Hne. induction m as [|[k' v] m IH]; cbn [sremove sget]; [reflexivity|].
  destruct (str_eqb k0 k') eqn:E.
  - apply str_eqb_eq in E. subst k'. rewrite Hne. exact IH.
  - cbn [sget]. destruct (str_eqb k k'); [reflexivity|exact IH].
Qed.

Lemma sget_sset_same : forall {V} k (v : V) (m : list (str * V)), sget k (sset k v m) = Some v.
Proof.
  intros V k v m. induction m as [|[k' v'] m IH]; cbn [sset sget].
  - rewrite str_eqb_refl. reflexivity.
  - destruct (str_eqb k k') eqn:E; cbn [sget]; rewrite E; [reflexivity|exact IH].
Qed.

Lemma sget_sset_other : forall {V} k k0 (v : V) (m : list (str * V)),
  str_eqb k k0 = false -> sget k (sset k0 v m) = sget k m.
Proof.
  intros V k k0 v m Hne. induction m as [|[k' v'] m IH]; cbn [sset sget].
  - rewrite Hne. reflexivity.
  - destruct (str_eqb k0 k') eqn:E; cbn [sget].
    + apply str_eqb_eq in E. subst k'. rewrite Hne. reflexivity.
    + destruct (str_eqb k k'); [reflexivity|exact IH].
Qed.

Lemma sremove_absent : forall {V} k (m : list (str * V)), smem k (map fst m) = false -> sremove k m = m.
Proof.
  intros V k m. induction m as [|[k' v] m IH]; cbn [map fst smem sremove]; [reflexivity|].
  intros H. apply orb_false_iff in H. destruct H as [H1 H2]. rewrite H1, (IH H2). reflexivity.
Qed.

Lemma sget_opt_entry : forall {T} k k' (f : T -> json) o,
  sget k (opt_entry k' f o) = if str_eqb k k' then option_map f o else None.
Proof. intros T k k' f [x|]; cbn [opt_entry sget option_map]; destruct (str_eqb k k'); reflexivity. Qed.

Definition lookup_list {T} (f : T -> json) (l : list T) : option json :=
  match l with [] => None | _ => Some (JArr (map f l)) end.
Lemma sget_list_entry : forall {T} k k' (f : T -> json) l,
  sget k (list_entry k' f l) = if str_eqb k k' then lookup_list f l else None.
Proof. intros T k k' f [|x l]; cbn [list_entry sget lookup_list]; destruct (str_eqb k k'); reflexivity. Qed.

Lemma opt_id : forall {T} (o : option T), match o with Some v => Some v | None => None end = o.
Proof. intros T [x|]; reflexivity. Qed.

Lemma map_opt_map : forall {X Y} (f : X -> Y) (g : Y -> option X) l,
  (forall x, g (f x) = Some x) -> map_opt g (map f l) = Some l.
Proof.
  intros X Y f g l H. induction l as [|x l IH]; [reflexivity|].
  cbn [map map_opt]. rewrite H, IH. reflexivity.
Qed.

(* ------------------------------------------------------------ decoders invert encoders *)

Lemma dec_pos_enc : forall p, dec_pos (enc_pos p) = Some p.
Proof. intros [l c]. reflexivity. Qed.
Lemma dec_range_enc : forall r, dec_range (enc_range r) = Some r.
Proof. intros [[a b] [c d]]. reflexivity. Qed.
Local Arguments enc_range : simpl never.
Local Arguments dec_range : simpl never.

Lemma dec_swr_map_fields : forall s rest, dec_swr_map (swr_fields s ++ rest) = Some s.
Proof.
  intros [t r] rest. unfold dec_swr_map, swr_fields, req, jget. cbn. keq. cbn.
  rewrite dec_range_enc. reflexivity.
Qed.
Lemma dec_swr_enc : forall s, dec_swr (enc_swr s) = Some s.
Proof.
  intros s. unfold dec_swr, enc_swr. rewrite <- (app_nil_r (swr_fields s)). apply dec_swr_map_fields.
Qed.
Lemma dec_opt_swr_enc : forall s, dec_option dec_swr (enc_swr s) = Some (Some s).
Proof. intros s. unfold dec_option. rewrite dec_swr_enc. reflexivity. Qed.
Local Arguments enc_swr : simpl never.
Local Arguments dec_swr : simpl never.

Lemma skind_name_inv : forall k, skind_of_name (skind_name k) = Some k.
Proof. intros []; vm_compute; reflexivity. Qed.
Lemma dkind_name_inv : forall k, dkind_of_name (dkind_name k) = Some k.
Proof. intros []; vm_compute; reflexivity. Qed.
Lemma rmode_name_inv : forall k, rmode_of_name (rmode_name k) = Some k.
Proof. intros []; vm_compute; reflexivity. Qed.

Lemma dec_skind_enc : forall c k, dec_skind c (JStr (skind_name k)) = Some k.
Proof. intros c k. unfold dec_skind. cbn. apply skind_name_inv. Qed.
Lemma dec_dkind_enc : forall c k, dec_dkind c (JStr (dkind_name k)) = Some k.
Proof. intros c k. unfold dec_dkind. cbn. apply dkind_name_inv. Qed.
Lemma dec_rmode_enc : forall c k, dec_rmode c (JStr (rmode_name k)) = Some k.
Proof. intros c k. unfold dec_rmode. cbn. apply rmode_name_inv. Qed.
Local Arguments dec_skind : simpl never.
Local Arguments dec_dkind : simpl never.
Local Arguments dec_rmode : simpl never.

Lemma dec_iattr_enc : forall a, dec_iattr (enc_iattr a) = Some a.
Proof. intros []; reflexivity. Qed.
Lemma dec_iattr_entries_enc : forall m,
  map_opt dec_iattr_entry (map (fun kv => (fst kv, enc_iattr (snd kv))) m) = Some m.
Proof.
  induction m as [|[k v] m IH]; [reflexivity|].
  cbn [map map_opt fst snd]. unfold dec_iattr_entry at 1. cbn [fst snd]. rewrite dec_iattr_enc, IH. reflexivity.
Qed.
Lemma dec_iattrs_enc : forall c a, dec_iattrs c (enc_iattrs a) = Some a.
Proof.
  intros c [| |m]; unfold dec_iattrs, enc_iattrs; keq; try reflexivity.
  rewrite dec_iattr_entries_enc. reflexivity.
Qed.
Local Arguments enc_iattrs : simpl never.
Local Arguments dec_iattrs : simpl never.

Lemma dec_tpart_enc : forall p, dec_tpart (enc_tpart p) = Some p.
Proof. intros [v|]; vm_compute; reflexivity. Qed.
Lemma dec_darg_enc : forall a, dec_darg (enc_darg a) = Some a.
Proof.
  intros [s|l|]; unfold dec_darg, enc_darg; try reflexivity.
  rewrite (map_opt_map enc_tpart dec_tpart l dec_tpart_enc). reflexivity.
Qed.
Local Arguments enc_darg : simpl never.
Local Arguments dec_darg : simpl never.

Lemma dec_sdesc_fields : forall d, dec_sdesc (JObj (sdesc_fields d)) = Some d.
Proof.
  intros [k t s r e a]. unfold dec_sdesc, sdesc_fields, iattrs_entry, opt_entry, req, dflt, jget.
  destruct t as [t|]; destruct e; destruct a as [| |m]; cbn; keq; cbn;
    rewrite ?dec_skind_enc; cbn; rewrite ?dec_opt_swr_enc; cbn; rewrite ?dec_range_enc; cbn;
    rewrite ?dec_iattrs_enc; reflexivity.
Qed.

Lemma dec_ddesc_fields : forall d, dec_ddesc (JObj (ddesc_fields d)) = Some d.
Proof.
  intros [k t g r a]. unfold dec_ddesc, ddesc_fields, iattrs_entry, opt_entry, req, dflt, jget.
  destruct k; destruct t as [t|]; destruct g as [s|l|]; destruct a as [| |m]; cbn; keq; cbn;
    rewrite ?dec_dkind_enc; cbn; rewrite ?dec_opt_swr_enc; cbn; rewrite ?dec_darg_enc; cbn;
    rewrite ?dec_range_enc; cbn; rewrite ?dec_iattrs_enc; reflexivity.
Qed.

(* the tag never collides with a field of the variant *)
Lemma sdesc_fields_no_type : forall d, sremove k_type (sdesc_fields d) = sdesc_fields d.
Proof.
  intros [k t s r e a]. apply sremove_absent. unfold sdesc_fields, iattrs_entry, opt_entry.
  destruct t; destruct e; destruct a; vm_compute; reflexivity.
Qed.
Lemma ddesc_fields_no_type : forall d, sremove k_type (ddesc_fields d) = ddesc_fields d.
Proof.
  intros [k t g r a]. apply sremove_absent. unfold ddesc_fields, iattrs_entry, opt_entry.
  destruct k; destruct t; destruct g; destruct a; vm_compute; reflexivity.
Qed.

Lemma dec_desc_enc : forall d, dec_desc (enc_desc d) = Some d.
Proof.
  intros [s|s]; unfold dec_desc, enc_desc, split_tagged, jget; cbn [sget sremove]; keq;
    cbn [tag_name option_bind]; keq; cbn [sremove].
  - rewrite sdesc_fields_no_type, dec_sdesc_fields. reflexivity.
  - rewrite ddesc_fields_no_type, dec_ddesc_fields. reflexivity.
Qed.

Lemma dec_tsref_enc : forall r, dec_tsref (enc_tsref r) = Some r.
Proof.
  intros [[t r]|[t r] m]; unfold dec_tsref, enc_tsref, split_tagged, jget; cbn [sget]; keq;
    cbn [tag_name option_bind]; keq; unfold swr_fields, mode_entry, opt_entry; cbn [sremove app s_text s_range]; keq; cbn iota.
  - change (JObj [(k_text, JStr t); (k_range, enc_range r)]) with (enc_swr {| s_text := t; s_range := r |}).
    rewrite dec_swr_enc. reflexivity.
  - destruct m as [x|]; cbn [sremove app]; keq; cbn iota; unfold dec_swr_map, dflt, req, jget; cbn [sget]; keq;
      cbn [dec_string option_bind]; rewrite dec_range_enc; cbn [option_bind dec_option];
      rewrite ?dec_rmode_enc; reflexivity.
Qed.

Lemma dec_jsdoc_enc : forall d, dec_jsdoc (enc_jsdoc d) = Some d.
Proof.
  intros [[t r] m]. unfold dec_jsdoc, enc_jsdoc, swr_fields, mode_entry, opt_entry.
  destruct m as [x|]; cbn [app jd_spec jd_mode s_text s_range]; unfold dec_swr_map, dflt, req, jget;
    cbn [sget]; keq; cbn [dec_string option_bind]; rewrite dec_range_enc; cbn [option_bind dec_option];
    rewrite ?dec_rmode_enc; reflexivity.
Qed.

Local Arguments enc_desc : simpl never.
Local Arguments dec_desc : simpl never.
Local Arguments enc_tsref : simpl never.
Local Arguments dec_tsref : simpl never.
Local Arguments enc_jsdoc : simpl never.
Local Arguments dec_jsdoc : simpl never.

Lemma dflt_list_rt : forall {T} (enc : T -> json) (dec : json -> option T) l,
  (forall x, dec (enc x) = Some x) ->
  match lookup_list enc l with Some v => dec_list dec v | None => Some [] end = Some l.
Proof.
  intros T enc dec [|x l] H; [reflexivity|]. unfold lookup_list, dec_list. apply map_opt_map. exact H.
Qed.
Lemma dflt_opt_swr_rt : forall o,
  match option_map enc_swr o with Some v => dec_option dec_swr v | None => Some None end = Some o.
Proof. intros [s|]; [apply dec_opt_swr_enc | reflexivity]. Qed.

Theorem dec_module_info_enc : forall mi, dec_module_info (enc_module_info mi) = Some mi.
Proof.
  intros [a b c d e f g h]. unfold dec_module_info, enc_module_info, dflt, jget.
  cbn [mi_script mi_deps mi_tsrefs mi_self mi_jsx mi_jsxt mi_jsdoc mi_smap].
  destruct a; rewrite !sget_app, !sget_opt_entry, !sget_list_entry; cbn [sget]; keq; cbn iota; rewrite !opt_id;
    rewrite (dflt_list_rt enc_desc dec_desc b dec_desc_enc), (dflt_list_rt enc_tsref dec_tsref c dec_tsref_enc),
      (dflt_list_rt enc_jsdoc dec_jsdoc g dec_jsdoc_enc), !dflt_opt_swr_rt; reflexivity.
Qed.

Theorem enc_module_info_injective : forall a b, enc_module_info a = enc_module_info b -> a = b.
Proof.
  intros a b H. assert (E : Some a = Some b).
  { rewrite <- (dec_module_info_enc a), <- (dec_module_info_enc b), H. reflexivity. }
  inversion E. reflexivity.
Qed.

(* ------------------------------------------------------------ equality up to attribute-map order *)

Lemma map_eq_refl : forall {V} (m : list (str * V)), map_eq m m.
Proof. intros V m k. reflexivity. Qed.
Lemma iattrs_eq_refl : forall a, iattrs_eq a a.
Proof. intros [| |m]; cbn; [exact I|exact I|apply map_eq_refl]. Qed.
Lemma desc_eq_refl : forall d, desc_eq d d.
Proof. intros [s|s]; cbn; repeat split; apply iattrs_eq_refl. Qed.
Lemma info_eq_refl : forall mi, info_eq mi mi.
Proof.
  intros mi. unfold info_eq. repeat split.
  induction (mi_deps mi) as [|d l IH]; constructor; [apply desc_eq_refl|exact IH].
Qed.

(* ------------------------------------------------------------ encodings are JSON values (distinct keys) *)

Lemma json_wfb_arr : forall l, json_wfb (JArr l) = forallb json_wfb l.
Proof. intros l. cbn [json_wfb]. induction l as [|x l IH]; [reflexivity|]. cbn [forallb]. rewrite <- IH. reflexivity. Qed.
Lemma json_wfb_obj : forall m,
  json_wfb (JObj m) = nodup_strb (map fst m) && forallb (fun kv => json_wfb (snd kv)) m.
Proof.
  intros m. cbn [json_wfb]. apply f_equal. induction m as [|kv m IH]; [reflexivity|].
  cbn [forallb]. rewrite <- IH. reflexivity.
Qed.

Ltac knodup :=
  repeat match goal with
  | |- context [nodup_strb ?l] =>
      let v := eval vm_compute in (nodup_strb l) in
      match v with
      | true => change (nodup_strb l) with true
      end
  end.

Lemma wf_enc_range : forall r, json_wfb (enc_range r) = true.
Proof. intros [[a b] [c d]]. reflexivity. Qed.
Lemma wf_enc_swr : forall s, json_wfb (enc_swr s) = true.
Proof.
  intros [t r]. unfold enc_swr, swr_fields. rewrite json_wfb_obj. cbn [map fst forallb snd s_text s_range].
  knodup. rewrite wf_enc_range. reflexivity.
Qed.
Lemma wf_enc_iattrs : forall a, wf_iattrsb a = true -> json_wfb (enc_iattrs a) = true.
Proof.
  intros [| |m] H; [reflexivity|reflexivity|]. unfold enc_iattrs. rewrite json_wfb_obj.
  cbn [map fst forallb snd]. knodup. rewrite json_wfb_obj, map_map. cbn [fst andb].
  cbn [wf_iattrsb] in H. change (fun x : str * iattr => fst x) with (@fst str iattr).
  rewrite H. cbn [andb]. rewrite andb_true_r.
  clear H. induction m as [|[k v] m IH]; [reflexivity|]. cbn [map forallb snd]. rewrite IH.
  destruct v; reflexivity.
Qed.
Lemma wf_enc_tpart : forall p, json_wfb (enc_tpart p) = true.
Proof. intros [v|]; reflexivity. Qed.
Lemma wf_enc_darg : forall a, json_wfb (enc_darg a) = true.
Proof.
  intros [s|l|]; try reflexivity. unfold enc_darg. rewrite json_wfb_arr.
  induction l as [|p l IH]; [reflexivity|]. cbn [map forallb]. rewrite wf_enc_tpart, IH. reflexivity.
Qed.

Lemma wf_enc_desc : forall d, wf_descb d = true -> json_wfb (enc_desc d) = true.
Proof.
  intros [[k t s r e a]|[k t g r a]] H; cbn [wf_descb sd_attrs dd_attrs] in H;
    unfold enc_desc, sdesc_fields, ddesc_fields, iattrs_entry, opt_entry; rewrite json_wfb_obj.
  - destruct t as [t|]; destruct e; destruct a as [| |m];
      cbn [app map fst forallb snd sd_kind sd_types sd_spec sd_range sd_side sd_attrs]; knodup;
      rewrite ?wf_enc_swr, ?wf_enc_range, ?(wf_enc_iattrs _ H); reflexivity.
  - destruct k; destruct t as [t|]; destruct g as [s|l|]; destruct a as [| |m];
      cbn [app map fst forallb snd dd_kind dd_types dd_arg dd_range dd_attrs dkind_name]; knodup;
      rewrite ?wf_enc_swr, ?wf_enc_range, ?wf_enc_darg, ?(wf_enc_iattrs _ H); reflexivity.
Qed.
Lemma wf_enc_tsref : forall r, json_wfb (enc_tsref r) = true.
Proof.
  intros [[t r]|[t r] m]; unfold enc_tsref, swr_fields, mode_entry, opt_entry; rewrite json_wfb_obj.
  - cbn [map fst forallb snd s_text s_range]. knodup. rewrite wf_enc_range. reflexivity.
  - destruct m; cbn [app map fst forallb snd s_text s_range]; knodup; rewrite wf_enc_range; reflexivity.
Qed.
Lemma wf_enc_jsdoc : forall d, json_wfb (enc_jsdoc d) = true.
Proof.
  intros [[t r] m]. unfold enc_jsdoc, swr_fields, mode_entry, opt_entry. rewrite json_wfb_obj.
  destruct m; cbn [app map fst forallb snd s_text s_range jd_spec jd_mode]; knodup; rewrite wf_enc_range; reflexivity.
Qed.

Lemma forallb_wf_opt_entry : forall {T} k (f : T -> json) o,
  (forall x, json_wfb (f x) = true) -> forallb (fun kv => json_wfb (snd kv)) (opt_entry k f o) = true.
Proof. intros T k f [x|] H; cbn [opt_entry forallb snd]; [rewrite H|]; reflexivity. Qed.
Lemma forallb_map_comp : forall {X Y} (g : Y -> bool) (f : X -> Y) l,
  forallb g (map f l) = forallb (fun x => g (f x)) l.
Proof. intros X Y g f l. induction l as [|x l IH]; [reflexivity|]. cbn [map forallb]. rewrite IH. reflexivity. Qed.
Lemma forallb_wf_list_entry : forall {T} k (f : T -> json) l,
  forallb (fun x => json_wfb (f x)) l = true ->
  forallb (fun kv => json_wfb (snd kv)) (list_entry k f l) = true.
Proof.
  intros T k f l H. destruct l as [|x l]; [reflexivity|]. cbn [list_entry forallb snd].
  rewrite json_wfb_arr, forallb_map_comp, H. reflexivity.
Qed.
Lemma forallb_true : forall {X} (g : X -> bool) l, (forall x, g x = true) -> forallb g l = true.
Proof. intros X g l H. induction l as [|x l IH]; [reflexivity|]. cbn [forallb]. rewrite H, IH. reflexivity. Qed.

Lemma keys_enc_module_info : forall mi,
  match enc_module_info mi with JObj m => nodup_strb (map fst m) = true | _ => False end.
Proof.
  intros [a b c d e f g h]. unfold enc_module_info, list_entry, opt_entry.
  cbn [mi_script mi_deps mi_tsrefs mi_self mi_jsx mi_jsxt mi_jsdoc mi_smap].
  destruct a; destruct b; destruct c; destruct d; destruct e; destruct f; destruct g; destruct h;
    vm_compute; reflexivity.
Qed.

Lemma wf_enc_descs : forall l, forallb wf_descb l = true -> forallb (fun x => json_wfb (enc_desc x)) l = true.
Proof.
  induction l as [|d l IH]; [reflexivity|]. cbn [forallb]. intros H.
  apply andb_true_iff in H. destruct H as [H1 H2]. rewrite (wf_enc_desc d H1). exact (IH H2).
Qed.

Theorem wf_enc_module_info : forall mi, WfInfo mi -> json_wfb (enc_module_info mi) = true.
Proof.
  intros mi H. pose proof (keys_enc_module_info mi) as K. unfold enc_module_info in *.
  rewrite json_wfb_obj. rewrite K. cbn [andb]. rewrite !forallb_app.
  rewrite (forallb_wf_list_entry k_dependencies enc_desc (mi_deps mi)) by (apply wf_enc_descs; exact H).
  rewrite (forallb_wf_list_entry k_tsReferences enc_tsref (mi_tsrefs mi)) by (apply forallb_true; exact wf_enc_tsref).
  rewrite (forallb_wf_list_entry k_jsdocImports enc_jsdoc (mi_jsdoc mi)) by (apply forallb_true; exact wf_enc_jsdoc).
  rewrite !(forallb_wf_opt_entry _ enc_swr _ wf_enc_swr).
  destruct (mi_script mi); reflexivity.
Qed.

Theorem roundtrip : forall mi, WfInfo mi ->
  json_wfb (enc_module_info mi) = true /\
  exists mi', dec_module_info (enc_module_info mi) = Some mi' /\ info_eq mi mi' /\ WfInfo mi'.
Proof.
  intros mi H. split; [apply wf_enc_module_info; exact H|].
  exists mi. split; [apply dec_module_info_enc|]. split; [apply info_eq_refl|exact H].
Qed.

(* ------------------------------------------------------------ moduleGraph1 -> moduleGraph2 *)

(* normalise lookups of closed keys through sremove / sset of other closed keys *)
Ltac look :=
  repeat ((rewrite sget_sremove_other by reflexivity)
          || (rewrite sget_sset_other by reflexivity)
          || rewrite sget_sset_same
          || rewrite sget_sremove_same).

Definition desc_keys : list str :=
  [k_type; k_kind; k_typesSpecifier; k_specifier; k_specifierRange; k_sideEffect; k_importAttributes;
   k_argument; k_argumentRange].

(* the descriptor decoders in map form, as functions of the lookups they perform *)
Definition sdesc_of (ok ot os or oe oa : option json) : option sdesc :=
  do k <- match ok with Some v => dec_skind true v | None => None end;
  do t <- match ot with Some v => dec_option dec_swr v | None => Some None end;
  do s <- match os with Some v => dec_string v | None => None end;
  do r <- match or with Some v => dec_range v | None => None end;
  do e <- match oe with Some v => dec_bool v | None => Some false end;
  do a <- match oa with Some v => dec_iattrs true v | None => Some IANone end;
  Some {| sd_kind := k; sd_types := t; sd_spec := s; sd_range := r; sd_side := e; sd_attrs := a |}.
Definition ddesc_of (ok ot og or oa : option json) : option ddesc :=
  do k <- match ok with Some v => dec_dkind true v | None => Some DkImport end;
  do t <- match ot with Some v => dec_option dec_swr v | None => Some None end;
  do g <- match og with Some v => dec_darg v | None => Some DaExpr end;
  do r <- match or with Some v => dec_range v | None => None end;
  do a <- match oa with Some v => dec_iattrs true v | None => Some IANone end;
  Some {| dd_kind := k; dd_types := t; dd_arg := g; dd_range := r; dd_attrs := a |}.
Definition desc_of (otag ok ot os osr oe oa og oar : option json) : option desc :=
  match otag with
  | Some tj =>
      match tag_name false [k_static; k_dynamic] tj with
      | Some n =>
          if str_eqb n k_static then option_map DStatic (sdesc_of ok ot os osr oe oa)
          else if str_eqb n k_dynamic then option_map DDynamic (ddesc_of ok ot og oar oa)
          else None
      | None => None
      end
  | None => None
  end.

Lemma dec_desc_obj : forall m,
  dec_desc (JObj m) =
  desc_of (sget k_type m) (sget k_kind m) (sget k_typesSpecifier m) (sget k_specifier m)
    (sget k_specifierRange m) (sget k_sideEffect m) (sget k_importAttributes m) (sget k_argument m)
    (sget k_argumentRange m).
Proof.
  intros m. unfold dec_desc, split_tagged, desc_of, jget.
  destruct (sget k_type m) as [tj|]; [|reflexivity]. cbn [option_bind].
  destruct (tag_name false [k_static; k_dynamic] tj) as [n|]; [|reflexivity]. cbn [option_bind].
  unfold dec_sdesc, dec_ddesc, sdesc_of, ddesc_of, req, dflt, jget.
  rewrite !(sget_sremove_other _ k_type) by reflexivity. reflexivity.
Qed.

(* a dependency descriptor in map form is decoded from these nine lookups only *)
Lemma dec_desc_ext : forall m m',
  (forall k, smem k desc_keys = true -> sget k m = sget k m') -> dec_desc (JObj m) = dec_desc (JObj m').
Proof.
  intros m m' H. rewrite !dec_desc_obj.
  rewrite (H k_type), (H k_kind), (H k_typesSpecifier), (H k_specifier), (H k_specifierRange),
    (H k_sideEffect), (H k_importAttributes), (H k_argument), (H k_argumentRange) by reflexivity.
  reflexivity.
Qed.

Ltac bind_steps :=
  repeat (match goal with
          | |- context [option_bind ?x _] => destruct x
          end; cbn [option_bind option_map with_types]; try reflexivity; try discriminate).

Lemma dec_desc_set_types : forall m s,
  dec_desc (JObj (sset k_typesSpecifier (enc_swr s) m)) =
  option_map (with_types (Some s)) (dec_desc (JObj (sremove k_typesSpecifier m))).
Proof.
  intros m s. rewrite !dec_desc_obj. rewrite sget_sset_same, sget_sremove_same.
  rewrite !(sget_sset_other _ k_typesSpecifier) by reflexivity.
  rewrite !(sget_sremove_other _ k_typesSpecifier) by reflexivity.
  unfold desc_of, sdesc_of, ddesc_of. rewrite dec_opt_swr_enc.
  destruct (sget k_type m) as [tj|]; [|reflexivity].
  destruct (tag_name false [k_static; k_dynamic] tj) as [n|]; [|reflexivity].
  destruct (str_eqb n k_static).
  - bind_steps.
  - destruct (str_eqb n k_dynamic); [|reflexivity]. bind_steps.
Qed.

Lemma dec_desc_remove_types : forall m d,
  dec_desc (JObj m) = Some d -> dec_desc (JObj (sremove k_typesSpecifier m)) = Some (with_types None d).
Proof.
  intros m d. rewrite !dec_desc_obj. rewrite sget_sremove_same.
  rewrite !(sget_sremove_other _ k_typesSpecifier) by reflexivity.
  unfold desc_of, sdesc_of, ddesc_of.
  destruct (sget k_type m) as [tj|]; [|discriminate].
  destruct (tag_name false [k_static; k_dynamic] tj) as [n|]; [|discriminate].
  destruct (str_eqb n k_static).
  - bind_steps; intros E; inversion E; reflexivity.
  - destruct (str_eqb n k_dynamic); [|discriminate]. bind_steps; intros E; inversion E; reflexivity.
Qed.

Lemma with_types_twice : forall a b d, with_types a (with_types b d) = with_types a d.
Proof. intros a b [s|s]; reflexivity. Qed.

Lemma desc_types_with_types : forall t d, desc_types (with_types t d) = t.
Proof. intros t [s|s]; reflexivity. Qed.

(* the keys of the upgraded dependency object *)
Lemma upgrade_dep_keys : forall fdt dm cs s,
  leading_comments dm = Some cs -> analyze_deno_types fdt cs = Some s ->
  exists dm', upgrade_dep fdt (JObj dm) = JObj dm' /\
    jget k_typesSpecifier dm' = Some (enc_swr s) /\
    jget k_leadingComments dm' = None /\
    (forall k, k <> k_typesSpecifier -> k <> k_leadingComments -> jget k dm' = jget k dm).
Proof.
  intros fdt dm cs s Hc Ha. unfold upgrade_dep. rewrite Hc, Ha.
  eexists. split; [reflexivity|]. unfold jget. split; [look; reflexivity|]. split; [look; reflexivity|].
  intros k H1 H2. apply str_eqb_neq in H1. apply str_eqb_neq in H2.
  rewrite (sget_sremove_other _ _ _ H2), (sget_sset_other _ _ _ _ H1). reflexivity.
Qed.

Theorem v1_upgrade_general : forall fdt dm cs s,
  leading_comments dm = Some cs -> analyze_deno_types fdt cs = Some s ->
  dec_desc (upgrade_dep fdt (JObj dm)) =
  option_map (with_types (Some s)) (dec_desc (JObj (sremove k_typesSpecifier dm))).
Proof.
  intros fdt dm cs s Hc Ha. unfold upgrade_dep. rewrite Hc, Ha.
  rewrite <- dec_desc_set_types. apply dec_desc_ext. intros k Hk.
  apply sget_sremove_other. unfold desc_keys in Hk. cbn [smem] in Hk.
  destruct (str_eqb k k_leadingComments) eqn:E; [|reflexivity].
  apply str_eqb_eq in E. subst k. vm_compute in Hk. discriminate.
Qed.

Theorem v1_upgrade_decoded : forall fdt dm cs s d,
  leading_comments dm = Some cs -> analyze_deno_types fdt cs = Some s ->
  dec_desc (JObj dm) = Some d ->
  dec_desc (upgrade_dep fdt (JObj dm)) = Some (with_types (Some s) d).
Proof.
  intros fdt dm cs s d Hc Ha Hd. rewrite (v1_upgrade_general fdt dm cs s Hc Ha).
  rewrite (dec_desc_remove_types dm d Hd). cbn [option_map]. rewrite with_types_twice. reflexivity.
Qed.

(* leading comments without a @deno-types pragma on the last one are just dropped *)
Theorem v1_no_pragma : forall fdt dm cs,
  leading_comments dm = Some cs -> analyze_deno_types fdt cs = None ->
  dec_desc (upgrade_dep fdt (JObj dm)) = dec_desc (JObj dm).
Proof.
  intros fdt dm cs Hc Ha. unfold upgrade_dep. rewrite Hc, Ha. apply dec_desc_ext. intros k Hk.
  apply sget_sremove_other. unfold desc_keys in Hk. cbn [smem] in Hk.
  destruct (str_eqb k k_leadingComments) eqn:E; [|reflexivity].
  apply str_eqb_eq in E. subst k. vm_compute in Hk. discriminate.
Qed.

(* an object without a well-formed leadingComments array, and any non-object, is untouched *)
Theorem v1_untouched : forall fdt d,
  (forall dm, d = JObj dm -> leading_comments dm = None) -> upgrade_dep fdt d = d.
Proof.
  intros fdt d H. destruct d as [| | | | |dm]; try reflexivity.
  unfold upgrade_dep. rewrite (H dm eq_refl). reflexivity.
Qed.

(* ---- module level *)

Definition minfo_of (oa ob oc od oe of_ og oh : option json) : option minfo :=
  do a <- match oa with Some v => dec_bool v | None => Some false end;
  do b <- match ob with Some v => dec_list dec_desc v | None => Some [] end;
  do c <- match oc with Some v => dec_list dec_tsref v | None => Some [] end;
  do d <- match od with Some v => dec_option dec_swr v | None => Some None end;
  do e <- match oe with Some v => dec_option dec_swr v | None => Some None end;
  do f <- match of_ with Some v => dec_option dec_swr v | None => Some None end;
  do g <- match og with Some v => dec_list dec_jsdoc v | None => Some [] end;
  do h <- match oh with Some v => dec_option dec_swr v | None => Some None end;
  Some {| mi_script := a; mi_deps := b; mi_tsrefs := c; mi_self := d; mi_jsx := e; mi_jsxt := f;
          mi_jsdoc := g; mi_smap := h |}.

Lemma dec_module_info_obj : forall m,
  dec_module_info (JObj m) =
  minfo_of (sget k_script m) (sget k_dependencies m) (sget k_tsReferences m) (sget k_selfTypesSpecifier m)
    (sget k_jsxImportSource m) (sget k_jsxImportSourceTypes m) (sget k_jsdocImports m) (sget k_sourceMapUrl m).
Proof. reflexivity. Qed.

Definition set_deps (ds : list desc) (mi : minfo) : minfo :=
  {| mi_script := mi_script mi; mi_deps := ds; mi_tsrefs := mi_tsrefs mi; mi_self := mi_self mi;
     mi_jsx := mi_jsx mi; mi_jsxt := mi_jsxt mi; mi_jsdoc := mi_jsdoc mi; mi_smap := mi_smap mi |}.

(* the upgrade touches the dependencies only, one by one *)
Theorem v1_module : forall fdt m deps,
  jget k_dependencies m = Some (JArr deps) ->
  dec_module_info (upgrade_v1 fdt (JObj m)) =
  match dec_module_info (JObj (sremove k_dependencies m)), map_opt dec_desc (map (upgrade_dep fdt) deps) with
  | Some mi0, Some ds => Some (set_deps ds mi0)
  | _, _ => None
  end.
Proof.
  intros fdt m deps H. unfold upgrade_v1. rewrite H. rewrite !dec_module_info_obj.
  rewrite sget_sset_same, sget_sremove_same.
  rewrite !(sget_sset_other _ k_dependencies) by reflexivity.
  rewrite !(sget_sremove_other _ k_dependencies) by reflexivity.
  unfold minfo_of, dec_list at 1.
  destruct (map_opt dec_desc (map (upgrade_dep fdt) deps)) as [ds|];
    repeat (match goal with |- context [option_bind ?x _] => destruct x end; cbn [option_bind]; try reflexivity).
Qed.

(* anything that is not an object with a dependencies array is returned as it is *)
Theorem v1_module_untouched : forall fdt j,
  (forall m deps, j = JObj m -> jget k_dependencies m <> Some (JArr deps)) -> upgrade_v1 fdt j = j.
Proof.
  intros fdt j H. destruct j as [| | | | |m]; try reflexivity. unfold upgrade_v1.
  destruct (jget k_dependencies m) as [[| | | |deps|]|] eqn:E; try reflexivity.
  exfalso. exact (H m deps eq_refl E).
Qed.

(* ------------------------------------------------------------ boolean equalities are sound *)

Lemma pos_eqb_eq : forall a b, pos_eqb a b = true -> a = b.
Proof.
  intros [a1 a2] [b1 b2] H. unfold pos_eqb in H. cbn [p_line p_char] in H.
  apply andb_true_iff in H. destruct H as [H1 H2]. apply N.eqb_eq in H1. apply N.eqb_eq in H2. subst. reflexivity.
Qed.
Lemma range_eqb_eq : forall a b, range_eqb a b = true -> a = b.
Proof.
  intros [a1 a2] [b1 b2] H. unfold range_eqb in H. cbn [r_start r_end] in H.
  apply andb_true_iff in H. destruct H as [H1 H2]. apply pos_eqb_eq in H1. apply pos_eqb_eq in H2. subst. reflexivity.
Qed.
Lemma swr_eqb_eq : forall a b, swr_eqb a b = true -> a = b.
Proof.
  intros [a1 a2] [b1 b2] H. unfold swr_eqb in H. cbn [s_text s_range] in H.
  apply andb_true_iff in H. destruct H as [H1 H2]. apply str_eqb_eq in H1. apply range_eqb_eq in H2. subst. reflexivity.
Qed.
Lemma swr_eqb_refl : forall a, swr_eqb a a = true.
Proof.
  intros [t [[a b] [c d]]]. unfold swr_eqb, range_eqb, pos_eqb. cbn [s_text s_range r_start r_end p_line p_char].
  rewrite str_eqb_refl, !N.eqb_refl. reflexivity.
Qed.
Lemma opt_eqb_eq : forall {T} (f : T -> T -> bool) a b,
  (forall x y, f x y = true -> x = y) -> opt_eqb f a b = true -> a = b.
Proof.
  intros T f [x|] [y|] Hf H; cbn [opt_eqb] in H; try discriminate; [|reflexivity].
  rewrite (Hf x y H). reflexivity.
Qed.
Lemma list_eqb_eq : forall {T} (f : T -> T -> bool) a b,
  (forall x y, f x y = true -> x = y) -> list_eqb f a b = true -> a = b.
Proof.
  intros T f a. induction a as [|x a IH]; intros [|y b] Hf H; cbn [list_eqb] in H; try discriminate; [reflexivity|].
  apply andb_true_iff in H. destruct H as [H1 H2]. rewrite (Hf x y H1), (IH b Hf H2). reflexivity.
Qed.
Lemma iattr_eqb_eq : forall a b, iattr_eqb a b = true -> a = b.
Proof.
  intros [|s] [|t] H; cbn [iattr_eqb] in H; try discriminate; [reflexivity|].
  apply str_eqb_eq in H. subst. reflexivity.
Qed.
Lemma skind_eqb_eq : forall a b, skind_eqb a b = true -> a = b.
Proof. intros [] [] H; vm_compute in H; try discriminate; reflexivity. Qed.
Lemma dkind_eqb_eq : forall a b, dkind_eqb a b = true -> a = b.
Proof. intros [] [] H; vm_compute in H; try discriminate; reflexivity. Qed.
Lemma rmode_eqb_eq : forall a b, rmode_eqb a b = true -> a = b.
Proof. intros [] [] H; try discriminate; reflexivity. Qed.
Lemma tpart_eqb_eq : forall a b, tpart_eqb a b = true -> a = b.
Proof.
  intros [s|] [t|] H; cbn [tpart_eqb] in H; try discriminate; [|reflexivity].
  apply str_eqb_eq in H. subst. reflexivity.
Qed.
Lemma darg_eqb_eq : forall a b, darg_eqb a b = true -> a = b.
Proof.
  intros [s|l|] [t|l'|] H; cbn [darg_eqb] in H; try discriminate; try reflexivity.
  - apply str_eqb_eq in H. subst. reflexivity.
  - rewrite (list_eqb_eq tpart_eqb l l' tpart_eqb_eq H). reflexivity.
Qed.
Lemma tsref_eqb_eq : forall a b, tsref_eqb a b = true -> a = b.
Proof.
  intros [s|s m] [t|t n] H; cbn [tsref_eqb] in H; try discriminate.
  - rewrite (swr_eqb_eq s t H). reflexivity.
  - apply andb_true_iff in H. destruct H as [H1 H2].
    rewrite (swr_eqb_eq s t H1), (opt_eqb_eq rmode_eqb m n rmode_eqb_eq H2). reflexivity.
Qed.
Lemma jsdoc_eqb_eq : forall a b, jsdoc_eqb a b = true -> a = b.
Proof.
  intros [s m] [t n] H. unfold jsdoc_eqb in H. cbn [jd_spec jd_mode] in H.
  apply andb_true_iff in H. destruct H as [H1 H2].
  rewrite (swr_eqb_eq s t H1), (opt_eqb_eq rmode_eqb m n rmode_eqb_eq H2). reflexivity.
Qed.

(* ---- attribute maps: same finite map *)

Lemma smem_In : forall k l, smem k l = true <-> In k l.
Proof.
  intros k l. induction l as [|x l IH]; cbn [smem In]; [split; [discriminate|tauto]|].
  rewrite orb_true_iff, IH, str_eqb_eq. split; intros [H|H]; auto.
Qed.
Lemma nodup_strb_NoDup : forall l, nodup_strb l = true -> NoDup l.
Proof.
  induction l as [|x l IH]; cbn [nodup_strb]; intros H; constructor.
  - apply andb_true_iff in H. destruct H as [H _]. intros HI. apply smem_In in HI. rewrite HI in H. discriminate.
  - apply IH. apply andb_true_iff in H. tauto.
Qed.
Lemma sget_In : forall {V} k (m : list (str * V)) v, sget k m = Some v -> In (k, v) m.
Proof.
  intros V k m. induction m as [|[k' v'] m IH]; cbn [sget]; intros v H; [discriminate|].
  destruct (str_eqb k k') eqn:E.
  - apply str_eqb_eq in E. subst. inversion H. left. reflexivity.
  - right. apply IH. exact H.
Qed.
Lemma sget_None_notin : forall {V} k (m : list (str * V)), sget k m = None <-> ~ In k (map fst m).
Proof.
  intros V k m. induction m as [|[k' v'] m IH]; cbn [sget map fst In]; [tauto|].
  destruct (str_eqb k k') eqn:E.
  - apply str_eqb_eq in E. subst. split; [discriminate|]. intros H. exfalso. apply H. left. reflexivity.
  - apply str_eqb_neq in E. rewrite IH. split; intros H; [intros [H1|H1]; [apply E; symmetry; exact H1|exact (H H1)]|].
    intros H1. apply H. right. exact H1.
Qed.

Lemma attrmap_eqb_sound : forall m m',
  nodup_strb (map fst m) = true -> nodup_strb (map fst m') = true ->
  attrmap_eqb m m' = true -> map_eq m m'.
Proof.
  intros m m' Hn Hn' H. unfold attrmap_eqb in H. apply andb_true_iff in H. destruct H as [Hl Hf].
  apply Nat.eqb_eq in Hl. rewrite forallb_forall in Hf.
  assert (Hsome : forall k v, sget k m = Some v -> sget k m' = Some v).
  { intros k v Hk. apply sget_In in Hk. specialize (Hf _ Hk). cbn [fst snd] in Hf.
    destruct (sget k m') as [v'|]; [|discriminate]. apply iattr_eqb_eq in Hf. subst. reflexivity. }
  assert (Hincl : incl (map fst m) (map fst m')).
  { intros k Hk. destruct (sget k m) as [v|] eqn:E.
    - apply Hsome in E. apply sget_In in E. apply (in_map fst) in E. exact E.
    - apply sget_None_notin in E. contradiction. }
  assert (Hincl' : incl (map fst m') (map fst m)).
  { apply NoDup_length_incl; [apply nodup_strb_NoDup; exact Hn | rewrite !map_length; lia | exact Hincl]. }
  intros k. destruct (sget k m) as [v|] eqn:E.
  - symmetry. apply Hsome. exact E.
  - destruct (sget k m') as [v'|] eqn:E'; [|reflexivity]. exfalso.
    apply sget_None_notin in E. apply E. apply Hincl'. apply sget_In in E'. apply (in_map fst) in E'. exact E'.
Qed.

Lemma iattrs_eqb_sound : forall a b,
  wf_iattrsb a = true -> wf_iattrsb b = true -> iattrs_eqb a b = true -> iattrs_eq a b.
Proof.
  intros [| |m] [| |m'] Ha Hb H; cbn [iattrs_eqb] in H; try discriminate; cbn [iattrs_eq]; try exact I.
  apply attrmap_eqb_sound; assumption.
Qed.

Lemma desc_eqb_sound : forall a b,
  wf_descb a = true -> wf_descb b = true -> desc_eqb a b = true -> desc_eq a b.
Proof.
  intros [x|x] [y|y] Ha Hb H; cbn [desc_eqb] in H; try discriminate; cbn [desc_eq wf_descb] in *.
  - repeat (apply andb_true_iff in H; destruct H as [H ?]).
    repeat split; try (apply skind_eqb_eq; assumption); try (apply (opt_eqb_eq swr_eqb _ _ swr_eqb_eq); assumption);
      try (apply str_eqb_eq; assumption); try (apply range_eqb_eq; assumption); try (apply eqb_prop; assumption).
    apply iattrs_eqb_sound; assumption.
  - repeat (apply andb_true_iff in H; destruct H as [H ?]).
    repeat split; try (apply dkind_eqb_eq; assumption); try (apply (opt_eqb_eq swr_eqb _ _ swr_eqb_eq); assumption);
      try (apply darg_eqb_eq; assumption); try (apply range_eqb_eq; assumption).
    apply iattrs_eqb_sound; assumption.
Qed.

Lemma descs_eqb_sound : forall a b,
  forallb wf_descb a = true -> forallb wf_descb b = true -> list_eqb desc_eqb a b = true -> Forall2 desc_eq a b.
Proof.
  induction a as [|x a IH]; intros [|y b] Ha Hb H; cbn [list_eqb] in H; try discriminate; [constructor|].
  cbn [forallb] in Ha, Hb. apply andb_true_iff in Ha. apply andb_true_iff in Hb. apply andb_true_iff in H.
  destruct Ha as [Ha1 Ha2]. destruct Hb as [Hb1 Hb2]. destruct H as [H1 H2].
  constructor; [apply desc_eqb_sound; assumption | apply IH; assumption].
Qed.

Theorem info_eqb_sound : forall a b, WfInfo a -> WfInfo b -> info_eqb a b = true -> info_eq a b.
Proof.
  intros a b Ha Hb H. unfold info_eqb in H. repeat (apply andb_true_iff in H; destruct H as [H ?]).
  unfold info_eq. repeat split.
  - apply eqb_prop. assumption.
  - apply descs_eqb_sound; assumption.
  - apply (list_eqb_eq tsref_eqb _ _ tsref_eqb_eq). assumption.
  - apply (opt_eqb_eq swr_eqb _ _ swr_eqb_eq). assumption.
  - apply (opt_eqb_eq swr_eqb _ _ swr_eqb_eq). assumption.
  - apply (opt_eqb_eq swr_eqb _ _ swr_eqb_eq). assumption.
  - apply (list_eqb_eq jsdoc_eqb _ _ jsdoc_eqb_eq). assumption.
  - apply (opt_eqb_eq swr_eqb _ _ swr_eqb_eq). assumption.
Qed.

(* ---- and complete *)

Lemma pos_eqb_refl : forall a, pos_eqb a a = true.
Proof. intros [a b]. unfold pos_eqb. cbn [p_line p_char]. rewrite !N.eqb_refl. reflexivity. Qed.
Lemma range_eqb_refl : forall a, range_eqb a a = true.
Proof. intros [a b]. unfold range_eqb. cbn [r_start r_end]. rewrite !pos_eqb_refl. reflexivity. Qed.
Lemma opt_eqb_refl : forall {T} (f : T -> T -> bool) a, (forall x, f x x = true) -> opt_eqb f a a = true.
Proof. intros T f [x|] H; cbn [opt_eqb]; [apply H|reflexivity]. Qed.
Lemma list_eqb_refl : forall {T} (f : T -> T -> bool) a, (forall x, f x x = true) -> list_eqb f a a = true.
Proof. intros T f a H. induction a as [|x a IH]; cbn [list_eqb]; [reflexivity|]. rewrite H, IH. reflexivity. Qed.
Lemma iattr_eqb_refl : forall a, iattr_eqb a a = true.
Proof. intros [|s]; cbn [iattr_eqb]; [reflexivity|apply str_eqb_refl]. Qed.
Lemma rmode_eqb_refl : forall a, rmode_eqb a a = true.
Proof. intros []; reflexivity. Qed.
Lemma tpart_eqb_refl : forall a, tpart_eqb a a = true.
Proof. intros [s|]; cbn [tpart_eqb]; [apply str_eqb_refl|reflexivity]. Qed.
Lemma darg_eqb_refl : forall a, darg_eqb a a = true.
Proof.
  intros [s|l|]; cbn [darg_eqb]; [apply str_eqb_refl| |reflexivity]. apply list_eqb_refl. exact tpart_eqb_refl.
Qed.
Lemma tsref_eqb_refl : forall a, tsref_eqb a a = true.
Proof.
  intros [s|s m]; cbn [tsref_eqb]; rewrite swr_eqb_refl; [reflexivity|].
  rewrite (opt_eqb_refl rmode_eqb m rmode_eqb_refl). reflexivity.
Qed.
Lemma jsdoc_eqb_refl : forall a, jsdoc_eqb a a = true.
Proof.
  intros [s m]. unfold jsdoc_eqb. cbn [jd_spec jd_mode].
  rewrite swr_eqb_refl, (opt_eqb_refl rmode_eqb m rmode_eqb_refl). reflexivity.
Qed.

Lemma In_sget : forall {V} k (m : list (str * V)), In k (map fst m) -> exists v, sget k m = Some v.
Proof.
  intros V k m H. destruct (sget k m) as [v|] eqn:E; [exists v; reflexivity|].
  apply sget_None_notin in E. contradiction.
Qed.
Lemma sget_first : forall {V} k v (m : list (str * V)),
  NoDup (map fst m) -> In (k, v) m -> sget k m = Some v.
Proof.
  intros V k v m. induction m as [|[k' v'] m IH]; cbn [map fst In sget]; intros Hn Hi; [contradiction|].
  inversion Hn as [|? ? Hnot Hn']; subst. destruct Hi as [Hi|Hi].
  - inversion Hi; subst. rewrite str_eqb_refl. reflexivity.
  - destruct (str_eqb k k') eqn:E.
    + apply str_eqb_eq in E. subst. exfalso. apply Hnot. apply (in_map fst) in Hi. exact Hi.
    + apply IH; assumption.
Qed.

Lemma attrmap_eqb_complete : forall m m',
  nodup_strb (map fst m) = true -> nodup_strb (map fst m') = true ->
  map_eq m m' -> attrmap_eqb m m' = true.
Proof.
  intros m m' Hn Hn' H. unfold attrmap_eqb. apply andb_true_iff. split.
  - apply Nat.eqb_eq. apply nodup_strb_NoDup in Hn. apply nodup_strb_NoDup in Hn'.
    assert (I1 : incl (map fst m) (map fst m')).
    { intros k Hk. apply In_sget in Hk. destruct Hk as [v Hv]. rewrite (H k) in Hv.
      apply sget_In in Hv. apply (in_map fst) in Hv. exact Hv. }
    assert (I2 : incl (map fst m') (map fst m)).
    { intros k Hk. apply In_sget in Hk. destruct Hk as [v Hv]. rewrite <- (H k) in Hv.
      apply sget_In in Hv. apply (in_map fst) in Hv. exact Hv. }
    pose proof (NoDup_incl_length Hn I1) as L1. pose proof (NoDup_incl_length Hn' I2) as L2.
    rewrite !map_length in L1, L2. lia.
  - apply forallb_forall. intros [k v] Hi. cbn [fst snd].
    rewrite <- (H k). rewrite (sget_first k v m (nodup_strb_NoDup _ Hn) Hi). apply iattr_eqb_refl.
Qed.

Lemma iattrs_eqb_complete : forall a b,
  wf_iattrsb a = true -> wf_iattrsb b = true -> iattrs_eq a b -> iattrs_eqb a b = true.
Proof.
  intros [| |m] [| |m'] Ha Hb H; cbn [iattrs_eq] in H; try contradiction; cbn [iattrs_eqb]; try reflexivity.
  apply attrmap_eqb_complete; assumption.
Qed.

Lemma desc_eqb_complete : forall a b,
  wf_descb a = true -> wf_descb b = true -> desc_eq a b -> desc_eqb a b = true.
Proof.
  intros [x|x] [y|y] Ha Hb H; cbn [desc_eq] in H; try contradiction; cbn [desc_eqb wf_descb] in *.
  - destruct H as (H1 & H2 & H3 & H4 & H5 & H6). rewrite H1, H2, H3, H4, H5.
    unfold skind_eqb. rewrite !str_eqb_refl, (opt_eqb_refl swr_eqb _ swr_eqb_refl), range_eqb_refl, eqb_reflx.
    rewrite (iattrs_eqb_complete _ _ Ha Hb H6). reflexivity.
  - destruct H as (H1 & H2 & H3 & H4 & H5). rewrite H1, H2, H3, H4.
    unfold dkind_eqb. rewrite !str_eqb_refl, (opt_eqb_refl swr_eqb _ swr_eqb_refl), range_eqb_refl, darg_eqb_refl.
    rewrite (iattrs_eqb_complete _ _ Ha Hb H5). reflexivity.
Qed.

Lemma descs_eqb_complete : forall a b,
  forallb wf_descb a = true -> forallb wf_descb b = true -> Forall2 desc_eq a b -> list_eqb desc_eqb a b = true.
Proof.
  intros a b Ha Hb H. induction H as [|x y a b Hxy Hab IH]; [reflexivity|].
  cbn [forallb] in Ha, Hb. apply andb_true_iff in Ha. apply andb_true_iff in Hb.
  destruct Ha as [Ha1 Ha2]. destruct Hb as [Hb1 Hb2]. cbn [list_eqb].
  rewrite (desc_eqb_complete x y Ha1 Hb1 Hxy), (IH Ha2 Hb2). reflexivity.
Qed.

Theorem info_eqb_complete : forall a b, WfInfo a -> WfInfo b -> info_eq a b -> info_eqb a b = true.
Proof.
  intros a b Ha Hb (H1 & H2 & H3 & H4 & H5 & H6 & H7 & H8). unfold info_eqb.
  rewrite H1, H3, H4, H5, H6, H7, H8. rewrite eqb_reflx, (descs_eqb_complete _ _ Ha Hb H2).
  rewrite (list_eqb_refl tsref_eqb _ tsref_eqb_refl), !(opt_eqb_refl swr_eqb _ swr_eqb_refl),
    (list_eqb_refl jsdoc_eqb _ jsdoc_eqb_refl). reflexivity.
Qed.

(* ------------------------------------------------------------ the judgements run on real outputs *)

(* round trip, judged on a concrete encoding [j] of [mi] (in the check: the real to_value) *)
Definition RoundtripHolds (mi : minfo) (j : json) : Prop :=
  exists mi', dec_module_info j = Some mi' /\ WfInfo mi' /\ info_eq mi mi'.

Theorem roundtrip_holdsb_iff : forall mi j, WfInfo mi ->
  (roundtrip_holdsb mi j = true <-> RoundtripHolds mi j).
Proof.
  intros mi j Hw. unfold roundtrip_holdsb, RoundtripHolds. split.
  - destruct (dec_module_info j) as [mi'|]; [|discriminate]. intros H.
    apply andb_true_iff in H. destruct H as [H1 H2]. exists mi'. split; [reflexivity|]. split; [exact H1|].
    apply info_eqb_sound; assumption.
  - intros [mi' [Hd [Hw' He]]]. rewrite Hd. unfold WfInfo in Hw'. rewrite Hw'. cbn [andb].
    apply info_eqb_complete; assumption.
Qed.

(* the upgrade's promise for one dependency / one module entry *)
Definition V1DepHolds (fdt : fdt_fun) (d : json) (r : desc) : Prop :=
  forall dm cs s, d = JObj dm -> leading_comments dm = Some cs -> analyze_deno_types fdt cs = Some s ->
                  desc_types r = Some s.
Definition V1Holds (fdt : fdt_fun) (j : json) (r : minfo) : Prop :=
  forall m deps, j = JObj m -> jget k_dependencies m = Some (JArr deps) ->
                 Forall2 (V1DepHolds fdt) deps (mi_deps r).

Lemma v1_dep_holdsb_iff : forall fdt d r, v1_dep_holdsb fdt d r = true <-> V1DepHolds fdt d r.
Proof.
  intros fdt d r. unfold v1_dep_holdsb, V1DepHolds. split.
  - intros H dm cs s Hd Hc Ha. subst d. rewrite Hc, Ha in H.
    apply (opt_eqb_eq swr_eqb _ _ swr_eqb_eq). exact H.
  - intros H. destruct d as [| | | | |dm]; try reflexivity.
    destruct (leading_comments dm) as [cs|] eqn:Hc; [|reflexivity].
    destruct (analyze_deno_types fdt cs) as [s|] eqn:Ha; [|reflexivity].
    rewrite (H dm cs s eq_refl Hc Ha). cbn [opt_eqb]. apply swr_eqb_refl.
Qed.

Lemma v1_deps_holdsb_iff : forall fdt ds rs,
  v1_deps_holdsb fdt ds rs = true <-> Forall2 (V1DepHolds fdt) ds rs.
Proof.
  intros fdt ds. induction ds as [|d ds IH]; intros [|r rs]; cbn [v1_deps_holdsb]; split; intros H;
    try discriminate; try constructor; try (inversion H; fail).
  - apply andb_true_iff in H. apply v1_dep_holdsb_iff. tauto.
  - apply andb_true_iff in H. apply IH. tauto.
  - inversion H; subst. apply andb_true_iff. split; [apply v1_dep_holdsb_iff; assumption|apply IH; assumption].
Qed.

Theorem v1_holdsb_iff : forall fdt j r, v1_holdsb fdt j r = true <-> V1Holds fdt j r.
Proof.
  intros fdt j r. unfold v1_holdsb, V1Holds. split.
  - intros H m deps Hj Hd. subst j. rewrite Hd in H. apply v1_deps_holdsb_iff. exact H.
  - intros H. destruct j as [| | | | |m]; try reflexivity.
    destruct (jget k_dependencies m) as [[| | | |deps|]|] eqn:Hd; try reflexivity.
    apply v1_deps_holdsb_iff. exact (H m deps eq_refl Hd).
Qed.

(* the model of the upgrade keeps the promise *)
Lemma model_v1_dep_holds : forall fdt d r, dec_desc (upgrade_dep fdt d) = Some r -> V1DepHolds fdt d r.
Proof.
  intros fdt d r H dm cs s Hd Hc Ha. subst d. rewrite (v1_upgrade_general fdt dm cs s Hc Ha) in H.
  destruct (dec_desc (JObj (sremove k_typesSpecifier dm))) as [d0|]; [|discriminate].
  cbn [option_map] in H. inversion H. apply desc_types_with_types.
Qed.

Lemma map_opt_Forall2 : forall {X Y} (f : X -> option Y) l l',
  map_opt f l = Some l' -> Forall2 (fun x y => f x = Some y) l l'.
Proof.
  intros X Y f l. induction l as [|x l IH]; cbn [map_opt]; intros l' H.
  - inversion H. constructor.
  - destruct (f x) as [y|] eqn:E; [|discriminate]. destruct (map_opt f l) as [ys|]; [|discriminate].
    inversion H. constructor; [exact E|apply IH; reflexivity].
Qed.

Theorem model_v1_holds : forall fdt j r, dec_module_info (upgrade_v1 fdt j) = Some r -> V1Holds fdt j r.
Proof.
  intros fdt j r H m deps Hj Hd. subst j. rewrite (v1_module fdt m deps Hd) in H.
  destruct (dec_module_info (JObj (sremove k_dependencies m))) as [mi0|]; [|discriminate].
  destruct (map_opt dec_desc (map (upgrade_dep fdt) deps)) as [ds|] eqn:E; [|discriminate].
  inversion H. cbn [set_deps mi_deps]. apply map_opt_Forall2 in E.
  clear - E. revert ds E. induction deps as [|d deps IH]; intros ds E; inversion E; subst; constructor.
  - apply model_v1_dep_holds. assumption.
  - apply IH. assumption.
Qed.

Theorem v1_upgrade_pragma : forall fdt dm cs c t a b d,
  leading_comments dm = Some cs -> last_opt cs = Some c -> fdt (c_text c) = Some (t, a, b) ->
  dec_desc (JObj dm) = Some d ->
  dec_desc (upgrade_dep fdt (JObj dm)) = Some (with_types (Some (deno_types_swr c t a b)) d).
Proof.
  intros fdt dm cs c t a b d Hc Hl Hf Hd. apply (v1_upgrade_decoded fdt dm cs); [exact Hc| |exact Hd].
  unfold analyze_deno_types. rewrite Hl, Hf. reflexivity.
Qed.
