(* C13 (a): proofs about Model/Codec.v *)
From DG Require Import Base.Util Base.Sexp Model.Codec.
