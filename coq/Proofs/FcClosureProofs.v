(* closedb decides Closed (Model/FcClosure.v). *)
From Coq Require Import Arith.
From DG Require Import Base.Util Base.Reach Model.Lattice Model.FcClosure.

Lemma dedup_length_le : forall l, (length (dedup l) <= length l)%nat.
Proof.
  induction l as [|x l IH]; cbn [dedup length]; [lia|].
  destruct (mem x l); cbn [length]; lia.
Qed.

Lemma unseen_le_len : forall U seen, (unseen U seen <= length U)%nat.
Proof.
  intros U seen. unfold unseen.
  pose proof (dedup_length_le U) as H.
  assert (H2 : forall l : list N, (length (filter (fun u => negb (mem u seen)) l) <= length l)%nat).
  { induction l as [|a l IH]; cbn [filter length]; [lia|].
    destruct (negb (mem a seen)); cbn [length]; lia. }
  specialize (H2 (dedup U)). lia.
Qed.

Lemma find_mod_in : forall ms t m, find_mod ms t = Some m -> In m ms.
Proof.
  induction ms as [|a ms IH]; intros t m H; cbn [find_mod] in H; [discriminate|].
  destruct (N.eqb (mf_id a) t); [inversion H; subst; left; reflexivity | right; exact (IH _ _ H)].
Qed.

Lemma star_expand_in_universe : forall ms x y, In y (star_expand ms x) -> In y (star_universe ms).
Proof.
  intros ms x y H. unfold star_expand in H.
  destruct (find_mod ms x) as [m|] eqn:E; [|destruct H].
  unfold star_universe. apply in_flat_map. exists m. split; [exact (find_mod_in _ _ _ E) | exact H].
Qed.

Lemma star_reach_spec : forall ms t u,
  In u (star_reach ms t) <-> Reachable (star_expand ms) [t] u.
Proof.
  intros ms t u. unfold star_reach.
  pose proof (run_fuel_enough (star_expand ms) (star_universe ms) (star_expand_in_universe ms)
                (S (length (star_universe ms))) [t] [t] []) as HF.
  destruct (run (star_expand ms) (S (length (star_universe ms))) [t] [t] []) as [[out sn]|] eqn:HR.
  - assert (HI : Inv (star_expand ms) [t] [t] [t] []).
    { apply init_inv. constructor; [intros []|constructor]. }
    destruct (run_sound_complete _ _ _ _ _ _ _ _ HI HR) as [_ Hiff]. apply Hiff.
  - exfalso. apply HF; [|reflexivity].
    pose proof (unseen_le_len (star_universe ms) [t]). cbn [length]. lia.
Qed.

Lemma providesb_spec : forall ms u x, providesb ms u x = true <-> Provides ms u x.
Proof.
  intros ms u x. unfold providesb, Provides. destruct (find_mod ms u) as [m|].
  - rewrite orb_true_iff, mem_In. tauto.
  - tauto.
Qed.

Lemma exportedb_spec : forall ms t x, exportedb ms t x = true <-> Exported ms t x.
Proof.
  intros ms t x. unfold exportedb, Exported.
  rewrite orb_true_iff, andb_true_iff, negb_true_iff, existsb_exists, providesb_spec.
  split.
  - intros [H|[Hx [u [Hu Hp]]]]; [left; exact H|right].
    split; [apply N.eqb_neq; exact Hx|].
    exists u. split; [apply star_reach_spec; exact Hu | apply providesb_spec; exact Hp].
  - intros [H|[Hx [u [Hu Hp]]]]; [left; exact H|right].
    split; [apply N.eqb_neq; exact Hx|].
    exists u. split; [apply star_reach_spec; exact Hu | apply providesb_spec; exact Hp].
Qed.

Lemma disjointb_spec : forall a b, disjointb a b = true <-> (forall x, In x a -> ~ In x b).
Proof.
  intros a b. unfold disjointb. rewrite forallb_forall. split.
  - intros H x Hx. apply mem_false_In. apply negb_true_iff. apply H; exact Hx.
  - intros H x Hx. apply negb_true_iff. apply mem_false_In. apply H; exact Hx.
Qed.

Lemma seg_okb_spec : forall sm s, seg_okb sm s = true <-> SegOk sm s.
Proof.
  intros sm s. unfold seg_okb, SegOk.
  rewrite !andb_true_iff, N.ltb_lt, negb_true_iff, N.eqb_neq.
  split.
  - intros [[[H1 H2] H3] H4]. split; [exact H1|]. split; [|split; [|exact H4]].
    + destruct (nth_len (sm_out_lens sm) (sg_gl s)) as [len|]; [|discriminate].
      exists len. split; [reflexivity | apply N.leb_le; exact H2].
    + destruct (nth_len (sm_orig_lens sm) (sg_ol s)) as [len|]; [|discriminate].
      exists len. split; [reflexivity | apply N.leb_le; exact H3].
  - intros [H1 [[l1 [E1 L1]] [[l2 [E2 L2]] H4]]]. rewrite E1, E2.
    repeat split; try assumption; apply N.leb_le; assumption.
Qed.

Lemma srcmap_okb_spec : forall sm, srcmap_okb sm = true <-> SrcMapOk sm.
Proof.
  intros sm. unfold srcmap_okb, SrcMapOk. rewrite andb_true_iff, forallb_forall.
  split; intros [H1 H2]; (split; [exact H1|]); intros s Hs; apply seg_okb_spec; apply H2; exact Hs.
Qed.

Theorem closedb_correct : forall ms m, closedb ms m = true <-> Closed ms m.
Proof.
  intros ms m. unfold closedb, Closed, c1b, c2b, c3b, c4b, c5b.
  rewrite orb_true_iff, negb_true_iff, !andb_true_iff, !disjointb_spec, !forallb_forall, srcmap_okb_spec.
  split.
  - intros [H|[[[[H1 [H2a H2b]] H3] H4] H5]] Hout; [rewrite H in Hout; discriminate|].
    split; [exact H1|]. split.
    { intros x [Hx|Hx]; [apply H2a | apply H2b]; exact Hx. }
    split.
    { intros t x Hin. apply exportedb_spec. exact (H3 (t, x) Hin). }
    split; [|exact H5].
    intros b Hb. exact (H4 b Hb).
  - intros H. destruct (mf_out m) eqn:E; [right | left; reflexivity].
    destruct (H eq_refl) as [H1 [H2 [H3 [H4 H5]]]].
    split; [|exact H5]. split; [|exact H4]. split.
    + split; [exact H1|]. split.
      * intros x Hx; apply H2; left; exact Hx.
      * intros x Hx; apply H2; right; exact Hx.
    + intros [t x] Hin. apply exportedb_spec. apply H3; exact Hin.
Qed.

(* the known class is exactly: clause 2 fails, and only because of identifiers inside private members *)
Theorem private_member_class_spec : forall m,
  private_member_classb m = true <->
  mf_out m = true
  /\ (forall x, In x (mf_unres m) -> ~ In x (mf_top m))
  /\ (exists x, In x (mf_unres_priv m) /\ In x (mf_top m)).
Proof.
  intros m. unfold private_member_classb.
  rewrite !andb_true_iff, negb_true_iff, disjointb_spec.
  split.
  - intros [[H1 H2] H3]. split; [exact H1|]. split; [exact H2|].
    unfold disjointb in H3. apply not_true_iff_false in H3.
    rewrite forallb_forall in H3.
    induction (mf_unres_priv m) as [|y l IH].
    + exfalso. apply H3. intros x [].
    + destruct (mem y (mf_top m)) eqn:Ey.
      * exists y. split; [left; reflexivity | apply mem_In; exact Ey].
      * destruct IH as [x [Hx1 Hx2]].
        { intro Hall. apply H3. intros x [Hx|Hx]; [subst; rewrite Ey; reflexivity | apply Hall; exact Hx]. }
        exists x. split; [right; exact Hx1 | exact Hx2].
  - intros [H1 [H2 [x [Hx1 Hx2]]]]. split; [split; assumption|].
    apply not_true_iff_false. intro Hd. exact (proj1 (disjointb_spec _ _) Hd x Hx1 Hx2).
Qed.

(* outside the class, a failing clause 2 is a dangling identifier outside private members *)
Theorem c2_fails_outside_class : forall m,
  mf_out m = true -> c2b m = false -> private_member_classb m = false ->
  exists x, In x (mf_unres m) /\ In x (mf_top m).
Proof.
  intros m Hout H2 Hcl. unfold c2b in H2. unfold private_member_classb in Hcl. rewrite Hout in Hcl.
  cbn [andb] in Hcl.
  destruct (disjointb (mf_unres m) (mf_top m)) eqn:E1.
  - cbn [andb] in H2, Hcl. rewrite H2 in Hcl. discriminate.
  - clear H2 Hcl. unfold disjointb in E1.
    induction (mf_unres m) as [|y l IH]; [discriminate|].
    cbn [forallb] in E1. destruct (mem y (mf_top m)) eqn:Ey.
    + exists y. split; [left; reflexivity | apply mem_In; exact Ey].
    + cbn [negb andb] in E1. destruct (IH E1) as [x [Hx1 Hx2]]. exists x. split; [right; exact Hx1 | exact Hx2].
Qed.
