(* Invariants of the stage-B2 (registry) builder model, Model/Jsr.v:
   - no entry is left pending after a build (C03);
   - every error entry is filed under the specifier it names (C03);
   - every loader call for a file of a registry package presents the checksum
     the version manifest gives for it (C05);
   - a jsr: specifier is redirected to the URL its selected version's exports
     map gives for the export, and the selected version satisfies the
     requirement (C07, C06). *)
From Coq Require Import Arith.
From RecordUpdate Require Import RecordSet.
Import RecordSetNotations.
From DG Require Import Base.Util Base.Sexp Model.Graph Model.Builder Proofs.BuilderProofs Proofs.ChecksumProofs Proofs.ClosureProofs Model.Jsr.

(* ================= part A: nothing stays pending ================= *)
Definition jpending (v : jslot) : bool := match v with JsPending => true | _ => false end.

Definition PInv (x : option spec) (st : jstate) : Prop :=
  forall s, Some s <> x -> lookup s (js_slots st) = Some JsPending -> In s (map ji_spec (js_pending st)).

Lemma PInv_ext : forall x st st',
  js_slots st' = js_slots st -> js_pending st' = js_pending st -> PInv x st -> PInv x st'.
Proof. intros x st st' Hs Hp H s Hx Hl. rewrite Hs in Hl. rewrite Hp. exact (H s Hx Hl). Qed.

Lemma PInv_weaken : forall x st, PInv None st -> PInv x st.
Proof. intros x st H s _ Hl. apply (H s); [discriminate | exact Hl]. Qed.

Lemma PInv_close : forall st s, PInv (Some s) st -> lookup s (js_slots st) <> Some JsPending -> PInv None st.
Proof.
  intros st s H Hn s0 _ Hl. destruct (N.eq_dec s0 s) as [->|Hne]; [contradiction|].
  apply (H s0); [congruence | exact Hl].
Qed.

Lemma set_slot_np : forall x st s v, PInv x st -> jpending v = false -> PInv x (set_slot st s v).
Proof.
  intros x st s v H Hv s0 Hx Hl. unfold set_slot in *. cbn in *.
  destruct (N.eq_dec s0 s) as [->|Hne].
  - rewrite lookup_set_assoc_same in Hl. inversion Hl; subst. discriminate.
  - rewrite lookup_set_assoc_other in Hl by exact Hne. apply (H s0 Hx Hl).
Qed.

Lemma set_slot_at_x : forall st s v, PInv (Some s) st -> jpending v = false -> PInv None (set_slot st s v).
Proof.
  intros st s v H Hv s0 _ Hl. unfold set_slot in *. cbn in *.
  destruct (N.eq_dec s0 s) as [->|Hne].
  - rewrite lookup_set_assoc_same in Hl. inversion Hl; subst. discriminate.
  - rewrite lookup_set_assoc_other in Hl by exact Hne. apply (H s0); [congruence | exact Hl].
Qed.

Lemma set_err_np : forall x st key k s r, PInv x st -> PInv x (set_err st key k s r).
Proof. intros. unfold set_err. apply set_slot_np; [assumption | reflexivity]. Qed.

Lemma push_item_pinv : forall x st it, PInv x st -> PInv x (push_item st it).
Proof.
  intros x st it H s0 Hx Hl. unfold push_item, set_slot in *. cbn in *.
  rewrite map_app, in_app_iff. cbn [map In].
  destruct (N.eq_dec s0 (ji_spec it)) as [->|Hne]; [right; left; reflexivity|].
  rewrite lookup_set_assoc_other in Hl by exact Hne. left. apply (H s0 Hx Hl).
Qed.

Lemma log_call_pinv : forall x st s k c, PInv x st -> PInv x (log_call st s k c).
Proof. intros. eapply PInv_ext; [| |eassumption]; reflexivity. Qed.

Lemma queue_pkg_pinv : forall W x st p, PInv x st -> PInv x (queue_pkg W st p).
Proof.
  intros W x st p H. unfold queue_pkg. destruct (mem p (js_pq st)); [exact H|].
  eapply PInv_ext; [| |exact H]; reflexivity.
Qed.

Lemma queue_ver_pinv : forall W x st v, PInv x st -> PInv x (queue_ver W st v).
Proof.
  intros W x st v H. unfold queue_ver. destruct (existsb _ (js_vq st)); [exact H|].
  eapply PInv_ext; [| |exact H]; reflexivity.
Qed.

Lemma mark_jsr_dep_pinv : forall x st req r, PInv x st -> PInv x (mark_jsr_dep st req r).
Proof.
  intros x st req r H. unfold mark_jsr_dep. destruct r as [[rg [v|]]|]; exact H.
Qed.

Lemma lock_set_pkg_pinv : forall x st v c, PInv x st -> PInv x (lock_set_pkg st v c).
Proof.
  intros x st v c H. unfold lock_set_pkg. destruct (js_lock_pkg st); [|exact H]. destruct c; [|exact H].
  eapply PInv_ext; [| |exact H]; reflexivity.
Qed.

Lemma add_resolved_root_pinv : forall x st s, PInv x st -> PInv x (add_resolved_root st s).
Proof. intros. eapply PInv_ext; [| |eassumption]; reflexivity. Qed.

Lemma record_remote_pinv : forall W x st f d src, PInv x st -> PInv x (record_remote W st f d src).
Proof.
  intros W x st f d src H. unfold record_remote. destruct (js_lock_pkg st); [|exact H].
  destruct (negb d && mem f (jw_http W) && negb (has_key f (js_lock_remote st))); [|exact H].
  eapply PInv_ext; [| |exact H]; reflexivity.
Qed.

Lemma load_pinv : forall W x st spec0 rng dyn root vinfo count,
  PInv x st -> PInv x (load W st spec0 rng dyn root vinfo count).
Proof.
  intros W x st spec0 rng dyn root vinfo count H. unfold load.
  set (s := load_target st spec0).
  destruct (lookup s (js_slots st)) as [sl|].
  { destruct (cls_of W spec0); try exact H. apply mark_jsr_dep_pinv. exact H. }
  assert (Hplain : forall fetch it0,
    PInv x (push_item (match fetch with Some v => queue_ver W st v | None => st end) it0)).
  { intros fetch it0. apply push_item_pinv. destruct fetch; [apply queue_ver_pinv|]; exact H. }
  assert (Hby : PInv x
    match cls_of W s with
    | CJsr pkg req exp =>
        (queue_pkg W (mark_jsr_dep st req rng) pkg)
          <| js_res := js_res (queue_pkg W (mark_jsr_dep st req rng) pkg) ++
               [{| jr_spec := s; jr_pkg := pkg; jr_req := req; jr_exp := exp; jr_rng := rng; jr_dyn := dyn; jr_root := root |}] |>
    | CJsrBad => set_err st s EPackageFormat s rng
    | CFile p v _ =>
        push_item (queue_ver W st (p, v))
          {| ji_spec := s; ji_rng := rng; ji_count := count; ji_dyn := dyn; ji_root := root; ji_probe := None;
             ji_checksum := lock_remote_get st s; ji_vinfo := None; ji_fetch := Some (p, v) |}
    | CPlain =>
        push_item st
          {| ji_spec := s; ji_rng := rng; ji_count := count; ji_dyn := dyn; ji_root := root; ji_probe := None;
             ji_checksum := lock_remote_get st s; ji_vinfo := None; ji_fetch := None |}
    end).
  { destruct (cls_of W s) as [pkg req exp| |p v pa|].
    - eapply PInv_ext; [| |apply (queue_pkg_pinv W x _ pkg (mark_jsr_dep_pinv x st req rng H))]; reflexivity.
    - apply set_err_np. exact H.
    - apply (Hplain (Some (p, v))).
    - apply (Hplain None). }
  destruct (has_key s (js_redirects st)); [apply set_err_np; exact H|].
  destruct vinfo as [[vp vv]|]; [|exact Hby].
  destruct (cls_of W s) as [pkg req exp| |p v pa|] eqn:Ec; try exact Hby.
  destruct (N.eqb vp p && N.eqb vv v); [|exact Hby].
  destruct (vinfo_of W st (p, v)) as [vi|]; [|exact Hby].
  destruct (get_checksum W vi pa) as [c|]; [|apply set_err_np; exact H].
  destruct (lookup pa (vi_modinfo vi)) as [mi|]; apply push_item_pinv; [apply log_call_pinv|]; exact H.
Qed.

Lemma check_specifier_pinv : forall st requested s,
  PInv (Some requested) st -> requested <> s -> PInv None (check_specifier st requested s).
Proof.
  intros st requested s H Hne s0 _ Hl. unfold check_specifier in *.
  apply N.eqb_neq in Hne. rewrite Hne in Hl |- *. cbn in *.
  destruct (N.eq_dec s0 requested) as [->|Hne0].
  - destruct (lookup requested (js_slots st)) as [[src deps| |e|]|] eqn:E; try congruence.
    rewrite lookup_remove_assoc_same in Hl. discriminate.
  - apply (H s0); [congruence|].
    destruct (lookup requested (js_slots st)) as [[src deps| |e|]|]; try exact Hl.
    rewrite lookup_remove_assoc_other in Hl by exact Hne0. exact Hl.
Qed.

Lemma check_specifier_same : forall st s, check_specifier st s s = st.
Proof. intros st s. unfold check_specifier. rewrite N.eqb_refl. reflexivity. Qed.

(* after the redirect bookkeeping for a result that names [final], the exception is
   either repaired or still exactly at [final] *)
Lemma check_specifier_cases : forall st requested final,
  PInv (Some requested) st ->
  PInv (Some final) (check_specifier st requested final).
Proof.
  intros st requested final H. destruct (N.eq_dec requested final) as [->|Hne].
  - rewrite check_specifier_same. exact H.
  - apply PInv_weaken. apply check_specifier_pinv; assumption.
Qed.

Lemma visit_dep_pinv : forall W x st referrer vinfo d, PInv x st -> PInv x (visit_dep W st referrer vinfo d).
Proof.
  intros W x st referrer vinfo d H. unfold visit_dep.
  destruct (jd_dyn d && negb (js_in_dyn st)); [exact H | apply load_pinv; exact H].
Qed.

Lemma visit_deps_pinv : forall W x referrer vinfo ds st, PInv x st -> PInv x (visit_deps W st referrer vinfo ds).
Proof.
  intros W x referrer vinfo ds. induction ds as [|d ds IH]; intros st H; cbn [visit_deps]; [exact H|].
  apply IH. apply visit_dep_pinv. exact H.
Qed.

Lemma try_load_redirect_ne : forall W st it to,
  t_res (try_load W st it) = PRedirect to -> to <> ji_spec it.
Proof.
  intros W st it to. unfold try_load.
  destruct (ji_probe it) as [[c mi]|].
  - cbn [t_res]. destruct (check_resp (only_of W (ji_spec it)) (Some c)) as [[| |t|f|f m]|]; cbn;
      try discriminate; unfold parse_resp; try (destruct (jm_ok m); discriminate).
  - set (fetched := match ji_fetch it with None => _ | Some v => _ end).
    destruct fetched as [[[c vinfo] https]|e]; [|cbn; discriminate].
    destruct (check_resp (use_of W (ji_spec it)) c) as [[| |t|f|f m]|]; cbn [t_res];
      try discriminate; unfold parse_resp; try (destruct (jm_ok m); discriminate).
    + destruct vinfo; [unfold mk_err; discriminate|]. destruct c; [unfold mk_err; discriminate|].
      destruct (Nat.leb (jw_max_redirects W) (ji_count it) || N.eqb t (ji_spec it)) eqn:E; [unfold mk_err; discriminate|].
      intro Heq. inversion Heq; subst. apply Bool.orb_false_iff in E. destruct E as [_ E]. apply N.eqb_neq. exact E.
    + destruct vinfo; unfold mk_err; discriminate.
Qed.

Lemma process_pinv : forall W st it,
  PInv (Some (ji_spec it)) st -> PInv None (process W st it).
Proof.
  intros W st it H. unfold process.
  pose proof (try_load_redirect_ne W st it) as Hred.
  destruct (try_load W st it) as [res calls vinfo https]. cbn [t_res t_calls t_vinfo t_https] in *.
  set (st1 := st <| js_calls := rev calls ++ js_calls st |>).
  assert (H1 : PInv (Some (ji_spec it)) st1) by exact H.
  set (st2 := match https with
              | Some (v, cfl) => (lock_set_pkg st1 v cfl) <| js_pkgs := ensure_package (js_pkgs (lock_set_pkg st1 v cfl)) v |>
              | None => st1 end).
  assert (H2 : PInv (Some (ji_spec it)) st2).
  { unfold st2. destruct https as [[v cfl]|]; [|exact H1].
    eapply PInv_ext; [| |apply (lock_set_pkg_pinv _ st1 v cfl H1)]; reflexivity. }
  clearbody st2. clear H1 st1 H.
  destruct res as [e|to|final|final src decl deps content].
  - destruct (N.eq_dec (ji_spec it) (je_spec e)) as [Heq|Hne].
    + rewrite <- Heq, check_specifier_same. apply set_slot_at_x; [exact H2 | reflexivity].
    + apply set_slot_np; [apply check_specifier_pinv; assumption | reflexivity].
  - apply load_pinv. apply check_specifier_pinv; [exact H2|]. intro E. apply (Hred to eq_refl). symmetry. exact E.
  - pose proof (check_specifier_cases st2 (ji_spec it) final H2) as H3.
    set (st3 := check_specifier st2 (ji_spec it) final) in *. clearbody st3.
    set (st4 := if ji_root it then add_resolved_root st3 final else st3).
    assert (H4 : PInv (Some final) st4) by (unfold st4; destruct (ji_root it); [apply add_resolved_root_pinv|]; exact H3).
    clearbody st4.
    destruct (lookup final (js_slots st4)) as [[s0 d0| |e0|]|] eqn:El;
      try (apply set_slot_at_x; [exact H4 | reflexivity]);
      (apply (PInv_close st4 final H4); rewrite El; discriminate).
  - pose proof (check_specifier_cases st2 (ji_spec it) final H2) as H3.
    set (st3 := check_specifier st2 (ji_spec it) final) in *. clearbody st3.
    set (st4 := if ji_root it then add_resolved_root st3 final else st3).
    assert (H4 : PInv (Some final) st4) by (unfold st4; destruct (ji_root it); [apply add_resolved_root_pinv|]; exact H3).
    clearbody st4.
    apply set_slot_at_x; [|reflexivity]. apply visit_deps_pinv.
    destruct content as [c|].
    + eapply PInv_ext; [| |exact H4]; reflexivity.
    + destruct vinfo; [exact H4 | apply record_remote_pinv; exact H4].
Qed.

Lemma probe_all_pinv : forall W x pkg cands st cached,
  PInv x st -> PInv x (fst (probe_all W st pkg cands cached)).
Proof.
  intros W x pkg cands. induction cands as [|v cands IH]; intros st cached H; cbn [probe_all fst]; [exact H|].
  apply IH. apply log_call_pinv. exact H.
Qed.

Lemma probe_pinv : forall W x st memo pkg req versions,
  PInv x st -> PInv x (fst (fst (probe W st memo pkg req versions))).
Proof.
  intros W x st memo pkg req versions H. unfold probe.
  destruct (match lookup pkg memo with Some m => m | None => ([], []) end) as [probed cached].
  set (cands := map fst (filter _ versions)).
  pose proof (probe_all_pinv W x pkg cands st cached H) as Hp.
  destruct (probe_all W st pkg cands cached) as [st1 cached']. exact Hp.
Qed.

Lemma resolve_reqs_pinv : forall W o x items st memo acc,
  PInv x st -> PInv x (fst (resolve_reqs W o st memo items acc)).
Proof.
  intros W o x items. induction items as [|it rest IH]; intros st memo acc H; cbn [resolve_reqs]; [exact H|].
  destruct (pmeta_of W st (jr_pkg it)) as [f|versions].
  { apply IH. apply set_err_np. exact H. }
  set (pr := if negb (jo_prefer_cached o) || unification_decides W st (jr_pkg it) (jr_req it)
             then (st, memo, []) else probe W st memo (jr_pkg it) (jr_req it) versions).
  assert (Hpr : PInv x (fst (fst pr))).
  { unfold pr. destruct (negb (jo_prefer_cached o) || unification_decides W st (jr_pkg it) (jr_req it));
      [exact H | apply probe_pinv; exact H]. }
  destruct pr as [[st1 memo1] cached]. cbn [fst] in Hpr.
  destruct (resolve_version W (jr_req it) versions (versions_by_name (js_pkgs st1) (jr_pkg it)) cached (late_of W (jr_pkg it))) as [[v yanked]|].
  - apply IH. apply queue_ver_pinv. eapply PInv_ext; [| |exact Hpr]; reflexivity.
  - destruct (js_busting st1); [apply IH; apply set_err_np; exact Hpr | exact Hpr].
Qed.

Lemma resolve_vers_pinv : forall W ct x items st, PInv x st -> PInv x (resolve_vers W ct st items).
Proof.
  intros W ct x items. induction items as [|it rest IH]; intros st H; cbn [resolve_vers]; [exact H|].
  apply IH.
  destruct (ver_result W st (vr_nv it)) as [[vi cfl]|k]; [|apply set_err_np; exact H].
  set (st1 := st <| js_pkgs := ensure_package (js_pkgs st) (vr_nv it) |>).
  assert (H1 : PInv x st1) by exact H.
  pose proof (lock_set_pkg_pinv x st1 (vr_nv it) cfl H1) as H2.
  set (st2 := lock_set_pkg st1 (vr_nv it) cfl) in *. clearbody st2.
  destruct (lookup (jr_exp (vr_item it)) (vi_exports vi)) as [target|]; [|apply set_err_np; exact H2].
  destruct target as [|p]; [apply set_err_np; exact H2|].
  apply load_pinv. destruct (jr_root (vr_item it)); [apply add_resolved_root_pinv|]; exact H2.
Qed.

Lemma resolve_jsr_pinv : forall W o st,
  PInv None st ->
  match resolve_jsr W o st with inl st' => PInv None st' | inr _ => True end.
Proof.
  intros W o st H. unfold resolve_jsr.
  match goal with
  | |- context [resolve_reqs ?a ?b ?c ?d ?e ?f] =>
      assert (Hr : PInv None (fst (resolve_reqs a b c d e f))) by (apply resolve_reqs_pinv; exact H);
      destruct (resolve_reqs a b c d e f) as [st1 [vs|]]
  end; [|exact I].
  apply resolve_vers_pinv. exact Hr.
Qed.

Lemma load_branches_pinv : forall W x bs st, PInv x st -> PInv x (load_branches W st bs).
Proof.
  intros W x bs. induction bs as [|[s b] bs IH]; intros st H; cbn [load_branches]; [exact H|].
  apply IH. apply load_pinv. exact H.
Qed.

Lemma loop_step_pinv : forall W o st,
  PInv None st ->
  match loop_step W o st with inl st' => PInv None st' | inr _ => True end.
Proof.
  intros W o st H. unfold loop_step.
  set (st1 := match js_pending st with it :: rest => process W (st <| js_pending := rest |>) it | [] => st end).
  assert (H1 : PInv None st1).
  { unfold st1. destruct (js_pending st) as [|it rest] eqn:Ep; [exact H|].
    apply process_pinv. intros s Hx Hl. cbn in *.
    pose proof (H s ltac:(discriminate) Hl) as Hin. rewrite Ep in Hin. cbn [map In] in Hin.
    destruct Hin as [Heq|Hin]; [congruence | exact Hin]. }
  clearbody st1.
  destruct (js_pending st1) as [|i1 r1] eqn:Ep1; [|exact H1].
  pose proof (resolve_jsr_pinv W o st1 H1) as H2.
  destruct (resolve_jsr W o st1) as [st2|st2]; [|exact I].
  destruct (js_pending st2); [|exact H2].
  destruct (js_in_dyn st2); [exact H2|].
  apply load_branches_pinv. exact H2.
Qed.

Lemma resolve_pending_pinv : forall W o fuel st,
  PInv None st ->
  match resolve_pending fuel W o st with
  | LDone st' => PInv None st' /\ js_pending st' = []
  | _ => True end.
Proof.
  intros W o fuel. induction fuel as [|f IH]; intros st H; cbn [resolve_pending].
  - destruct (idle st) eqn:Ei; [|exact I]. split; [exact H|].
    unfold idle in Ei. destruct (js_pending st); [reflexivity | discriminate].
  - destruct (idle st) eqn:Ei.
    + split; [exact H|]. unfold idle in Ei. destruct (js_pending st); [reflexivity | discriminate].
    + pose proof (loop_step_pinv W o st H) as Hs. destruct (loop_step W o st) as [st'|st']; [apply IH; exact Hs | exact I].
Qed.

Lemma load_roots_pinv : forall W x roots st, PInv x st -> PInv x (load_roots W st roots).
Proof.
  intros W x roots. induction roots as [|r rs IH]; intros st H; cbn [load_roots]; [exact H|].
  apply IH. apply load_pinv. exact H.
Qed.

Definition NoPending (slots : list (spec * jslot)) : Prop := forall s, lookup s slots <> Some JsPending.

Lemma content_load_nopending : forall W st ci, NoPending (js_slots st) -> NoPending (js_slots (content_load W st ci)).
Proof.
  intros W st ci H. unfold content_load.
  assert (Hset : forall v, jpending v = false -> NoPending (js_slots (set_slot st (ci_spec ci) v))).
  { intros v Hv s. unfold set_slot. cbn. destruct (N.eq_dec s (ci_spec ci)) as [->|Hne].
    - rewrite lookup_set_assoc_same. intro E. inversion E; subst. discriminate.
    - rewrite lookup_set_assoc_other by exact Hne. apply H. }
  destruct (check_resp (use_of W (ci_spec ci)) (Some (ci_checksum ci))) as [[| |t|f|f m]|]; unfold set_err;
    try (apply Hset; reflexivity).
  destruct (N.eqb f (ci_spec ci)); [|apply Hset; reflexivity].
  destruct (lookup (ci_spec ci) (js_slots st)) as [[src deps| |e|]|]; try exact H. apply Hset. reflexivity.
Qed.

Lemma content_loads_nopending : forall W st, NoPending (js_slots st) -> NoPending (js_slots (content_loads W st)).
Proof.
  intros W st H. unfold content_loads.
  assert (G : forall cs st0, NoPending (js_slots st0) -> NoPending (js_slots (fold_left (content_load W) cs st0))).
  { induction cs as [|c cs IH]; intros st0 H0; cbn [fold_left]; [exact H0|]. apply IH. apply content_load_nopending. exact H0. }
  apply G. exact H.
Qed.

Lemma done_nopending : forall st, PInv None st -> js_pending st = [] -> NoPending (js_slots st).
Proof.
  intros st H Hp s Hl. pose proof (H s ltac:(discriminate) Hl) as Hin. rewrite Hp in Hin. exact Hin.
Qed.

Lemma init_pinv : forall W, PInv None (init_state W).
Proof. intros W s _ Hl. cbn in Hl. discriminate. Qed.

Lemma restart_pinv : forall W st, PInv None (restart_state W st).
Proof. intros W st s _ Hl. cbn in Hl. discriminate. Qed.

Theorem jbuild_no_pending : forall W o roots g,
  jbuild W o roots = Some g -> NoPending (jg_slots g).
Proof.
  intros W o roots g. unfold jbuild.
  pose proof (resolve_pending_pinv W o (jfuel W) (load_roots W (init_state W) roots)
                (load_roots_pinv W None roots _ (init_pinv W))) as H1.
  destruct (resolve_pending (jfuel W) W o (load_roots W (init_state W) roots)) as [st|st|]; [| |discriminate].
  - intro E. inversion E; subst. cbn [jg_slots finish]. destruct H1 as [Hi Hp].
    apply content_loads_nopending. apply done_nopending; assumption.
  - pose proof (resolve_pending_pinv W o (jfuel W) (load_roots W (restart_state W st) roots)
                  (load_roots_pinv W None roots _ (restart_pinv W st))) as H2.
    destruct (resolve_pending (jfuel W) W o (load_roots W (restart_state W st) roots)) as [st2|st2|]; try discriminate.
    intro E. inversion E; subst. cbn [jg_slots finish]. destruct H2 as [Hi Hp].
    apply content_loads_nopending. apply done_nopending; assumption.
Qed.

(* ================= part B: entries, loader calls, redirects ================= *)
Lemma lookup2_In : forall {V} k (l : list (nv * V)) v, lookup2 k l = Some v -> exists k', In (k', v) l.
Proof.
  intros V k l v. induction l as [|[k' v'] l IH]; cbn [lookup2]; [discriminate|].
  destruct (nv_eqb k k'); intro H.
  - inversion H; subst. exists k'. left. reflexivity.
  - destruct (IH H) as [k2 Hin]. exists k2. right. exact Hin.
Qed.

Lemma lookup_or_insert_inv : forall {V} k (v : V) l s t,
  lookup s (or_insert k v l) = Some t -> lookup s l = Some t \/ (s = k /\ t = v).
Proof.
  intros V k v l s t. unfold or_insert. destruct (lookup k l) eqn:Ek; [left; assumption|].
  intro H. destruct (N.eq_dec s k) as [->|Hne].
  - right. rewrite (lookup_app_new k l v Ek) in H. inversion H. split; reflexivity.
  - left. revert H. clear Ek. induction l as [|[k' v'] l IH]; cbn [app lookup].
    + apply N.eqb_neq in Hne. rewrite Hne. discriminate.
    + destruct (N.eqb s k'); [intro; assumption | exact IH].
Qed.

Lemma nv_eqb_eq : forall a b, nv_eqb a b = true <-> a = b.
Proof.
  intros [a1 a2] [b1 b2]. unfold nv_eqb. cbn. rewrite Bool.andb_true_iff, !N.eqb_eq. split.
  - intros [-> ->]. reflexivity.
  - intro H. inversion H. split; reflexivity.
Qed.

Lemma nv_eqb_refl : forall a, nv_eqb a a = true.
Proof. intro a. apply nv_eqb_eq. reflexivity. Qed.

Lemma nv_eqb_neq : forall a b, a <> b -> nv_eqb a b = false.
Proof. intros a b H. destruct (nv_eqb a b) eqn:E; [apply nv_eqb_eq in E; contradiction | reflexivity]. Qed.

Lemma lookup2_app_none : forall {V} k (l : list (nv * V)) k' v,
  lookup2 k (l ++ [(k', v)]) = match lookup2 k l with Some x => Some x | None => if nv_eqb k k' then Some v else None end.
Proof.
  intros V k l k' v. induction l as [|[k0 v0] l IH]; cbn [app lookup2]; [reflexivity|].
  destruct (nv_eqb k k0); [reflexivity | exact IH].
Qed.

Lemma lookup2_existsb : forall {V} k (l : list (nv * V)),
  existsb (fun e => nv_eqb (fst e) k) l = false -> lookup2 k l = None.
Proof.
  intros V k l. induction l as [|[k0 v0] l IH]; cbn [existsb lookup2 fst]; [reflexivity|].
  intro H. apply Bool.orb_false_iff in H. destruct H as [H1 H2].
  assert (E : nv_eqb k k0 = false).
  { destruct (nv_eqb k k0) eqn:E; [|reflexivity]. apply nv_eqb_eq in E. subst. rewrite nv_eqb_refl in H1. discriminate. }
  rewrite E. apply IH. exact H2.
Qed.

Lemma lookup2_map_replace_other : forall k k0 c (l : list (nv * N)),
  k0 <> k -> lookup2 k0 (map (fun e => if nv_eqb (fst e) k then (k, c) else e) l) = lookup2 k0 l.
Proof.
  intros k k0 c l Hne. induction l as [|[k1 v1] l IH]; cbn [map lookup2 fst]; [reflexivity|].
  destruct (nv_eqb k1 k) eqn:E1.
  - apply nv_eqb_eq in E1. subst k1. cbn [lookup2]. rewrite (nv_eqb_neq k0 k Hne). exact IH.
  - cbn [lookup2]. destruct (nv_eqb k0 k1); [reflexivity | exact IH].
Qed.

Definition init_lock_get (W : jworld) (v : nv) : option N :=
  match jw_lock_pkg W with Some l => lookup2 v l | None => None end.
(* checksum_for_locker of a manifest: its lockfileChecksum field, else the hash of its bytes *)
Definition cfl_of (vi : vinfo) : N := match vi_lockfile_checksum vi with Some c => c | None => vi_hash vi end.

Section B.
Variable W : jworld.
Hypothesis Hwf : wf_jworld W = true.

Lemma wf_pkg_url : forall p, cls_of W (p_url (pkg_of W p)) = CPlain.
Proof.
  intro p. unfold wf_jworld in Hwf. apply andb_prop in Hwf. destruct Hwf as [H12 H0].
  apply andb_prop in H12. destruct H12 as [H1 _].
  unfold pkg_of. destruct (lookup p (jw_pkgs W)) as [r|] eqn:E.
  - apply lookup_In in E. rewrite forallb_forall in H1. specialize (H1 _ E). cbn in H1.
    destruct (cls_of W (p_url r)); try discriminate. reflexivity.
  - cbn. destruct (cls_of W 0); try discriminate. reflexivity.
Qed.

Lemma wf_ver_url : forall v, cls_of W (v_url (ver_of W v)) = CPlain.
Proof.
  intro v. unfold wf_jworld in Hwf. apply andb_prop in Hwf. destruct Hwf as [H12 H0].
  apply andb_prop in H12. destruct H12 as [_ H2].
  unfold ver_of. destruct (lookup2 v (jw_vers W)) as [r|] eqn:E.
  - apply lookup2_In in E. destruct E as [k' E]. rewrite forallb_forall in H2. specialize (H2 _ E). cbn in H2.
    destruct (cls_of W (v_url r)); try discriminate. reflexivity.
  - cbn. destruct (cls_of W 0); try discriminate. reflexivity.
Qed.

(* the checksum the version manifest gives for a package file *)
Definition manifest_chk (s : spec) (k : N) : Prop :=
  exists p v path vi, cls_of W s = CFile p v path /\ v_meta (ver_of W (p, v)) = VOk vi /\ get_checksum W vi path = Some k.

Definition CallOK (c : jcall) : Prop :=
  match cls_of W (jc_spec c) with
  | CFile _ _ _ => exists k, manifest_chk (jc_spec c) k /\ jc_checksum c = Some k
  | _ => True
  end.

Definition ItemOK (it : jitem) : Prop :=
  match cls_of W (ji_spec it) with
  | CJsr _ _ _ => False
  | CFile p v path =>
      (ji_fetch it = Some (p, v) /\ ji_probe it = None) \/
      (ji_fetch it = None /\ exists k, manifest_chk (ji_spec it) k /\ ji_checksum it = Some k /\
                                       forall c mi, ji_probe it = Some (c, mi) -> c = k)
  | _ => True
  end.

Definition RedOK (s t : spec) : Prop :=
  match cls_of W s with
  | CJsr pkg req exp =>
      exists ver vi, v_meta (ver_of W (pkg, ver)) = VOk vi /\ lookup exp (vi_exports vi) = Some t /\ t <> 0 /\
                     matches W req ver = true
  | _ => True
  end.

Definition ResOK (r : jres) : Prop := cls_of W (jr_spec r) = CJsr (jr_pkg r) (jr_req r) (jr_exp r).

Record JInv (st : jstate) : Prop := {
  jv_slots : forall s e, lookup s (js_slots st) = Some (JsErr e) -> je_spec e = s;
  jv_calls : Forall CallOK (js_calls st);
  jv_items : Forall ItemOK (js_pending st);
  jv_reds : forall s t, lookup s (js_redirects st) = Some t -> RedOK s t;
  jv_res : Forall ResOK (js_res st);
  (* a manifest requested without an expected checksum has no entry in the original lockfile *)
  jv_vq : forall v e b, lookup2 v (js_vq st) = Some (e, b) -> e = None -> init_lock_get W v = None;
  (* entries of the original lockfile are never overwritten *)
  jv_lock : forall v c0, init_lock_get W v = Some c0 -> lock_pkg_get st v = Some c0;
  (* what the locker is told: only for package versions the lockfile did not know, and the manifest's own checksum *)
  jv_sets : forall v c, In (v, c) (js_lock_sets st) ->
            init_lock_get W v = None /\ exists vi, v_meta (ver_of W v) = VOk vi /\ c = cfl_of vi
}.

Lemma jinv_ext : forall st st',
  js_slots st' = js_slots st -> js_calls st' = js_calls st -> js_pending st' = js_pending st ->
  js_redirects st' = js_redirects st -> js_res st' = js_res st ->
  js_vq st' = js_vq st -> js_lock_pkg st' = js_lock_pkg st -> js_lock_sets st' = js_lock_sets st ->
  JInv st -> JInv st'.
Proof.
  intros st st' H1 H2 H3 H4 H5 H6 H7 H8 [A B C D E F G K].
  constructor; unfold lock_pkg_get in *; rewrite ?H1, ?H2, ?H3, ?H4, ?H5, ?H6, ?H7, ?H8; assumption.
Qed.

Ltac ext H := (eapply jinv_ext; [| | | | | | | |exact H]; reflexivity).

Lemma jinv_set_slot : forall st s v,
  JInv st -> (forall e, v = JsErr e -> je_spec e = s) -> JInv (set_slot st s v).
Proof.
  intros st s v [A B C D E F G K] Hv. constructor; try assumption.
  intros s0 e Hl. unfold set_slot in Hl. cbn in Hl. destruct (N.eq_dec s0 s) as [->|Hne].
  - rewrite lookup_set_assoc_same in Hl. inversion Hl; subst. apply Hv. reflexivity.
  - rewrite lookup_set_assoc_other in Hl by exact Hne. apply A. exact Hl.
Qed.

Lemma jinv_set_err : forall st s k r, JInv st -> JInv (set_err st s k s r).
Proof. intros st s k r H. unfold set_err. apply jinv_set_slot; [exact H|]. intros e He. inversion He. reflexivity. Qed.

Lemma jinv_set_ok : forall st s v, JInv st -> (forall e, v <> JsErr e) -> JInv (set_slot st s v).
Proof. intros st s v H Hv. apply jinv_set_slot; [exact H|]. intros e He. exfalso. exact (Hv e He). Qed.

Lemma jinv_log_call : forall st s k c,
  JInv st -> CallOK {| jc_spec := s; jc_setting := k; jc_checksum := c |} -> JInv (log_call st s k c).
Proof. intros st s k c [A B C D E F G K] Hc. constructor; try assumption. cbn. constructor; assumption. Qed.

Lemma callok_plain : forall s k c, cls_of W s = CPlain -> CallOK {| jc_spec := s; jc_setting := k; jc_checksum := c |}.
Proof. intros s k c H. unfold CallOK. cbn. rewrite H. exact I. Qed.

Lemma jinv_push_item : forall st it, JInv st -> ItemOK it -> JInv (push_item st it).
Proof.
  intros st it H Hi. unfold push_item.
  pose proof (jinv_set_ok st (ji_spec it) JsPending H ltac:(intros e; discriminate)) as [A B C D E F G K].
  constructor; try assumption. cbn in *. apply Forall_app. split; [exact C | constructor; [exact Hi | constructor]].
Qed.

Lemma jinv_queue_pkg : forall st p, JInv st -> JInv (queue_pkg W st p).
Proof.
  intros st p H. unfold queue_pkg. destruct (mem p (js_pq st)); [exact H|].
  apply jinv_log_call; [ext H | apply callok_plain; apply wf_pkg_url].
Qed.

Lemma jinv_queue_ver : forall st v, JInv st -> JInv (queue_ver W st v).
Proof.
  intros st v H. unfold queue_ver. destruct (existsb _ (js_vq st)) eqn:Ex; [exact H|].
  apply jinv_log_call; [|apply callok_plain; apply wf_ver_url].
  pose proof (lookup2_existsb v (js_vq st) Ex) as Hnone.
  destruct H as [A B C D E F G K]. constructor; try assumption. cbn.
  intros v0 e b Hl He. rewrite lookup2_app_none in Hl.
  destruct (lookup2 v0 (js_vq st)) as [[e0 b0]|] eqn:E0.
  - inversion Hl; subst. eapply F; [exact E0 | reflexivity].
  - destruct (nv_eqb v0 v) eqn:Ev; [|discriminate]. apply nv_eqb_eq in Ev. subst v0.
    inversion Hl; subst. destruct (init_lock_get W v) as [c0|] eqn:Ei; [|reflexivity].
    rewrite (G v c0 Ei) in H0. discriminate.
Qed.

Lemma jinv_mark : forall st req r, JInv st -> JInv (mark_jsr_dep st req r).
Proof. intros st req r H. unfold mark_jsr_dep. destruct r as [[rg [v|]]|]; try exact H. ext H. Qed.

(* the locker is only told a checksum_for_locker *)
Definition CflOK (v : nv) (c : option N) : Prop :=
  forall k, c = Some k -> init_lock_get W v = None /\ exists vi, v_meta (ver_of W v) = VOk vi /\ k = cfl_of vi.

Lemma jinv_lock_set : forall st v c, JInv st -> CflOK v c -> JInv (lock_set_pkg st v c).
Proof.
  intros st v c H Hc. unfold lock_set_pkg. destruct (js_lock_pkg st) as [l|] eqn:El; [|exact H].
  destruct c as [k|]; [|exact H]. destruct (Hc k eq_refl) as [Hinit Hvi].
  destruct H as [A B C D E F G K]. constructor; try assumption; cbn.
  - intros v0 c0 Hi. specialize (G v0 c0 Hi). unfold lock_pkg_get in *. rewrite El in G. cbn.
    assert (Hne : v0 <> v) by (intro; subst; rewrite Hinit in Hi; discriminate).
    destruct (lookup2 v l).
    + rewrite lookup2_map_replace_other by exact Hne. exact G.
    + rewrite lookup2_app_none, G. reflexivity.
  - intros v0 c0 [Heq|Hin]; [inversion Heq; subst; split; assumption | apply K; exact Hin].
Qed.

Lemma ver_result_cfl : forall st v vi cfl, JInv st -> ver_result W st v = inl (vi, cfl) -> CflOK v cfl.
Proof.
  intros st v vi cfl H Hv k Hk. subst cfl. unfold ver_result in Hv.
  destruct (v_meta (ver_of W v)) as [f|h|vi0] eqn:Em; try discriminate.
  - destruct (lookup2 v (js_vq st)) as [[[e|] b]|]; try discriminate. destruct (N.eqb e h); discriminate.
  - destruct (lookup2 v (js_vq st)) as [[[e|] [|]]|] eqn:Eq; try discriminate.
    + destruct (N.eqb e (vi_hash vi0)); discriminate.
    + destruct (N.eqb e (vi_hash vi0)); discriminate.
    + inversion Hv; subst. split; [apply (jv_vq st H v None true Eq eq_refl)|]. exists vi. split; reflexivity.
Qed.

Lemma jinv_add_root : forall st s, JInv st -> JInv (add_resolved_root st s).
Proof. intros st s H. ext H. Qed.

Lemma jinv_record_remote : forall st f d src, JInv st -> JInv (record_remote W st f d src).
Proof.
  intros st f d src H. unfold record_remote. destruct (js_lock_pkg st); [|exact H].
  destruct (negb d && mem f (jw_http W) && negb (has_key f (js_lock_remote st))); [|exact H]. ext H.
Qed.

Definition not_jsr (s : spec) : Prop := match cls_of W s with CJsr _ _ _ => False | _ => True end.

Lemma jinv_check_specifier : forall st requested s,
  JInv st -> not_jsr requested -> JInv (check_specifier st requested s).
Proof.
  intros st requested s H Hn. unfold check_specifier. destruct (N.eqb requested s); [exact H|].
  destruct H as [A B C D E F G K]. constructor; try assumption; cbn.
  - intros s0 e Hl. apply A.
    destruct (lookup requested (js_slots st)) as [[src deps| |e0|]|]; try exact Hl.
    destruct (N.eq_dec s0 requested) as [->|Hne].
    + rewrite lookup_remove_assoc_same in Hl. discriminate.
    + rewrite lookup_remove_assoc_other in Hl by exact Hne. exact Hl.
  - intros s0 t Hl. apply lookup_or_insert_inv in Hl. destruct Hl as [Hl|[-> ->]]; [apply D; exact Hl|].
    unfold RedOK. unfold not_jsr in Hn. destruct (cls_of W requested); [contradiction | exact I | exact I | exact I].
Qed.

Lemma vinfo_of_meta : forall st v vi, vinfo_of W st v = Some vi -> v_meta (ver_of W v) = VOk vi.
Proof.
  intros st v vi. unfold vinfo_of, ver_result. destruct (v_meta (ver_of W v)) as [f|h|vi0]; try discriminate.
  - destruct (lookup2 v (js_vq st)) as [[[e|] b]|]; try discriminate. destruct (N.eqb e h); discriminate.
  - destruct (lookup2 v (js_vq st)) as [[[e|] [|]]|]; try (intro H; inversion H; reflexivity).
    + destruct (N.eqb e (vi_hash vi0)); [intro H; inversion H; reflexivity | discriminate].
    + destruct (N.eqb e (vi_hash vi0)); [intro H; inversion H; reflexivity | discriminate].
Qed.

Lemma ver_result_meta : forall st v vi cfl, ver_result W st v = inl (vi, cfl) -> v_meta (ver_of W v) = VOk vi.
Proof.
  intros st v vi cfl H. apply (vinfo_of_meta st). unfold vinfo_of. rewrite H. reflexivity.
Qed.

Lemma load_jinv : forall st spec0 rng dyn root vinfo count,
  JInv st -> JInv (load W st spec0 rng dyn root vinfo count).
Proof.
  intros st spec0 rng dyn root vinfo count H. unfold load.
  set (s := load_target st spec0).
  destruct (lookup s (js_slots st)) as [sl|].
  { destruct (cls_of W spec0); try exact H. apply jinv_mark. exact H. }
  assert (Hby : JInv
    match cls_of W s with
    | CJsr pkg req exp =>
        (queue_pkg W (mark_jsr_dep st req rng) pkg)
          <| js_res := js_res (queue_pkg W (mark_jsr_dep st req rng) pkg) ++
               [{| jr_spec := s; jr_pkg := pkg; jr_req := req; jr_exp := exp; jr_rng := rng; jr_dyn := dyn; jr_root := root |}] |>
    | CJsrBad => set_err st s EPackageFormat s rng
    | CFile p v _ =>
        push_item (queue_ver W st (p, v))
          {| ji_spec := s; ji_rng := rng; ji_count := count; ji_dyn := dyn; ji_root := root; ji_probe := None;
             ji_checksum := lock_remote_get st s; ji_vinfo := None; ji_fetch := Some (p, v) |}
    | CPlain =>
        push_item st
          {| ji_spec := s; ji_rng := rng; ji_count := count; ji_dyn := dyn; ji_root := root; ji_probe := None;
             ji_checksum := lock_remote_get st s; ji_vinfo := None; ji_fetch := None |}
    end).
  { destruct (cls_of W s) as [pkg req exp| |p v pa|] eqn:Ec.
    - pose proof (jinv_queue_pkg _ pkg (jinv_mark st req rng H)) as [A B C D E F G K].
      constructor; try assumption. cbn. apply Forall_app. split; [exact E|].
      constructor; [|constructor]. unfold ResOK. cbn. exact Ec.
    - apply jinv_set_err. exact H.
    - apply jinv_push_item; [apply jinv_queue_ver; exact H|].
      unfold ItemOK. cbn. rewrite Ec. left. split; reflexivity.
    - apply jinv_push_item; [exact H|]. unfold ItemOK. cbn. rewrite Ec. exact I. }
  destruct (has_key s (js_redirects st)); [apply jinv_set_err; exact H|].
  destruct vinfo as [[vp vv]|]; [|exact Hby].
  destruct (cls_of W s) as [pkg req exp| |p v pa|] eqn:Ec; try exact Hby.
  destruct (N.eqb vp p && N.eqb vv v); [|exact Hby].
  destruct (vinfo_of W st (p, v)) as [vi|] eqn:Ev; [|exact Hby].
  destruct (get_checksum W vi pa) as [c|] eqn:Eg; [|apply jinv_set_err; exact H].
  assert (Hm : manifest_chk s c).
  { exists p, v, pa, vi. split; [exact Ec|]. split; [apply (vinfo_of_meta st); exact Ev | exact Eg]. }
  destruct (lookup pa (vi_modinfo vi)) as [mi|].
  - apply jinv_push_item.
    + apply jinv_log_call; [exact H|]. unfold CallOK. cbn. rewrite Ec. exists c. split; [exact Hm | reflexivity].
    + unfold ItemOK. cbn. rewrite Ec. right. split; [reflexivity|]. exists c. split; [exact Hm|]. split; [reflexivity|].
      intros c0 mi0 E. inversion E. reflexivity.
  - apply jinv_push_item; [exact H|].
    unfold ItemOK. cbn. rewrite Ec. right. split; [reflexivity|]. exists c. split; [exact Hm|]. split; [reflexivity|].
    intros c0 mi0 E. discriminate.
Qed.

Lemma visit_deps_jinv : forall referrer vinfo ds st, JInv st -> JInv (visit_deps W st referrer vinfo ds).
Proof.
  intros referrer vinfo ds. induction ds as [|d ds IH]; intros st H; cbn [visit_deps]; [exact H|].
  apply IH. unfold visit_dep. destruct (jd_dyn d && negb (js_in_dyn st)); [ext H | apply load_jinv; exact H].
Qed.
End B.

Section B2.
Variable W : jworld.
Hypothesis Hwf : wf_jworld W = true.

(* the calls a load makes present the manifest checksum *)
Lemma try_load_calls : forall st it, ItemOK W it -> Forall (CallOK W) (t_calls (try_load W st it)).
Proof.
  intros st it Hi. unfold try_load.
  destruct (ji_probe it) as [[c mi]|] eqn:Ep; [constructor|].
  set (fetched := match ji_fetch it with None => _ | Some v => _ end).
  assert (Hf : forall c vinfo https, fetched = inl (c, vinfo, https) ->
               CallOK W {| jc_spec := ji_spec it; jc_setting := 0; jc_checksum := c |} /\
               CallOK W {| jc_spec := ji_spec it; jc_setting := 1; jc_checksum := c |}).
  { intros c vinfo https Hfe. unfold CallOK. cbn [jc_spec jc_checksum].
    unfold ItemOK in Hi. destruct (cls_of W (ji_spec it)) as [pkg req exp| |p v pa|] eqn:Ec; try (split; exact I).
    unfold fetched in Hfe. destruct Hi as [[Hfetch _]|[Hfetch [k [Hm [Hc _]]]]]; rewrite Hfetch in Hfe.
    - destruct (ver_result W st (p, v)) as [[vi cfl]|kk] eqn:Ev; [|discriminate].
      try rewrite Ec in Hfe. destruct (get_checksum W vi pa) as [c0|] eqn:Eg; [|discriminate].
      inversion Hfe; subst.
      assert (Hm : manifest_chk W (ji_spec it) c0).
      { exists p, v, pa, vi. split; [exact Ec|]. split; [apply (ver_result_meta W st _ _ cfl); exact Ev | exact Eg]. }
      split; exists c0; (split; [exact Hm | reflexivity]).
    - inversion Hfe; subst. split; exists k; (split; [exact Hm | exact Hc]). }
  destruct fetched as [[[c vinfo] https]|e] eqn:Ef; [|constructor].
  destruct (Hf c vinfo https eq_refl) as [H1 H2].
  destruct (check_resp (use_of W (ji_spec it)) c) as [[| |t|f|f m]|]; cbn [t_calls];
    try (constructor; [exact H1 | constructor]).
  destruct vinfo; cbn [t_calls]; [constructor; [exact H1 | constructor] |
                                  constructor; [exact H1 | constructor; [exact H2 | constructor]]].
Qed.

(* a module result that asks for a content load comes from the probe of this very item *)
Lemma try_load_content : forall st it final src decl deps c,
  t_res (try_load W st it) = PModule final src decl deps (Some c) ->
  final = ji_spec it /\ exists mi, ji_probe it = Some (c, mi).
Proof.
  intros st it final src decl deps c. unfold try_load.
  destruct (ji_probe it) as [[c0 mi]|].
  - cbn [t_res]. destruct (check_resp (only_of W (ji_spec it)) (Some c0)) as [[| |t|f|f m]|]; unfold mk_err;
      try discriminate.
    + intro H. inversion H; subst. split; [reflexivity | eexists; reflexivity].
    + unfold parse_resp. destruct (jm_ok m); discriminate.
  - set (fetched := match ji_fetch it with None => _ | Some v => _ end).
    destruct fetched as [[[c1 vinfo] https]|e]; [|cbn; discriminate].
    destruct (check_resp (use_of W (ji_spec it)) c1) as [[| |t|f|f m]|]; cbn [t_res]; unfold mk_err; try discriminate.
    + destruct vinfo; [discriminate|]. destruct c1; [discriminate|].
      destruct (Nat.leb (jw_max_redirects W) (ji_count it) || N.eqb t (ji_spec it)); discriminate.
    + unfold parse_resp. destruct (jm_ok m); discriminate.
    + destruct vinfo; discriminate.
Qed.

Lemma try_load_https : forall st it v cfl,
  JInv W st -> t_https (try_load W st it) = Some (v, cfl) -> CflOK W v cfl.
Proof.
  intros st it v cfl H. unfold try_load.
  destruct (ji_probe it) as [[c mi]|]; [cbn; discriminate|].
  destruct (ji_fetch it) as [v0|] eqn:Ef.
  - destruct (ver_result W st v0) as [[vi cfl0]|kk] eqn:Ev; [|cbn; discriminate].
    pose proof (ver_result_cfl W st v0 vi cfl0 H Ev) as Hc.
    destruct (cls_of W (ji_spec it)) as [pkg req exp| |p v1 pa|].
    + destruct (check_resp (use_of W (ji_spec it)) (ji_checksum it)) as [[| |t|f|f m]|]; cbn [t_https];
        intro E; inversion E; subst; exact Hc.
    + destruct (check_resp (use_of W (ji_spec it)) (ji_checksum it)) as [[| |t|f|f m]|]; cbn [t_https];
        intro E; inversion E; subst; exact Hc.
    + destruct (get_checksum W vi pa) as [c0|]; [|cbn; discriminate].
      destruct (check_resp (use_of W (ji_spec it)) (Some c0)) as [[| |t|f|f m]|]; cbn [t_https];
        intro E; inversion E; subst; exact Hc.
    + destruct (check_resp (use_of W (ji_spec it)) (ji_checksum it)) as [[| |t|f|f m]|]; cbn [t_https];
        intro E; inversion E; subst; exact Hc.
  - destruct (check_resp (use_of W (ji_spec it)) (ji_checksum it)) as [[| |t|f|f m]|]; cbn [t_https]; try discriminate.
    destruct (ji_vinfo it); cbn [t_https]; discriminate.
Qed.

Lemma itemok_not_jsr : forall it, ItemOK W it -> not_jsr W (ji_spec it).
Proof. intros it H. unfold ItemOK in H. unfold not_jsr. destruct (cls_of W (ji_spec it)); try exact I. exact H. Qed.

Lemma process_jinv : forall st it, JInv W st -> ItemOK W it -> JInv W (process W st it).
Proof.
  intros st it H Hi. unfold process.
  pose proof (try_load_calls st it Hi) as Hcalls.
  pose proof (try_load_content st it) as Hcont.
  pose proof (try_load_https st it) as Hhttps.
  destruct (try_load W st it) as [res calls vinfo https]. cbn [t_res t_calls t_vinfo t_https] in *.
  set (st1 := st <| js_calls := rev calls ++ js_calls st |>).
  assert (H1 : JInv W st1).
  { destruct H as [A B C D E F G K]. constructor; try assumption. cbn. apply Forall_app. split; [apply Forall_rev; exact Hcalls | exact B]. }
  set (st2 := match https with
              | Some (v, cfl) => (lock_set_pkg st1 v cfl) <| js_pkgs := ensure_package (js_pkgs (lock_set_pkg st1 v cfl)) v |>
              | None => st1 end).
  assert (H2 : JInv W st2).
  { unfold st2. destruct https as [[v cfl]|]; [|exact H1].
    eapply jinv_ext; [| | | | | | | |apply (jinv_lock_set W st1 v cfl H1 (Hhttps v cfl H eq_refl))]; reflexivity. }
  clearbody st2. clear H1 st1 H Hcalls Hhttps.
  pose proof (itemok_not_jsr it Hi) as Hn.
  destruct res as [e|to|final|final src decl deps content].
  - apply jinv_set_slot; [apply jinv_check_specifier; assumption|]. intros e0 He. inversion He. reflexivity.
  - apply load_jinv; [exact Hwf|]. apply jinv_check_specifier; assumption.
  - set (st3 := check_specifier st2 (ji_spec it) final).
    assert (H3 : JInv W st3) by (apply jinv_check_specifier; assumption). clearbody st3.
    set (st4 := if ji_root it then add_resolved_root st3 final else st3).
    assert (H4 : JInv W st4) by (unfold st4; destruct (ji_root it); [apply jinv_add_root|]; exact H3). clearbody st4.
    destruct (lookup final (js_slots st4)) as [[s0 d0| |e0|]|]; try exact H4;
      (apply jinv_set_ok; [exact H4 | intros e1; discriminate]).
  - set (st3 := check_specifier st2 (ji_spec it) final).
    assert (H3 : JInv W st3) by (apply jinv_check_specifier; assumption). clearbody st3.
    set (st4 := if ji_root it then add_resolved_root st3 final else st3).
    assert (H4 : JInv W st4) by (unfold st4; destruct (ji_root it); [apply jinv_add_root|]; exact H3). clearbody st4.
    apply jinv_set_ok; [|intros e1; discriminate]. apply visit_deps_jinv; [exact Hwf|].
    destruct content as [c|].
    + destruct (Hcont final src decl deps c eq_refl) as [-> [mi Hp]].
      assert (Hc : CallOK W {| jc_spec := ji_spec it; jc_setting := 0; jc_checksum := Some c |}).
      { unfold CallOK. cbn. unfold ItemOK in Hi. destruct (cls_of W (ji_spec it)) as [pkg req exp| |p v pa|]; try exact I.
        destruct Hi as [[_ Hnone]|[_ [k [Hm [_ Hk]]]]]; [rewrite Hnone in Hp; discriminate|].
        exists k. split; [exact Hm|]. rewrite (Hk c mi Hp). reflexivity. }
      pose proof (jinv_log_call W st4 (ji_spec it) 0 (Some c) H4 Hc) as H5.
      eapply jinv_ext; [| | | | | | | |exact H5]; reflexivity.
    + destruct vinfo; [exact H4 | apply jinv_record_remote; exact H4].
Qed.

(* ---------- resolution of jsr: specifiers ---------- *)
Lemma best_match_matches : forall req vs best v,
  best_match W req vs best = Some v -> best = Some v \/ matches W req v = true.
Proof.
  intros req vs. induction vs as [|x vs IH]; intros best v; cbn [best_match]; [intro H; left; exact H|].
  intro H. apply IH in H. destruct H as [H|H]; [|right; exact H].
  destruct (matches W req x) eqn:Em; [|left; exact H].
  destruct best as [b|].
  - destruct (N.ltb b x); [inversion H; subst; right; exact Em | left; exact H].
  - inversion H; subst. right. exact Em.
Qed.

Lemma resolve_version_matches : forall req versions existing cached late v y,
  resolve_version W req versions existing cached late = Some (v, y) -> matches W req v = true.
Proof.
  intros req versions existing cached late v y. unfold resolve_version.
  assert (G : forall vs x, best_match W req vs None = Some x -> matches W req x = true).
  { intros vs x H. apply best_match_matches in H. destruct H as [H|H]; [discriminate | exact H]. }
  destruct (best_match W req existing None) as [v0|] eqn:E0.
  { intro H. inversion H; subst. apply (G _ _ E0). }
  set (s15 := match cached with [] => None | _ => _ end).
  destruct s15 as [v1|] eqn:E15.
  { intro H. inversion H; subst. unfold s15 in E15. destruct cached; [discriminate|]. apply (G _ _ E15). }
  match goal with |- context [best_match W req ?l None] => destruct (best_match W req l None) as [v2|] eqn:E2 end.
  { intro H. inversion H; subst. apply (G _ _ E2). }
  match goal with |- context [best_match W req ?l None] => destruct (best_match W req l None) as [v3|] eqn:E3 end; [|discriminate].
  intro H. inversion H; subst. apply (G _ _ E3).
Qed.

Definition VresOK (x : vres) : Prop :=
  ResOK W (vr_item x) /\ fst (vr_nv x) = jr_pkg (vr_item x) /\ matches W (jr_req (vr_item x)) (snd (vr_nv x)) = true.

Lemma probe_all_jinv : forall pkg cands st cached, JInv W st -> JInv W (fst (probe_all W st pkg cands cached)).
Proof.
  intros pkg cands. induction cands as [|v cands IH]; intros st cached H; cbn [probe_all fst]; [exact H|].
  apply IH. apply jinv_log_call; [exact H | apply callok_plain; apply wf_ver_url; exact Hwf].
Qed.

Lemma probe_jinv : forall st memo pkg req versions, JInv W st -> JInv W (fst (fst (probe W st memo pkg req versions))).
Proof.
  intros st memo pkg req versions H. unfold probe.
  destruct (match lookup pkg memo with Some m => m | None => ([], []) end) as [probed cached].
  set (cands := map fst (filter _ versions)).
  pose proof (probe_all_jinv pkg cands st cached H) as Hp.
  destruct (probe_all W st pkg cands cached) as [st1 cached']. exact Hp.
Qed.

Lemma resolve_reqs_jinv : forall o items st memo acc,
  JInv W st -> Forall (ResOK W) items -> Forall VresOK acc ->
  JInv W (fst (resolve_reqs W o st memo items acc)) /\
  match snd (resolve_reqs W o st memo items acc) with Some vs => Forall VresOK vs | None => True end.
Proof.
  intros o items. induction items as [|it rest IH]; intros st memo acc H Hitems Hacc; cbn [resolve_reqs].
  { split; [exact H | exact Hacc]. }
  inversion Hitems as [|? ? Hit Hrest]; subst.
  destruct (pmeta_of W st (jr_pkg it)) as [f|versions].
  { apply IH; [apply jinv_set_err; exact H | exact Hrest | exact Hacc]. }
  set (pr := if negb (jo_prefer_cached o) || unification_decides W st (jr_pkg it) (jr_req it)
             then (st, memo, []) else probe W st memo (jr_pkg it) (jr_req it) versions).
  assert (Hpr : JInv W (fst (fst pr))).
  { unfold pr. destruct (negb (jo_prefer_cached o) || unification_decides W st (jr_pkg it) (jr_req it));
      [exact H | apply probe_jinv; exact H]. }
  destruct pr as [[st1 memo1] cached]. cbn [fst] in Hpr.
  destruct (resolve_version W (jr_req it) versions (versions_by_name (js_pkgs st1) (jr_pkg it)) cached (late_of W (jr_pkg it))) as [[v yanked]|] eqn:Er.
  - apply IH; [| exact Hrest |].
    + apply jinv_queue_ver; [exact Hwf|]. eapply jinv_ext; [| | | | | | | |exact Hpr]; reflexivity.
    + apply Forall_app. split; [exact Hacc|]. constructor; [|constructor].
      unfold VresOK. cbn. split; [exact Hit|]. split; [reflexivity|]. apply (resolve_version_matches _ _ _ _ _ _ _ Er).
  - destruct (js_busting st1).
    + apply IH; [apply jinv_set_err; exact Hpr | exact Hrest | exact Hacc].
    + split; [exact Hpr | exact I].
Qed.

Lemma jinv_set_redirect : forall st k t pk,
  JInv W st -> RedOK W k t ->
  JInv W (st <| js_pkgs := pk |> <| js_redirects := set_assoc k t (js_redirects st) |>).
Proof.
  intros st k t pk [A B C D E F G K] Hr. constructor; try assumption. cbn.
  intros s t0 Hl. destruct (N.eq_dec s k) as [->|Hne].
  - rewrite lookup_set_assoc_same in Hl. inversion Hl; subst. exact Hr.
  - rewrite lookup_set_assoc_other in Hl by exact Hne. apply D. exact Hl.
Qed.

Lemma resolve_vers_jinv : forall ct items st, JInv W st -> Forall VresOK items -> JInv W (resolve_vers W ct st items).
Proof.
  intros ct items. induction items as [|x rest IH]; intros st H Hx; cbn [resolve_vers]; [exact H|].
  inversion Hx as [|? ? [Hres [Hpkg Hm]] Hrest]; subst.
  apply IH; [|exact Hrest].
  destruct (ver_result W st (vr_nv x)) as [[vi cfl]|k] eqn:Ev; [|apply jinv_set_err; exact H].
  set (st1 := st <| js_pkgs := ensure_package (js_pkgs st) (vr_nv x) |>).
  assert (H1 : JInv W st1) by (eapply jinv_ext; [| | | | | | | |exact H]; reflexivity).
  pose proof (jinv_lock_set W st1 (vr_nv x) cfl H1 (ver_result_cfl W st _ _ _ H Ev)) as H2.
  set (st2 := lock_set_pkg st1 (vr_nv x) cfl) in *. clearbody st2.
  destruct (lookup (jr_exp (vr_item x)) (vi_exports vi)) as [target|] eqn:El; [|apply jinv_set_err; exact H2].
  destruct target as [|p]; [apply jinv_set_err; exact H2|].
  apply load_jinv; [exact Hwf|].
  assert (Hred : RedOK W (jr_spec (vr_item x)) (N.pos p)).
  { unfold RedOK. unfold ResOK in Hres. rewrite Hres.
    exists (snd (vr_nv x)), vi. split.
    - rewrite <- Hpkg. destruct (vr_nv x) as [a b]. cbn. apply (ver_result_meta W st _ _ cfl). exact Ev.
    - split; [exact El|]. split; [discriminate | exact Hm]. }
  destruct (jr_root (vr_item x)); [apply jinv_add_root|]; apply jinv_set_redirect; assumption.
Qed.

Lemma resolve_jsr_jinv : forall o st,
  JInv W st -> match resolve_jsr W o st with inl st' => JInv W st' | inr st' => JInv W st' end.
Proof.
  intros o st H. unfold resolve_jsr.
  assert (H0 : JInv W (st <| js_res := [] |>)).
  { destruct H as [A B C D E F G K]. constructor; try assumption. cbn. constructor. }
  match goal with
  | |- context [resolve_reqs ?a ?b ?c ?d ?e ?f] =>
      pose proof (resolve_reqs_jinv b e c d f H0 (jv_res W st H) (Forall_nil _)) as [Hr Hv];
      destruct (resolve_reqs a b c d e f) as [st1 [vs|]]
  end; cbn [fst snd] in *; [|exact Hr].
  apply resolve_vers_jinv; assumption.
Qed.

Lemma load_branches_jinv : forall bs st, JInv W st -> JInv W (load_branches W st bs).
Proof.
  intros bs. induction bs as [|[s b] bs IH]; intros st H; cbn [load_branches]; [exact H|].
  apply IH. apply load_jinv; [exact Hwf | exact H].
Qed.

Lemma loop_step_jinv : forall o st,
  JInv W st -> match loop_step W o st with inl st' => JInv W st' | inr st' => JInv W st' end.
Proof.
  intros o st H. unfold loop_step.
  set (st1 := match js_pending st with it :: rest => process W (st <| js_pending := rest |>) it | [] => st end).
  assert (H1 : JInv W st1).
  { unfold st1. destruct (js_pending st) as [|it rest] eqn:Ep; [exact H|].
    pose proof (jv_items W st H) as Hi. rewrite Ep in Hi. inversion Hi as [|? ? Hit Hrest]; subst.
    apply process_jinv; [|exact Hit]. destruct H as [A B C D E F G K]. constructor; try assumption. }
  clearbody st1.
  destruct (js_pending st1) as [|i1 r1] eqn:Ep1; [|exact H1].
  pose proof (resolve_jsr_jinv o st1 H1) as H2.
  destruct (resolve_jsr W o st1) as [st2|st2]; [|exact H2].
  destruct (js_pending st2); [|exact H2].
  destruct (js_in_dyn st2); [exact H2|].
  apply load_branches_jinv. eapply jinv_ext; [| | | | | | | |exact H2]; reflexivity.
Qed.

Lemma resolve_pending_jinv : forall o fuel st,
  JInv W st ->
  match resolve_pending fuel W o st with LDone st' => JInv W st' | LRestart st' => JInv W st' | LFuel => True end.
Proof.
  intros o fuel. induction fuel as [|f IH]; intros st H; cbn [resolve_pending].
  - destruct (idle st); [exact H | exact I].
  - destruct (idle st); [exact H|].
    pose proof (loop_step_jinv o st H) as Hs. destruct (loop_step W o st) as [st'|st']; [apply IH; exact Hs | exact Hs].
Qed.

Lemma load_roots_jinv : forall roots st, JInv W st -> JInv W (load_roots W st roots).
Proof.
  intros roots. induction roots as [|r rs IH]; intros st H; cbn [load_roots]; [exact H|].
  apply IH. apply load_jinv; [exact Hwf | exact H].
Qed.

Lemma content_load_jinv : forall st ci, JInv W st -> JInv W (content_load W st ci).
Proof.
  intros st ci H. unfold content_load.
  destruct (check_resp (use_of W (ci_spec ci)) (Some (ci_checksum ci))) as [[| |t|f|f m]|];
    try (apply jinv_set_err; exact H).
  destruct (N.eqb f (ci_spec ci)); [|apply jinv_set_err; exact H].
  destruct (lookup (ci_spec ci) (js_slots st)) as [[src deps| |e|]|]; try exact H.
  apply jinv_set_ok; [exact H | intros e; discriminate].
Qed.

Lemma content_loads_jinv : forall st, JInv W st -> JInv W (content_loads W st).
Proof.
  intros st H. unfold content_loads.
  assert (G : forall cs st0, JInv W st0 -> JInv W (fold_left (content_load W) cs st0)).
  { induction cs as [|c cs IH]; intros st0 H0; cbn [fold_left]; [exact H0|]. apply IH. apply content_load_jinv. exact H0. }
  apply G. eapply jinv_ext; [| | | | | | | |exact H]; reflexivity.
Qed.

Lemma init_jinv : JInv W (init_state W).
Proof.
  constructor; cbn.
  - intros; discriminate.
  - constructor.
  - constructor.
  - intros; discriminate.
  - constructor.
  - intros; discriminate.
  - intros v c0 H. exact H.
  - intros v c [].
Qed.

Lemma restart_jinv : forall st, JInv W st -> JInv W (restart_state W st).
Proof.
  intros st [A B C D E F G K]. constructor; cbn.
  - intros; discriminate.
  - exact B.
  - constructor.
  - intros; discriminate.
  - constructor.
  - intros; discriminate.
  - exact G.
  - exact K.
Qed.

Theorem jbuild_jinv : forall o roots g,
  jbuild W o roots = Some g ->
  (forall s e, lookup s (jg_slots g) = Some (JsErr e) -> je_spec e = s) /\
  Forall (CallOK W) (jg_calls g) /\
  (forall s t, lookup s (jg_redirects g) = Some t -> RedOK W s t) /\
  (forall v c, In (v, c) (jg_lock_sets g) ->
     init_lock_get W v = None /\ exists vi, v_meta (ver_of W v) = VOk vi /\ c = cfl_of vi).
Proof.
  intros o roots g. unfold jbuild.
  assert (Fin : forall r st, JInv W st ->
    (forall s e, lookup s (jg_slots (finish r (content_loads W st))) = Some (JsErr e) -> je_spec e = s) /\
    Forall (CallOK W) (jg_calls (finish r (content_loads W st))) /\
    (forall s t, lookup s (jg_redirects (finish r (content_loads W st))) = Some t -> RedOK W s t) /\
    (forall v c, In (v, c) (jg_lock_sets (finish r (content_loads W st))) ->
       init_lock_get W v = None /\ exists vi, v_meta (ver_of W v) = VOk vi /\ c = cfl_of vi)).
  { intros r st H. pose proof (content_loads_jinv st H) as [A B C D E F G K].
    cbn [finish jg_slots jg_calls jg_redirects jg_lock_sets].
    split; [exact A|]. split; [apply Forall_rev; exact B|]. split; [exact D|].
    intros v c Hin. apply K. apply in_rev. exact Hin. }
  pose proof (resolve_pending_jinv o (jfuel W) (load_roots W (init_state W) roots)
                (load_roots_jinv roots _ init_jinv)) as H1.
  destruct (resolve_pending (jfuel W) W o (load_roots W (init_state W) roots)) as [st|st|]; [| |discriminate].
  - intro E. inversion E; subst. apply Fin. exact H1.
  - pose proof (resolve_pending_jinv o (jfuel W) (load_roots W (restart_state W st) roots)
                  (load_roots_jinv roots _ (restart_jinv st H1))) as H2.
    destruct (resolve_pending (jfuel W) W o (load_roots W (restart_state W st) roots)) as [st2|st2|]; try discriminate.
    intro E. inversion E; subst. apply Fin. exact H2.
Qed.
End B2.
