(* Proofs about Model/Walk.v: termination (fuel), each entry once, exactly the
   selected reachable set, error listing. *)
From DG Require Import Base.Util Base.Sexp Base.Reach Model.Graph Model.Walk.

(* ---------- declarative selection relation (the property's words) ---------- *)

(* a module entry is handed to the caller unless a types-only walk replaces it
   by its types dependency or skips it as un-checkable *)
Definition substituted (o : wopts) (m : module) : bool :=
  match m_kind m with
  | MkJs =>
      include_types (w_kind o) &&
      gkind_eqb (w_kind o) KTypesOnly &&
      match types_dep_target m with
      | Some _ => true
      | None => negb (is_checkable o (m_spec m) (m_media m))
      end
  | _ => false
  end.

Inductive Edge (g : graph) (o : wopts) (skip : spec -> bool) : spec -> spec -> Prop :=
| E_redirect : forall s t,
    slot_of g s = None -> redirect_of g s = Some t -> skip s = false -> Edge g o skip s t
| E_types_dep : forall s m t,
    slot_of g s = Some (SMod m) -> m_kind m = MkJs ->
    include_types (w_kind o) = true -> types_dep_target m = Some t -> Edge g o skip s t
| E_dep : forall s m d t,
    slot_of g s = Some (SMod m) -> substituted o m = false -> skip s = false ->
    In d (selected_deps o m) -> dep_followed o d = true ->
    (In t (res_targets (d_code d)) \/
     (include_types (w_kind o) = true /\ In t (res_targets (d_type d)))) ->
    Edge g o skip s t.

(* what the iterator hands out for a popped specifier *)
Definition Yields (g : graph) (o : wopts) (s : spec) : Prop :=
  (exists ms e, slot_of g s = Some (SErr ms e)) \/
  (exists m, slot_of g s = Some (SMod m) /\ substituted o m = false) \/
  (slot_of g s = None /\ exists t, redirect_of g s = Some t).

Inductive Sel (g : graph) (o : wopts) (skip : spec -> bool) (roots : list spec) : spec -> Prop :=
| Sel_root : forall s, In s roots -> Sel g o skip roots s
| Sel_import : forall s, In s (import_targets g o) -> Sel g o skip roots s
| Sel_edge : forall s t, Sel g o skip roots s -> Edge g o skip s t -> Sel g o skip roots t.

(* ---------- visit / walk_expand characterisation ---------- *)

Lemma in_deps_targets : forall o ds t,
  In t (deps_targets o ds) <->
  exists d, In d ds /\ dep_followed o d = true /\
    (In t (res_targets (d_code d)) \/
     (include_types (w_kind o) = true /\ In t (res_targets (d_type d)))).
Proof.
  intros o ds t. unfold deps_targets. rewrite in_flat_map. split.
  - intros [d [Hd Ht]]. apply in_rev in Hd. exists d. split; [exact Hd|].
    unfold dep_targets in Ht. destruct (dep_followed o d) eqn:F; [|destruct Ht].
    split; [reflexivity|]. apply in_app_or in Ht. destruct Ht as [Ht|Ht]; [left; exact Ht|].
    destruct (include_types (w_kind o)) eqn:I; [right; split; [reflexivity|exact Ht] | destruct Ht].
  - intros [d [Hd [F Ht]]]. exists d. split; [apply in_rev; rewrite rev_involutive; exact Hd|].
    unfold dep_targets. rewrite F. apply in_or_app. destruct Ht as [Ht|[I Ht]]; [left; exact Ht|].
    right. rewrite I. exact Ht.
Qed.

Lemma substituted_nonjs : forall o m, m_kind m <> MkJs -> substituted o m = false.
Proof. intros o m H. unfold substituted. destruct (m_kind m); try reflexivity. congruence. Qed.

Lemma types_dep_target_js : forall m t, types_dep_target m = Some t -> m_kind m = MkJs.
Proof. intros m t H. unfold types_dep_target in H. destruct (m_kind m); try discriminate. reflexivity. Qed.

Definition types_push (o : wopts) (m : module) : list spec :=
  match m_kind m with
  | MkJs => if include_types (w_kind o)
            then match types_dep_target m with Some t => [t] | None => [] end
            else []
  | _ => []
  end.

Lemma visit_mod : forall g o skip s m,
  slot_of g s = Some (SMod m) ->
  visit g o skip s =
    (if substituted o m then None else Some (EModule m),
     types_push o m ++
     (if substituted o m then []
      else if skip s then [] else deps_targets o (selected_deps o m))).
Proof.
  intros g o skip s m Hs. unfold visit, substituted, types_push. rewrite Hs.
  destruct (m_kind m); try reflexivity.
  destruct (include_types (w_kind o)); try reflexivity.
  destruct (types_dep_target m);
    destruct (gkind_eqb (w_kind o) KTypesOnly);
    destruct (is_checkable o (m_spec m) (m_media m)); reflexivity.
Qed.

Lemma in_types_push : forall o m t,
  In t (types_push o m) <->
  (m_kind m = MkJs /\ include_types (w_kind o) = true /\ types_dep_target m = Some t).
Proof.
  intros o m t. unfold types_push.
  destruct (m_kind m) eqn:Hk; try (split; [intros [] | intros [H _]; discriminate]).
  destruct (include_types (w_kind o)); [|split; [intros [] | intros [_ [H _]]; discriminate]].
  destruct (types_dep_target m) as [t'|].
  - split.
    + intros [H|[]]. subst. repeat split; reflexivity.
    + intros [_ [_ H]]. inversion H. left; reflexivity.
  - split; [intros [] | intros [_ [_ H]]; discriminate].
Qed.

Lemma edge_mod_inv : forall g o skip s t m,
  slot_of g s = Some (SMod m) -> Edge g o skip s t ->
  (m_kind m = MkJs /\ include_types (w_kind o) = true /\ types_dep_target m = Some t) \/
  (substituted o m = false /\ skip s = false /\
   exists d, In d (selected_deps o m) /\ dep_followed o d = true /\
     (In t (res_targets (d_code d)) \/
      (include_types (w_kind o) = true /\ In t (res_targets (d_type d))))).
Proof.
  intros g o skip s t m Hs HE.
  destruct HE as [s t H1 H2 H3 | s m' t H1 H2 H3 H4 | s m' d t H1 H2 H3 H4 H5 H6].
  - congruence.
  - rewrite Hs in H1; inversion H1; subst m'. left. auto.
  - rewrite Hs in H1; inversion H1; subst m'. right.
    split; [exact H2|]. split; [exact H3|]. exists d. auto.
Qed.

Lemma expand_iff_edge : forall g o skip s t,
  In t (walk_expand g o skip s) <-> Edge g o skip s t.
Proof.
  intros g o skip s t. unfold walk_expand.
  destruct (slot_of g s) as [[m|ms e|]|] eqn:Hs.
  - rewrite (visit_mod g o skip s m Hs). cbn [snd]. rewrite in_app_iff, in_types_push.
    split.
    + intros [[Hk [Hi Htd]]|Hin].
      * eapply E_types_dep; eauto.
      * destruct (substituted o m) eqn:Hsub; [destruct Hin|].
        destruct (skip s) eqn:Hsk; [destruct Hin|].
        apply in_deps_targets in Hin. destruct Hin as [d [Hd [Hf Ht]]].
        eapply E_dep; eauto.
    + intro HE. destruct (edge_mod_inv g o skip s t m Hs HE) as [H|[Hsub [Hsk [d [Hd [Hf Ht]]]]]].
      * left. exact H.
      * right. rewrite Hsub, Hsk. apply in_deps_targets. exists d. tauto.
  - unfold visit. rewrite Hs. cbn [snd]. split; [intros []|].
    intro HE. inversion HE; subst; congruence.
  - unfold visit. rewrite Hs. cbn [snd]. split; [intros []|].
    intro HE. inversion HE; subst; congruence.
  - unfold visit. rewrite Hs.
    destruct (redirect_of g s) as [to|] eqn:Hr; cbn [snd].
    + destruct (skip s) eqn:Hsk.
      * split; [intros []|]. intro HE. inversion HE; subst; congruence.
      * split.
        -- intros [Ht|[]]. subst. apply E_redirect; assumption.
        -- intro HE. inversion HE; subst; try congruence.
           match goal with H : redirect_of g s = Some t |- _ => rewrite Hr in H; inversion H end.
           left; reflexivity.
    + split; [intros []|]. intro HE. inversion HE; subst; congruence.
Qed.

Lemma yields_iff : forall g o skip s,
  fst (visit g o skip s) <> None <-> Yields g o s.
Proof.
  intros g o skip s. unfold Yields.
  destruct (slot_of g s) as [[m|ms e|]|] eqn:Hs.
  - rewrite (visit_mod g o skip s m Hs). cbn [fst].
    destruct (substituted o m) eqn:Hsub.
    + split; [intro H; exfalso; apply H; reflexivity|].
      intros [[? [? H]]|[[m0 [H1 H2]]|[H _]]]; try discriminate.
      inversion H1; subst. congruence.
    + split; [intros _; right; left; exists m; split; [reflexivity | exact Hsub] | discriminate].
  - unfold visit. rewrite Hs. cbn [fst]. split; [intros _; left; eauto | discriminate].
  - unfold visit. rewrite Hs. cbn [fst]. split; [intro H; exfalso; apply H; reflexivity|].
    intros [[? [? H]]|[[? [H _]]|[H _]]]; discriminate.
  - unfold visit. rewrite Hs.
    destruct (redirect_of g s) as [to|] eqn:Hr; cbn [fst].
    + split; [intros _; right; right; split; [reflexivity | eauto] | discriminate].
    + split; [intro H; exfalso; apply H; reflexivity|].
      intros [[? [? H]]|[[? [H _]]|[_ [? H]]]]; discriminate.
Qed.

(* ---------- Reachable <-> Sel ---------- *)

Lemma reachable_iff_sel : forall g o skip roots s,
  Reachable (walk_expand g o skip) (roots ++ import_targets g o) s <-> Sel g o skip roots s.
Proof.
  intros g o skip roots s. split.
  - intro H. induction H as [x Hx | x y _ IH Hy].
    + apply in_app_or in Hx. destruct Hx; [apply Sel_root | apply Sel_import]; assumption.
    + eapply Sel_edge; [exact IH | apply expand_iff_edge; exact Hy].
  - intro H. induction H as [x Hx | x Hx | x y _ IH Hy].
    + apply R_root. apply in_or_app. left; exact Hx.
    + apply R_root. apply in_or_app. right; exact Hx.
    + eapply R_step; [exact IH | apply expand_iff_edge; exact Hy].
Qed.

(* ---------- fuel ---------- *)

Lemma module_targets_in_universe : forall g s m t,
  slot_of g s = Some (SMod m) -> In t (module_targets m) -> In t (universe g).
Proof.
  intros g s m t Hs Ht. unfold universe. apply in_or_app. left.
  apply in_flat_map. exists (s, SMod m). split; [apply lookup_In; exact Hs | exact Ht].
Qed.

Lemma redirect_in_universe : forall g s t, redirect_of g s = Some t -> In t (universe g).
Proof.
  intros g s t H. unfold universe. apply in_or_app. right.
  apply in_map_iff. exists (s, t). split; [reflexivity | apply lookup_In; exact H].
Qed.

Lemma selected_deps_targets : forall o m d t,
  In d (selected_deps o m) ->
  In t (res_targets (d_code d)) \/ In t (res_targets (d_type d)) ->
  In t (module_targets m).
Proof.
  intros o m d t Hd Ht. unfold module_targets, selected_deps in *.
  assert (Hfm : forall ds, In d ds ->
    In t (flat_map (fun d0 => res_targets (d_code d0) ++ res_targets (d_type d0)) ds)).
  { intros ds Hin. apply in_flat_map. exists d. split; [exact Hin|]. apply in_or_app. exact Ht. }
  destruct (check_types o m && w_prefer_fc o).
  - destruct (m_fc_deps m) as [fc|].
    + apply in_or_app. right. apply in_or_app. left. apply Hfm; exact Hd.
    + apply in_or_app. left. apply Hfm; exact Hd.
  - apply in_or_app. left. apply Hfm; exact Hd.
Qed.

Lemma expand_in_universe : forall g o skip x y,
  In y (walk_expand g o skip x) -> In y (universe g).
Proof.
  intros g o skip x y H. apply expand_iff_edge in H.
  inversion H as [? ? ? Hr ?|? m ? Hs ? ? Htd|? m d ? Hs ? ? Hd ? Ht]; subst.
  - eapply redirect_in_universe; eauto.
  - eapply module_targets_in_universe; [exact Hs|].
    unfold module_targets. apply in_or_app. right. apply in_or_app. right.
    unfold types_dep_target in Htd. destruct (m_kind m); try discriminate.
    destruct (m_types_dep m) as [td|]; [|discriminate].
    destruct (td_res td); try discriminate. inversion Htd; subst. left; reflexivity.
  - eapply module_targets_in_universe; [exact Hs|].
    eapply selected_deps_targets; [exact Hd|]. tauto.
Qed.

Lemma unseen_le : forall U seen, (unseen U seen <= length (dedup U))%nat.
Proof.
  intros U seen. unfold unseen. generalize (dedup U) as l.
  induction l as [|a l IH]; cbn [filter length]; [lia|].
  destruct (negb (mem a seen)); cbn [length]; lia.
Qed.

Theorem walk_terminates : forall g o skip roots, walk g o skip roots <> None.
Proof.
  intros g o skip roots. unfold walk, walk_popped.
  destruct (push_all (import_targets g o) roots roots) as [seen0 q0] eqn:HP.
  pose proof (push_all_spec (walk_expand g o skip) _ _ _ _ _ HP) as [new [Hq [Hnd [Hnew _]]]].
  assert (Hlen : (length q0 <= length roots + length (import_targets g o))%nat).
  { subst q0. rewrite app_length.
    assert (length new <= length (import_targets g o))%nat.
    { apply NoDup_incl_length; [exact Hnd|]. intros x Hx. apply Hnew in Hx. tauto. }
    unfold spec in *. lia. }
  pose proof (run_fuel_enough (walk_expand g o skip) (universe g)
                (expand_in_universe g o skip) (walk_fuel g o roots) seen0 q0 []) as HF.
  destruct (run (walk_expand g o skip) (walk_fuel g o roots) seen0 q0 []) as [[out sn]|] eqn:HR.
  - discriminate.
  - exfalso. apply HF; [|reflexivity].
    unfold walk_fuel. pose proof (unseen_le (universe g) seen0). unfold spec in *. lia.
Qed.

(* ---------- main theorems ---------- *)

Lemma walk_popped_spec : forall g o skip roots ps,
  NoDup roots ->
  walk_popped g o skip roots = Some ps ->
  NoDup ps /\ (forall s, In s ps <-> Sel g o skip roots s).
Proof.
  intros g o skip roots ps Hnd H. unfold walk_popped in H.
  destruct (push_all (import_targets g o) roots roots) as [seen0 q0] eqn:HP.
  destruct (run (walk_expand g o skip) (walk_fuel g o roots) seen0 q0 []) as [[out sn]|] eqn:HR; [|discriminate].
  inversion H; subst ps.
  pose proof (push_init_inv (walk_expand g o skip) roots (import_targets g o) seen0 q0 Hnd HP) as HI.
  pose proof (run_sound_complete _ _ _ _ _ _ _ _ HI HR) as [Hn Hiff].
  split.
  - apply NoDup_rev. exact Hn.
  - intro s. rewrite <- in_rev. rewrite Hiff. apply reachable_iff_sel.
Qed.

Lemma filter_map_yield_fst : forall g o skip ps s,
  In s (map fst (filter_map (yield_of g o skip) ps)) <->
  In s ps /\ fst (visit g o skip s) <> None.
Proof.
  intros g o skip ps s. induction ps as [|p ps IH]; cbn [filter_map map In]; [tauto|].
  unfold yield_of at 1. destruct (fst (visit g o skip p)) as [e|] eqn:Hv.
  - cbn [map fst In]. rewrite IH. split.
    + intros [Hp|[Hin Hy]]; [subst; split; [left; reflexivity | rewrite Hv; discriminate] | tauto].
    + intros [[Hp|Hin] Hy]; [left; exact Hp | right; tauto].
  - rewrite IH. split.
    + intros [Hin Hy]. tauto.
    + intros [[Hp|Hin] Hy]; [subst; rewrite Hv in Hy; exfalso; apply Hy; reflexivity | tauto].
Qed.

Lemma filter_map_yield_nodup : forall g o skip ps,
  NoDup ps -> NoDup (map fst (filter_map (yield_of g o skip) ps)).
Proof.
  intros g o skip ps H. induction H as [|p ps Hn Hnd IH]; cbn [filter_map map]; [constructor|].
  unfold yield_of at 1. destruct (fst (visit g o skip p)) as [e|] eqn:Hv; [|exact IH].
  cbn [map fst]. constructor; [|exact IH].
  intro Hin. apply filter_map_yield_fst in Hin. tauto.
Qed.

Theorem walk_once : forall g o skip roots ys,
  NoDup roots -> walk g o skip roots = Some ys -> NoDup (map fst ys).
Proof.
  intros g o skip roots ys Hnd H. unfold walk in H.
  destruct (walk_popped g o skip roots) as [ps|] eqn:HP; [|discriminate].
  inversion H; subst. apply filter_map_yield_nodup.
  apply (walk_popped_spec _ _ _ _ _ Hnd HP).
Qed.

Theorem walk_exact : forall g o skip roots ys,
  NoDup roots -> walk g o skip roots = Some ys ->
  forall s, In s (map fst ys) <-> (Sel g o skip roots s /\ Yields g o s).
Proof.
  intros g o skip roots ys Hnd H s. unfold walk in H.
  destruct (walk_popped g o skip roots) as [ps|] eqn:HP; [|discriminate].
  inversion H; subst. rewrite filter_map_yield_fst.
  destruct (walk_popped_spec _ _ _ _ _ Hnd HP) as [_ Hiff].
  rewrite Hiff. rewrite yields_iff. tauto.
Qed.

(* the entry handed out for s is the graph's own entry for s *)
Theorem walk_entries : forall g o skip roots ys s e,
  walk g o skip roots = Some ys -> In (s, e) ys ->
  match e with
  | EModule m => slot_of g s = Some (SMod m)
  | EErr ms er => slot_of g s = Some (SErr ms er)
  | ERedirect t => slot_of g s = None /\ redirect_of g s = Some t
  end.
Proof.
  intros g o skip roots ys s e H Hin. unfold walk in H.
  destruct (walk_popped g o skip roots) as [ps|]; [|discriminate].
  inversion H; subst. clear H.
  induction ps as [|p ps IH]; cbn [filter_map] in Hin; [destruct Hin|].
  unfold yield_of at 1 in Hin.
  destruct (fst (visit g o skip p)) as [e'|] eqn:Hv.
  - destruct Hin as [Heq|Hin]; [|apply IH; exact Hin].
    inversion Heq; subst. clear IH.
    destruct (slot_of g s) as [[m|ms er|]|] eqn:Hs.
    + rewrite (visit_mod g o skip s m Hs) in Hv. cbn [fst] in Hv.
      destruct (substituted o m); [discriminate|]. inversion Hv; subst. reflexivity.
    + unfold visit in Hv. rewrite Hs in Hv. cbn [fst] in Hv. inversion Hv; subst. reflexivity.
    + unfold visit in Hv. rewrite Hs in Hv. cbn [fst] in Hv. discriminate.
    + unfold visit in Hv. rewrite Hs in Hv.
      destruct (redirect_of g s) eqn:Hr; cbn [fst] in Hv; [|discriminate].
      inversion Hv; subst. split; reflexivity.
  - apply IH; exact Hin.
Qed.

Theorem walk_errors_exact : forall g o roots ys es,
  walk g o (fun _ => false) roots = Some ys ->
  walk_errors g o roots = Some es ->
  forall e, In e es <-> exists s en, In (s, en) ys /\ In e (entry_errors g o en).
Proof.
  intros g o roots ys es Hw He e. unfold walk_errors in He. rewrite Hw in He.
  inversion He; subst. rewrite in_flat_map. split.
  - intros [[s en] [Hin Hr]]. exists s, en. split; [exact Hin|]. apply in_rev in Hr. exact Hr.
  - intros [s [en [Hin Hr]]]. exists (s, en). split; [exact Hin|]. apply in_rev. rewrite rev_involutive. exact Hr.
Qed.

Theorem validate_ok_iff : forall g o roots es,
  walk_errors g o roots = Some es ->
  (validate g o roots = Some None <-> es = []).
Proof.
  intros g o roots es H. unfold validate. rewrite H. destruct es; split; intro X; try reflexivity; try discriminate.
Qed.
