(* Proofs for the C07 model: PackageSpecifiers refines its history specification. *)
From Coq Require Import Arith.
From DG Require Import Base.Util Base.Sexp Model.Packages.

Lemma NoDup_app_snoc : forall {A} (l : list A) x, NoDup l -> ~ In x l -> NoDup (l ++ [x]).
Proof.
  intros A l x H Hx. induction H as [|a l Ha Hd IH]; cbn [app].
  - constructor; [intros []|constructor].
  - constructor.
    + rewrite in_app_iff. cbn [In]. intros [H|[H|[]]]; [exact (Ha H)|]. subst a. apply Hx. left. reflexivity.
    + apply IH. intro H. apply Hx. right. exact H.
Qed.

(* ------------------------------------------------------------------ *)
(* PackageSpecifiers: finite-map lemmas *)

Lemma lookup_put_same : forall {V} k (v : V) l, lookup k (put k v l) = Some v.
Proof.
  intros V k v l. induction l as [|[k' v'] l IH]; cbn [put lookup].
  - rewrite N.eqb_refl. reflexivity.
  - destruct (N.eqb k k') eqn:E; cbn [lookup]; [rewrite N.eqb_refl; reflexivity|]. rewrite E. exact IH.
Qed.

Lemma lookup_put_other : forall {V} k k' (v : V) l, k' <> k -> lookup k' (put k v l) = lookup k' l.
Proof.
  intros V k k' v l H. induction l as [|[k0 v0] l IH]; cbn [put lookup].
  - destruct (N.eqb_spec k' k); [contradiction|reflexivity].
  - destruct (N.eqb k k0) eqn:E; cbn [lookup].
    + apply N.eqb_eq in E. subst k0. destruct (N.eqb_spec k' k); [contradiction|reflexivity].
    + destruct (N.eqb k' k0); [reflexivity|exact IH].
Qed.

Lemma put_keys : forall {V} k (v : V) l x, In x (map fst (put k v l)) <-> x = k \/ In x (map fst l).
Proof.
  intros V k v l x. induction l as [|[k0 v0] l IH]; cbn [put map fst In].
  - split; [intros [H|[]]; left; symmetry; exact H | intros [H|[]]; left; symmetry; exact H].
  - destruct (N.eqb k k0) eqn:E; cbn [map fst In].
    + apply N.eqb_eq in E. subst k0. split; [intros [H|H]; [left; symmetry; exact H | right; right; exact H]|].
      intros [H|[H|H]]; [left; symmetry; exact H | left; exact H | right; exact H].
    + rewrite IH. tauto.
Qed.

Lemma put_NoDup : forall {V} k (v : V) l, NoDup (map fst l) -> NoDup (map fst (put k v l)).
Proof.
  intros V k v l H. induction l as [|[k0 v0] l IH]; cbn [put map fst].
  - constructor; [intros []|constructor].
  - cbn [map fst] in H. inversion H as [|a b Hn Hd]; subst.
    destruct (N.eqb k k0) eqn:E; cbn [map fst].
    + apply N.eqb_eq in E. subst k0. constructor; assumption.
    + constructor; [|apply IH; exact Hd]. rewrite put_keys. intros [Hx|Hx]; [|exact (Hn Hx)].
      subst k0. rewrite N.eqb_refl in E. discriminate.
Qed.

Lemma put_In : forall {V} k (v : V) l k' v', In (k', v') (put k v l) -> (k' = k /\ v' = v) \/ In (k', v') l.
Proof.
  intros V k v l k' v'. induction l as [|[k0 v0] l IH]; cbn [put In].
  - intros [H|[]]. inversion H. left. split; reflexivity.
  - destruct (N.eqb k k0) eqn:E; cbn [In].
    + intros [H|H]; [inversion H; left; split; reflexivity | right; right; exact H].
    + intros [H|H]; [right; left; exact H|]. destruct (IH H) as [H1|H1]; [left; exact H1 | right; right; exact H1].
Qed.

Lemma lookup_kput_same : forall {V} c k (v : V) l,
  lookup c (kput c k v l) = Some (match lookup c l with Some (k0, _) => k0 | None => k end, v).
Proof.
  intros V c k v l. induction l as [|[c' [k' v']] l IH]; cbn [kput lookup].
  - rewrite N.eqb_refl. reflexivity.
  - destruct (N.eqb c c') eqn:E; cbn [lookup]; rewrite E; [reflexivity | exact IH].
Qed.

Lemma lookup_kput_other : forall {V} c c' k (v : V) l, c' <> c -> lookup c' (kput c k v l) = lookup c' l.
Proof.
  intros V c c' k v l H. induction l as [|[c0 [k0 v0]] l IH]; cbn [kput lookup].
  - destruct (N.eqb_spec c' c); [contradiction|reflexivity].
  - destruct (N.eqb c c0) eqn:E; cbn [lookup].
    + apply N.eqb_eq in E. subst c0. destruct (N.eqb_spec c' c); [contradiction|reflexivity].
    + destruct (N.eqb c' c0); [reflexivity|exact IH].
Qed.

Lemma kput_keys : forall {V} c k (v : V) l x, In x (map fst (kput c k v l)) <-> x = c \/ In x (map fst l).
Proof.
  intros V c k v l x. induction l as [|[c0 [k0 v0]] l IH]; cbn [kput map fst In].
  - split; [intros [H|[]]; left; symmetry; exact H | intros [H|[]]; left; symmetry; exact H].
  - destruct (N.eqb c c0) eqn:E; cbn [map fst In].
    + apply N.eqb_eq in E. subst c0. split; [tauto | intros [H|H]; [left; symmetry; exact H | exact H]].
    + rewrite IH. tauto.
Qed.

Lemma kput_NoDup : forall {V} c k (v : V) l, NoDup (map fst l) -> NoDup (map fst (kput c k v l)).
Proof.
  intros V c k v l H. induction l as [|[c0 [k0 v0]] l IH]; cbn [kput map fst].
  - constructor; [intros []|constructor].
  - cbn [map fst] in H. inversion H as [|a b Hn Hd]; subst.
    destruct (N.eqb c c0) eqn:E; cbn [map fst].
    + constructor; assumption.
    + constructor; [|apply IH; exact Hd]. rewrite kput_keys. intros [Hx|Hx]; [|exact (Hn Hx)].
      subst c0. rewrite N.eqb_refl in E. discriminate.
Qed.

(* an entry of the updated map is the new one or keeps the stored key of an old one *)
Lemma kput_In : forall {V} c k (v : V) l c' k' v',
  In (c', (k', v')) (kput c k v l) -> (c' = c /\ k' = k) \/ exists v0, In (c', (k', v0)) l.
Proof.
  intros V c k v l c' k' v'. induction l as [|[c0 [k0 v0]] l IH]; cbn [kput In].
  - intros [H|[]]. inversion H. left. split; reflexivity.
  - destruct (N.eqb c c0) eqn:E; cbn [In].
    + intros [H|H]; [inversion H; subst; right; exists v0; left; reflexivity | right; exists v'; right; exact H].
    + intros [H|H]; [right; exists v'; left; exact H|].
      destruct (IH H) as [H1|[w H1]]; [left; exact H1 | right; exists w; right; exact H1].
Qed.

Lemma lookup_app_last : forall {V} c c' (x : V) l,
  lookup c (l ++ [(c', x)]) = match lookup c l with Some y => Some y | None => if N.eqb c c' then Some x else None end.
Proof.
  intros V c c' x l. induction l as [|[c0 v0] l IH]; cbn [app lookup]; [reflexivity|].
  destruct (N.eqb c c0); [reflexivity|exact IH].
Qed.

Lemma lookup_None_keys : forall {V} c (l : list (N * V)), lookup c l = None -> ~ In c (map fst l).
Proof.
  intros V c l. induction l as [|[c0 v0] l IH]; cbn [lookup map fst In]; [intros _ []|].
  destruct (N.eqb_spec c c0); [discriminate|]. intros H [Hx|Hx]; [symmetry in Hx; contradiction | exact (IH H Hx)].
Qed.

Lemma lookup_kensure_same : forall {V} c k (v : V) l,
  lookup c (kensure c k v l) = match lookup c l with Some x => Some x | None => Some (k, v) end.
Proof.
  intros V c k v l. unfold kensure. destruct (lookup c l) as [x|] eqn:E; [exact E|].
  rewrite lookup_app_last, E, N.eqb_refl. reflexivity.
Qed.

Lemma lookup_kensure_other : forall {V} c c' k (v : V) l, c' <> c -> lookup c' (kensure c k v l) = lookup c' l.
Proof.
  intros V c c' k v l H. unfold kensure. destruct (lookup c l); [reflexivity|].
  rewrite lookup_app_last. destruct (lookup c' l); [reflexivity|].
  destruct (N.eqb_spec c' c); [contradiction|reflexivity].
Qed.

Lemma kensure_NoDup : forall {V} c k (v : V) l, NoDup (map fst l) -> NoDup (map fst (kensure c k v l)).
Proof.
  intros V c k v l H. unfold kensure. destruct (lookup c l) eqn:E; [exact H|].
  rewrite map_app. cbn [map fst]. apply NoDup_app_snoc; [exact H | apply lookup_None_keys; exact E].
Qed.

Lemma kensure_In : forall {V} c k (v : V) l c' k' v',
  In (c', (k', v')) (kensure c k v l) -> (c' = c /\ k' = k) \/ In (c', (k', v')) l.
Proof.
  intros V c k v l c' k' v'. unfold kensure. destruct (lookup c l); [intro H; right; exact H|].
  intro H. apply in_app_or in H. destruct H as [H|[H|[]]]; [right; exact H|]. inversion H. left. split; reflexivity.
Qed.

Lemma add_set_In : forall x y l, In x (add_set y l) <-> x = y \/ In x l.
Proof.
  intros x y l. unfold add_set. destruct (mem y l) eqn:E.
  - apply mem_In in E. split; [intro H; right; exact H | intros [H|H]; [subst; exact E | exact H]].
  - rewrite in_app_iff. cbn [In]. split; [intros [H|[H|[]]]; [right; exact H | left; symmetry; exact H]|].
    intros [H|H]; [right; left; symmetry; exact H | left; exact H].
Qed.

Lemma add_set_NoDup : forall y l, NoDup l -> NoDup (add_set y l).
Proof.
  intros y l H. unfold add_set. destruct (mem y l) eqn:E; [exact H|].
  apply NoDup_app_snoc; [exact H | apply mem_false_In; exact E].
Qed.

Lemma In_lookup_NoDup : forall {V} c (x : V) l, NoDup (map fst l) -> In (c, x) l -> lookup c l = Some x.
Proof.
  intros V c x l. induction l as [|[c0 v0] l IH]; cbn [map fst In lookup]; intros Hd H; [destruct H|].
  inversion Hd as [|a b Hn Hd']; subst. destruct H as [H|H].
  - inversion H; subst. rewrite N.eqb_refl. reflexivity.
  - destruct (N.eqb_spec c c0).
    + subst c0. exfalso. apply Hn. apply in_map_iff. exists (c, x). split; [reflexivity|exact H].
    + apply IH; assumption.
Qed.

(* ------------------------------------------------------------------ *)
(* PackageSpecifiers: the history specification, one operation further *)

Lemma spec_mapping_snoc : forall kc ops o req,
  spec_mapping kc (ops ++ [o]) req =
  match o with
  | AddNv r _ nv => if N.eqb (kc_req kc r) (kc_req kc req) then Some nv else spec_mapping kc ops req
  | _ => spec_mapping kc ops req
  end.
Proof. intros. unfold spec_mapping. rewrite fold_left_app. cbn [fold_left]. destruct o; reflexivity. Qed.

Lemma spec_export_snoc : forall kc ops o nv k,
  spec_export kc (ops ++ [o]) nv k =
  match o with
  | AddExport n k' v => if N.eqb (kc_nv kc n) (kc_nv kc nv) && N.eqb k' k then Some v else spec_export kc ops nv k
  | _ => spec_export kc ops nv k
  end.
Proof. intros. unfold spec_export. rewrite fold_left_app. cbn [fold_left]. destruct o; reflexivity. Qed.

Lemma existsb_snoc : forall {A} (f : A -> bool) l x, existsb f (l ++ [x]) = existsb f l || f x.
Proof. intros. rewrite existsb_app. cbn [existsb]. rewrite orb_false_r. reflexivity. Qed.

(* ---- package_reqs ---- *)

Definition InvReqs (kc : keying) (ops : list op) (m : kmap N) : Prop :=
  (forall req, kget (kc_req kc req) m = spec_mapping kc ops req) /\
  NoDup (map fst m) /\
  (forall c k v, In (c, (k, v)) m -> kc_req kc k = c).

Definition reqs_step (kc : keying) (o : op) (m : kmap N) : kmap N :=
  match o with AddNv req _ nv => kput (kc_req kc req) req nv m | _ => m end.

Lemma InvReqs_step : forall kc ops o m, InvReqs kc ops m -> InvReqs kc (ops ++ [o]) (reqs_step kc o m).
Proof.
  intros kc ops o m [H1 [H2 H3]]. unfold InvReqs.
  destruct o as [req name nv| | | | |]; cbn [reqs_step];
    try (split; [intro r; rewrite spec_mapping_snoc; apply H1 | split; assumption]).
  split; [|split].
  - intro r. rewrite spec_mapping_snoc. unfold kget.
    destruct (N.eqb_spec (kc_req kc req) (kc_req kc r)) as [E|E].
    + rewrite <- E. rewrite lookup_kput_same. reflexivity.
    + rewrite lookup_kput_other by (intro X; apply E; symmetry; exact X). apply H1.
  - apply kput_NoDup. exact H2.
  - intros c k v Hin. destruct (kput_In _ _ _ _ _ _ _ Hin) as [[Ec Ek]|[v0 Hv]].
    + subst. reflexivity.
    + eapply H3. exact Hv.
Qed.

(* ---- packages_by_name ---- *)

Definition get_list (name : N) (m : list (N * list N)) : list N :=
  match lookup name m with Some l => l | None => [] end.

Definition InvNames (ops : list op) (m : list (N * list N)) : Prop :=
  (forall name nv, In nv (get_list name m) <-> spec_version ops name nv = true) /\
  (forall name, NoDup (get_list name m)) /\
  NoDup (map fst m).

Definition names_step (o : op) (m : list (N * list N)) : list (N * list N) :=
  match o with AddNv _ name nv => put name (add_set nv (get_list name m)) m | _ => m end.

Lemma spec_version_snoc : forall ops o name nv,
  spec_version (ops ++ [o]) name nv =
  spec_version ops name nv || match o with AddNv _ n v => N.eqb n name && N.eqb v nv | _ => false end.
Proof. intros. unfold spec_version. apply existsb_snoc. Qed.

Lemma InvNames_step : forall ops o m, InvNames ops m -> InvNames (ops ++ [o]) (names_step o m).
Proof.
  intros ops o m [H1 [H2 H3]]. unfold InvNames.
  destruct o as [req name nv| | | | |]; cbn [names_step];
    try (split; [intros nm0 ver0; rewrite spec_version_snoc; cbv beta iota; rewrite orb_false_r; apply H1 | split; assumption]).
  split; [|split].
  - intros n v. rewrite spec_version_snoc. cbv beta iota.
    unfold get_list at 1. destruct (N.eqb_spec name n) as [E|E].
    + subst n. rewrite lookup_put_same. rewrite add_set_In. rewrite (H1 name v).
      rewrite orb_true_iff. cbn [andb]. rewrite N.eqb_eq. split; [intros [H|H]; [right; symmetry; exact H | left; exact H]|].
      intros [H|H]; [right; exact H | left; symmetry; exact H].
    + rewrite lookup_put_other by (intro X; apply E; symmetry; exact X). fold (get_list n m). rewrite (H1 n v).
      cbn [andb]. rewrite orb_false_r. reflexivity.
  - intro n. unfold get_list. destruct (N.eqb_spec name n) as [E|E].
    + subst n. rewrite lookup_put_same. apply add_set_NoDup. apply H2.
    + rewrite lookup_put_other by (intro X; apply E; symmetry; exact X). apply H2.
  - apply put_NoDup. exact H3.
Qed.

(* ---- top_level_packages / used_yanked_packages ---- *)

Definition InvSet (sel : op -> option N) (kc : keying) (ops : list op) (m : kmap unit) : Prop :=
  (forall nv, lookup (kc_nv kc nv) m <> None <-> spec_member sel kc ops nv = true) /\
  NoDup (map fst m) /\
  (forall c k v, In (c, (k, v)) m -> kc_nv kc k = c).

Definition set_step (sel : op -> option N) (kc : keying) (o : op) (m : kmap unit) : kmap unit :=
  match sel o with Some nv => kensure (kc_nv kc nv) nv tt m | None => m end.

Lemma InvSet_step : forall sel kc ops o m, InvSet sel kc ops m -> InvSet sel kc (ops ++ [o]) (set_step sel kc o m).
Proof.
  intros sel kc ops o m [H1 [H2 H3]]. unfold InvSet, set_step, spec_member.
  destruct (sel o) as [n|] eqn:Es.
  - split; [|split].
    + intro nv. rewrite existsb_snoc. rewrite Es. fold (spec_member sel kc ops nv).
      destruct (N.eqb_spec (kc_nv kc n) (kc_nv kc nv)) as [E|E].
      * rewrite <- E. rewrite lookup_kensure_same. rewrite orb_true_r.
        split; [reflexivity|]. intros _. destruct (lookup (kc_nv kc n) m); discriminate.
      * rewrite lookup_kensure_other by (intro X; apply E; symmetry; exact X). rewrite orb_false_r. apply H1.
    + apply kensure_NoDup. exact H2.
    + intros c k v Hin. destruct (kensure_In _ _ _ _ _ _ _ Hin) as [[Ec Ek]|Hv]; [subst; reflexivity | eapply H3; exact Hv].
  - split; [|split; assumption]. intro nv. rewrite existsb_snoc, Es, orb_false_r. apply H1.
Qed.

(* ---- packages ---- *)

Definition InfoOk (kc : keying) (ops : list op) (nv : N) (pi : pkginfo) : Prop :=
  (forall k, lookup k (pi_exports pi) = spec_export kc ops nv k) /\
  (forall d, In d (pi_deps pi) <-> spec_dep kc ops nv d = true) /\
  NoDup (pi_deps pi) /\ NoDup (map fst (pi_exports pi)).

(* a package that was never ensured has no recorded export or dependency
   (an add_* on it would have panicked) *)
Definition Untouched (kc : keying) (ops : list op) (nv : N) : Prop :=
  (forall k, spec_export kc ops nv k = None) /\ (forall d, spec_dep kc ops nv d = false).

Definition InvPkgs (kc : keying) (ops : list op) (m : kmap pkginfo) : Prop :=
  (forall nv, kget (kc_nv kc nv) m <> None <-> spec_has_package kc ops nv = true) /\
  (forall nv pi, kget (kc_nv kc nv) m = Some pi -> InfoOk kc ops nv pi) /\
  (forall nv, spec_has_package kc ops nv = false -> Untouched kc ops nv) /\
  NoDup (map fst m) /\
  (forall c k v, In (c, (k, v)) m -> kc_nv kc k = c).

Definition pkgs_step (kc : keying) (o : op) (m : kmap pkginfo) : kmap pkginfo :=
  match o with
  | Ensure nv => kensure (kc_nv kc nv) nv {| pi_exports := []; pi_deps := [] |} m
  | AddDep nv d =>
      match kget (kc_nv kc nv) m with
      | Some pi => kput (kc_nv kc nv) nv {| pi_exports := pi_exports pi; pi_deps := add_set d (pi_deps pi) |} m
      | None => m
      end
  | AddExport nv k v =>
      match kget (kc_nv kc nv) m with
      | Some pi => kput (kc_nv kc nv) nv {| pi_exports := put k v (pi_exports pi); pi_deps := pi_deps pi |} m
      | None => m
      end
  | _ => m
  end.

Lemma spec_has_package_snoc : forall kc ops o nv,
  spec_has_package kc (ops ++ [o]) nv = spec_has_package kc ops nv || is_ensure kc (kc_nv kc nv) o.
Proof. intros. unfold spec_has_package. apply existsb_snoc. Qed.

Lemma spec_has_package_class : forall kc ops a b,
  kc_nv kc a = kc_nv kc b -> spec_has_package kc ops a = spec_has_package kc ops b.
Proof. intros kc ops a b E. unfold spec_has_package. rewrite E. reflexivity. Qed.

Lemma spec_dep_snoc : forall kc ops o nv d,
  spec_dep kc (ops ++ [o]) nv d =
  spec_dep kc ops nv d || match o with AddDep n d' => N.eqb (kc_nv kc n) (kc_nv kc nv) && N.eqb d' d | _ => false end.
Proof. intros. unfold spec_dep. apply existsb_snoc. Qed.

Definition touches_info (o : op) : bool :=
  match o with AddDep _ _ | AddExport _ _ _ => true | _ => false end.

Lemma spec_export_other : forall kc ops o nv k,
  touches_info o = false -> spec_export kc (ops ++ [o]) nv k = spec_export kc ops nv k.
Proof. intros kc ops o nv k H. rewrite spec_export_snoc. destruct o; try reflexivity; discriminate. Qed.

Lemma spec_dep_other : forall kc ops o nv d,
  touches_info o = false -> spec_dep kc (ops ++ [o]) nv d = spec_dep kc ops nv d.
Proof.
  intros kc ops o nv d H. rewrite spec_dep_snoc. destruct o; cbv beta iota; try apply orb_false_r; discriminate.
Qed.

Lemma InfoOk_other : forall kc ops o nv pi,
  touches_info o = false -> InfoOk kc ops nv pi -> InfoOk kc (ops ++ [o]) nv pi.
Proof.
  intros kc ops o nv pi Ho [A [B [C D]]]. unfold InfoOk. split; [|split; [|split; assumption]].
  - intro k. rewrite spec_export_other by exact Ho. apply A.
  - intro d. rewrite spec_dep_other by exact Ho. apply B.
Qed.

Lemma Untouched_other : forall kc ops o nv,
  touches_info o = false -> Untouched kc ops nv -> Untouched kc (ops ++ [o]) nv.
Proof.
  intros kc ops o nv Ho [A B]. split.
  - intro k. rewrite spec_export_other by exact Ho. apply A.
  - intro d. rewrite spec_dep_other by exact Ho. apply B.
Qed.

Lemma kget_ne_None : forall {V} c (m : kmap V), kget c m <> None <-> lookup c m <> None.
Proof.
  intros V c m. unfold kget. destruct (lookup c m) as [x|]; cbn [option_map]; split; intros H E; try discriminate; apply H; reflexivity.
Qed.

Lemma kget_kput_same : forall {V} c k (v : V) m, kget c (kput c k v m) = Some v.
Proof. intros. unfold kget. rewrite lookup_kput_same. reflexivity. Qed.

Lemma kget_kput_other : forall {V} c c' k (v : V) m, c' <> c -> kget c' (kput c k v m) = kget c' m.
Proof. intros. unfold kget. rewrite lookup_kput_other by assumption. reflexivity. Qed.

(* operations that never touch the package map *)
Lemma InvPkgs_same : forall kc ops o m,
  touches_info o = false -> (forall c, is_ensure kc c o = false) ->
  InvPkgs kc ops m -> InvPkgs kc (ops ++ [o]) m.
Proof.
  intros kc ops o m Ht He [H1 [H2 [H3 [H4 H5]]]]. unfold InvPkgs.
  split; [|split; [|split; [|split; assumption]]].
  - intro n. rewrite spec_has_package_snoc, He, orb_false_r. apply H1.
  - intros n pi Hg. apply InfoOk_other; [exact Ht | apply H2; exact Hg].
  - intros n Hn. rewrite spec_has_package_snoc, He, orb_false_r in Hn.
    apply Untouched_other; [exact Ht | apply H3; exact Hn].
Qed.

Lemma InvPkgs_ensure : forall kc ops nv m,
  InvPkgs kc ops m ->
  InvPkgs kc (ops ++ [Ensure nv]) (kensure (kc_nv kc nv) nv {| pi_exports := []; pi_deps := [] |} m).
Proof.
  intros kc ops nv m [H1 [H2 [H3 [H4 H5]]]]. unfold InvPkgs.
  split; [|split; [|split; [|split]]].
  - intro n. rewrite spec_has_package_snoc. cbn [is_ensure]. rewrite kget_ne_None.
    destruct (N.eqb_spec (kc_nv kc nv) (kc_nv kc n)) as [E|E].
    + rewrite <- E. rewrite lookup_kensure_same. rewrite orb_true_r.
      split; [reflexivity|]. intros _. destruct (lookup (kc_nv kc nv) m); discriminate.
    + rewrite lookup_kensure_other by (intro X; apply E; symmetry; exact X). rewrite orb_false_r.
      rewrite <- kget_ne_None. apply H1.
  - intros n pi Hg. unfold kget in Hg.
    destruct (N.eqb_spec (kc_nv kc nv) (kc_nv kc n)) as [E|E].
    + rewrite <- E in Hg. rewrite lookup_kensure_same in Hg.
      destruct (lookup (kc_nv kc nv) m) as [[k0 pi0]|] eqn:El.
      * apply InfoOk_other; [reflexivity|]. apply H2. unfold kget. rewrite <- E, El. exact Hg.
      * cbn [option_map snd] in Hg. inversion Hg; subst pi. clear Hg.
        assert (Hno : spec_has_package kc ops n = false).
        { destruct (spec_has_package kc ops n) eqn:Es; [|reflexivity].
          apply H1 in Es. exfalso. apply Es. unfold kget. rewrite <- E, El. reflexivity. }
        destruct (Untouched_other kc ops (Ensure nv) n eq_refl (H3 n Hno)) as [A B].
        unfold InfoOk. cbn [pi_exports pi_deps lookup In map].
        split; [intro k; symmetry; apply A|]. split; [|split; constructor].
        intro d. rewrite B. split; [intros [] | discriminate].
    + rewrite lookup_kensure_other in Hg by (intro X; apply E; symmetry; exact X).
      apply InfoOk_other; [reflexivity | apply H2; exact Hg].
  - intros n Hn. rewrite spec_has_package_snoc in Hn. apply orb_false_iff in Hn. destruct Hn as [Hn _].
    apply Untouched_other; [reflexivity | apply H3; exact Hn].
  - apply kensure_NoDup. exact H4.
  - intros c k v Hin. destruct (kensure_In _ _ _ _ _ _ _ Hin) as [[Ec Ek]|Hv]; [subst; reflexivity | eapply H5; exact Hv].
Qed.

(* replacing the info of an existing package *)
Lemma InvPkgs_update : forall kc ops o nv pi pi' m,
  InvPkgs kc ops m -> touches_info o = true -> (forall c, is_ensure kc c o = false) ->
  kget (kc_nv kc nv) m = Some pi ->
  (forall n, kc_nv kc n = kc_nv kc nv -> InfoOk kc ops n pi -> InfoOk kc (ops ++ [o]) n pi') ->
  (forall n p, kc_nv kc n <> kc_nv kc nv -> InfoOk kc ops n p -> InfoOk kc (ops ++ [o]) n p) ->
  (forall n, kc_nv kc n <> kc_nv kc nv -> Untouched kc ops n -> Untouched kc (ops ++ [o]) n) ->
  InvPkgs kc (ops ++ [o]) (kput (kc_nv kc nv) nv pi' m).
Proof.
  intros kc ops o nv pi pi' m [H1 [H2 [H3 [H4 H5]]]] Ht He Hg Hsame Hother Hunt. unfold InvPkgs.
  assert (Hhas : spec_has_package kc ops nv = true) by (apply H1; rewrite Hg; discriminate).
  split; [|split; [|split; [|split]]].
  - intro n. rewrite spec_has_package_snoc, He, orb_false_r.
    destruct (N.eqb_spec (kc_nv kc n) (kc_nv kc nv)) as [E|E].
    + rewrite E, kget_kput_same. rewrite (spec_has_package_class kc ops n nv E), Hhas.
      split; [reflexivity | discriminate].
    + rewrite kget_kput_other by exact E. apply H1.
  - intros n p Hp. destruct (N.eqb_spec (kc_nv kc n) (kc_nv kc nv)) as [E|E].
    + rewrite E, kget_kput_same in Hp. inversion Hp; subst p. apply Hsame; [exact E|].
      apply H2. rewrite E. exact Hg.
    + rewrite kget_kput_other in Hp by exact E. apply Hother; [exact E | apply H2; exact Hp].
  - intros n Hn. rewrite spec_has_package_snoc, He, orb_false_r in Hn.
    apply Hunt; [|apply H3; exact Hn].
    intro E. rewrite (spec_has_package_class kc ops n nv E), Hhas in Hn. discriminate.
  - apply kput_NoDup. exact H4.
  - intros c k v Hin. destruct (kput_In _ _ _ _ _ _ _ Hin) as [[Ec Ek]|[v0 Hv]]; [subst; reflexivity | eapply H5; exact Hv].
Qed.

Lemma InvPkgs_step : forall kc ops o m,
  InvPkgs kc ops m -> op_panics kc ops o = false -> InvPkgs kc (ops ++ [o]) (pkgs_step kc o m).
Proof.
  intros kc ops o m Hinv Hp.
  destruct o as [req name nv|nv|nv d|nv k v|nv|nv]; cbn [pkgs_step].
  - apply InvPkgs_same; [reflexivity | reflexivity | exact Hinv].
  - apply InvPkgs_ensure. exact Hinv.
  - (* AddDep *)
    assert (Hhas : spec_has_package kc ops nv = true).
    { cbn [op_panics] in Hp. apply negb_false_iff in Hp. exact Hp. }
    destruct (kget (kc_nv kc nv) m) as [pi|] eqn:Hg.
    2:{ exfalso. destruct Hinv as [H1 _]. apply H1 in Hhas. apply Hhas. exact Hg. }
    eapply InvPkgs_update; try eassumption; try reflexivity.
    + intros n E [A [B [C D]]]. unfold InfoOk. cbn [pi_exports pi_deps].
      split; [|split; [|split; [apply add_set_NoDup; exact C | exact D]]].
      * intro k. rewrite spec_export_snoc. apply A.
      * intro d'. rewrite spec_dep_snoc. cbv beta iota. rewrite add_set_In, (B d').
        rewrite <- E, N.eqb_refl. cbn [andb]. rewrite orb_true_iff, N.eqb_eq.
        split; [intros [H|H]; [right; symmetry; exact H | left; exact H]|].
        intros [H|H]; [right; exact H | left; symmetry; exact H].
    + intros n p E [A [B [C D]]]. unfold InfoOk. split; [|split; [|split; assumption]].
      * intro k. rewrite spec_export_snoc. apply A.
      * intro d'. rewrite spec_dep_snoc. cbv beta iota.
        destruct (N.eqb_spec (kc_nv kc nv) (kc_nv kc n)) as [X|X]; [exfalso; apply E; symmetry; exact X|].
        cbn [andb]. rewrite orb_false_r. apply B.
    + intros n E [A B]. split.
      * intro k. rewrite spec_export_snoc. apply A.
      * intro d'. rewrite spec_dep_snoc. cbv beta iota.
        destruct (N.eqb_spec (kc_nv kc nv) (kc_nv kc n)) as [X|X]; [exfalso; apply E; symmetry; exact X|].
        cbn [andb]. rewrite orb_false_r. apply B.
  - (* AddExport *)
    assert (Hhas : spec_has_package kc ops nv = true).
    { cbn [op_panics] in Hp. apply negb_false_iff in Hp. exact Hp. }
    destruct (kget (kc_nv kc nv) m) as [pi|] eqn:Hg.
    2:{ exfalso. destruct Hinv as [H1 _]. apply H1 in Hhas. apply Hhas. exact Hg. }
    eapply InvPkgs_update; try eassumption; try reflexivity.
    + intros n E [A [B [C D]]]. unfold InfoOk. cbn [pi_exports pi_deps].
      split; [|split; [|split; [exact C | apply put_NoDup; exact D]]].
      * intro k'. rewrite spec_export_snoc. rewrite <- E, N.eqb_refl. cbn [andb].
        destruct (N.eqb_spec k k') as [X|X].
        -- subst k'. apply lookup_put_same.
        -- rewrite lookup_put_other by (intro Y; apply X; symmetry; exact Y). apply A.
      * intro d'. rewrite spec_dep_snoc. cbv beta iota. rewrite orb_false_r. apply B.
    + intros n p E [A [B [C D]]]. unfold InfoOk. split; [|split; [|split; assumption]].
      * intro k'. rewrite spec_export_snoc.
        destruct (N.eqb_spec (kc_nv kc nv) (kc_nv kc n)) as [X|X]; [exfalso; apply E; symmetry; exact X|].
        cbn [andb]. apply A.
      * intro d'. rewrite spec_dep_snoc. cbv beta iota. rewrite orb_false_r. apply B.
    + intros n E [A B]. split.
      * intro k'. rewrite spec_export_snoc.
        destruct (N.eqb_spec (kc_nv kc nv) (kc_nv kc n)) as [X|X]; [exfalso; apply E; symmetry; exact X|].
        cbn [andb]. apply A.
      * intro d'. rewrite spec_dep_snoc. cbv beta iota. rewrite orb_false_r. apply B.
  - apply InvPkgs_same; [reflexivity | reflexivity | exact Hinv].
  - apply InvPkgs_same; [reflexivity | reflexivity | exact Hinv].
Qed.

(* ------------------------------------------------------------------ *)
(* the whole table *)

Definition Inv (kc : keying) (ops : list op) (t : table) : Prop :=
  InvReqs kc ops (t_reqs t) /\ InvNames ops (t_by_name t) /\ InvPkgs kc ops (t_packages t) /\
  InvSet top_of kc ops (t_top t) /\ InvSet yanked_of kc ops (t_yanked t).

Lemma Inv_empty : forall kc, Inv kc [] empty_table.
Proof.
  intro kc. unfold Inv, empty_table. cbn [t_reqs t_by_name t_packages t_top t_yanked].
  split; [|split; [|split; [|split]]].
  - split; [intro; reflexivity | split; [constructor | intros c k v []]].
  - split; [intros name nv; cbn; split; [intros [] | discriminate] | split; [intro; constructor | constructor]].
  - split; [intro nv; cbn; split; [intro H; exfalso; apply H; reflexivity | discriminate]|].
    split; [intros nv pi H; discriminate|].
    split; [intros nv _; split; intro; reflexivity|]. split; [constructor | intros c k v []].
  - split; [intro nv; cbn; split; [intro H; exfalso; apply H; reflexivity | discriminate]|].
    split; [constructor | intros c k v []].
  - split; [intro nv; cbn; split; [intro H; exfalso; apply H; reflexivity | discriminate]|].
    split; [constructor | intros c k v []].
Qed.

(* a step either panics exactly when the specification says so, or updates each field as its component step *)
Lemma step_spec : forall kc ops t o,
  Inv kc ops t ->
  match step kc t o with
  | Panic => op_panics kc ops o = true
  | Ok t' => op_panics kc ops o = false /\ Inv kc (ops ++ [o]) t'
  end.
Proof.
  intros kc ops t o [Hr [Hn [Hp [Ht Hy]]]].
  assert (Hhas : forall nv, op_panics kc ops (AddDep nv 0) = negb (spec_has_package kc ops nv)) by reflexivity.
  destruct o as [req name nv|nv|nv d|nv k v|nv|nv]; cbn [step].
  - split; [reflexivity|]. unfold Inv. cbn [t_reqs t_by_name t_packages t_top t_yanked].
    split; [exact (InvReqs_step kc ops (AddNv req name nv) _ Hr)|].
    split; [exact (InvNames_step ops (AddNv req name nv) _ Hn)|].
    split; [exact (InvPkgs_step kc ops (AddNv req name nv) _ Hp eq_refl)|].
    split; [exact (InvSet_step top_of kc ops (AddNv req name nv) _ Ht) | exact (InvSet_step yanked_of kc ops (AddNv req name nv) _ Hy)].
  - split; [reflexivity|]. unfold Inv. cbn [t_reqs t_by_name t_packages t_top t_yanked].
    split; [exact (InvReqs_step kc ops (Ensure nv) _ Hr)|].
    split; [exact (InvNames_step ops (Ensure nv) _ Hn)|].
    split; [exact (InvPkgs_step kc ops (Ensure nv) _ Hp eq_refl)|].
    split; [exact (InvSet_step top_of kc ops (Ensure nv) _ Ht) | exact (InvSet_step yanked_of kc ops (Ensure nv) _ Hy)].
  - destruct (kget (kc_nv kc nv) (t_packages t)) as [pi|] eqn:Hg.
    + assert (Hno : op_panics kc ops (AddDep nv d) = false).
      { change (negb (spec_has_package kc ops nv) = false).
        apply negb_false_iff. apply (proj1 Hp). rewrite Hg. discriminate. }
      split; [exact Hno|]. unfold Inv. cbn [t_reqs t_by_name t_packages t_top t_yanked].
      split; [exact (InvReqs_step kc ops (AddDep nv d) _ Hr)|].
      split; [exact (InvNames_step ops (AddDep nv d) _ Hn)|].
      split; [pose proof (InvPkgs_step kc ops (AddDep nv d) _ Hp Hno) as X; cbn [pkgs_step] in X; rewrite Hg in X; exact X|].
      split; [exact (InvSet_step top_of kc ops (AddDep nv d) _ Ht) | exact (InvSet_step yanked_of kc ops (AddDep nv d) _ Hy)].
    + change (negb (spec_has_package kc ops nv) = true).
      apply negb_true_iff. destruct (spec_has_package kc ops nv) eqn:Es; [|reflexivity].
      exfalso. apply (proj1 Hp) in Es. apply Es. exact Hg.
  - destruct (kget (kc_nv kc nv) (t_packages t)) as [pi|] eqn:Hg.
    + assert (Hno : op_panics kc ops (AddExport nv k v) = false).
      { change (negb (spec_has_package kc ops nv) = false).
        apply negb_false_iff. apply (proj1 Hp). rewrite Hg. discriminate. }
      split; [exact Hno|]. unfold Inv. cbn [t_reqs t_by_name t_packages t_top t_yanked].
      split; [exact (InvReqs_step kc ops (AddExport nv k v) _ Hr)|].
      split; [exact (InvNames_step ops (AddExport nv k v) _ Hn)|].
      split; [pose proof (InvPkgs_step kc ops (AddExport nv k v) _ Hp Hno) as X; cbn [pkgs_step] in X; rewrite Hg in X; exact X|].
      split; [exact (InvSet_step top_of kc ops (AddExport nv k v) _ Ht) | exact (InvSet_step yanked_of kc ops (AddExport nv k v) _ Hy)].
    + change (negb (spec_has_package kc ops nv) = true).
      apply negb_true_iff. destruct (spec_has_package kc ops nv) eqn:Es; [|reflexivity].
      exfalso. apply (proj1 Hp) in Es. apply Es. exact Hg.
  - split; [reflexivity|]. unfold Inv. cbn [t_reqs t_by_name t_packages t_top t_yanked].
    split; [exact (InvReqs_step kc ops (AddTop nv) _ Hr)|].
    split; [exact (InvNames_step ops (AddTop nv) _ Hn)|].
    split; [exact (InvPkgs_step kc ops (AddTop nv) _ Hp eq_refl)|].
    split; [exact (InvSet_step top_of kc ops (AddTop nv) _ Ht) | exact (InvSet_step yanked_of kc ops (AddTop nv) _ Hy)].
  - split; [reflexivity|]. unfold Inv. cbn [t_reqs t_by_name t_packages t_top t_yanked].
    split; [exact (InvReqs_step kc ops (AddYanked nv) _ Hr)|].
    split; [exact (InvNames_step ops (AddYanked nv) _ Hn)|].
    split; [exact (InvPkgs_step kc ops (AddYanked nv) _ Hp eq_refl)|].
    split; [exact (InvSet_step top_of kc ops (AddYanked nv) _ Ht) | exact (InvSet_step yanked_of kc ops (AddYanked nv) _ Hy)].
Qed.

(* the run over any history: the table reached satisfies the specification of
   the executed prefix, and the run stops exactly at the first operation the
   specification says panics *)
Lemma run_from_spec : forall kc ops pre t i,
  Inv kc pre t ->
  exists done rest,
    ops = done ++ rest /\
    Inv kc (pre ++ done) (fst (run_from kc t i ops)) /\
    snd (run_from kc t i ops) = spec_panic_from kc pre i ops /\
    match snd (run_from kc t i ops) with
    | None => rest = []
    | Some j => j = i + N.of_nat (length done) /\ exists o r, rest = o :: r /\ op_panics kc (pre ++ done) o = true
    end.
Proof.
  intros kc ops. induction ops as [|o r IH]; intros pre t i Hinv.
  - exists [], []. cbn [run_from fst snd spec_panic_from]. rewrite (app_nil_r pre).
    split; [reflexivity|]. split; [exact Hinv|]. split; reflexivity.
  - cbn [run_from spec_panic_from]. pose proof (step_spec kc pre t o Hinv) as Hs.
    destruct (step kc t o) as [t'|].
    + destruct Hs as [Hno Hinv']. rewrite Hno.
      destruct (IH (pre ++ [o]) t' (i + 1) Hinv') as [done [rest [E [Hi [Hp Hm]]]]].
      exists (o :: done), rest. split; [cbn [app]; rewrite E; reflexivity|].
      replace (pre ++ o :: done) with ((pre ++ [o]) ++ done) by (rewrite <- app_assoc; reflexivity).
      split; [exact Hi|]. split; [exact Hp|].
      destruct (snd (run_from kc t' (i + 1) r)) as [j|]; [|exact Hm].
      destruct Hm as [Hj Hex]. split; [|exact Hex]. cbn [length]. rewrite Nat2N.inj_succ. lia.
    + rewrite Hs. exists [], (o :: r). cbn [fst snd app length]. rewrite (app_nil_r pre).
      split; [reflexivity|]. split; [exact Hinv|]. split; [reflexivity|].
      split; [lia|]. exists o, r. split; [reflexivity | exact Hs].
Qed.

(* C07_table: refinement of the concrete table to the history specification *)
Theorem table_refines : forall kc ops,
  exists done rest,
    ops = done ++ rest /\
    Inv kc done (fst (run_ops kc ops)) /\
    snd (run_ops kc ops) = spec_panic kc ops /\
    match snd (run_ops kc ops) with
    | None => rest = []
    | Some j => j = N.of_nat (length done) /\ exists o r, rest = o :: r /\ op_panics kc done o = true
    end.
Proof.
  intros kc ops. destruct (run_from_spec kc ops [] empty_table 0 (Inv_empty kc)) as [done [rest [E [Hi [Hp Hm]]]]].
  exists done, rest. cbn [app] in Hi, Hm. unfold run_ops, spec_panic.
  split; [exact E|]. split; [exact Hi|]. split; [exact Hp|].
  destruct (snd (run_from kc empty_table 0 ops)) as [j|]; [|exact Hm].
  destruct Hm as [Hj Hex]. split; [lia | exact Hex].
Qed.

Theorem table_no_panic : forall kc ops t,
  run_ops kc ops = (t, None) -> Inv kc ops t /\ spec_panic kc ops = None.
Proof.
  intros kc ops t H. destruct (table_refines kc ops) as [done [rest [E [Hi [Hp Hm]]]]].
  rewrite H in Hi, Hp, Hm. cbn [fst snd] in Hi, Hp, Hm. subst rest. rewrite app_nil_r in E. subst done.
  split; [exact Hi | symmetry; exact Hp].
Qed.

(* ---- what the observers return, in terms of the history ---- *)

Lemma lookup_In_k : forall {V} c (x : V) l, lookup c l = Some x -> In (c, x) l.
Proof. intros. apply lookup_In. assumption. Qed.

Theorem obs_mappings : forall kc ops t,
  Inv kc ops t ->
  (forall req, mapping_of kc t req = spec_mapping kc ops req) /\
  (forall req nv, In (req, nv) (mappings t) -> spec_mapping kc ops req = Some nv) /\
  (forall req nv, spec_mapping kc ops req = Some nv ->
     exists req', kc_req kc req' = kc_req kc req /\ In (req', nv) (mappings t)).
Proof.
  intros kc ops t [[H1 [H2 H3]] _]. split; [exact H1|]. split.
  - intros req nv Hin. unfold mappings in Hin. apply in_map_iff in Hin.
    destruct Hin as [[c [k v]] [E Hin]]. cbn [snd] in E. inversion E; subst k v.
    rewrite <- (H1 req). pose proof (H3 _ _ _ Hin) as Hc. rewrite Hc.
    unfold kget. rewrite (In_lookup_NoDup _ _ _ H2 Hin). reflexivity.
  - intros req nv Hs. rewrite <- (H1 req) in Hs. unfold kget in Hs.
    destruct (lookup (kc_req kc req) (t_reqs t)) as [[k v]|] eqn:El; [|discriminate].
    cbn [option_map snd] in Hs. inversion Hs; subst v.
    apply lookup_In_k in El. exists k. split; [eapply H3; exact El|].
    unfold mappings. apply in_map_iff. exists (kc_req kc req, (k, nv)). split; [reflexivity|exact El].
Qed.

Theorem obs_versions_by_name : forall kc ops t name,
  Inv kc ops t ->
  (forall nv, In nv (match versions_by_name t name with Some l => l | None => [] end) <-> spec_version ops name nv = true) /\
  NoDup (match versions_by_name t name with Some l => l | None => [] end).
Proof. intros kc ops t name [_ [[H1 [H2 _]] _]]. split; [intro nv; apply H1 | apply H2]. Qed.

Theorem obs_packages : forall kc ops t nv,
  Inv kc ops t ->
  (package_exports kc t nv <> None <-> spec_has_package kc ops nv = true) /\
  (forall ex, package_exports kc t nv = Some ex -> forall k, lookup k ex = spec_export kc ops nv k) /\
  (forall ds, package_deps kc t nv = Some ds -> (forall d, In d ds <-> spec_dep kc ops nv d = true) /\ NoDup ds).
Proof.
  intros kc ops t nv [_ [_ [[H1 [H2 _]] _]]]. unfold package_exports, package_deps. split; [|split].
  - rewrite <- (H1 nv). destruct (kget (kc_nv kc nv) (t_packages t)); cbn [option_map]; split; intros H E; try discriminate; apply H; reflexivity.
  - intros ex He. destruct (kget (kc_nv kc nv) (t_packages t)) as [pi|] eqn:Hg; [|discriminate].
    cbn [option_map] in He. inversion He; subst ex. exact (proj1 (H2 nv pi Hg)).
  - intros ds Hd. destruct (kget (kc_nv kc nv) (t_packages t)) as [pi|] eqn:Hg; [|discriminate].
    cbn [option_map] in Hd. inversion Hd; subst ds. destruct (H2 nv pi Hg) as [_ [B [C _]]]. split; assumption.
Qed.

Theorem obs_packages_with_deps : forall kc ops t nv ds,
  Inv kc ops t -> In (nv, ds) (packages_with_deps t) ->
  spec_has_package kc ops nv = true /\ (forall d, In d ds <-> spec_dep kc ops nv d = true).
Proof.
  intros kc ops t nv ds [_ [_ [[H1 [H2 [_ [H4 H5]]]] _]]] Hin. unfold packages_with_deps in Hin.
  apply in_map_iff in Hin. destruct Hin as [[c [k pi]] [E Hin]]. cbn [fst snd] in E. inversion E; subst k ds.
  pose proof (H5 _ _ _ Hin) as Hc. pose proof (In_lookup_NoDup _ _ _ H4 Hin) as Hl.
  assert (Hg : kget (kc_nv kc nv) (t_packages t) = Some pi) by (unfold kget; rewrite Hc, Hl; reflexivity).
  split; [apply H1; rewrite Hg; discriminate | exact (proj1 (proj2 (H2 nv pi Hg)))].
Qed.

Theorem obs_sets : forall kc ops t nv,
  Inv kc ops t ->
  ((exists nv', kc_nv kc nv' = kc_nv kc nv /\ In nv' (top_level_packages t)) <-> spec_top kc ops nv = true) /\
  ((exists nv', kc_nv kc nv' = kc_nv kc nv /\ In nv' (used_yanked_packages t)) <-> spec_yanked kc ops nv = true).
Proof.
  assert (G : forall sel kc ops (m : kmap unit) nv, InvSet sel kc ops m ->
            ((exists nv', kc_nv kc nv' = kc_nv kc nv /\ In nv' (map (fun e => fst (snd e)) m)) <-> spec_member sel kc ops nv = true)).
  { intros sel kc ops m nv [H1 [H2 H3]]. rewrite <- (H1 nv). split.
    - intros [nv' [Ec Hin]]. apply in_map_iff in Hin. destruct Hin as [[c [k u]] [E Hin]]. cbn [fst snd] in E. subst k.
      pose proof (H3 _ _ _ Hin) as Hc. rewrite <- Ec, Hc. rewrite (In_lookup_NoDup _ _ _ H2 Hin). discriminate.
    - intro Hl. destruct (lookup (kc_nv kc nv) m) as [[k u]|] eqn:El; [|exfalso; apply Hl; reflexivity].
      apply lookup_In_k in El. exists k. split; [eapply H3; exact El|].
      apply in_map_iff. exists (kc_nv kc nv, (k, u)). split; [reflexivity|exact El]. }
  intros kc ops t nv [_ [_ [_ [Ht Hy]]]]. split; [apply (G top_of); exact Ht | apply (G yanked_of); exact Hy].
Qed.

