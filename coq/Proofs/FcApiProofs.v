(* C11: api_preservedb decides ApiPreserved. *)
From Coq Require Import Arith.
From DG Require Import Base.Util Base.Sexp Model.FcSummary Model.RunC10 Model.RunC11 Proofs.FcErasedProofs.

(* ---------------------------------------------------------------- generic lemmas *)

Lemma subrel_tail : forall {A B} (R : A -> B -> Prop) l b l', SubRel R l (b :: l') -> SubRel R l l'.
Proof.
  intros A B R l b l' H. remember (b :: l') as lb eqn:E. revert b l' E.
  induction H as [l | a b0 l l0 Hab H IH | a l l0 H IH]; intros b l' E.
  - discriminate.
  - inversion E; subst. apply SRdrop. exact H.
  - apply SRdrop. apply (IH b l' E).
Qed.

Lemma subrelb_iff : forall {A B} (r : A -> B -> bool) (R : A -> B -> Prop) l,
  (forall a, In a l -> forall b, r a b = true <-> R a b) ->
  forall l', subrelb r l l' = true <-> SubRel R l l'.
Proof.
  intros A B r R l; induction l as [|a la IH]; intros Hr l'.
  - destruct l' as [|b lb]; cbn [subrelb].
    + split; [intros _; constructor | reflexivity].
    + split; [discriminate | intro H; inversion H].
  - assert (Hla : forall a0, In a0 la -> forall b, r a0 b = true <-> R a0 b)
      by (intros a0 H0; apply Hr; right; exact H0).
    destruct l' as [|b lb]; cbn [subrelb].
    + split; [intros _; constructor | reflexivity].
    + destruct (r a b) eqn:E.
      * rewrite (IH Hla lb). split.
        -- intro H; apply SRkeep; [apply (Hr a (or_introl eq_refl)); exact E | exact H].
        -- intro H; inversion H; subst; [assumption | eapply subrel_tail; eassumption].
      * rewrite (IH Hla (b :: lb)). split.
        -- intro H; apply SRdrop; exact H.
        -- intro H; inversion H; subst; [|assumption].
           match goal with Hab : R a b |- _ => apply (Hr a (or_introl eq_refl)) in Hab; congruence end.
Qed.

Lemma subrelb_iff_all : forall {A B} (r : A -> B -> bool) (R : A -> B -> Prop),
  (forall a b, r a b = true <-> R a b) -> forall l l', subrelb r l l' = true <-> SubRel R l l'.
Proof. intros A B r R H l l'; apply subrelb_iff; intros a _ b; apply H. Qed.

Lemma forall2b_iff : forall {A B} (r : A -> B -> bool) (R : A -> B -> Prop),
  (forall a b, r a b = true <-> R a b) -> forall l l', forall2b r l l' = true <-> Forall2R R l l'.
Proof.
  intros A B r R H l; induction l as [|a la IH]; intros [|b lb]; cbn [forall2b].
  - split; [intros _; constructor | reflexivity].
  - split; [discriminate | intro H0; inversion H0].
  - split; [discriminate | intro H0; inversion H0].
  - rewrite andb_true_iff, H, IH. split.
    + intros [H1 H2]; constructor; assumption.
    + intro H0; inversion H0; subst; split; assumption.
Qed.

Lemma firstn_app_length : forall {A} (l1 l2 : list A), firstn (length l1) (l1 ++ l2) = l1.
Proof. intros A l1 l2; induction l1 as [|x l1 IH]; cbn; [destruct l2; reflexivity | rewrite IH; reflexivity]. Qed.
Lemma skipn_app_length : forall {A} (l1 l2 : list A), skipn (length l1) (l1 ++ l2) = l2.
Proof. intros A l1 l2; induction l1 as [|x l1 IH]; cbn; [reflexivity | exact IH]. Qed.

Lemma splits_iff : forall {A} (f : list A -> list A -> bool) l,
  existsb (fun k => f (firstn k l) (skipn k l)) (seq 0 (S (length l))) = true <->
  exists l1 l2, l = l1 ++ l2 /\ f l1 l2 = true.
Proof.
  intros A f l; rewrite existsb_exists; split.
  - intros [k [_ Hk]]. exists (firstn k l), (skipn k l). split; [symmetry; apply firstn_skipn | exact Hk].
  - intros [l1 [l2 [E H]]]. exists (length l1). split.
    + apply in_seq. subst l. rewrite app_length. lia.
    + subst l. rewrite firstn_app_length, skipn_app_length. exact H.
Qed.

(* ---------------------------------------------------------------- enumerations *)

Lemma patcls_eqb_iff : forall a b, patcls_eqb a b = true <-> a = b.
Proof. intros a b; destruct a, b; cbn; split; intro H; try reflexivity; try discriminate. Qed.
Lemma fkind_eqb_iff : forall a b, fkind_eqb a b = true <-> a = b.
Proof. intros a b; destruct a, b; cbn; split; intro H; try reflexivity; try discriminate. Qed.
Lemma acc_eqb_iff : forall a b, acc_eqb a b = true <-> a = b.
Proof. intros a b; destruct a, b; cbn; split; intro H; try reflexivity; try discriminate. Qed.
Lemma exform_eqb_iff : forall a b, exform_eqb a b = true <-> a = b.
Proof. intros a b; destruct a, b; cbn; split; intro H; try reflexivity; try discriminate. Qed.
Lemma keycls_eqb_iff : forall a b, keycls_eqb a b = true <-> a = b.
Proof. intros a b; destruct a, b; cbn; split; intro H; try reflexivity; try discriminate. Qed.
Lemma key_eqb_iff : forall a b, key_eqb a b = true <-> a = b.
Proof.
  intros [ca ia] [cb ib]; unfold key_eqb; cbn [k_cls k_id].
  rewrite andb_true_iff, keycls_eqb_iff, N.eqb_eq. split.
  - intros [H1 H2]; subst; reflexivity.
  - intro H; inversion H; subst; split; reflexivity.
Qed.
Lemma optN_eqb_iff : forall a b, optN_eqb a b = true <-> a = b.
Proof.
  intros [x|] [y|]; cbn; try (split; intro H; try reflexivity; discriminate).
  rewrite N.eqb_eq. split; intro H; [subst; reflexivity | inversion H; reflexivity].
Qed.
Lemma listN_eqb_iff : forall a b, listN_eqb a b = true <-> a = b.
Proof.
  induction a as [|x a IH]; intros [|y b]; cbn [listN_eqb]; try (split; intro H; try reflexivity; discriminate).
  rewrite andb_true_iff, N.eqb_eq, IH. split.
  - intros [H1 H2]; subst; reflexivity.
  - intro H; inversion H; subst; split; reflexivity.
Qed.
Lemma bool_eqb_iff : forall a b, Bool.eqb a b = true <-> a = b.
Proof. intros a b; apply eqb_true_iff. Qed.
Lemma is_private_acc_iff : forall a, is_private_acc a = true <-> a = AccPrivate.
Proof. intros a; destruct a; cbn; split; intro H; try reflexivity; try discriminate. Qed.
Lemma is_private_acc_or : forall a P, (is_private_acc a = true \/ P) <-> (a <> AccPrivate -> P).
Proof.
  intros a P; destruct a; cbn; split; intro H.
  - intros _; destruct H as [H|H]; [discriminate | exact H].
  - right; apply H; discriminate.
  - intros _; destruct H as [H|H]; [discriminate | exact H].
  - right; apply H; discriminate.
  - intro Hn; exfalso; apply Hn; reflexivity.
  - left; reflexivity.
Qed.

(* ---------------------------------------------------------------- signatures *)

Lemma tycarriedb_iff : forall o e, tycarriedb o e = true <-> TyCarried o e.
Proof.
  intros o e; unfold tycarriedb, TyCarried. rewrite orb_true_iff, negb_true_iff, N.eqb_eq.
  destruct (has_ty o); split; intro H.
  - intros _; destruct H as [H|H]; [discriminate | exact H].
  - right; apply H; reflexivity.
  - intro H0; discriminate.
  - left; reflexivity.
Qed.

Lemma is_enone_false_iff : forall e, is_enone e = false <-> e <> ENone.
Proof.
  intros e; destruct e; cbn; split; intro H; try reflexivity; try discriminate;
    try (exfalso; apply H; reflexivity).
Qed.

Lemma parammatchb_iff : forall o e, parammatchb o e = true <-> ParamMatch o e.
Proof.
  intros o e; unfold parammatchb, ParamMatch.
  repeat (rewrite andb_true_iff || rewrite orb_true_iff || rewrite negb_true_iff).
  rewrite !patcls_eqb_iff, !N.eqb_eq, bool_eqb_iff, optN_eqb_iff, !is_enone_false_iff.
  destruct (has_ty (p_ty o)).
  - split.
    + intros [[Hp Hn] [[Ht|Ht]|Ht]]; [discriminate| |]; (split; [exact Hp|split]).
      * intro Hi; destruct Hn as [Hn|Hn]; [rewrite Hi in Hn; cbn in Hn; discriminate | exact Hn].
      * intros _; left; exact Ht.
      * intro Hi; destruct Hn as [Hn|Hn]; [rewrite Hi in Hn; cbn in Hn; discriminate | exact Hn].
      * intros _; right. tauto.
    + intros [Hp [Hn Ht]]. split; [split; [exact Hp|]|].
      * destruct (p_pat o) eqn:E; try (left; reflexivity). right; apply Hn; reflexivity.
      * destruct (Ht eq_refl) as [H|H]; [left; right; exact H | right; tauto].
  - split.
    + intros [[Hp Hn] _]. split; [exact Hp | split].
      * intro Hi; destruct Hn as [Hn|Hn]; [rewrite Hi in Hn; cbn in Hn; discriminate | exact Hn].
      * intro H; discriminate.
    + intros [Hp [Hn _]]. split; [split; [exact Hp|] | left; left; reflexivity].
      destruct (p_pat o) eqn:E; try (left; reflexivity). right; apply Hn; reflexivity.
Qed.

Lemma fnmatchb_iff : forall o e, fnmatchb o e = true <-> FnMatch o e.
Proof.
  intros o e; unfold fnmatchb, FnMatch.
  rewrite andb_true_iff, orb_true_iff, !andb_true_iff, fkind_eqb_iff, !N.eqb_eq,
    (forall2b_iff _ _ parammatchb_iff), tycarriedb_iff. unfold OptRun.
  destruct (fn_ovl o); split.
  - intros [Hk _]; split; [exact Hk | intro H; discriminate].
  - intros [Hk _]; split; [exact Hk | left; reflexivity].
  - intros [Hk [H|H]]; [discriminate|]. split; [exact Hk | intros _; tauto].
  - intros [Hk H]; split; [exact Hk | right; specialize (H eq_refl); tauto].
Qed.

Lemma initfnmatchb_iff : forall o e, initfnmatchb o e = true <-> InitFnMatch o e.
Proof.
  intros o e; destruct o; destruct e; cbn [initfnmatchb InitFnMatch];
    try (split; [intros _; exact I | reflexivity]).
  apply fnmatchb_iff.
Qed.

Lemma membermatchb_iff : forall o e, membermatchb o e = true <-> MemberMatch o e.
Proof.
  intros o e; destruct o as [ao fo|ko ao so abo opo fo|ko ao so tyo deo dfo opo roo abo ovo inito decoso|ko ao so tyo inito decoso|io| |];
    destruct e as [ae fe|ke ae se abe ope fe|ke ae se tye dee dfe ope roe abe ove inite decose|ke ae se tye inite decose|ie| |];
    cbn [membermatchb MemberMatch]; try (split; [discriminate | intros []]);
    try (destruct ao; (split; [discriminate | intros []])).
  - (* ctor / ctor *)
    rewrite andb_true_iff, orb_true_iff, acc_eqb_iff, fnmatchb_iff, is_private_acc_or. tauto.
  - (* method / method *)
    destruct ao;
      rewrite !andb_true_iff, orb_true_iff, !andb_true_iff, key_eqb_iff, acc_eqb_iff, !bool_eqb_iff, fnmatchb_iff;
      rewrite is_private_acc_or; tauto.
  - (* private method / property *)
    destruct ao; destruct ae; try (split; [discriminate | intros []]).
    rewrite andb_true_iff, key_eqb_iff, bool_eqb_iff. tauto.
  - (* property / property *)
    rewrite !andb_true_iff, orb_true_iff, !andb_true_iff, key_eqb_iff, acc_eqb_iff, !bool_eqb_iff, tycarriedb_iff,
      initfnmatchb_iff.
    rewrite is_private_acc_or. tauto.
  - (* auto accessor / property *)
    rewrite !andb_true_iff, orb_true_iff, key_eqb_iff, acc_eqb_iff, !bool_eqb_iff, tycarriedb_iff.
    rewrite is_private_acc_or. tauto.
  - apply N.eqb_eq.
Qed.

Lemma parampropmatchb_iff : forall p e, parampropmatchb p e = true <-> ParamPropMatch p e.
Proof.
  intros p e; unfold parampropmatchb, ParamPropMatch.
  destruct e as [ae fe|ke ae se abe ope fe|ke ae se tye dee dfe ope roe abe ove inite decose|ke ae se tye inite decose|ie| |];
    try (split; [discriminate | intros []]).
  destruct (p_prop p) as [[ap rop]|]; [|split; [discriminate | intros []]].
  rewrite !andb_true_iff, orb_true_iff, keycls_eqb_iff, N.eqb_eq, negb_true_iff, is_enone_iff, acc_eqb_iff,
    bool_eqb_iff, tycarriedb_iff, is_private_acc_or.
  tauto.
Qed.

(* ---------------------------------------------------------------- classes *)

Lemma forallb_is_marker : forall l, forallb is_marker l = true <-> Forall (fun m => is_marker m = true) l.
Proof. intro l; apply forallb_Forall_all; intro x; tauto. Qed.

Lemma memberspreservedb_iff : forall oms ems, memberspreservedb oms ems = true <-> MembersPreserved oms ems.
Proof.
  intros oms ems; unfold memberspreservedb, MembersPreserved.
  rewrite (splits_iff (fun mk after => forallb is_marker mk &&
             splitsb (fun pp rest => subrelb parampropmatchb (class_param_props oms) pp && subrelb membermatchb oms rest) after) ems).
  split.
  - intros [mk [after [E H]]]. apply andb_true_iff in H. destruct H as [Hm Hs].
    unfold splitsb in Hs.
    apply (splits_iff (fun pp rest => subrelb parampropmatchb (class_param_props oms) pp && subrelb membermatchb oms rest) after) in Hs.
    destruct Hs as [pp [rest [E2 H2]]].
    apply andb_true_iff in H2. destruct H2 as [Hp Hr].
    exists mk, pp, rest. subst. repeat split.
    + apply forallb_is_marker; exact Hm.
    + apply (subrelb_iff_all _ _ parampropmatchb_iff); exact Hp.
    + apply (subrelb_iff_all _ _ membermatchb_iff); exact Hr.
  - intros [mk [pp [rest [E [Hm [Hp Hr]]]]]].
    exists mk, (pp ++ rest). split; [exact E|].
    apply andb_true_iff; split; [apply forallb_is_marker; exact Hm|].
    unfold splitsb.
    apply (splits_iff (fun pp rest => subrelb parampropmatchb (class_param_props oms) pp && subrelb membermatchb oms rest) (pp ++ rest)).
    exists pp, rest. split; [reflexivity|].
    apply andb_true_iff; split.
    + apply (subrelb_iff_all _ _ parampropmatchb_iff); exact Hp.
    + apply (subrelb_iff_all _ _ membermatchb_iff); exact Hr.
Qed.

Lemma classmatchb_iff : forall o e, classmatchb o e = true <-> ClassMatch o e.
Proof.
  intros o e; unfold classmatchb, ClassMatch.
  rewrite !andb_true_iff, !N.eqb_eq, listN_eqb_iff, bool_eqb_iff, memberspreservedb_iff. tauto.
Qed.

Lemma vdeclmatchb_iff : forall o e, vdeclmatchb o e = true <-> VDeclMatch o e.
Proof.
  intros o e; unfold vdeclmatchb, VDeclMatch.
  rewrite !andb_true_iff, N.eqb_eq, patcls_eqb_iff, tycarriedb_iff, initfnmatchb_iff. tauto.
Qed.

Lemma specmatchb_iff : forall o e, specmatchb o e = true <-> SpecMatch o e.
Proof.
  intros [[a b] c] [[a' b'] c']; unfold specmatchb, SpecMatch.
  rewrite !andb_true_iff, !N.eqb_eq. split.
  - intros [[H1 H2] H3]; subst; reflexivity.
  - intro H; inversion H; subst; repeat split; reflexivity.
Qed.

Lemma expandoitemb_iff : forall it, expandoitemb it = true <-> ExpandoItem it.
Proof.
  intros it; destruct it; cbn [expandoitemb ExpandoItem]; try (split; [discriminate | intros []]).
  destruct ex; try (split; [discriminate | intros []]).
  destruct ambient; [split; [discriminate | intros []] | split; [intros _; exact I | reflexivity]].
Qed.

Lemma expandob_iff : forall it, expandob it = true <-> Expando it.
Proof.
  intros it; destruct it; cbn [expandob Expando]; try (split; [discriminate | intros []]).
  apply forallb_Forall_all; apply expandoitemb_iff.
Qed.

Lemma is_none_N_eq : forall s s' : option N, Bool.eqb (is_none_N s) (is_none_N s') = true <-> (s = None <-> s' = None).
Proof.
  intros [x|] [y|]; cbn; split; intro H; try reflexivity; try discriminate.
  - split; intro H0; discriminate.
  - destruct H as [_ H]; specialize (H eq_refl); discriminate.
  - destruct H as [H _]; specialize (H eq_refl); discriminate.
Qed.

(* ---------------------------------------------------------------- items *)

Lemma itemmatchb_iff : forall o e, itemmatchb o e = true <-> ItemMatch o e.
Proof.
  intro o; induction o using item_ind_strong; intro e0; destruct e0;
    cbn [itemmatchb]; try (split; [discriminate | intro H0; inversion H0]).
  - (* import *) rewrite andb_true_iff, bool_eqb_iff, (subrelb_iff_all _ _ specmatchb_iff).
    split; [intros [H1 H2]; subst; constructor; exact H2 | intro H0; inversion H0; subst; split; [reflexivity | assumption]].
  - rewrite !andb_true_iff, bool_eqb_iff, is_none_N_eq, (subrelb_iff_all _ _ specmatchb_iff).
    split; [intros [[H1 H2] H3]; subst; constructor; assumption
           | intro H0; inversion H0; subst; repeat split; try reflexivity; try assumption;
             match goal with Hs : _ <-> _ |- _ => apply Hs end].
  - rewrite bool_eqb_iff. split; [intro H1; subst; constructor | intro H0; inversion H0; subst; reflexivity].
  - rewrite !andb_true_iff, exform_eqb_iff, N.eqb_eq, bool_eqb_iff, fnmatchb_iff.
    split; [intros [[[H1 H2] H3] H4]; subst; constructor; exact H4
           | intro H0; inversion H0; subst; (split; [split; [split; reflexivity | reflexivity] | assumption])].
  - rewrite !andb_true_iff, exform_eqb_iff, N.eqb_eq, bool_eqb_iff, classmatchb_iff.
    split; [intros [[[H1 H2] H3] H4]; subst; constructor; exact H4
           | intro H0; inversion H0; subst; (split; [split; [split; reflexivity | reflexivity] | assumption])].
  - rewrite !andb_true_iff, exform_eqb_iff, N.eqb_eq, bool_eqb_iff, (subrelb_iff_all _ _ vdeclmatchb_iff).
    split; [intros [[[H1 H2] H3] H4]; subst; constructor; exact H4
           | intro H0; inversion H0; subst; (split; [split; [split; reflexivity | reflexivity] | assumption])].
  - rewrite !andb_true_iff, exform_eqb_iff, !N.eqb_eq, listN_eqb_iff.
    split; [intros [[[[[H1 H2] H3] H4] H5] H6]; subst; constructor
           | intro H0; inversion H0; subst; repeat split; reflexivity].
  - rewrite !andb_true_iff, exform_eqb_iff, !N.eqb_eq.
    split; [intros [[[[H1 H2] H3] H4] H5]; subst; constructor
           | intro H0; inversion H0; subst; repeat split; reflexivity].
  - rewrite !andb_true_iff, exform_eqb_iff, !N.eqb_eq, bool_eqb_iff.
    split; [intros [[[H1 H2] H3] H4]; subst; constructor
           | intro H0; inversion H0; subst; repeat split; reflexivity].
  - (* namespace *)
    rewrite !andb_true_iff, exform_eqb_iff, N.eqb_eq, bool_eqb_iff.
    rewrite (splits_iff (fun main tail => subrelb itemmatchb its main && forallb expandob tail) items).
    assert (Hsub : forall l', subrelb itemmatchb its l' = true <-> SubRel ItemMatch its l').
    { apply subrelb_iff. intros x Hx y. rewrite Forall_forall in H. apply (H x Hx). }
    split.
    + intros [[[H1 H2] H3] [main [tail [E H4]]]]; subst.
      apply andb_true_iff in H4; destruct H4 as [H4 H5].
      constructor; [apply Hsub; exact H4 | apply (forallb_Forall_all _ _ _ expandob_iff); exact H5].
    + intro H0; inversion H0; subst. repeat split; try reflexivity.
      exists main, tail. split; [reflexivity|]. apply andb_true_iff; split.
      * apply Hsub; assumption.
      * apply (forallb_Forall_all _ _ _ expandob_iff); assumption.
  - split; [intros _; constructor | reflexivity].
  - rewrite N.eqb_eq. split; [intro; subst; constructor | intro H0; inversion H0; subst; reflexivity].
Qed.

Lemma itemspreservedb_iff : forall o e, itemspreservedb o e = true <-> ItemsPreserved o e.
Proof.
  intros o e; unfold itemspreservedb, ItemsPreserved.
  rewrite (splits_iff (fun main tail => subrelb itemmatchb o main && forallb expandob tail) e).
  split; intros [main [tail [E H]]]; exists main, tail; (split; [exact E|]).
  - apply andb_true_iff in H; destruct H as [H1 H2]. split.
    + apply (subrelb_iff_all _ _ itemmatchb_iff); exact H1.
    + apply (forallb_Forall_all _ _ _ expandob_iff); exact H2.
  - destruct H as [H1 H2]. apply andb_true_iff; split.
    + apply (subrelb_iff_all _ _ itemmatchb_iff); exact H1.
    + apply (forallb_Forall_all _ _ _ expandob_iff); exact H2.
Qed.

Lemma subsetb_iff : forall a b, subsetb a b = true <-> (forall n, In n a -> In n b).
Proof.
  intros a b; unfold subsetb. rewrite forallb_forall. split; intros H n Hn.
  - apply mem_In; apply H; exact Hn.
  - apply mem_In; apply H; exact Hn.
Qed.

Lemma disjointb_iff : forall a b, disjointb a b = true <-> (forall n, In n a -> ~ In n b).
Proof.
  intros a b; unfold disjointb. rewrite forallb_forall. split; intros H n Hn.
  - apply mem_false_In. apply negb_true_iff. apply H; exact Hn.
  - apply negb_true_iff. apply mem_false_In. apply H; exact Hn.
Qed.

Theorem api_preservedb_correct : forall x, api_preservedb x = true <-> ApiPreserved x.
Proof.
  intro x; unfold api_preservedb, ApiPreserved, c11_subsetb, c11_entryb, c11_itemsb, c11_dropb.
  rewrite !andb_true_iff, !orb_true_iff, !negb_true_iff, !subsetb_iff, itemspreservedb_iff, disjointb_iff, forallb_forall.
  assert (Hp : (forall p, In p (o_must_drop_paths x) -> negb (declares_path p (m_items (o_emit x))) = true) <->
               (forall p, In p (o_must_drop_paths x) -> declares_path p (m_items (o_emit x)) = false)).
  { split; intros H p Hin; specialize (H p Hin); [apply negb_true_iff in H; exact H | apply negb_true_iff; exact H]. }
  rewrite Hp. clear Hp.
  destruct (o_exports_known x); destruct (o_entry x); intuition (try congruence).
Qed.

(* the class tag of the known finding F-C11a *)
Theorem c11_classes_sound : forall x, In 1101 (c11_classes x) -> ~ ApiPreserved x /\ ApiPreserved (relax_obs x).
Proof.
  intros x H. unfold c11_classes in H.
  destruct (api_preservedb x) eqn:E0; [destruct H|].
  destruct (api_preservedb (relax_obs x)) eqn:E1; [|destruct H].
  split; [intro Hp; apply api_preservedb_correct in Hp; congruence | apply api_preservedb_correct; exact E1].
Qed.

Theorem c11_classes_none : forall x, c11_classes x = [] -> api_preservedb x = false -> ~ ApiPreserved (relax_obs x).
Proof.
  intros x H E0 Hp. unfold c11_classes in H. rewrite E0 in H.
  apply api_preservedb_correct in Hp. rewrite Hp in H. discriminate.
Qed.
