(* C01 for the registry stage (Model/Jsr.v): nothing reachable is absent.
   After a completed build every root and every dependency target of every
   module entry is SETTLED: following the recorded redirects from it reaches an
   entry.  Proved for worlds whose module and external answers report the
   requested specifier as the final one (NoAlias); with aliases the redirect
   a request leaves behind depends on which answer came first, and the
   correspondence run decides those worlds per case. *)
From Coq Require Import Arith.
From RecordUpdate Require Import RecordSet.
Import RecordSetNotations.
From DG Require Import Base.Util Base.Sexp Model.Graph Model.Builder Proofs.BuilderProofs Proofs.ChecksumProofs
  Proofs.ClosureProofs Model.Jsr Proofs.JsrProofs.

(* ---------- settledness over registry-stage entries ---------- *)
Inductive SettJ (slots : list (spec * jslot)) (reds : list (spec * spec)) (xs : list spec) : spec -> Prop :=
| SJ_slot : forall t, has_key t slots = true -> SettJ slots reds xs t
| SJ_exc : forall t, In t xs -> SettJ slots reds xs t
| SJ_red : forall t r, lookup t reds = Some r -> SettJ slots reds xs r -> SettJ slots reds xs t.

(* monotonicity, with redirect edges preserved semantically *)
Lemma settj_mono : forall slots reds xs slots' reds' xs',
  (forall k, has_key k slots = true -> SettJ slots' reds' xs' k) ->
  (forall x, In x xs -> SettJ slots' reds' xs' x) ->
  (forall t r, lookup t reds = Some r -> SettJ slots' reds' xs' r -> SettJ slots' reds' xs' t) ->
  forall t, SettJ slots reds xs t -> SettJ slots' reds' xs' t.
Proof.
  intros slots reds xs slots' reds' xs' Hs Hx Hr t H.
  induction H as [t Hk | t Hin | t r Hl _ IH].
  - apply Hs; exact Hk.
  - apply Hx; exact Hin.
  - eapply Hr; [exact Hl | exact IH].
Qed.

Lemma settj_rstar : forall slots reds xs s e,
  RStar reds s e -> SettJ slots reds xs e -> SettJ slots reds xs s.
Proof.
  intros slots reds xs s e H He. induction H as [s|s r e Hl _ IH]; [exact He|].
  eapply SJ_red; [exact Hl | apply IH; exact He].
Qed.

(* specifiers whose settling is still queued: jsr: resolutions and dynamic branches *)
Definition PS (st : jstate) : list spec :=
  map jr_spec (js_res st) ++ (if js_in_dyn st then [] else map fst (js_dyn st)).

Definition Sx (E : list spec) (st : jstate) (t : spec) : Prop :=
  SettJ (js_slots st) (js_redirects st) (E ++ PS st) t.

Definition DepsOK (E : list spec) (st : jstate) (deps : list jdep) : Prop :=
  forall d, In d deps -> Sx E st (jd_target d).

(* a state transformation that only adds *)
Record Grows (st st' : jstate) : Prop := {
  gr_slots : forall k, has_key k (js_slots st) = true -> has_key k (js_slots st') = true;
  gr_reds : forall t r, lookup t (js_redirects st) = Some r -> lookup t (js_redirects st') = Some r;
  gr_ps : forall x, In x (PS st) -> In x (PS st');
  gr_mods : forall s src deps, lookup s (js_slots st') = Some (JsMod src deps) ->
              lookup s (js_slots st) = Some (JsMod src deps) \/ DepsOK [] st' deps
}.

Lemma grows_refl : forall st, Grows st st.
Proof. intros st. constructor; auto. Qed.

Lemma sx_weaken : forall E E' st t, (forall x, In x E -> In x E') -> Sx E st t -> Sx E' st t.
Proof.
  intros E E' st t Hsub H. unfold Sx in *. eapply settj_mono; [| | |exact H].
  - intros k Hk. apply SJ_slot. exact Hk.
  - intros x Hx. apply SJ_exc. apply in_app_or in Hx. apply in_or_app. destruct Hx; [left; auto | right; assumption].
  - intros t0 r Hl Hr. eapply SJ_red; eassumption.
Qed.

Lemma grows_sx : forall E st st' t, Grows st st' -> Sx E st t -> Sx E st' t.
Proof.
  intros E st st' t G H. unfold Sx in *. eapply settj_mono; [| | |exact H].
  - intros k Hk. apply SJ_slot. apply (gr_slots _ _ G). exact Hk.
  - intros x Hx. apply SJ_exc. apply in_app_or in Hx. apply in_or_app.
    destruct Hx as [Hx|Hx]; [left; exact Hx | right; apply (gr_ps _ _ G); exact Hx].
  - intros t0 r Hl Hr. eapply SJ_red; [apply (gr_reds _ _ G); exact Hl | exact Hr].
Qed.

Lemma grows_depsok : forall E st st' deps, Grows st st' -> DepsOK E st deps -> DepsOK E st' deps.
Proof. intros E st st' deps G H d Hd. eapply grows_sx; [exact G | apply H; exact Hd]. Qed.

Lemma grows_trans : forall a b c, Grows a b -> Grows b c -> Grows a c.
Proof.
  intros a b c GA GB. pose proof GA as [A1 A2 A3 A4]. pose proof GB as [B1 B2 B3 B4].
  constructor; auto.
  intros s src deps H. destruct (B4 s src deps H) as [H'|H']; [|right; exact H'].
  destruct (A4 s src deps H') as [H''|H'']; [left; exact H'' | right; eapply grows_depsok; eassumption].
Qed.

Lemma grows_ext : forall st st',
  js_slots st' = js_slots st -> js_redirects st' = js_redirects st -> js_res st' = js_res st ->
  js_dyn st' = js_dyn st -> js_in_dyn st' = js_in_dyn st -> Grows st st'.
Proof.
  intros st st' Hs Hr He Hd Hi. constructor; unfold PS; rewrite ?Hs, ?Hr, ?He, ?Hd, ?Hi; auto.
Qed.

Ltac gext := (apply grows_ext; reflexivity).

Lemma set_slot_sx : forall E st s v t, Sx E st t -> Sx E (set_slot st s v) t.
Proof.
  intros E st s v t H. unfold Sx in *. eapply settj_mono; [| | |exact H].
  - intros k Hk. apply SJ_slot. unfold set_slot. cbn. rewrite has_key_set_assoc, Hk. apply orb_true_r.
  - intros x Hx. apply SJ_exc. exact Hx.
  - intros t0 r Hl Hr. eapply SJ_red; eassumption.
Qed.

Lemma grows_set_slot : forall st s v,
  (forall src deps, v = JsMod src deps -> DepsOK [] st deps) -> Grows st (set_slot st s v).
Proof.
  intros st s v Hv. constructor; unfold set_slot; cbn; auto.
  - intros k Hk. rewrite has_key_set_assoc, Hk. apply orb_true_r.
  - intros s0 src deps H. destruct (N.eq_dec s0 s) as [->|Hne].
    + rewrite lookup_set_assoc_same in H. inversion H; subst. right.
      intros d Hd. apply (set_slot_sx [] st s (JsMod src deps)). apply (Hv src deps eq_refl d Hd).
    + rewrite lookup_set_assoc_other in H by exact Hne. left; exact H.
Qed.

Lemma grows_set_err : forall st key k s r, Grows st (set_err st key k s r).
Proof. intros. unfold set_err. apply grows_set_slot. intros src deps E. discriminate. Qed.

Lemma set_slot_has : forall st s v, has_key s (js_slots (set_slot st s v)) = true.
Proof. intros st s v. unfold set_slot. cbn. rewrite has_key_set_assoc, N.eqb_refl. reflexivity. Qed.

Lemma grows_push_item : forall st it, Grows st (push_item st it).
Proof.
  intros st it. unfold push_item.
  eapply grows_trans; [apply (grows_set_slot st (ji_spec it) JsPending); intros src deps E; discriminate | gext].
Qed.

Lemma grows_queue_pkg : forall W st p, Grows st (queue_pkg W st p).
Proof. intros W st p. unfold queue_pkg. destruct (mem p (js_pq st)); [apply grows_refl | gext]. Qed.

Lemma grows_queue_ver : forall W st v, Grows st (queue_ver W st v).
Proof. intros W st v. unfold queue_ver. destruct (existsb _ (js_vq st)); [apply grows_refl | gext]. Qed.

Lemma grows_mark : forall st req r, Grows st (mark_jsr_dep st req r).
Proof. intros st req r. unfold mark_jsr_dep. destruct r as [[rg [v|]]|]; try apply grows_refl. gext. Qed.

Lemma grows_lock_set : forall st v c, Grows st (lock_set_pkg st v c).
Proof.
  intros st v c. unfold lock_set_pkg. destruct (js_lock_pkg st); [|apply grows_refl]. destruct c; [gext | apply grows_refl].
Qed.

Lemma grows_record_remote : forall W st f d src, Grows st (record_remote W st f d src).
Proof.
  intros W st f d src. unfold record_remote. destruct (js_lock_pkg st); [|apply grows_refl].
  destruct (negb d && mem f (jw_http W) && negb (has_key f (js_lock_remote st))); [gext | apply grows_refl].
Qed.

Lemma ps_res_app : forall st x r, In x (PS st) -> In x (PS (st <| js_res := js_res st ++ [r] |>)).
Proof.
  intros st x r H. unfold PS in *. cbn. rewrite map_app. apply in_app_or in H. apply in_or_app.
  destruct H as [H|H]; [left; apply in_or_app; left; exact H | right; exact H].
Qed.

(* load only adds, and afterwards the end of the known redirect chain has an entry or is queued *)
Lemma load_grows : forall W st spec0 rng dyn root vinfo count,
  Grows st (load W st spec0 rng dyn root vinfo count) /\
  (has_key (load_target st spec0) (js_slots (load W st spec0 rng dyn root vinfo count)) = true \/
   In (load_target st spec0) (PS (load W st spec0 rng dyn root vinfo count))).
Proof.
  intros W st spec0 rng dyn root vinfo count. unfold load.
  set (s := load_target st spec0).
  destruct (lookup s (js_slots st)) as [sl|] eqn:El.
  { assert (Hk : has_key s (js_slots st) = true) by (unfold has_key; rewrite El; reflexivity).
    destruct (cls_of W spec0); try (split; [apply grows_refl | left; exact Hk]).
    split; [apply grows_mark|]. left. apply (gr_slots _ _ (grows_mark st req rng)). exact Hk. }
  assert (Hpush : forall st0 it0, Grows st st0 -> ji_spec it0 = s ->
            Grows st (push_item st0 it0) /\ (has_key s (js_slots (push_item st0 it0)) = true \/ In s (PS (push_item st0 it0)))).
  { intros st0 it0 G0 Hs. split; [eapply grows_trans; [exact G0 | apply grows_push_item]|].
    left. unfold push_item. cbn. rewrite Hs, has_key_set_assoc, N.eqb_refl. reflexivity. }
  assert (Herr : forall k, Grows st (set_err st s k s rng) /\
            (has_key s (js_slots (set_err st s k s rng)) = true \/ In s (PS (set_err st s k s rng)))).
  { intros k. split; [apply grows_set_err | left; apply set_slot_has]. }
  set (byc := match cls_of W s with
              | CJsr pkg req exp => _ | CJsrBad => _ | CFile p v _ => _ | CPlain => _ end).
  assert (Hby : Grows st byc /\ (has_key s (js_slots byc) = true \/ In s (PS byc))).
  { unfold byc. destruct (cls_of W s) as [pkg req exp| |p v pa|].
    - set (st1 := queue_pkg W (mark_jsr_dep st req rng) pkg).
      assert (G1 : Grows st st1) by (eapply grows_trans; [apply grows_mark | apply grows_queue_pkg]).
      split.
      + eapply grows_trans; [exact G1|]. constructor; cbn; auto. intros x Hx. apply ps_res_app. exact Hx.
      + right. unfold PS. cbn. rewrite map_app. apply in_or_app. left. apply in_or_app. right. left. reflexivity.
    - apply Herr.
    - apply Hpush; [apply grows_queue_ver | reflexivity].
    - apply Hpush; [apply grows_refl | reflexivity]. }
  clearbody byc.
  destruct (has_key s (js_redirects st)); [apply Herr|].
  destruct vinfo as [[vp vv]|]; [|exact Hby].
  destruct (cls_of W s) as [pkg req exp| |p v pa|]; try exact Hby.
  destruct (N.eqb vp p && N.eqb vv v); [|exact Hby].
  destruct (vinfo_of W st (p, v)) as [vi|]; [|exact Hby].
  destruct (get_checksum W vi pa) as [c|]; [|apply Herr].
  destruct (lookup pa (vi_modinfo vi)) as [mi|]; apply Hpush; try reflexivity; [gext | apply grows_refl].
Qed.

Lemma load_target_rstar : forall st spec0, RStar (js_redirects st) spec0 (load_target st spec0).
Proof. intros st spec0. unfold load_target. apply (resolve_rstar (redirect_graph (js_redirects st)) spec0). Qed.

Lemma rstar_mono : forall reds reds' s e,
  (forall t r, lookup t reds = Some r -> lookup t reds' = Some r) -> RStar reds s e -> RStar reds' s e.
Proof.
  intros reds reds' s e Hm H. induction H as [s|s r e Hl _ IH]; [apply RS_refl|].
  eapply RS_step; [apply Hm; exact Hl | exact IH].
Qed.

Lemma load_settles : forall W E st spec0 rng dyn root vinfo count,
  Sx E (load W st spec0 rng dyn root vinfo count) spec0.
Proof.
  intros W E st spec0 rng dyn root vinfo count.
  destruct (load_grows W st spec0 rng dyn root vinfo count) as [G Hk].
  unfold Sx. eapply settj_rstar.
  - eapply rstar_mono; [apply (gr_reds _ _ G) | apply load_target_rstar].
  - destruct Hk as [Hk|Hk]; [apply SJ_slot; exact Hk | apply SJ_exc; apply in_or_app; right; exact Hk].
Qed.

(* ---------- visiting dependencies ---------- *)
Lemma ps_dyn_or_insert : forall st k b x,
  In x (PS st) -> In x (PS (st <| js_dyn := or_insert k b (js_dyn st) |>)).
Proof.
  intros st k b x H. unfold PS in *. cbn. apply in_app_or in H. apply in_or_app. destruct H as [H|H]; [left; exact H|].
  right. destruct (js_in_dyn st); [exact H|]. unfold or_insert. destruct (lookup k (js_dyn st)); [exact H|].
  rewrite map_app. apply in_or_app. left. exact H.
Qed.

Lemma ps_dyn_has : forall st k b,
  js_in_dyn st = false -> In k (PS (st <| js_dyn := or_insert k b (js_dyn st) |>)).
Proof.
  intros st k b Hi. unfold PS. cbn. rewrite Hi. apply in_or_app. right.
  unfold or_insert. destruct (lookup k (js_dyn st)) as [b0|] eqn:E.
  - apply lookup_In in E. apply (in_map fst) in E. exact E.
  - rewrite map_app. apply in_or_app. right. left. reflexivity.
Qed.

Lemma visit_dep_spec : forall W E st referrer vinfo d,
  Grows st (visit_dep W st referrer vinfo d) /\ Sx E (visit_dep W st referrer vinfo d) (jd_target d).
Proof.
  intros W E st referrer vinfo d. unfold visit_dep.
  destruct (jd_dyn d && negb (js_in_dyn st)) eqn:Ed.
  - apply andb_prop in Ed. destruct Ed as [_ Hi]. apply Bool.negb_true_iff in Hi. split.
    + constructor; cbn; auto. intros x Hx. apply ps_dyn_or_insert. exact Hx.
    + unfold Sx. apply SJ_exc. apply in_or_app. right. apply ps_dyn_has. exact Hi.
  - split; [apply load_grows | apply load_settles].
Qed.

Lemma visit_deps_spec : forall W E referrer vinfo ds st,
  Grows st (visit_deps W st referrer vinfo ds) /\ DepsOK E (visit_deps W st referrer vinfo ds) ds.
Proof.
  intros W E referrer vinfo ds. induction ds as [|d ds IH]; intros st; cbn [visit_deps].
  - split; [apply grows_refl | intros d []].
  - destruct (visit_dep_spec W E st referrer vinfo d) as [G1 H1].
    destruct (IH (visit_dep W st referrer vinfo d)) as [G2 H2].
    split; [eapply grows_trans; eassumption|].
    intros d0 [<-|Hin]; [eapply grows_sx; [exact G2 | exact H1] | apply H2; exact Hin].
Qed.

Lemma NoDup_app_one : forall {A} (l : list A) x, NoDup l -> ~ In x l -> NoDup (l ++ [x]).
Proof.
  intros A l x H Hn. induction H as [|a l Ha Hl IH]; cbn.
  - constructor; [intros [] | constructor].
  - constructor.
    + intro Hin. apply in_app_or in Hin. destruct Hin as [Hin|[Heq|[]]]; [contradiction|]. subst. apply Hn. left. reflexivity.
    + apply IH. intro Hin. apply Hn. right. exact Hin.
Qed.

(* ---------- the queue invariant: queued loads are for distinct specifiers that have an entry and no redirect ---------- *)
Section Q.
Variable W : jworld.

Definition is_jsr (s : spec) : Prop := exists p q e, cls_of W s = CJsr p q e.

Record QInv (st : jstate) : Prop := {
  q_nodup : NoDup (map ji_spec (js_pending st));
  q_slot : forall it, In it (js_pending st) -> has_key (ji_spec it) (js_slots st) = true;
  q_nored : forall it, In it (js_pending st) -> lookup (ji_spec it) (js_redirects st) = None;
  q_cls : forall it, In it (js_pending st) -> ~ is_jsr (ji_spec it);
  q_res : forall r, In r (js_res st) -> is_jsr (jr_spec r)
}.

Lemma qinv_ext : forall st st',
  js_slots st' = js_slots st -> js_redirects st' = js_redirects st -> js_pending st' = js_pending st ->
  js_res st' = js_res st -> QInv st -> QInv st'.
Proof. intros st st' H1 H2 H3 H4 [A B C D E]. constructor; rewrite ?H1, ?H2, ?H3, ?H4; assumption. Qed.

Ltac qext H := (eapply qinv_ext; [| | | |exact H]; reflexivity).

Lemma qinv_set_slot : forall st s v, QInv st -> QInv (set_slot st s v).
Proof.
  intros st s v [A B C D E]. constructor; try assumption. cbn.
  intros it Hin. rewrite has_key_set_assoc, (B it Hin). apply orb_true_r.
Qed.

Lemma qinv_push_item : forall st it,
  QInv st -> lookup (ji_spec it) (js_slots st) = None -> has_key (ji_spec it) (js_redirects st) = false ->
  ~ is_jsr (ji_spec it) -> QInv (push_item st it).
Proof.
  intros st it [A B C D E] Hs Hr Hc. unfold push_item. constructor; cbn.
  - rewrite map_app. cbn. apply NoDup_app_one; [exact A|].
    intro Hin. apply in_map_iff in Hin. destruct Hin as [it0 [Heq Hin0]].
    pose proof (B it0 Hin0) as Hk. rewrite Heq in Hk. unfold has_key in Hk. rewrite Hs in Hk. discriminate.
  - intros it0 Hin. apply in_app_or in Hin. rewrite has_key_set_assoc.
    destruct Hin as [Hin|[<-|[]]]; [rewrite (B it0 Hin); apply orb_true_r | rewrite N.eqb_refl; reflexivity].
  - intros it0 Hin. apply in_app_or in Hin. destruct Hin as [Hin|[<-|[]]]; [apply C; exact Hin|].
    unfold has_key in Hr. destruct (lookup (ji_spec it) (js_redirects st)); [discriminate | reflexivity].
  - intros it0 Hin. apply in_app_or in Hin. destruct Hin as [Hin|[<-|[]]]; [apply D; exact Hin | exact Hc].
  - exact E.
Qed.

Lemma qinv_mark : forall st req r, QInv st -> QInv (mark_jsr_dep st req r).
Proof. intros st req r H. unfold mark_jsr_dep. destruct r as [[rg [v|]]|]; try exact H. qext H. Qed.

Lemma qinv_queue_pkg : forall st p, QInv st -> QInv (queue_pkg W st p).
Proof. intros st p H. unfold queue_pkg. destruct (mem p (js_pq st)); [exact H | qext H]. Qed.

Lemma qinv_queue_ver : forall st v, QInv st -> QInv (queue_ver W st v).
Proof. intros st v H. unfold queue_ver. destruct (existsb _ (js_vq st)); [exact H | qext H]. Qed.

Lemma qinv_log_call : forall st s k c, QInv st -> QInv (log_call st s k c).
Proof. intros st s k c H. qext H. Qed.

Lemma load_qinv : forall st spec0 rng dyn root vinfo count,
  QInv st -> QInv (load W st spec0 rng dyn root vinfo count).
Proof.
  intros st spec0 rng dyn root vinfo count H. unfold load.
  set (s := load_target st spec0).
  destruct (lookup s (js_slots st)) as [sl|] eqn:El.
  { destruct (cls_of W spec0); try exact H. apply qinv_mark. exact H. }
  destruct (has_key s (js_redirects st)) eqn:Er.
  { apply qinv_set_slot. exact H. }
  assert (Hpush : forall st0 it0, QInv st0 -> js_slots st0 = js_slots st -> js_redirects st0 = js_redirects st ->
            ji_spec it0 = s -> ~ is_jsr s -> QInv (push_item st0 it0)).
  { intros st0 it0 H0 Hs Hr Hi Hc. apply qinv_push_item; [exact H0 | rewrite Hi, Hs; exact El | rewrite Hi, Hr; exact Er | rewrite Hi; exact Hc]. }
  assert (Hby : QInv match cls_of W s with
    | CJsr pkg req exp =>
        (queue_pkg W (mark_jsr_dep st req rng) pkg)
          <| js_res := js_res (queue_pkg W (mark_jsr_dep st req rng) pkg) ++
               [{| jr_spec := s; jr_pkg := pkg; jr_req := req; jr_exp := exp; jr_rng := rng; jr_dyn := dyn; jr_root := root |}] |>
    | CJsrBad => set_err st s EPackageFormat s rng
    | CFile p v _ =>
        push_item (queue_ver W st (p, v))
          {| ji_spec := s; ji_rng := rng; ji_count := count; ji_dyn := dyn; ji_root := root; ji_probe := None;
             ji_checksum := lock_remote_get st s; ji_vinfo := None; ji_fetch := Some (p, v) |}
    | CPlain =>
        push_item st
          {| ji_spec := s; ji_rng := rng; ji_count := count; ji_dyn := dyn; ji_root := root; ji_probe := None;
             ji_checksum := lock_remote_get st s; ji_vinfo := None; ji_fetch := None |}
    end).
  { destruct (cls_of W s) as [pkg req exp| |p v pa|] eqn:Ec.
    - pose proof (qinv_queue_pkg _ pkg (qinv_mark st req rng H)) as [A B C D E].
      constructor; try assumption. cbn. intros r Hin. apply in_app_or in Hin.
      destruct Hin as [Hin|[<-|[]]]; [apply E; exact Hin|]. cbn. exists pkg, req, exp. exact Ec.
    - apply qinv_set_slot. exact H.
    - apply Hpush; try reflexivity.
      + apply qinv_queue_ver. exact H.
      + unfold queue_ver. destruct (existsb _ (js_vq st)); reflexivity.
      + unfold queue_ver. destruct (existsb _ (js_vq st)); reflexivity.
      + intros [p0 [q0 [e0 Hc]]]. rewrite Ec in Hc. discriminate.
    - apply Hpush; try reflexivity; [exact H|]. intros [p0 [q0 [e0 Hc]]]. rewrite Ec in Hc. discriminate. }
  destruct vinfo as [[vp vv]|]; [|exact Hby].
  destruct (cls_of W s) as [pkg req exp| |p v pa|] eqn:Ec; try exact Hby.
  destruct (N.eqb vp p && N.eqb vv v); [|exact Hby].
  destruct (vinfo_of W st (p, v)) as [vi|]; [|exact Hby].
  destruct (get_checksum W vi pa) as [c|]; [|apply qinv_set_slot; exact H].
  assert (Hn : ~ is_jsr s) by (intros [p0 [q0 [e0 Hc]]]; rewrite Ec in Hc; discriminate).
  destruct (lookup pa (vi_modinfo vi)) as [mi|]; apply Hpush; try reflexivity; try exact Hn;
    [apply qinv_log_call; exact H | exact H].
Qed.

Lemma visit_deps_qinv : forall referrer vinfo ds st, QInv st -> QInv (visit_deps W st referrer vinfo ds).
Proof.
  intros referrer vinfo ds. induction ds as [|d ds IH]; intros st H; cbn [visit_deps]; [exact H|].
  apply IH. unfold visit_dep. destruct (jd_dyn d && negb (js_in_dyn st)); [qext H | apply load_qinv; exact H].
Qed.

(* the redirect a completed load leaves behind: its specifier is no longer queued *)
Lemma qinv_check_specifier : forall st req s,
  QInv st -> ~ In req (map ji_spec (js_pending st)) -> QInv (check_specifier st req s).
Proof.
  intros st req s [A B C D E] Hn. unfold check_specifier. destruct (N.eqb req s); [constructor; assumption|].
  constructor; cbn; try assumption.
  - intros it Hin. pose proof (B it Hin) as Hk.
    assert (Hne : ji_spec it <> req) by (intro Heq; apply Hn; rewrite <- Heq; apply in_map; exact Hin).
    destruct (lookup req (js_slots st)) as [[src deps| |e|]|]; try exact Hk.
    rewrite has_key_remove_assoc by exact Hne. exact Hk.
  - intros it Hin. pose proof (C it Hin) as Hl.
    assert (Hne : ji_spec it <> req) by (intro Heq; apply Hn; rewrite <- Heq; apply in_map; exact Hin).
    unfold or_insert. destruct (lookup req (js_redirects st)); [exact Hl|].
    clear -Hl Hne. induction (js_redirects st) as [|[k v] l IH]; cbn [app lookup] in *.
    + apply N.eqb_neq in Hne. rewrite Hne. reflexivity.
    + destruct (N.eqb (ji_spec it) k); [discriminate | apply IH; exact Hl].
Qed.
End Q.

(* ---------- the closure invariant ---------- *)
Section C.
Variable W : jworld.

(* module entries and the requested specifiers R are settled, up to the exceptions E *)
Record CInv (E R : list spec) (st : jstate) : Prop := {
  cv_mods : forall s src deps, lookup s (js_slots st) = Some (JsMod src deps) -> DepsOK E st deps;
  cv_req : forall t, In t R -> Sx E st t;
  cv_q : QInv W st
}.

Lemma discharge : forall E st s t, Sx E st s -> Sx (s :: E) st t -> Sx E st t.
Proof.
  intros E st s t Hs H. unfold Sx in *. eapply settj_mono; [| | |exact H].
  - intros k Hk. apply SJ_slot; exact Hk.
  - intros x [Hx|Hx]; [subst; exact Hs | apply SJ_exc; exact Hx].
  - intros t0 r Hl Hr. eapply SJ_red; eassumption.
Qed.

(* a step that changes "settled up to E" into "settled up to E'" for everything, and keeps old module entries *)
Lemma cinv_step : forall E E' R st st',
  CInv E R st ->
  (forall t, Sx E st t -> Sx E' st' t) ->
  (forall s src deps, lookup s (js_slots st') = Some (JsMod src deps) ->
     lookup s (js_slots st) = Some (JsMod src deps) \/ DepsOK E' st' deps) ->
  QInv W st' -> CInv E' R st'.
Proof.
  intros E E' R st st' [A B C] Hsx Hm Hq. constructor; [| |exact Hq].
  - intros s src deps Hl. destruct (Hm s src deps Hl) as [Hold|Hnew]; [|exact Hnew].
    intros d Hd. apply Hsx. apply (A s src deps Hold d Hd).
  - intros t Ht. apply Hsx. apply B. exact Ht.
Qed.

Lemma cinv_grows : forall E R st st', Grows st st' -> QInv W st' -> CInv E R st -> CInv E R st'.
Proof.
  intros E R st st' G Hq H. eapply cinv_step; [exact H | | | exact Hq].
  - intros t Ht. eapply grows_sx; eassumption.
  - intros s src deps Hl. destruct (gr_mods _ _ G s src deps Hl) as [Ho|Hn]; [left; exact Ho|].
    right. intros d Hd. eapply sx_weaken; [|apply Hn; exact Hd]. intros x [].
Qed.

Lemma cinv_add_req : forall E R st t, CInv E R st -> Sx E st t -> CInv E (t :: R) st.
Proof. intros E R st t [A B C] Ht. constructor; try assumption. intros t0 [<-|Hin]; [exact Ht | apply B; exact Hin]. Qed.

(* check_specifier for a specifier that has no redirect yet: everything settled stays settled once the target is *)
Lemma check_specifier_sx : forall E st req s t,
  req <> s -> lookup req (js_redirects st) = None ->
  Sx E st t -> Sx (s :: E) (check_specifier st req s) t.
Proof.
  intros E st req s t Hne Hnone H. unfold Sx in *. unfold check_specifier.
  apply N.eqb_neq in Hne. rewrite Hne.
  assert (Hl : lookup req (or_insert req s (js_redirects st)) = Some s) by (apply lookup_or_insert_new; exact Hnone).
  eapply settj_mono; [| | |exact H].
  - intros k Hk. destruct (N.eq_dec k req) as [->|Hn].
    + eapply SJ_red; [exact Hl | apply SJ_exc; left; reflexivity].
    + apply SJ_slot. cbn. destruct (lookup req (js_slots st)) as [[src deps| |e|]|]; try exact Hk.
      rewrite has_key_remove_assoc by exact Hn. exact Hk.
  - intros x Hx. apply SJ_exc. right. exact Hx.
  - intros t0 r0 H0 Hr. eapply SJ_red; [cbn; apply lookup_or_insert_keep; exact H0 | exact Hr].
Qed.

Lemma check_specifier_mods : forall st req s s0 src deps,
  lookup s0 (js_slots (check_specifier st req s)) = Some (JsMod src deps) -> lookup s0 (js_slots st) = Some (JsMod src deps).
Proof.
  intros st req s s0 src deps H. unfold check_specifier in H. destruct (N.eqb req s); [exact H|]. cbn in H.
  destruct (lookup req (js_slots st)) as [[src' deps'| |e|]|] eqn:E; try exact H.
  destruct (N.eq_dec s0 req) as [->|Hn].
  - rewrite lookup_remove_assoc_same in H. discriminate.
  - rewrite lookup_remove_assoc_other in H by exact Hn. exact H.
Qed.

(* the common shape of a completed load: redirect bookkeeping towards [s], then steps that only add and settle [s] *)
Lemma finish_cinv : forall R st req s st4,
  CInv [] R st -> ~ In req (map ji_spec (js_pending st)) -> lookup req (js_redirects st) = None ->
  Grows (check_specifier st req s) st4 -> Sx [] st4 s -> QInv W st4 -> CInv [] R st4.
Proof.
  intros R st req s st4 H Hnin Hnone G Hs Hq.
  eapply cinv_step; [exact H | | | exact Hq].
  - intros t Ht. apply (discharge [] st4 s t Hs).
    eapply grows_sx; [exact G|].
    destruct (N.eq_dec req s) as [->|Hne].
    + rewrite check_specifier_same. eapply sx_weaken; [|exact Ht]. intros x [].
    + apply check_specifier_sx; assumption.
  - intros k src deps Hl. destruct (gr_mods _ _ G k src deps Hl) as [Ho|Hn]; [|right; exact Hn].
    left. eapply check_specifier_mods. exact Ho.
Qed.

Lemma cinv_ext : forall E R st st',
  js_slots st' = js_slots st -> js_redirects st' = js_redirects st -> js_pending st' = js_pending st ->
  js_res st' = js_res st -> js_dyn st' = js_dyn st -> js_in_dyn st' = js_in_dyn st -> CInv E R st -> CInv E R st'.
Proof.
  intros E R st st' H1 H2 H3 H4 H5 H6 H. eapply cinv_grows; [| |exact H].
  - apply grows_ext; assumption.
  - eapply qinv_ext; [| | | |apply (cv_q _ _ _ H)]; assumption.
Qed.

Lemma process_cinv : forall R st it,
  CInv [] R st -> ~ In (ji_spec it) (map ji_spec (js_pending st)) -> lookup (ji_spec it) (js_redirects st) = None ->
  CInv [] R (process W st it).
Proof.
  intros R st it H Hnin Hnone. unfold process.
  destruct (try_load W st it) as [res calls vinfo https]. cbn [t_res t_calls t_vinfo t_https].
  set (st1 := st <| js_calls := rev calls ++ js_calls st |>).
  set (st2 := match https with
              | Some (v, cfl) => (lock_set_pkg st1 v cfl) <| js_pkgs := ensure_package (js_pkgs (lock_set_pkg st1 v cfl)) v |>
              | None => st1 end).
  assert (H2 : CInv [] R st2 /\ js_pending st2 = js_pending st /\ js_redirects st2 = js_redirects st).
  { unfold st2. destruct https as [[v cfl]|].
    - unfold lock_set_pkg. destruct (js_lock_pkg st1); [destruct cfl|]; (split; [eapply cinv_ext; [| | | | | |exact H]; reflexivity | split; reflexivity]).
    - split; [eapply cinv_ext; [| | | | | |exact H]; reflexivity | split; reflexivity]. }
  destruct H2 as [H2 [Hp2 Hr2]]. clearbody st2. clear st1.
  rewrite <- Hp2 in Hnin. rewrite <- Hr2 in Hnone. clear Hp2 Hr2 H.
  pose proof (qinv_check_specifier W st2 (ji_spec it)) as Hqc.
  destruct res as [e|to|final|final src decl deps content].
  - eapply (finish_cinv R st2 (ji_spec it) (je_spec e)); try eassumption.
    + apply grows_set_slot. intros s0 d0 E0. discriminate.
    + unfold Sx. apply SJ_slot. apply set_slot_has.
    + apply qinv_set_slot. apply Hqc; [apply (cv_q _ _ _ H2) | exact Hnin].
  - eapply (finish_cinv R st2 (ji_spec it) to); try eassumption.
    + apply load_grows.
    + apply load_settles.
    + apply load_qinv. apply Hqc; [apply (cv_q _ _ _ H2) | exact Hnin].
  - set (st3 := check_specifier st2 (ji_spec it) final).
    set (st4 := if ji_root it then add_resolved_root st3 final else st3).
    assert (G4 : Grows st3 st4) by (unfold st4; destruct (ji_root it); [gext | apply grows_refl]).
    assert (Q4 : QInv W st4).
    { unfold st4. destruct (ji_root it); [eapply qinv_ext; [| | | |apply Hqc; [apply (cv_q _ _ _ H2) | exact Hnin]]; reflexivity |
                                          apply Hqc; [apply (cv_q _ _ _ H2) | exact Hnin]]. }
    clearbody st4.
    destruct (lookup final (js_slots st4)) as [[s0 d0| |e0|]|] eqn:El.
    + eapply (finish_cinv R st2 (ji_spec it) final); try eassumption.
      unfold Sx. apply SJ_slot. unfold has_key. rewrite El. reflexivity.
    + eapply (finish_cinv R st2 (ji_spec it) final); try eassumption.
      unfold Sx. apply SJ_slot. unfold has_key. rewrite El. reflexivity.
    + eapply (finish_cinv R st2 (ji_spec it) final); try eassumption.
      unfold Sx. apply SJ_slot. unfold has_key. rewrite El. reflexivity.
    + eapply (finish_cinv R st2 (ji_spec it) final); try eassumption.
      * eapply grows_trans; [exact G4 | apply grows_set_slot; intros s1 d1 E1; discriminate].
      * unfold Sx. apply SJ_slot. apply set_slot_has.
      * apply qinv_set_slot. exact Q4.
    + eapply (finish_cinv R st2 (ji_spec it) final); try eassumption.
      * eapply grows_trans; [exact G4 | apply grows_set_slot; intros s1 d1 E1; discriminate].
      * unfold Sx. apply SJ_slot. apply set_slot_has.
      * apply qinv_set_slot. exact Q4.
  - set (st3 := check_specifier st2 (ji_spec it) final).
    set (st4 := if ji_root it then add_resolved_root st3 final else st3).
    assert (G4 : Grows st3 st4) by (unfold st4; destruct (ji_root it); [gext | apply grows_refl]).
    assert (Q4 : QInv W st4).
    { unfold st4. destruct (ji_root it); [eapply qinv_ext; [| | | |apply Hqc; [apply (cv_q _ _ _ H2) | exact Hnin]]; reflexivity |
                                          apply Hqc; [apply (cv_q _ _ _ H2) | exact Hnin]]. }
    clearbody st4.
    set (st5 := match content with
                | Some c => (log_call st4 final 0 (Some c)) <| js_content := js_content st4 ++ [{| ci_spec := final; ci_rng := ji_rng it; ci_checksum := c |}] |>
                | None => match vinfo with None => record_remote W st4 final decl src | Some _ => st4 end end).
    assert (G5 : Grows st4 st5 /\ QInv W st5).
    { unfold st5. destruct content as [c|].
      - split; [gext | eapply qinv_ext; [| | | |exact Q4]; reflexivity].
      - destruct vinfo; [split; [apply grows_refl | exact Q4]|].
        split; [apply grows_record_remote|]. unfold record_remote. destruct (js_lock_pkg st4); [|exact Q4].
        destruct (negb decl && mem final (jw_http W) && negb (has_key final (js_lock_remote st4))); [|exact Q4].
        eapply qinv_ext; [| | | |exact Q4]; reflexivity. }
    destruct G5 as [G5 Q5]. clearbody st5.
    destruct (visit_deps_spec W [] (file_nv W final) vinfo deps st5) as [G6 D6].
    eapply (finish_cinv R st2 (ji_spec it) final); try eassumption.
    + eapply grows_trans; [exact G4|]. eapply grows_trans; [exact G5|]. eapply grows_trans; [exact G6|].
      apply grows_set_slot. intros s1 d1 E1. inversion E1; subst. exact D6.
    + unfold Sx. apply SJ_slot. apply set_slot_has.
    + apply qinv_set_slot. apply visit_deps_qinv. exact Q5.
Qed.
End C.

Section C2.
Variable W : jworld.

(* E ++ exceptions that are settled can be dropped one by one *)
Lemma sx_perm : forall E E' st t, (forall x, In x E <-> In x E') -> Sx E st t -> Sx E' st t.
Proof. intros E E' st t H. apply sx_weaken. intros x Hx. apply H. exact Hx. Qed.

Lemma cinv_weaken : forall E E' R st, (forall x, In x E -> In x E') -> CInv W E R st -> CInv W E' R st.
Proof.
  intros E E' R st Hsub [A B C]. constructor; [| |exact C].
  - intros s src deps Hl d Hd. eapply sx_weaken; [exact Hsub | apply (A s src deps Hl d Hd)].
  - intros t Ht. eapply sx_weaken; [exact Hsub | apply B; exact Ht].
Qed.

Lemma cinv_discharge : forall E R st s, Sx E st s -> CInv W (s :: E) R st -> CInv W E R st.
Proof.
  intros E R st s Hs [A B C]. constructor; [| |exact C].
  - intros k src deps Hl d Hd. apply (discharge E st s _ Hs). apply (A k src deps Hl d Hd).
  - intros t Ht. apply (discharge E st s _ Hs). apply B. exact Ht.
Qed.

Lemma probe_all_grows : forall pkg cands st cached,
  Grows st (fst (probe_all W st pkg cands cached)) /\ (QInv W st -> QInv W (fst (probe_all W st pkg cands cached))).
Proof.
  intros pkg cands. induction cands as [|v cands IH]; intros st cached; cbn [probe_all fst].
  - split; [apply grows_refl | auto].
  - destruct (IH (log_call st (v_url (ver_of W (pkg, v))) 2 None)
                 (if v_cached (ver_of W (pkg, v)) then cached ++ [v] else cached)) as [G Q].
    split; [eapply grows_trans; [|exact G]; gext | intro H; apply Q; apply qinv_log_call; exact H].
Qed.

Lemma probe_grows : forall st memo pkg req versions,
  Grows st (fst (fst (probe W st memo pkg req versions))) /\
  (QInv W st -> QInv W (fst (fst (probe W st memo pkg req versions)))).
Proof.
  intros st memo pkg req versions. unfold probe.
  destruct (match lookup pkg memo with Some m => m | None => ([], []) end) as [probed cached].
  set (cands := map fst (filter _ versions)).
  pose proof (probe_all_grows pkg cands st cached) as Hp.
  destruct (probe_all W st pkg cands cached) as [st1 cached']. exact Hp.
Qed.

(* first loop of resolve_pending_jsr_specifiers: items become errors (settled) or version resolutions (still exceptions) *)
Lemma resolve_reqs_cinv : forall o R items st memo acc E,
  js_res st = [] ->
  CInv W (map jr_spec items ++ map (fun x => jr_spec (vr_item x)) acc ++ E) R st ->
  match snd (resolve_reqs W o st memo items acc) with
  | Some vs => CInv W (map (fun x => jr_spec (vr_item x)) vs ++ E) R (fst (resolve_reqs W o st memo items acc)) /\
               js_res (fst (resolve_reqs W o st memo items acc)) = []
  | None => True
  end.
Proof.
  intros o R items. induction items as [|it rest IH]; intros st memo acc E Hres H; cbn [resolve_reqs].
  { cbn [snd fst]. split; [exact H | exact Hres]. }
  cbn [map app] in H.
  assert (Herr : forall st0 k, js_res st0 = [] -> CInv W (jr_spec it :: map jr_spec rest ++ map (fun x => jr_spec (vr_item x)) acc ++ E) R st0 ->
            CInv W (map jr_spec rest ++ map (fun x => jr_spec (vr_item x)) acc ++ E) R (set_err st0 (jr_spec it) k (jr_spec it) (jr_rng it)) /\
            js_res (set_err st0 (jr_spec it) k (jr_spec it) (jr_rng it)) = []).
  { intros st0 k Hr0 H0. split; [|exact Hr0]. apply (cinv_discharge _ R _ (jr_spec it)).
    - unfold Sx. apply SJ_slot. apply set_slot_has.
    - eapply cinv_grows; [apply grows_set_err | apply qinv_set_slot; apply (cv_q _ _ _ _ H0) | exact H0]. }
  destruct (pmeta_of W st (jr_pkg it)) as [f|versions].
  { destruct (Herr st (mfail_pkg f) Hres H) as [H1 Hr1]. apply IH; assumption. }
  set (pr := if negb (jo_prefer_cached o) || unification_decides W st (jr_pkg it) (jr_req it)
             then (st, memo, []) else probe W st memo (jr_pkg it) (jr_req it) versions).
  assert (Hpr : Grows st (fst (fst pr)) /\ QInv W (fst (fst pr)) /\ js_res (fst (fst pr)) = []).
  { unfold pr. destruct (negb (jo_prefer_cached o) || unification_decides W st (jr_pkg it) (jr_req it)).
    - split; [apply grows_refl | split; [apply (cv_q _ _ _ _ H) | exact Hres]].
    - destruct (probe_grows st memo (jr_pkg it) (jr_req it) versions) as [G Q].
      split; [exact G | split; [apply Q; apply (cv_q _ _ _ _ H)|]].
      (* probes only log calls *)
      unfold probe. destruct (match lookup (jr_pkg it) memo with Some m => m | None => ([], []) end) as [probed cached].
      set (cands := map fst (filter _ versions)).
      assert (Hpa : forall cs st0 ca, js_res (fst (probe_all W st0 (jr_pkg it) cs ca)) = js_res st0).
      { induction cs as [|v cs IHc]; intros st0 ca; cbn [probe_all fst]; [reflexivity | rewrite IHc; reflexivity]. }
      specialize (Hpa cands st cached). destruct (probe_all W st (jr_pkg it) cands cached) as [st1 c']. cbn in *. congruence. }
  destruct pr as [[st1 memo1] cached]. cbn [fst] in Hpr. destruct Hpr as [G1 [Q1 Hr1]].
  assert (H1 : CInv W (jr_spec it :: map jr_spec rest ++ map (fun x => jr_spec (vr_item x)) acc ++ E) R st1)
    by (eapply cinv_grows; eassumption).
  destruct (resolve_version W (jr_req it) versions (versions_by_name (js_pkgs st1) (jr_pkg it)) cached (late_of W (jr_pkg it))) as [[v yanked]|].
  - set (st2 := queue_ver W _ (jr_pkg it, v)).
    assert (H2 : CInv W (jr_spec it :: map jr_spec rest ++ map (fun x => jr_spec (vr_item x)) acc ++ E) R st2 /\ js_res st2 = []).
    { unfold st2. match goal with |- context [queue_ver W ?s0 _] => set (st1' := s0) end.
      assert (H1' : CInv W (jr_spec it :: map jr_spec rest ++ map (fun x => jr_spec (vr_item x)) acc ++ E) R st1')
        by (eapply cinv_ext; [| | | | | |exact H1]; reflexivity).
      split.
      - eapply cinv_grows; [apply grows_queue_ver | apply qinv_queue_ver; apply (cv_q _ _ _ _ H1') | exact H1'].
      - unfold queue_ver. destruct (existsb _ _); cbn; exact Hr1. }
    destruct H2 as [H2 Hr2]. clearbody st2.
    apply IH; [exact Hr2|].
    eapply cinv_weaken; [|exact H2]. intros x Hx. rewrite map_app. cbn [map].
    destruct Hx as [<-|Hx]; [apply in_or_app; right; apply in_or_app; left; apply in_or_app; right; left; reflexivity|].
    apply in_app_or in Hx. apply in_or_app. destruct Hx as [Hx|Hx]; [left; exact Hx|]. right.
    apply in_app_or in Hx. apply in_or_app. destruct Hx as [Hx|Hx]; [left; apply in_or_app; left; exact Hx | right; exact Hx].
  - destruct (js_busting st1); [|cbn [snd]; exact I].
    destruct (Herr st1 EPackageReqNotFound Hr1 H1) as [H2 Hr2]. apply IH; assumption.
Qed.

Lemma resolve_reqs_items : forall (P : jres -> Prop) o items st memo acc,
  Forall P items -> Forall (fun x => P (vr_item x)) acc ->
  match snd (resolve_reqs W o st memo items acc) with
  | Some vs => Forall (fun x => P (vr_item x)) vs
  | None => True end.
Proof.
  intros P o items. induction items as [|it rest IH]; intros st memo acc Hi Ha; cbn [resolve_reqs]; [exact Ha|].
  inversion Hi as [|? ? Hit Hrest]; subst.
  destruct (pmeta_of W st (jr_pkg it)) as [f|versions]; [apply IH; assumption|].
  destruct (if negb (jo_prefer_cached o) || unification_decides W st (jr_pkg it) (jr_req it)
            then (st, memo, []) else probe W st memo (jr_pkg it) (jr_req it) versions) as [[st1 memo1] cached].
  destruct (resolve_version W (jr_req it) versions (versions_by_name (js_pkgs st1) (jr_pkg it)) cached (late_of W (jr_pkg it))) as [[v yanked]|].
  - apply IH; [exact Hrest|]. apply Forall_app. split; [exact Ha | constructor; [exact Hit | constructor]].
  - destruct (js_busting st1); [apply IH; assumption | exact I].
Qed.

Lemma qinv_set_redirect : forall st k t pk,
  QInv W st -> is_jsr W k -> QInv W (st <| js_pkgs := pk |> <| js_redirects := set_assoc k t (js_redirects st) |>).
Proof.
  intros st k t pk [A B C D E] Hk. constructor; cbn; try assumption.
  intros it Hin. assert (Hne : ji_spec it <> k) by (intro Heq; apply (D it Hin); rewrite Heq; exact Hk).
  rewrite lookup_set_assoc_other by exact Hne. apply C. exact Hin.
Qed.

(* the redirect of a resolved jsr: specifier: whatever it pointed to before, it is settled once the new target is *)
Lemma set_redirect_sx : forall E st k t pk x,
  Sx (k :: E) st x -> Sx (t :: E) (st <| js_pkgs := pk |> <| js_redirects := set_assoc k t (js_redirects st) |>) x.
Proof.
  intros E st k t pk x H. unfold Sx in *. cbn.
  assert (Hk : SettJ (js_slots st) (set_assoc k t (js_redirects st)) ((t :: E) ++ PS st) k).
  { eapply SJ_red; [apply lookup_set_assoc_same | apply SJ_exc; left; reflexivity]. }
  eapply settj_mono; [| | |exact H].
  - intros k0 Hk0. apply SJ_slot. exact Hk0.
  - intros y [<-|Hy]; [exact Hk | apply SJ_exc; right; exact Hy].
  - intros t0 r Hl Hr. destruct (N.eq_dec t0 k) as [->|Hne]; [exact Hk|].
    eapply SJ_red; [rewrite lookup_set_assoc_other by exact Hne; exact Hl | exact Hr].
Qed.

Lemma resolve_vers_cinv : forall ct R items st E,
  Forall (fun x => is_jsr W (jr_spec (vr_item x))) items ->
  CInv W (map (fun x => jr_spec (vr_item x)) items ++ E) R st ->
  CInv W E R (resolve_vers W ct st items).
Proof.
  intros ct R items. induction items as [|x rest IH]; intros st E Hj H; cbn [resolve_vers]; [exact H|].
  inversion Hj as [|? ? Hjx Hjrest]; subst. cbn [map app] in H.
  set (k := jr_spec (vr_item x)) in *. set (E' := map (fun x => jr_spec (vr_item x)) rest ++ E) in *.
  apply IH; [exact Hjrest|].
  assert (Herr : forall st0 kk, CInv W (k :: E') R st0 -> CInv W E' R (set_err st0 k kk k (jr_rng (vr_item x)))).
  { intros st0 kk H0. apply (cinv_discharge _ R _ k).
    - unfold Sx. apply SJ_slot. apply set_slot_has.
    - eapply cinv_grows; [apply grows_set_err | apply qinv_set_slot; apply (cv_q _ _ _ _ H0) | exact H0]. }
  destruct (ver_result W st (vr_nv x)) as [[vi cfl]|kk]; [|apply Herr; exact H].
  set (st1 := st <| js_pkgs := ensure_package (js_pkgs st) (vr_nv x) |>).
  assert (H1 : CInv W (k :: E') R st1) by (eapply cinv_ext; [| | | | | |exact H]; reflexivity).
  assert (H2 : CInv W (k :: E') R (lock_set_pkg st1 (vr_nv x) cfl)).
  { eapply cinv_grows; [apply grows_lock_set | | exact H1].
    unfold lock_set_pkg. destruct (js_lock_pkg st1); [destruct cfl|]; try apply (cv_q _ _ _ _ H1).
    eapply qinv_ext; [| | | |apply (cv_q _ _ _ _ H1)]; reflexivity. }
  set (st2 := lock_set_pkg st1 (vr_nv x) cfl) in *. clearbody st2. clear H1 st1.
  destruct (lookup (jr_exp (vr_item x)) (vi_exports vi)) as [target|]; [|apply Herr; exact H2].
  destruct target as [|p]; [apply Herr; exact H2|].
  set (target := N.pos p).
  match goal with |- CInv W _ R (load W ?s4 _ _ _ _ _ _) => set (st4 := s4) end. fold E'.
  (* the state with the new redirect *)
  assert (H4 : forall t, Sx (k :: E') st2 t -> Sx (target :: E') st4 t).
  { intros t Ht. unfold st4. destruct (jr_root (vr_item x)).
    - exact (set_redirect_sx E' st2 k target _ t Ht).
    - apply set_redirect_sx. exact Ht. }
  assert (Q4 : QInv W st4).
  { unfold st4. destruct (jr_root (vr_item x)).
    - eapply qinv_ext; [| | | |apply qinv_set_redirect; [apply (cv_q _ _ _ _ H2) | exact Hjx]]; reflexivity.
    - apply qinv_set_redirect; [apply (cv_q _ _ _ _ H2) | exact Hjx]. }
  assert (M4 : js_slots st4 = js_slots st2) by (unfold st4; destruct (jr_root (vr_item x)); reflexivity).
  clearbody st4.
  destruct (load_grows W st4 target (jr_rng (vr_item x)) (jr_dyn (vr_item x)) (jr_root (vr_item x)) (Some (vr_nv x)) 0) as [G5 _].
  eapply cinv_step; [exact H2 | | | apply load_qinv; exact Q4].
  - intros t Ht. apply (discharge E' _ target t); [apply load_settles|].
    eapply grows_sx; [exact G5 | apply H4; exact Ht].
  - intros s0 src deps Hl. destruct (gr_mods _ _ G5 s0 src deps Hl) as [Ho|Hn].
    + left. rewrite M4 in Ho. exact Ho.
    + right. intros d Hd. apply (sx_weaken [] E'); [intros y [] | apply Hn; exact Hd].
Qed.
End C2.

Section C3.
Variable W : jworld.

Lemma cinv_sx_equiv : forall E E' R st st',
  js_slots st' = js_slots st -> js_redirects st' = js_redirects st ->
  (forall x, In x (E ++ PS st) -> In x (E' ++ PS st')) ->
  QInv W st' -> CInv W E R st -> CInv W E' R st'.
Proof.
  intros E E' R st st' Hs Hr Hx Hq H. eapply cinv_step; [exact H | | | exact Hq].
  - intros t Ht. unfold Sx in *. rewrite Hs, Hr. eapply settj_mono; [| | |exact Ht].
    + intros k Hk. apply SJ_slot. exact Hk.
    + intros x Hin. apply SJ_exc. apply Hx. exact Hin.
    + intros t0 r Hl Hr0. eapply SJ_red; eassumption.
  - intros s src deps Hl. left. rewrite Hs in Hl. exact Hl.
Qed.

Lemma resolve_jsr_cinv : forall o R st,
  CInv W [] R st ->
  match resolve_jsr W o st with inl st' => CInv W [] R st' | inr _ => True end.
Proof.
  intros o R st H. unfold resolve_jsr.
  set (st0 := st <| js_res := [] |>).
  assert (H0 : CInv W (map jr_spec (js_res st) ++ map (fun x => jr_spec (vr_item x)) [] ++ []) R st0).
  { apply (cinv_sx_equiv [] _ R st st0); [reflexivity | reflexivity | | | exact H].
    - intros x Hx. cbn [app] in Hx. unfold PS in *. cbn. rewrite app_nil_r. exact Hx.
    - destruct (cv_q _ _ _ _ H) as [A B C D E]. constructor; try assumption. cbn. intros r []. }
  pose proof (resolve_reqs_cinv W o R (js_res st) st0 [] [] [] eq_refl H0) as H1.
  pose proof (resolve_reqs_items W (fun r => is_jsr W (jr_spec r)) o (js_res st) st0 [] []) as HI.
  match goal with
  | |- context [resolve_reqs ?a ?b ?c ?d ?e ?f] => destruct (resolve_reqs a b c d e f) as [st1 [vs|]]
  end; cbn [fst snd] in *; [|exact I].
  destruct H1 as [H1 _]. apply resolve_vers_cinv.
  - apply HI; [|constructor]. apply Forall_forall. intros r Hr. apply (q_res _ _ (cv_q _ _ _ _ H)). exact Hr.
  - exact H1.
Qed.

Lemma load_branches_cinv : forall R bs st E,
  CInv W (map fst bs ++ E) R st -> CInv W E R (load_branches W st bs).
Proof.
  intros R bs. induction bs as [|[s b] bs IH]; intros st E H; cbn [load_branches]; [exact H|].
  cbn [map fst app] in H. apply IH.
  apply (cinv_discharge W _ R _ s); [apply load_settles|].
  eapply cinv_grows; [apply load_grows | apply load_qinv; apply (cv_q _ _ _ _ H) | exact H].
Qed.

Lemma loop_step_cinv : forall o R st,
  CInv W [] R st ->
  match loop_step W o st with inl st' => CInv W [] R st' | inr _ => True end.
Proof.
  intros o R st H. unfold loop_step.
  set (st1 := match js_pending st with it :: rest => process W (st <| js_pending := rest |>) it | [] => st end).
  assert (H1 : CInv W [] R st1).
  { unfold st1. destruct (js_pending st) as [|it rest] eqn:Ep; [exact H|].
    destruct (cv_q _ _ _ _ H) as [A B C D E]. rewrite Ep in *. cbn [map] in A. inversion A as [|? ? Hn Hnd]; subst.
    apply process_cinv.
    - apply (cinv_sx_equiv [] [] R st (st <| js_pending := rest |>)); [reflexivity | reflexivity | | | exact H].
      + intros x Hx. exact Hx.
      + constructor; cbn; try assumption.
        * intros it0 Hin. apply B. right. exact Hin.
        * intros it0 Hin. apply C. right. exact Hin.
        * intros it0 Hin. apply D. right. exact Hin.
    - cbn. exact Hn.
    - cbn. apply C. left. reflexivity. }
  clearbody st1.
  destruct (js_pending st1) as [|i1 r1] eqn:Ep1; [|exact H1].
  pose proof (resolve_jsr_cinv o R st1 H1) as H2.
  destruct (resolve_jsr W o st1) as [st2|st2]; [|exact I].
  destruct (js_pending st2) eqn:Ep2; [|exact H2].
  destruct (js_in_dyn st2) eqn:Ei; [exact H2|].
  apply load_branches_cinv.
  apply (cinv_sx_equiv [] _ R st2 (st2 <| js_dyn := [] |> <| js_in_dyn := true |>)); [reflexivity | reflexivity | | | exact H2].
  - intros x Hx. cbn [app] in Hx. unfold PS in *. rewrite Ei in Hx. cbn. rewrite !app_nil_r.
    apply in_app_or in Hx. apply in_or_app. destruct Hx as [Hx|Hx]; [right; exact Hx | left; exact Hx].
  - destruct (cv_q _ _ _ _ H2) as [A B C D E]. constructor; assumption.
Qed.

Lemma resolve_pending_cinv : forall o R fuel st,
  CInv W [] R st ->
  match resolve_pending fuel W o st with
  | LDone st' => CInv W [] R st' /\ idle st' = true
  | _ => True end.
Proof.
  intros o R fuel. induction fuel as [|f IH]; intros st H; cbn [resolve_pending].
  - destruct (idle st) eqn:Ei; [split; [exact H | exact Ei] | exact I].
  - destruct (idle st) eqn:Ei; [split; [exact H | exact Ei]|].
    pose proof (loop_step_cinv o R st H) as Hs.
    destruct (loop_step W o st) as [st'|st']; [apply IH; exact Hs | exact I].
Qed.

Lemma load_roots_cinv : forall roots R st,
  CInv W [] R st -> CInv W [] (roots ++ R) (load_roots W st roots).
Proof.
  intros roots. induction roots as [|r rs IH]; intros R st H; cbn [load_roots app]; [exact H|].
  set (st1 := load W st r None (js_in_dyn st) true None 0).
  assert (H1 : CInv W [] (r :: R) st1).
  { apply cinv_add_req; [|apply load_settles].
    eapply cinv_grows; [apply load_grows | apply load_qinv; apply (cv_q _ _ _ _ H) | exact H]. }
  specialize (IH (r :: R) st1 H1). destruct IH as [A B C]. constructor; try assumption.
  intros t [<-|Hin]; [apply B; apply in_or_app; right; left; reflexivity|].
  apply B. apply in_app_or in Hin. apply in_or_app. destruct Hin as [Hin|Hin]; [left; exact Hin | right; right; exact Hin].
Qed.

Lemma empty_cinv : forall st,
  js_slots st = [] -> js_pending st = [] -> js_res st = [] -> CInv W [] [] st.
Proof.
  intros st Hs Hp Hr. constructor.
  - intros s src deps Hl. rewrite Hs in Hl. discriminate.
  - intros t [].
  - constructor; rewrite ?Hp, ?Hr; cbn; try constructor; intros x [].
Qed.

(* the final graph *)
Definition SettledJ (g : jgraph) (t : spec) : Prop := SettJ (jg_slots g) (jg_redirects g) [] t.

Lemma idle_ps : forall st, idle st = true -> PS st = [].
Proof.
  intros st H. unfold idle in H. unfold PS.
  destruct (js_pending st); [|discriminate]. destruct (js_res st); [|discriminate]. destruct (js_dyn st); [|discriminate].
  cbn. destruct (js_in_dyn st); reflexivity.
Qed.

Lemma content_load_keys : forall st ci,
  (forall k, has_key k (js_slots st) = true -> has_key k (js_slots (content_load W st ci)) = true) /\
  js_redirects (content_load W st ci) = js_redirects st /\
  (forall s src deps, lookup s (js_slots (content_load W st ci)) = Some (JsMod src deps) ->
     exists src0, lookup s (js_slots st) = Some (JsMod src0 deps)).
Proof.
  intros st ci. unfold content_load.
  assert (Hset : forall v, (forall src deps, v = JsMod src deps -> exists src0, lookup (ci_spec ci) (js_slots st) = Some (JsMod src0 deps)) ->
    (forall k, has_key k (js_slots st) = true -> has_key k (js_slots (set_slot st (ci_spec ci) v)) = true) /\
    js_redirects (set_slot st (ci_spec ci) v) = js_redirects st /\
    (forall s src deps, lookup s (js_slots (set_slot st (ci_spec ci) v)) = Some (JsMod src deps) ->
       exists src0, lookup s (js_slots st) = Some (JsMod src0 deps))).
  { intros v Hv. split; [|split; [reflexivity|]].
    - intros k Hk. unfold set_slot. cbn. rewrite has_key_set_assoc, Hk. apply orb_true_r.
    - intros s src deps Hl. unfold set_slot in Hl. cbn in Hl. destruct (N.eq_dec s (ci_spec ci)) as [->|Hne].
      + rewrite lookup_set_assoc_same in Hl. inversion Hl; subst. apply (Hv src deps eq_refl).
      + rewrite lookup_set_assoc_other in Hl by exact Hne. exists src. exact Hl. }
  assert (Hid : (forall k, has_key k (js_slots st) = true -> has_key k (js_slots st) = true) /\
                js_redirects st = js_redirects st /\
                (forall s src deps, lookup s (js_slots st) = Some (JsMod src deps) ->
                   exists src0, lookup s (js_slots st) = Some (JsMod src0 deps))).
  { split; [auto | split; [reflexivity | intros s src deps Hl; exists src; exact Hl]]. }
  destruct (check_resp (use_of W (ci_spec ci)) (Some (ci_checksum ci))) as [[| |t|f|f m]|]; unfold set_err;
    try (apply Hset; intros src deps E; discriminate).
  destruct (N.eqb f (ci_spec ci)); [|apply Hset; intros src deps E; discriminate].
  destruct (lookup (ci_spec ci) (js_slots st)) as [[src0 deps0| |e|]|] eqn:El; try exact Hid.
  apply Hset. intros src deps E. inversion E; subst. exists src0. reflexivity.
Qed.

Lemma content_loads_keys : forall st,
  (forall k, has_key k (js_slots st) = true -> has_key k (js_slots (content_loads W st)) = true) /\
  js_redirects (content_loads W st) = js_redirects st /\
  (forall s src deps, lookup s (js_slots (content_loads W st)) = Some (JsMod src deps) ->
     exists src0, lookup s (js_slots st) = Some (JsMod src0 deps)).
Proof.
  intros st. unfold content_loads.
  assert (G : forall cs st0,
    (forall k, has_key k (js_slots st0) = true -> has_key k (js_slots (fold_left (content_load W) cs st0)) = true) /\
    js_redirects (fold_left (content_load W) cs st0) = js_redirects st0 /\
    (forall s src deps, lookup s (js_slots (fold_left (content_load W) cs st0)) = Some (JsMod src deps) ->
       exists src0, lookup s (js_slots st0) = Some (JsMod src0 deps))).
  { induction cs as [|c cs IH]; intros st0; cbn [fold_left].
    - split; [auto | split; [reflexivity | intros s src deps Hl; exists src; exact Hl]].
    - destruct (content_load_keys st0 c) as [A1 [A2 A3]]. destruct (IH (content_load W st0 c)) as [B1 [B2 B3]].
      split; [intros k Hk; apply B1; apply A1; exact Hk | split; [congruence|]].
      intros s src deps Hl. destruct (B3 s src deps Hl) as [src1 H1]. apply (A3 s src1 deps H1). }
  set (st0 := st <| js_content := [] |>). exact (G (js_content st) st0).
Qed.

Theorem jbuild_complete : forall o roots g,
  jbuild W o roots = Some g ->
  (forall r, In r roots -> SettledJ g r) /\
  (forall s src deps d, lookup s (jg_slots g) = Some (JsMod src deps) -> In d deps -> SettledJ g (jd_target d)).
Proof.
  intros o roots g. unfold jbuild.
  assert (Fin : forall b st, CInv W [] (roots ++ []) st -> idle st = true ->
    (forall r, In r roots -> SettledJ (finish b (content_loads W st)) r) /\
    (forall s src deps d, lookup s (jg_slots (finish b (content_loads W st))) = Some (JsMod src deps) -> In d deps ->
       SettledJ (finish b (content_loads W st)) (jd_target d))).
  { intros b st H Hi. pose proof (idle_ps st Hi) as Hps.
    destruct (content_loads_keys st) as [K1 [K2 K3]].
    assert (Tr : forall t, Sx [] st t -> SettledJ (finish b (content_loads W st)) t).
    { intros t Ht. unfold SettledJ, Sx in *. cbn [finish jg_slots jg_redirects]. rewrite Hps in Ht. cbn [app] in Ht.
      rewrite K2. eapply settj_mono; [| | |exact Ht].
      - intros k Hk. apply SJ_slot. apply K1. exact Hk.
      - intros x [].
      - intros t0 r Hl Hr. eapply SJ_red; eassumption. }
    split.
    - intros r Hr. apply Tr. apply (cv_req _ _ _ _ H). apply in_or_app. left. exact Hr.
    - intros s src deps d Hl Hd. cbn [finish jg_slots] in Hl. destruct (K3 s src deps Hl) as [src0 H0].
      apply Tr. apply (cv_mods _ _ _ _ H s src0 deps H0 d Hd). }
  pose proof (resolve_pending_cinv o (roots ++ []) (jfuel W) (load_roots W (init_state W) roots)
                (load_roots_cinv roots [] _ (empty_cinv (init_state W) eq_refl eq_refl eq_refl))) as H1.
  destruct (resolve_pending (jfuel W) W o (load_roots W (init_state W) roots)) as [st|st|]; [| |discriminate].
  - intro E. inversion E; subst. destruct H1 as [H1 Hi]. apply Fin; assumption.
  - pose proof (resolve_pending_cinv o (roots ++ []) (jfuel W) (load_roots W (restart_state W st) roots)
                  (load_roots_cinv roots [] _ (empty_cinv (restart_state W st) eq_refl eq_refl eq_refl))) as H2.
    destruct (resolve_pending (jfuel W) W o (load_roots W (restart_state W st) roots)) as [st2|st2|]; try discriminate.
    intro E. inversion E; subst. destruct H2 as [H2 Hi]. apply Fin; assumption.
Qed.
End C3.
