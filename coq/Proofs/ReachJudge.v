(* The reachability judgements of C01 ("nothing unreachable is present") are sound: when the extracted
   procedure answers true, every entry is reachable, in the declarative sense, from the starting points
   along the edges it uses. *)
From DG Require Import Base.Util Base.Sexp Model.Graph Model.Builder Model.Jsr Model.RunJsr Model.RunC01 Model.RunJsrAll.

Inductive Reaches (edges : spec -> list spec) (starts : list spec) : spec -> Prop :=
| R_start : forall s, In s starts -> Reaches edges starts s
| R_edge : forall a b, Reaches edges starts a -> In b (edges a) -> Reaches edges starts b.

Lemma reach_sound : forall edges starts fuel work seen,
  (forall x, In x work -> Reaches edges starts x) ->
  (forall x, In x seen -> Reaches edges starts x) ->
  forall x, In x (reach fuel edges work seen) -> Reaches edges starts x.
Proof.
  intros edges starts. induction fuel as [|f IH]; intros work seen Hw Hs x Hx; cbn [reach] in Hx; [apply Hs; exact Hx|].
  destruct work as [|s w]; [apply Hs; exact Hx|].
  destruct (mem s seen) eqn:Em.
  - apply (IH w seen); [intros y Hy; apply Hw; right; exact Hy | exact Hs | exact Hx].
  - apply (IH (edges s ++ w) (s :: seen)); [| | exact Hx].
    + intros y Hy. apply in_app_or in Hy. destruct Hy as [Hy|Hy].
      * eapply R_edge; [apply Hw; left; reflexivity | exact Hy].
      * apply Hw. right; exact Hy.
    + intros y [Hy|Hy]; [subst y; apply Hw; left; reflexivity | apply Hs; exact Hy].
Qed.

(* stage B1 *)
Theorem b1_judge_sound : forall W g starts relaxed,
  b1_orphan_free W g starts relaxed = true ->
  forall s sl, In (s, sl) (bg_slots g) -> Reaches (b1_edges W g relaxed) starts s.
Proof.
  intros W g starts relaxed H s sl Hin. unfold b1_orphan_free in H. rewrite forallb_forall in H.
  specialize (H (s, sl) Hin). cbn [fst] in H. apply mem_In in H.
  eapply reach_sound; [| |exact H].
  - intros x Hx. apply R_start. exact Hx.
  - intros x [].
Qed.

(* the registry stage *)
Theorem registry_judge_sound : forall W g roots ra rb,
  orphan_free_gen W g roots ra rb = true ->
  forall s sl, In (s, sl) (jg_slots g) -> Reaches (graph_edges W g ra rb) roots s.
Proof.
  intros W g roots ra rb H s sl Hin. unfold orphan_free_gen in H. rewrite forallb_forall in H.
  specialize (H (s, sl) Hin). cbn [fst] in H. apply mem_In in H.
  eapply reach_sound; [| |exact H].
  - intros x Hx. apply R_start. exact Hx.
  - intros x [].
Qed.
