(* C13 (a): the decoder does not depend on the order of object keys.
   [jeqv a b]: a and b are the same JSON value when objects are read as finite maps.
   Main theorem: every JSON value with distinct keys that is jeqv to the encoding of a
   well-formed info decodes to that info (up to attribute-map order). *)
From Coq Require Import Arith.
From DG Require Import Base.Util Base.Sexp Model.Codec Proofs.CodecProofs.

Local Arguments str_eqb : simpl never.

Lemma jeqv_arr : forall l b, jeqv (JArr l) b <-> exists l', b = JArr l' /\ Forall2 jeqv l l'.
Proof.
  intros l b. split.
  - destruct b as [| | | |l'|]; cbn [jeqv]; try contradiction. intros H. exists l'. split; [reflexivity|].
    revert l' H. induction l as [|x r IH]; intros [|y r'] H; try contradiction; constructor; [tauto|].
    apply IH. tauto.
  - intros [l' [E H]]. subst b. cbn [jeqv]. induction H as [|x y r r' Hxy Hr IH]; [exact I|]. split; assumption.
Qed.

Lemma jeqv_obj : forall m b,
  jeqv (JObj m) b <->
  exists m', b = JObj m' /\ length m = length m' /\
             Forall (fun kv => exists v', sget (fst kv) m' = Some v' /\ jeqv (snd kv) v') m.
Proof.
  intros m b. split.
  - destruct b as [| | | | |m']; cbn [jeqv]; try contradiction. intros [Hl H]. exists m'.
    split; [reflexivity|]. split; [exact Hl|]. clear Hl.
    induction m as [|kv r IH]; constructor; [tauto|]. apply IH. tauto.
  - intros [m' [E [Hl H]]]. subst b. cbn [jeqv]. split; [exact Hl|]. clear Hl.
    induction H as [|kv r Hkv Hr IH]; [exact I|]. split; assumption.
Qed.

Definition keys_nodup (m : list (str * json)) : Prop := nodup_strb (map fst m) = true.

(* lookups in two jeqv objects with distinct keys agree *)
Lemma jeqv_obj_lookup : forall m m',
  keys_nodup m -> keys_nodup m' -> jeqv (JObj m) (JObj m') ->
  forall k, match sget k m with
            | Some v => exists v', sget k m' = Some v' /\ jeqv v v'
            | None => sget k m' = None
            end.
Proof.
  intros m m' Hn Hn' H k. apply jeqv_obj in H. destruct H as [m'' [E [Hl HF]]]. inversion E; subst m''. clear E.
  rewrite Forall_forall in HF.
  destruct (sget k m) as [v|] eqn:Ek.
  - apply sget_In in Ek. exact (HF _ Ek).
  - destruct (sget k m') as [v'|] eqn:Ek'; [|reflexivity]. exfalso.
    apply nodup_strb_NoDup in Hn. apply nodup_strb_NoDup in Hn'.
    assert (I1 : incl (map fst m) (map fst m')).
    { intros k0 Hk0. apply in_map_iff in Hk0. destruct Hk0 as [[k1 v1] [E1 Hin]]. cbn [fst] in E1. subst k1.
      destruct (HF _ Hin) as [v2 [Hv2 _]]. cbn [fst] in Hv2. apply sget_In in Hv2.
      apply (in_map fst) in Hv2. exact Hv2. }
    assert (I2 : incl (map fst m') (map fst m)).
    { apply NoDup_length_incl; [exact Hn | rewrite !map_length; lia | exact I1]. }
    apply sget_None_notin in Ek. apply Ek. apply I2. apply sget_In in Ek'. apply (in_map fst) in Ek'. exact Ek'.
Qed.

(* well-formedness of sub-values *)
Lemma json_wfb_obj_keys : forall m, json_wfb (JObj m) = true -> keys_nodup m.
Proof. intros m H. rewrite json_wfb_obj in H. apply andb_true_iff in H. exact (proj1 H). Qed.
Lemma json_wfb_obj_val : forall m k v, json_wfb (JObj m) = true -> sget k m = Some v -> json_wfb v = true.
Proof.
  intros m k v H Hk. rewrite json_wfb_obj in H. apply andb_true_iff in H. destruct H as [_ H].
  rewrite forallb_forall in H. apply sget_In in Hk. exact (H _ Hk).
Qed.
Lemma json_wfb_arr_elem : forall l x, json_wfb (JArr l) = true -> In x l -> json_wfb x = true.
Proof. intros l x H Hx. rewrite json_wfb_arr in H. rewrite forallb_forall in H. exact (H _ Hx). Qed.

Ltac keq_in H :=
  repeat match type of H with
  | context [str_eqb ?a ?b] =>
      let v := eval vm_compute in (str_eqb a b) in
      match v with
      | true => change (str_eqb a b) with true in H
      | false => change (str_eqb a b) with false in H
      end
  end.

(* what an object that is jeqv to a given one looks like, lookup by lookup *)
Definition lookup_rel (ov : option json) (ov' : option json) : Prop :=
  match ov with
  | Some v => exists v', ov' = Some v' /\ jeqv v v' /\ json_wfb v' = true
  | None => ov' = None
  end.

Lemma jeqv_obj_inv : forall m j,
  keys_nodup m -> json_wfb j = true -> jeqv (JObj m) j ->
  exists m', j = JObj m' /\ forall k, lookup_rel (sget k m) (sget k m').
Proof.
  intros m j Hn Hw H. pose proof H as H0. apply jeqv_obj in H0. destruct H0 as [m' [E _]]. subst j.
  exists m'. split; [reflexivity|]. intros k.
  pose proof (jeqv_obj_lookup m m' Hn (json_wfb_obj_keys _ Hw) H k) as L. unfold lookup_rel.
  destruct (sget k m) as [v|]; [|exact L]. destruct L as [v' [E1 E2]]. exists v'. split; [exact E1|]. split; [exact E2|].
  exact (json_wfb_obj_val _ _ _ Hw E1).
Qed.

Lemma jeqv_str : forall s j, jeqv (JStr s) j -> j = JStr s.
Proof. intros s j H. exact H. Qed.

Lemma jeqv_pos : forall p j, jeqv (enc_pos p) j -> j = enc_pos p.
Proof.
  intros [a b] j H. unfold enc_pos in *. apply jeqv_arr in H. destruct H as [l' [E F]]. subst j.
  inversion F as [|x y r r' H1 F1]; subst. inversion F1 as [|x2 y2 r2 r2' H2 F2]; subst. inversion F2; subst.
  cbn [jeqv p_line p_char] in H1, H2. subst. reflexivity.
Qed.
Lemma jeqv_range : forall r j, jeqv (enc_range r) j -> j = enc_range r.
Proof.
  intros [a b] j H. unfold enc_range in *. apply jeqv_arr in H. destruct H as [l' [E F]]. subst j.
  inversion F as [|x y r r' H1 F1]; subst. inversion F1 as [|x2 y2 r2 r2' H2 F2]; subst. inversion F2; subst.
  cbn [r_start r_end] in H1, H2. apply jeqv_pos in H1. apply jeqv_pos in H2. subst. reflexivity.
Qed.

(* fields of a SpecifierWithRange found by lookup *)
Lemma U_swr_map : forall s m',
  lookup_rel (Some (JStr (s_text s))) (sget k_text m') ->
  lookup_rel (Some (enc_range (s_range s))) (sget k_range m') ->
  dec_swr_map m' = Some s.
Proof.
  intros [t r] m' [v1 [E1 [J1 _]]] [v2 [E2 [J2 _]]]. cbn [s_text s_range] in *.
  apply jeqv_str in J1. apply jeqv_range in J2. subst.
  unfold dec_swr_map, req, jget. rewrite E1, E2. cbn [dec_string option_bind]. rewrite dec_range_enc. reflexivity.
Qed.

Lemma keys_swr : forall s, keys_nodup (swr_fields s).
Proof. intros [t r]. reflexivity. Qed.

Lemma U_swr : forall s j, json_wfb j = true -> jeqv (enc_swr s) j -> dec_swr j = Some s.
Proof.
  intros s j Hw H. unfold enc_swr in H. destruct (jeqv_obj_inv _ _ (keys_swr s) Hw H) as [m' [E L]]. subst j.
  unfold dec_swr. apply U_swr_map.
  - pose proof (L k_text) as H1. destruct s as [t r]. exact H1.
  - pose proof (L k_range) as H1. destruct s as [t r]. exact H1.
Qed.

Lemma jeqv_enc_swr_not_null : forall s j, jeqv (enc_swr s) j -> j <> JNull.
Proof. intros s j H E. subst j. exact H. Qed.

Lemma U_opt_swr : forall s j, json_wfb j = true -> jeqv (enc_swr s) j -> dec_option dec_swr j = Some (Some s).
Proof.
  intros s j Hw H. unfold dec_option. rewrite (U_swr s j Hw H).
  destruct j; try reflexivity. exfalso. exact (jeqv_enc_swr_not_null s JNull H eq_refl).
Qed.

(* ---- attribute maps *)

Lemma jeqv_iattr : forall a j, jeqv (enc_iattr a) j -> j = enc_iattr a.
Proof. intros [|s] j H; exact H. Qed.

Definition enc_attr_entries (m : list (str * iattr)) : list (str * json) :=
  map (fun kv => (fst kv, enc_iattr (snd kv))) m.

Lemma sget_enc_attr_entries : forall m k, sget k (enc_attr_entries m) = option_map enc_iattr (sget k m).
Proof.
  induction m as [|[k' v] m IH]; intros k; [reflexivity|]. cbn [enc_attr_entries map fst snd sget].
  destruct (str_eqb k k'); [reflexivity|]. apply IH.
Qed.

Lemma map_fst_enc_attr_entries : forall m, map fst (enc_attr_entries m) = map fst m.
Proof. intros m. unfold enc_attr_entries. rewrite map_map. reflexivity. Qed.

(* decoding the entries of an object all of whose values are attribute values *)
Lemma dec_entries_lookup : forall m' am',
  map_opt dec_iattr_entry m' = Some am' ->
  map fst am' = map fst m' /\ forall k, sget k am' = match sget k m' with Some v => dec_iattr v | None => None end.
Proof.
  induction m' as [|[k' v'] m' IH]; intros am' H; cbn [map_opt] in H.
  - inversion H. split; [reflexivity|]. intros k. reflexivity.
  - unfold dec_iattr_entry at 1 in H. cbn [fst snd] in H. destruct (dec_iattr v') as [a|] eqn:Ea; [|discriminate].
    destruct (map_opt dec_iattr_entry m') as [r|] eqn:Er; [|discriminate]. inversion H; subst am'.
    destruct (IH r eq_refl) as [I1 I2]. split; [cbn [map fst]; rewrite I1; reflexivity|].
    intros k. cbn [sget]. destruct (str_eqb k k'); [symmetry; exact Ea|]. apply I2.
Qed.

Lemma dec_entries_total : forall m',
  (forall k v, sget k m' = Some v -> exists a, dec_iattr v = Some a) -> keys_nodup m' ->
  exists am', map_opt dec_iattr_entry m' = Some am'.
Proof.
  induction m' as [|[k' v'] m' IH]; intros H Hn; [exists []; reflexivity|].
  cbn [map_opt]. unfold dec_iattr_entry at 1. cbn [fst snd].
  destruct (H k' v') as [a Ea]; [cbn [sget]; rewrite str_eqb_refl; reflexivity|]. rewrite Ea.
  unfold keys_nodup in Hn. cbn [map fst nodup_strb] in Hn. apply andb_true_iff in Hn. destruct Hn as [Hn1 Hn2].
  destruct IH as [r Er].
  - intros k v Hk. apply (H k v). cbn [sget]. destruct (str_eqb k k') eqn:E; [|exact Hk].
    apply str_eqb_eq in E. subst k. exfalso. apply sget_In in Hk. apply (in_map fst) in Hk. cbn [fst] in Hk.
    apply smem_In in Hk. rewrite Hk in Hn1. discriminate.
  - exact Hn2.
  - rewrite Er. eexists. reflexivity.
Qed.

Lemma U_attr_map : forall am j,
  nodup_strb (map fst am) = true -> json_wfb j = true -> jeqv (JObj (enc_attr_entries am)) j ->
  exists m' am', j = JObj m' /\ map_opt dec_iattr_entry m' = Some am' /\ map_eq am am' /\
                 nodup_strb (map fst am') = true.
Proof.
  intros am j Hn Hw H.
  assert (Hk : keys_nodup (enc_attr_entries am)) by (unfold keys_nodup; rewrite map_fst_enc_attr_entries; exact Hn).
  destruct (jeqv_obj_inv _ _ Hk Hw H) as [m' [E L]]. subst j.
  assert (Hv : forall k, sget k m' = option_map enc_iattr (sget k am)).
  { intros k. specialize (L k). rewrite sget_enc_attr_entries in L. unfold lookup_rel in L.
    destruct (sget k am) as [a|]; cbn [option_map] in *.
    - destruct L as [v' [E1 [E2 _]]]. apply jeqv_iattr in E2. subst v'. exact E1.
    - exact L. }
  destruct (dec_entries_total m') as [am' Eam].
  - intros k v Hkv. rewrite Hv in Hkv. destruct (sget k am) as [a|]; [|discriminate]. inversion Hkv.
    exists a. apply dec_iattr_enc.
  - exact (json_wfb_obj_keys _ Hw).
  - exists m', am'. split; [reflexivity|]. split; [exact Eam|].
    destruct (dec_entries_lookup m' am' Eam) as [I1 I2]. split.
    + intros k. rewrite I2, Hv. destruct (sget k am) as [a|]; cbn [option_map]; [rewrite dec_iattr_enc|]; reflexivity.
    + rewrite I1. exact (json_wfb_obj_keys _ Hw).
Qed.

Lemma jeqv_single : forall k v j,
  json_wfb j = true -> jeqv (JObj [(k, v)]) j -> exists v', j = JObj [(k, v')] /\ jeqv v v' /\ json_wfb v' = true.
Proof.
  intros k v j Hw H. pose proof H as H0. apply jeqv_obj in H0. destruct H0 as [m' [E [Hl HF]]]. subst j.
  destruct m' as [|[k1 v1] [|? ?]]; try discriminate.
  inversion HF as [|x r Hx Hr]; subst. destruct Hx as [v' [E1 E2]]. cbn [fst snd sget] in E1, E2.
  destruct (str_eqb k k1) eqn:Ek; [|discriminate]. apply str_eqb_eq in Ek. subst k1. inversion E1; subst v1.
  exists v'. split; [reflexivity|]. split; [exact E2|].
  apply (json_wfb_obj_val [(k, v')] k v' Hw). cbn [sget]. rewrite str_eqb_refl. reflexivity.
Qed.

Lemma U_iattrs : forall c a j,
  wf_iattrsb a = true -> json_wfb j = true -> jeqv (enc_iattrs a) j ->
  exists a', dec_iattrs c j = Some a' /\ iattrs_eq a a' /\ wf_iattrsb a' = true.
Proof.
  intros c [| |am] j Ha Hw H.
  - apply jeqv_str in H. subst j. exists IANone. split; [apply (dec_iattrs_enc c IANone)|]. split; [exact I|reflexivity].
  - apply jeqv_str in H. subst j. exists IAUnknownKeys. split; [apply (dec_iattrs_enc c IAUnknownKeys)|].
    split; [exact I|reflexivity].
  - unfold enc_iattrs in H. destruct (jeqv_single _ _ _ Hw H) as [v' [E [J Hw']]]. subst j.
    cbn [wf_iattrsb] in Ha. destruct (U_attr_map am v' Ha Hw' J) as [m' [am' [E [Hd [Hm Hn]]]]]. subst v'.
    exists (IAKnownMap am'). split; [|split; [exact Hm|exact Hn]].
    unfold dec_iattrs. keq. rewrite Hd. reflexivity.
Qed.

Lemma jeqv_enc_iattrs_shape : forall a j, jeqv (enc_iattrs a) j -> j <> JNull.
Proof. intros [| |m] j H E; subst j; cbn in H; try discriminate; exact H. Qed.

(* ---- template parts, arguments *)

Lemma U_tpart : forall p j, json_wfb j = true -> jeqv (enc_tpart p) j -> dec_tpart j = Some p.
Proof.
  intros [v|] j Hw H; unfold enc_tpart in H.
  - destruct (jeqv_obj_inv _ _ (eq_refl : keys_nodup [(k_type, JStr k_string); (k_value, JStr v)]) Hw H) as [m' [E L]].
    subst j. destruct (L k_type) as [v1 [E1 [J1 _]]]. destruct (L k_value) as [v2 [E2 [J2 _]]].
    apply jeqv_str in J1. apply jeqv_str in J2. subst.
    unfold dec_tpart, split_tagged, jget. rewrite E1. cbn [option_bind tag_name]. keq. cbn iota.
    unfold req, jget. rewrite (sget_sremove_other k_value k_type) by reflexivity. rewrite E2. reflexivity.
  - destruct (jeqv_obj_inv _ _ (eq_refl : keys_nodup [(k_type, JStr k_expr)]) Hw H) as [m' [E L]].
    subst j. destruct (L k_type) as [v1 [E1 [J1 _]]]. apply jeqv_str in J1. subst.
    unfold dec_tpart, split_tagged, jget. rewrite E1. cbn [option_bind tag_name]. keq. reflexivity.
Qed.

Lemma Forall2_map_l : forall {X Y Z} (R : Y -> Z -> Prop) (f : X -> Y) l l',
  Forall2 R (map f l) l' <-> Forall2 (fun x z => R (f x) z) l l'.
Proof.
  intros X Y Z R f l. induction l as [|x l IH]; intros l'; split; intros H; inversion H; subst; constructor;
    try assumption; apply IH; assumption.
Qed.

Lemma U_list : forall {T} (enc : T -> json) (dec : json -> option T) l l',
  (forall x j, json_wfb j = true -> jeqv (enc x) j -> dec j = Some x) ->
  json_wfb (JArr l') = true -> Forall2 jeqv (map enc l) l' -> map_opt dec l' = Some l.
Proof.
  intros T enc dec l l' Hd Hw H. apply (proj1 (Forall2_map_l jeqv enc l l')) in H. revert Hw.
  induction H as [|x j l0 l0' Hxj Hl IH]; intros Hw; [reflexivity|]. cbn [map_opt].
  rewrite (Hd x j (json_wfb_arr_elem _ j Hw (or_introl eq_refl)) Hxj).
  rewrite IH; [reflexivity|]. rewrite json_wfb_arr in *. cbn [forallb] in Hw. apply andb_true_iff in Hw. tauto.
Qed.

Lemma U_darg : forall a j, json_wfb j = true -> jeqv (enc_darg a) j -> dec_darg j = Some a.
Proof.
  intros [s|l|] j Hw H; unfold enc_darg in H.
  - apply jeqv_str in H. subst j. reflexivity.
  - apply jeqv_arr in H. destruct H as [l' [E F]]. subst j. unfold dec_darg.
    rewrite (U_list enc_tpart dec_tpart l l' U_tpart Hw F). reflexivity.
  - cbn [jeqv] in H. subst j. reflexivity.
Qed.

(* ---- dependency descriptors *)

Lemma lookup_str : forall s ov, lookup_rel (Some (JStr s)) ov -> ov = Some (JStr s).
Proof. intros s ov [v [E [J _]]]. apply jeqv_str in J. subst. reflexivity. Qed.
Lemma lookup_range : forall r ov, lookup_rel (Some (enc_range r)) ov -> ov = Some (enc_range r).
Proof. intros r ov [v [E [J _]]]. apply jeqv_range in J. subst. reflexivity. Qed.
Lemma lookup_bool : forall b ov, lookup_rel (Some (JBool b)) ov -> ov = Some (JBool b).
Proof. intros b ov [v [E [J _]]]. cbn [jeqv] in J. subst. reflexivity. Qed.

(* optional / defaulted fields, as the decoder reads them *)
Lemma U_field_opt_swr : forall o ov,
  lookup_rel (option_map enc_swr o) ov ->
  match ov with Some v => dec_option dec_swr v | None => Some None end = Some o.
Proof.
  intros [s|] ov H; cbn [option_map lookup_rel] in H.
  - destruct H as [v [E [J Hw]]]. subst ov. apply U_opt_swr; assumption.
  - subst ov. reflexivity.
Qed.

Definition iattrs_lookup (a : iattrs) : option json :=
  match a with IANone => None | _ => Some (enc_iattrs a) end.
Lemma U_field_iattrs : forall a ov,
  wf_iattrsb a = true -> lookup_rel (iattrs_lookup a) ov ->
  exists a', match ov with Some v => dec_iattrs true v | None => Some IANone end = Some a' /\
             iattrs_eq a a' /\ wf_iattrsb a' = true.
Proof.
  intros a ov Ha H. destruct a as [| |am]; cbn [iattrs_lookup lookup_rel] in H.
  - subst ov. exists IANone. repeat split.
  - destruct H as [v [E [J Hw]]]. subst ov. apply U_iattrs; assumption.
  - destruct H as [v [E [J Hw]]]. subst ov. apply U_iattrs; assumption.
Qed.

Lemma sget_iattrs_entry : forall k a,
  sget k (iattrs_entry a) = if str_eqb k k_importAttributes then iattrs_lookup a else None.
Proof. intros k [| |m]; cbn [iattrs_entry sget iattrs_lookup]; destruct (str_eqb k k_importAttributes); reflexivity. Qed.

Ltac getl L k H :=
  pose proof (L k) as H; cbn [sget] in H; keq_in H; cbn iota in H;
  unfold sdesc_fields, ddesc_fields, swr_fields, mode_entry in H;
  rewrite ?sget_app, ?sget_opt_entry, ?sget_iattrs_entry, ?sget_list_entry in H;
  cbn [sget] in H; keq_in H; cbn iota in H; rewrite ?opt_id in H.

Lemma U_sdesc : forall d j,
  wf_iattrsb (sd_attrs d) = true -> json_wfb j = true -> jeqv (enc_desc (DStatic d)) j ->
  exists d', dec_desc j = Some d' /\ desc_eq (DStatic d) d' /\ wf_descb d' = true.
Proof.
  intros d j Ha Hw H.
  assert (Hk : keys_nodup ((k_type, JStr k_static) :: sdesc_fields d)).
  { apply json_wfb_obj_keys. apply (wf_enc_desc (DStatic d)). exact Ha. }
  unfold enc_desc in H. destruct (jeqv_obj_inv _ _ Hk Hw H) as [m' [E L]]. subst j. clear Hk H.
  destruct d as [k t s r e a]. cbn [sd_attrs] in Ha.
  destruct e;
    (getl L k_type H1; getl L k_kind H2; getl L k_typesSpecifier H3; getl L k_specifier H4;
     getl L k_specifierRange H5; getl L k_sideEffect H6; getl L k_importAttributes H7;
     cbn [sd_kind sd_types sd_spec sd_range sd_side sd_attrs] in *;
     apply lookup_str in H1; apply lookup_str in H2; apply U_field_opt_swr in H3; apply lookup_str in H4;
     apply lookup_range in H5; destruct (U_field_iattrs a _ Ha H7) as [a' [H8 [H9 H10]]];
     rewrite dec_desc_obj; unfold desc_of; rewrite H1; cbn [tag_name]; keq; cbn iota;
     unfold sdesc_of; rewrite H2, H3, H4, H5, H8; rewrite dec_skind_enc; cbn [option_bind dec_string];
     rewrite dec_range_enc; cbn [option_bind option_map]).
  - apply lookup_bool in H6. rewrite H6. cbn [dec_bool option_bind].
    eexists. split; [reflexivity|]. cbn [desc_eq wf_descb sd_kind sd_types sd_spec sd_range sd_side sd_attrs].
    repeat split; assumption.
  - unfold lookup_rel in H6. rewrite H6. cbn [option_bind].
    eexists. split; [reflexivity|]. cbn [desc_eq wf_descb sd_kind sd_types sd_spec sd_range sd_side sd_attrs].
    repeat split; assumption.
Qed.

Definition dkind_lookup (k : dkind) : option json :=
  match k with DkImport => None | _ => Some (JStr (dkind_name k)) end.
Definition darg_lookup (a : darg) : option json :=
  match a with DaExpr => None | _ => Some (enc_darg a) end.

Lemma U_field_dkind : forall k ov,
  lookup_rel (dkind_lookup k) ov ->
  match ov with Some v => dec_dkind true v | None => Some DkImport end = Some k.
Proof.
  intros k ov H. destruct k; cbn [dkind_lookup lookup_rel] in H;
    try (subst ov; reflexivity); apply lookup_str in H; subst ov; apply dec_dkind_enc.
Qed.
Lemma U_field_darg : forall a ov,
  lookup_rel (darg_lookup a) ov ->
  match ov with Some v => dec_darg v | None => Some DaExpr end = Some a.
Proof.
  intros a ov H. destruct a as [s|l|]; cbn [darg_lookup lookup_rel] in H.
  - destruct H as [v [E [J Hw]]]. subst ov. apply U_darg; assumption.
  - destruct H as [v [E [J Hw]]]. subst ov. apply U_darg; assumption.
  - subst ov. reflexivity.
Qed.

Lemma U_ddesc : forall d j,
  wf_iattrsb (dd_attrs d) = true -> json_wfb j = true -> jeqv (enc_desc (DDynamic d)) j ->
  exists d', dec_desc j = Some d' /\ desc_eq (DDynamic d) d' /\ wf_descb d' = true.
Proof.
  intros d j Ha Hw H.
  assert (Hk : keys_nodup ((k_type, JStr k_dynamic) :: ddesc_fields d)).
  { apply json_wfb_obj_keys. apply (wf_enc_desc (DDynamic d)). exact Ha. }
  unfold enc_desc in H. destruct (jeqv_obj_inv _ _ Hk Hw H) as [m' [E L]]. subst j. clear Hk H.
  destruct d as [k t g r a]. cbn [dd_attrs] in Ha.
  assert (H2 : lookup_rel (dkind_lookup k) (sget k_kind m')).
  { destruct k; destruct g; getl L k_kind H2; exact H2. }
  assert (H4 : lookup_rel (darg_lookup g) (sget k_argument m')).
  { destruct k; destruct g; getl L k_argument H4; exact H4. }
  assert (H1 : lookup_rel (Some (JStr k_dynamic)) (sget k_type m')).
  { getl L k_type H1. exact H1. }
  assert (H3 : lookup_rel (option_map enc_swr t) (sget k_typesSpecifier m')).
  { destruct k; destruct g; getl L k_typesSpecifier H3; exact H3. }
  assert (H5 : lookup_rel (Some (enc_range r)) (sget k_argumentRange m')).
  { destruct k; destruct g; getl L k_argumentRange H5; exact H5. }
  assert (H7 : lookup_rel (iattrs_lookup a) (sget k_importAttributes m')).
  { destruct k; destruct g; getl L k_importAttributes H7; exact H7. }
  apply lookup_str in H1. apply U_field_dkind in H2. apply U_field_opt_swr in H3. apply U_field_darg in H4.
  apply lookup_range in H5. destruct (U_field_iattrs a _ Ha H7) as [a' [H8 [H9 H10]]].
  rewrite dec_desc_obj. unfold desc_of. rewrite H1. cbn [tag_name]. keq. cbn iota.
  unfold ddesc_of. rewrite H2, H3, H4, H5, H8. cbn [option_bind].
  rewrite dec_range_enc. cbn [option_bind option_map].
  eexists. split; [reflexivity|]. cbn [desc_eq wf_descb dd_kind dd_types dd_arg dd_range dd_attrs].
  repeat split; assumption.
Qed.

Lemma U_desc : forall d j,
  wf_descb d = true -> json_wfb j = true -> jeqv (enc_desc d) j ->
  exists d', dec_desc j = Some d' /\ desc_eq d d' /\ wf_descb d' = true.
Proof. intros [s|s] j Hd Hw H; [apply U_sdesc | apply U_ddesc]; assumption. Qed.

Lemma U_descs : forall l l',
  forallb wf_descb l = true -> json_wfb (JArr l') = true -> Forall2 jeqv (map enc_desc l) l' ->
  exists ds, map_opt dec_desc l' = Some ds /\ Forall2 desc_eq l ds /\ forallb wf_descb ds = true.
Proof.
  intros l l' Hl Hw H. apply (proj1 (Forall2_map_l jeqv enc_desc l l')) in H. revert Hl Hw.
  induction H as [|x j l0 l0' Hxj Hr IH]; intros Hl Hw.
  - exists []. repeat split. constructor.
  - cbn [forallb] in Hl. apply andb_true_iff in Hl. destruct Hl as [Hx Hl].
    rewrite json_wfb_arr in Hw. cbn [forallb] in Hw. apply andb_true_iff in Hw. destruct Hw as [Hj Hw].
    rewrite <- json_wfb_arr in Hw.
    destruct (U_desc x j Hx Hj Hxj) as [d' [E1 [E2 E3]]]. destruct (IH Hl Hw) as [ds [F1 [F2 F3]]].
    exists (d' :: ds). cbn [map_opt forallb]. rewrite E1, F1, E3, F3. repeat split. constructor; assumption.
Qed.

(* ---- references, jsdoc imports *)

Lemma U_field_mode : forall c o ov,
  lookup_rel (option_map (fun x => JStr (rmode_name x)) o) ov ->
  match ov with Some v => dec_option (dec_rmode c) v | None => Some None end = Some o.
Proof.
  intros c [x|] ov H; cbn [option_map lookup_rel] in H.
  - apply lookup_str in H. subst ov. unfold dec_option. rewrite dec_rmode_enc. reflexivity.
  - subst ov. reflexivity.
Qed.

Lemma U_tsref : forall r j, json_wfb j = true -> jeqv (enc_tsref r) j -> dec_tsref j = Some r.
Proof.
  intros r j Hw H.
  assert (Hk : match enc_tsref r with JObj m => keys_nodup m | _ => False end).
  { pose proof (wf_enc_tsref r) as W. destruct r; apply json_wfb_obj_keys; exact W. }
  destruct r as [[t r]|[t r] md]; unfold enc_tsref in H, Hk; destruct (jeqv_obj_inv _ _ Hk Hw H) as [m' [E L]]; subst j.
  - getl L k_type H1. getl L k_text H2. getl L k_range H3. cbn [s_text s_range] in *.
    apply lookup_str in H1.
    unfold dec_tsref, split_tagged, jget. rewrite H1. cbn [option_bind tag_name]. keq. cbn iota.
    unfold dec_swr. rewrite (U_swr_map {| s_text := t; s_range := r |}); [reflexivity| |];
      rewrite (sget_sremove_other _ k_type) by reflexivity; assumption.
  - assert (H4 : lookup_rel (option_map (fun x => JStr (rmode_name x)) md) (sget k_resolutionMode m')).
    { getl L k_resolutionMode H4. exact H4. }
    getl L k_type H1. getl L k_text H2. getl L k_range H3. cbn [s_text s_range] in *.
    apply lookup_str in H1. apply (U_field_mode true) in H4.
    unfold dec_tsref, split_tagged, jget. rewrite H1. cbn [option_bind tag_name]. keq. cbn iota.
    rewrite (U_swr_map {| s_text := t; s_range := r |});
      [| rewrite (sget_sremove_other _ k_type) by reflexivity; assumption
       | rewrite (sget_sremove_other _ k_type) by reflexivity; assumption].
    cbn [option_bind]. unfold dflt, jget. rewrite (sget_sremove_other _ k_type) by reflexivity. rewrite H4.
    reflexivity.
Qed.

Lemma U_jsdoc : forall d j, json_wfb j = true -> jeqv (enc_jsdoc d) j -> dec_jsdoc j = Some d.
Proof.
  intros [[t r] md] j Hw H.
  assert (Hk : keys_nodup (swr_fields {| s_text := t; s_range := r |} ++ mode_entry md)).
  { apply json_wfb_obj_keys. exact (wf_enc_jsdoc {| jd_spec := {| s_text := t; s_range := r |}; jd_mode := md |}). }
  unfold enc_jsdoc in H. cbn [jd_spec jd_mode] in H. destruct (jeqv_obj_inv _ _ Hk Hw H) as [m' [E L]]. subst j.
  getl L k_text H2. getl L k_range H3. getl L k_resolutionMode H4. cbn [s_text s_range] in *.
  apply (U_field_mode false) in H4.
  unfold dec_jsdoc. rewrite (U_swr_map {| s_text := t; s_range := r |}); [|assumption|assumption].
  cbn [option_bind]. unfold dflt, jget. rewrite H4. reflexivity.
Qed.

(* ---- the whole module info *)

Lemma U_field_list : forall {T} (enc : T -> json) (dec : json -> option T) l ov,
  (forall x j, json_wfb j = true -> jeqv (enc x) j -> dec j = Some x) ->
  lookup_rel (lookup_list enc l) ov ->
  match ov with Some v => dec_list dec v | None => Some [] end = Some l.
Proof.
  intros T enc dec l ov Hd H. destruct l as [|x l]; cbn [lookup_list lookup_rel] in H.
  - subst ov. reflexivity.
  - destruct H as [v [E [J Hw]]]. subst ov. apply jeqv_arr in J. destruct J as [l' [E F]]. subst v.
    unfold dec_list. apply (U_list enc dec (x :: l) l' Hd Hw F).
Qed.

Lemma U_field_descs : forall l ov,
  forallb wf_descb l = true -> lookup_rel (lookup_list enc_desc l) ov ->
  exists ds, match ov with Some v => dec_list dec_desc v | None => Some [] end = Some ds /\
             Forall2 desc_eq l ds /\ forallb wf_descb ds = true.
Proof.
  intros l ov Hl H. destruct l as [|x l]; cbn [lookup_list lookup_rel] in H.
  - subst ov. exists []. repeat split. constructor.
  - destruct H as [v [E [J Hw]]]. subst ov. apply jeqv_arr in J. destruct J as [l' [E F]]. subst v.
    unfold dec_list. apply (U_descs (x :: l) l' Hl Hw F).
Qed.

Theorem roundtrip_unordered : forall mi j,
  WfInfo mi -> json_wfb j = true -> jeqv (enc_module_info mi) j ->
  exists mi', dec_module_info j = Some mi' /\ info_eq mi mi' /\ WfInfo mi'.
Proof.
  intros mi j Hmi Hw H.
  pose proof (keys_enc_module_info mi) as Hk. unfold enc_module_info in H, Hk.
  destruct (jeqv_obj_inv _ _ Hk Hw H) as [m' [E L]]. subst j. clear H Hk.
  destruct mi as [a b c d e f g h]. unfold WfInfo, wf_infob in Hmi.
  cbn [mi_script mi_deps mi_tsrefs mi_self mi_jsx mi_jsxt mi_jsdoc mi_smap] in *.
  assert (H1 : match sget k_script m' with Some v => dec_bool v | None => Some false end = Some a).
  { destruct a; getl L k_script H1.
    - apply lookup_bool in H1. rewrite H1. reflexivity.
    - unfold lookup_rel in H1. rewrite H1. reflexivity. }
  assert (H2 : lookup_rel (lookup_list enc_desc b) (sget k_dependencies m')) by (destruct a; getl L k_dependencies H2; exact H2).
  assert (H3 : lookup_rel (lookup_list enc_tsref c) (sget k_tsReferences m')) by (destruct a; getl L k_tsReferences H3; exact H3).
  assert (H4 : lookup_rel (option_map enc_swr d) (sget k_selfTypesSpecifier m')) by (destruct a; getl L k_selfTypesSpecifier H4; exact H4).
  assert (H5 : lookup_rel (option_map enc_swr e) (sget k_jsxImportSource m')) by (destruct a; getl L k_jsxImportSource H5; exact H5).
  assert (H6 : lookup_rel (option_map enc_swr f) (sget k_jsxImportSourceTypes m')) by (destruct a; getl L k_jsxImportSourceTypes H6; exact H6).
  assert (H7 : lookup_rel (lookup_list enc_jsdoc g) (sget k_jsdocImports m')) by (destruct a; getl L k_jsdocImports H7; exact H7).
  assert (H8 : lookup_rel (option_map enc_swr h) (sget k_sourceMapUrl m')) by (destruct a; getl L k_sourceMapUrl H8; exact H8).
  destruct (U_field_descs b _ Hmi H2) as [ds [D1 [D2 D3]]].
  apply (U_field_list enc_tsref dec_tsref c _ U_tsref) in H3.
  apply U_field_opt_swr in H4. apply U_field_opt_swr in H5. apply U_field_opt_swr in H6.
  apply (U_field_list enc_jsdoc dec_jsdoc g _ U_jsdoc) in H7. apply U_field_opt_swr in H8.
  rewrite dec_module_info_obj. unfold minfo_of. rewrite H1, D1, H3, H4, H5, H6, H7, H8. cbn [option_bind].
  eexists. split; [reflexivity|]. split.
  - unfold info_eq. cbn [mi_script mi_deps mi_tsrefs mi_self mi_jsx mi_jsxt mi_jsdoc mi_smap]. repeat split. exact D2.
  - exact D3.
Qed.

(* jeqv is reflexive on values with distinct keys: the exact round trip is an instance *)
Lemma Forall2_refl_in : forall {X} (R : X -> X -> Prop) l, (forall x, In x l -> R x x) -> Forall2 R l l.
Proof.
  intros X R l. induction l as [|x l IH]; intros H; constructor; [apply H; left; reflexivity|].
  apply IH. intros y Hy. apply H. right. exact Hy.
Qed.

Theorem enc_injective_unordered : forall a b,
  WfInfo a -> WfInfo b -> jeqv (enc_module_info a) (enc_module_info b) -> info_eq a b.
Proof.
  intros a b Ha Hb H.
  destruct (roundtrip_unordered a (enc_module_info b) Ha (wf_enc_module_info b Hb) H) as [mi' [E [I _]]].
  rewrite dec_module_info_enc in E. inversion E. subst mi'. exact I.
Qed.
