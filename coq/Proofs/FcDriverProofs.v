(* Theorems about the fast-check package driver model (Model/FcDriver.v). *)
From Coq Require Import Arith.
From DG Require Import Base.Util Base.Reach Model.FcDriver.

(* ------------------------------------------------------------------ *)
(* slot_of                                                              *)
(* ------------------------------------------------------------------ *)
Lemma slot_of_app : forall w a b s,
  slot_of w (a ++ b) s = match slot_of w b s with Some x => Some x | None => slot_of w a s end.
Proof.
  intros w a b s; induction a as [|[s' r] a IH]; cbn [app slot_of].
  - destruct (slot_of w b s); reflexivity.
  - rewrite IH. destruct (slot_of w b s); [reflexivity|]. reflexivity.
Qed.

Lemma slot_of_in : forall w fin s r, slot_of w fin s = Some r -> In (s, r) fin /\ mem s (w_js w) = true.
Proof.
  intros w fin s r; induction fin as [|[s' r'] fin IH]; cbn [slot_of]; [discriminate|].
  destruct (slot_of w fin s) as [x|] eqn:E.
  - intro H; inversion H; subst. destruct (IH eq_refl) as [H1 H2]. split; [right; exact H1 | exact H2].
  - destruct (N.eqb s s' && mem s (w_js w)) eqn:E2; [|discriminate].
    intro H; inversion H; subst. apply andb_true_iff in E2; destruct E2 as [E2 E3].
    apply N.eqb_eq in E2; subst. split; [left; reflexivity | exact E3].
Qed.

Lemma slot_of_none : forall w fin s,
  slot_of w fin s = None <-> (mem s (w_js w) = false \/ forall r, ~ In (s, r) fin).
Proof.
  intros w fin s; induction fin as [|[s' r'] fin IH]; cbn [slot_of].
  - split; [intros _; right; intros r [] | reflexivity].
  - destruct (slot_of w fin s) as [x|] eqn:E.
    + split; [discriminate|]. intros [H|H].
      * apply slot_of_in in E. destruct E as [_ E]. rewrite E in H; discriminate.
      * apply slot_of_in in E. destruct E as [E _]. exfalso. apply (H x). right; exact E.
    + destruct (proj1 IH eq_refl) as [Hjs|Hno].
      * rewrite Hjs, andb_false_r. split; [intros _; left; reflexivity | reflexivity].
      * destruct (N.eqb s s') eqn:E2; cbn [andb].
        -- apply N.eqb_eq in E2; subst s'. destruct (mem s (w_js w)) eqn:E3.
           ++ split; [discriminate|]. intros [H|H]; [discriminate|]. exfalso. apply (H r'). left; reflexivity.
           ++ split; [intros _; left; reflexivity | reflexivity].
        -- split; [|reflexivity]. intros _. right. intros r [H|H].
           ++ inversion H; subst. rewrite N.eqb_refl in E2; discriminate.
           ++ exact (Hno r H).
Qed.

(* a final_result is functional when it never gives two different results to one specifier *)
Definition Functional (fin : list (spec * fres)) : Prop :=
  forall s r r', In (s, r) fin -> In (s, r') fin -> r = r'.

Lemma slot_of_functional : forall w fin s r,
  Functional fin ->
  (slot_of w fin s = Some r <-> In (s, r) fin /\ mem s (w_js w) = true).
Proof.
  intros w fin s r HF. split; [apply slot_of_in|].
  intros [Hin Hjs]. destruct (slot_of w fin s) as [x|] eqn:E.
  - apply slot_of_in in E. destruct E as [E _]. rewrite (HF s x r E Hin). reflexivity.
  - apply slot_of_none in E. destruct E as [E|E]; [rewrite E in Hjs; discriminate | exfalso; exact (E r Hin)].
Qed.

(* ------------------------------------------------------------------ *)
(* transform_package                                                    *)
(* ------------------------------------------------------------------ *)
(* diagnostics lists carried by Err outcomes are never empty in the code (transform returns
   Err only with diagnostics; tracer diagnostics are pushed one by one) *)
Definition outcomes_wf (ms : list (spec * outcome)) : Prop :=
  forall s, ~ In (s, OErr []) ms.

Lemma tp_errors_mono : forall first ms errors fc,
  errors <> [] -> fst (transform_package first ms errors fc) <> [] /\ snd (transform_package first ms errors fc) = fc.
Proof.
  intros first ms; induction ms as [|[s oc] ms IH]; intros errors fc He; cbn [transform_package fst snd].
  - split; [exact He | reflexivity].
  - destruct oc as [o| |ds].
    + destruct errors as [|e0 er]; [contradiction|]. apply IH; discriminate.
    + apply IH; exact He.
    + assert (errors ++ ds <> []) by (destruct errors; [contradiction | discriminate]).
      destruct first; [cbn [fst snd]; split; [assumption | reflexivity] | apply IH; assumption].
Qed.

(* with no error so far: either the run ends without errors and every ESM module was collected,
   or it ends with errors *)
Lemma tp_spec : forall first ms fc,
  outcomes_wf ms ->
  let r := transform_package first ms [] fc in
  (fst r = [] /\ (forall s ds, ~ In (s, OErr ds) ms)
   /\ (forall s o, In (s, o) (snd r) <-> In (s, o) fc \/ In (s, OOk o) ms))
  \/ (fst r <> [] /\ exists s ds, In (s, OErr ds) ms).
Proof.
  intros first ms; induction ms as [|[s oc] ms IH]; intros fc Hwf; cbn [transform_package].
  - left. cbn [fst snd]. split; [reflexivity|]. split; [intros s ds []|]. intros s o; cbn [In]; tauto.
  - assert (Hwf' : outcomes_wf ms) by (intros s0 H0; apply (Hwf s0); right; exact H0).
    destruct oc as [o| |ds].
    + destruct (IH (fc ++ [(s, o)]) Hwf') as [[H1 [H2 H3]]|[H1 [s0 [ds0 H2]]]].
      * left. split; [exact H1|]. split.
        { intros s0 ds0 [H|H]; [discriminate | exact (H2 s0 ds0 H)]. }
        intros s0 o0. rewrite H3. rewrite in_app_iff. cbn [In]. split.
        -- intros [[H|[H|[]]]|H]; [left; exact H | right; left; inversion H; reflexivity | right; right; exact H].
        -- intros [H|[H|H]]; [left; left; exact H | left; right; left; inversion H; reflexivity | right; exact H].
      * right. split; [exact H1|]. exists s0, ds0. right; exact H2.
    + destruct (IH fc Hwf') as [[H1 [H2 H3]]|[H1 [s0 [ds0 H2]]]].
      * left. split; [exact H1|]. split.
        { intros s0 ds0 [H|H]; [discriminate | exact (H2 s0 ds0 H)]. }
        intros s0 o0. rewrite H3. cbn [In]. split; [intros [H|H]; [left|right; right]; exact H|].
        intros [H|[H|H]]; [left; exact H | discriminate | right; exact H].
      * right. split; [exact H1|]. exists s0, ds0. right; exact H2.
    + right. assert (Hds : ds <> []).
      { intro; subst. apply (Hwf s). left; reflexivity. }
      split; [|exists s, ds; left; reflexivity].
      cbn [app]. destruct first; cbn [fst]; [exact Hds|].
      apply (tp_errors_mono false ms ds fc Hds).
Qed.

(* ------------------------------------------------------------------ *)
(* all-or-nothing, package traced and transformed in this run           *)
(* ------------------------------------------------------------------ *)
Lemma in_map_fok : forall (fc : list (spec * N)) s r,
  In (s, r) (map (fun so => (fst so, FOk (snd so))) fc) <-> exists o, r = FOk o /\ In (s, o) fc.
Proof.
  intros fc s r. rewrite in_map_iff. split.
  - intros [[s0 o] [H1 H2]]. cbn [fst snd] in H1. inversion H1; subst. exists o. split; [reflexivity | exact H2].
  - intros [o [H1 H2]]. subst. exists (s, o). split; [reflexivity | exact H2].
Qed.

Lemma no_errors_spec : forall e, no_errors e = true <-> e = [].
Proof. intros [|x e]; cbn [no_errors]; split; try reflexivity; discriminate. Qed.

Theorem aon_traced : forall uc w p,
  outcomes_wf (p_modules p) ->
  AllOrNothing w p (slot_of w (fst (build_traced uc w p (p_modules p) (p_deps p)))).
Proof.
  intros uc w p Hwf. unfold build_traced.
  pose proof (tp_spec (w_first w) (p_modules p) [] Hwf) as Hsp. cbn zeta in Hsp.
  destruct (transform_package (w_first w) (p_modules p) [] []) as [errors fc] eqn:Etp.
  cbn [fst snd] in *.
  destruct Hsp as [[He [Hnoerr Hfc]]|[He _]].
  - subst errors. cbn [no_errors]. rewrite app_nil_r. left. split.
    + intros s o Hin Hjs.
      assert (Hin' : In (s, FOk o) (map (fun so => (fst so, FOk (snd so))) fc)).
      { apply in_map_fok. exists o. split; [reflexivity|]. apply Hfc. right; exact Hin. }
      destruct (slot_of w (map (fun so => (fst so, FOk (snd so))) fc) s) as [r|] eqn:E.
      * apply slot_of_in in E. destruct E as [E _]. apply in_map_fok in E. destruct E as [x [Hx _]]. exists x; subst; reflexivity.
      * apply slot_of_none in E. destruct E as [E|E].
        -- apply mem_In in Hjs. rewrite Hjs in E; discriminate.
        -- exfalso. exact (E _ Hin').
    + intros e _ _. destruct (slot_of w (map (fun so => (fst so, FOk (snd so))) fc) e) as [r|] eqn:E; [|reflexivity].
      apply slot_of_in in E. destruct E as [E _]. apply in_map_fok in E. destruct E as [x [Hx _]]. subst; reflexivity.
  - destruct errors as [|e0 er]; [contradiction|]. cbn [no_errors app]. right. split.
    + intros s _. destruct (slot_of w (map (fun e => (e, FErr (e0 :: er))) (p_entry p)) s) as [r|] eqn:E; [|reflexivity].
      apply slot_of_in in E. destruct E as [E _]. apply in_map_iff in E. destruct E as [x [Hx _]].
      inversion Hx; subst. reflexivity.
    + intros e Hin Hjs.
      destruct (slot_of w (map (fun e => (e, FErr (e0 :: er))) (p_entry p)) e) as [r|] eqn:E.
      * apply slot_of_in in E. destruct E as [E _]. apply in_map_iff in E. destruct E as [x [Hx _]].
        inversion Hx; subst. reflexivity.
      * apply slot_of_none in E. destruct E as [E|E].
        -- apply mem_In in Hjs. rewrite Hjs in E; discriminate.
        -- exfalso. apply (E (FErr (e0 :: er))). apply in_map_iff. exists e. split; [reflexivity | exact Hin].
Qed.

(* ------------------------------------------------------------------ *)
(* entries written by the driver are homogeneous                        *)
(* ------------------------------------------------------------------ *)
Definition all_info (e : centry) : bool :=
  forallb (fun si => match snd si with CInfo _ _ => true | CDiag _ => false end) (ce_modules e).
Definition all_diag (e : centry) : bool :=
  forallb (fun si => match snd si with CDiag _ => true | CInfo _ _ => false end) (ce_modules e).

Theorem produced_homogeneous : forall uc w p mods deps k e,
  snd (build_traced uc w p mods deps) = Some (k, e) ->
  k = p_key p /\ (all_info e = true \/ all_diag e = true).
Proof.
  intros uc w p mods deps k e. unfold build_traced.
  destruct (transform_package (w_first w) mods [] []) as [errors fc]. cbn [snd].
  destruct uc; [|discriminate]. intro H; inversion H; subst. split; [reflexivity|].
  unfold all_info, all_diag, fill_items; cbn [ce_modules].
  destruct errors as [|e0 er]; cbn [no_errors].
  - left. cbn [map]. rewrite app_nil_r. apply forallb_forall. intros x Hx.
    apply in_map_iff in Hx. destruct Hx as [y [Hy _]]. subst; reflexivity.
  - right. apply forallb_forall. intros x Hx. apply in_app_or in Hx. destruct Hx as [Hx|Hx];
      apply in_map_iff in Hx; destruct Hx as [y [Hy _]]; subst; reflexivity.
Qed.

(* ------------------------------------------------------------------ *)
(* all-or-nothing, package replayed from a cache entry                  *)
(* ------------------------------------------------------------------ *)
Lemma replay_info : forall e s r,
  all_info e = true -> In (s, r) (map replay (ce_modules e)) -> exists o, r = FOk o.
Proof.
  intros e s r Ha Hin. apply in_map_iff in Hin. destruct Hin as [[s0 it] [H1 H2]].
  unfold all_info in Ha. rewrite forallb_forall in Ha. specialize (Ha _ H2). cbn [snd] in Ha.
  destruct it as [h o|h]; [|discriminate]. unfold replay in H1; cbn [fst snd] in H1. inversion H1; subst. exists o; reflexivity.
Qed.

Lemma replay_diag : forall e s r,
  all_diag e = true -> In (s, r) (map replay (ce_modules e)) -> r = FErr [(CACHED, s)].
Proof.
  intros e s r Ha Hin. apply in_map_iff in Hin. destruct Hin as [[s0 it] [H1 H2]].
  unfold all_diag in Ha. rewrite forallb_forall in Ha. specialize (Ha _ H2). cbn [snd] in Ha.
  destruct it as [h o|h]; [discriminate|]. unfold replay in H1; cbn [fst snd] in H1. inversion H1; subst. reflexivity.
Qed.

Theorem hit_success : forall w e,
  all_info e = true ->
  let slot := slot_of w (map replay (ce_modules e)) in
  (forall s, In s (map fst (ce_modules e)) -> In s (w_js w) -> exists x, slot s = Some (FOk x))
  /\ (forall s, has_diag (slot s) = false).
Proof.
  intros w e Ha slot. split.
  - intros s Hs Hjs. unfold slot. destruct (slot_of w (map replay (ce_modules e)) s) as [r|] eqn:E.
    + apply slot_of_in in E. destruct E as [E _]. destruct (replay_info e s r Ha E) as [o Ho]. subst. exists o; reflexivity.
    + apply slot_of_none in E. destruct E as [E|E].
      * apply mem_In in Hjs. rewrite Hjs in E; discriminate.
      * exfalso. apply in_map_iff in Hs. destruct Hs as [[s0 it] [H1 H2]]. cbn [fst] in H1; subst s0.
        apply (E (snd (replay (s, it)))). apply in_map_iff. exists (s, it). split; [|exact H2].
        unfold replay; cbn [fst snd]. destruct it; reflexivity.
  - intros s. unfold slot. destruct (slot_of w (map replay (ce_modules e)) s) as [r|] eqn:E; [|reflexivity].
    apply slot_of_in in E. destruct E as [E _]. destruct (replay_info e s r Ha E) as [o Ho]. subst; reflexivity.
Qed.

Theorem hit_failure : forall w e,
  all_diag e = true ->
  let slot := slot_of w (map replay (ce_modules e)) in
  (forall s, out_of (slot s) = None)
  /\ (forall en, In en (map fst (ce_modules e)) -> In en (w_js w) -> has_diag (slot en) = true)
  /\ (forall en, ~ In en (map fst (ce_modules e)) -> slot en = None).
Proof.
  intros w e Ha slot. split; [|split].
  - intros s. unfold slot. destruct (slot_of w (map replay (ce_modules e)) s) as [r|] eqn:E; [|reflexivity].
    apply slot_of_in in E. destruct E as [E _]. rewrite (replay_diag e s r Ha E). reflexivity.
  - intros en Hs Hjs. unfold slot. destruct (slot_of w (map replay (ce_modules e)) en) as [r|] eqn:E.
    + apply slot_of_in in E. destruct E as [E _]. rewrite (replay_diag e en r Ha E). reflexivity.
    + apply slot_of_none in E. destruct E as [E|E].
      * apply mem_In in Hjs. rewrite Hjs in E; discriminate.
      * exfalso. apply in_map_iff in Hs. destruct Hs as [[s0 it] [H1 H2]]. cbn [fst] in H1; subst s0.
        apply (E (snd (replay (en, it)))). apply in_map_iff. exists (en, it). split; [|exact H2].
        unfold replay; cbn [fst snd]. destruct it; reflexivity.
  - intros en Hn. unfold slot. apply slot_of_none. right. intros r Hin. apply Hn.
    apply in_map_iff in Hin. destruct Hin as [[s0 it] [H1 H2]]. apply in_map_iff. exists (s0, it).
    split; [|exact H2]. unfold replay in H1; cbn [fst snd] in H1. destruct it; inversion H1; reflexivity.
Qed.

(* ------------------------------------------------------------------ *)
(* the decision procedure for all-or-nothing                            *)
(* ------------------------------------------------------------------ *)
Lemma is_some_out_of : forall o, is_some (out_of o) = true <-> exists x, o = Some (FOk x).
Proof.
  intros [[x|ds]|]; cbn [out_of is_some]; split; try discriminate; try (intros [y Hy]; discriminate).
  - intros _; exists x; reflexivity.
  - reflexivity.
Qed.

Lemma in_esm : forall (ms : list (spec * outcome)) (s : spec),
  In s (flat_map (fun so : spec * outcome => match snd so with OOk _ => [fst so] | _ => [] end) ms) <-> exists o, In (s, OOk o) ms.
Proof.
  intros ms s. rewrite in_flat_map. split.
  - intros [[s0 oc] [H1 H2]]. cbn [fst snd] in H2. destruct oc as [o| |ds]; [|destruct H2|destruct H2].
    destruct H2 as [H2|[]]. subst. exists o; exact H1.
  - intros [o H]. exists (s, OOk o). split; [exact H | left; reflexivity].
Qed.

Theorem aonb_correct : forall w p slot, aonb w p slot = true <-> AllOrNothing w p slot.
Proof.
  intros w p slot. unfold aonb, AllOrNothing.
  rewrite orb_true_iff, !andb_true_iff, !forallb_forall.
  split.
  - intros [[H1 H2]|[H1 H2]]; [left|right]; split.
    + intros s o Hin Hjs. apply is_some_out_of. apply H1. apply filter_In.
      split; [apply in_esm; exists o; exact Hin | apply mem_In; exact Hjs].
    + intros e Hin Hjs. apply negb_true_iff. apply H2. apply filter_In. split; [exact Hin | apply mem_In; exact Hjs].
    + intros s Hin. specialize (H1 s Hin). apply negb_true_iff in H1.
      destruct (out_of (slot s)); [discriminate | reflexivity].
    + intros e Hin Hjs. apply H2. apply filter_In. split; [exact Hin | apply mem_In; exact Hjs].
  - intros [[H1 H2]|[H1 H2]]; [left|right]; split.
    + intros s Hs. apply filter_In in Hs. destruct Hs as [Hs Hjs]. apply in_esm in Hs. destruct Hs as [o Ho].
      apply is_some_out_of. apply (H1 s o Ho). apply mem_In; exact Hjs.
    + intros e He. apply filter_In in He. destruct He as [He Hjs]. apply negb_true_iff. apply H2; [exact He | apply mem_In; exact Hjs].
    + intros s Hs. rewrite (H1 s Hs). reflexivity.
    + intros e He. apply filter_In in He. destruct He as [He Hjs]. apply H2; [exact He | apply mem_In; exact Hjs].
Qed.

(* ------------------------------------------------------------------ *)
(* determinism: the order in which packages are taken does not matter   *)
(* ------------------------------------------------------------------ *)
Theorem slots_order_independent : forall w (f : pkg -> list (spec * fres)) l1 l2,
  (forall p, In p l1 <-> In p l2) ->
  Functional (flat_map f l1) ->
  forall s, slot_of w (flat_map f l1) s = slot_of w (flat_map f l2) s.
Proof.
  intros w f l1 l2 Hsame HF s.
  assert (Hmem : forall x, In x (flat_map f l1) <-> In x (flat_map f l2)).
  { intro x. rewrite !in_flat_map. split; intros [p [H1 H2]]; exists p; (split; [apply Hsame; exact H1 | exact H2]). }
  assert (HF2 : Functional (flat_map f l2)).
  { intros s0 r r' H1 H2. apply Hmem in H1. apply Hmem in H2. exact (HF s0 r r' H1 H2). }
  destruct (slot_of w (flat_map f l1) s) as [r|] eqn:E.
  - symmetry. apply (slot_of_functional w _ s r HF2). apply slot_of_in in E. destruct E as [E1 E2].
    split; [apply Hmem; exact E1 | exact E2].
  - symmetry. apply slot_of_none. apply slot_of_none in E. destruct E as [E|E]; [left; exact E|].
    right. intros r Hr. apply (E r). apply Hmem; exact Hr.
Qed.

(* ------------------------------------------------------------------ *)
(* the package worklist                                                 *)
(* ------------------------------------------------------------------ *)
Lemma dedup_keep_first_aux_spec : forall l seen x,
  In x (dedup_keep_first_aux seen l) <-> In x l /\ ~ In x seen.
Proof.
  induction l as [|y l IH]; intros seen x; cbn [dedup_keep_first_aux]; [cbn [In]; tauto|].
  destruct (mem y seen) eqn:E.
  - rewrite IH. apply mem_In in E. cbn [In]. split; [tauto|].
    intros [[H|H] Hn]; [subst; contradiction | tauto].
  - apply mem_false_In in E. cbn [In]. rewrite IH. cbn [In]. split.
    + intros [H|[H1 H2]]; [subst; tauto | tauto].
    + intros [[H|H] Hn]; [left; exact H|].
      destruct (N.eq_dec y x) as [Heq|Hne]; [left; exact Heq | right; tauto].
Qed.

Lemma dedup_keep_first_aux_nodup : forall l seen, NoDup (dedup_keep_first_aux seen l).
Proof.
  induction l as [|y l IH]; intros seen; cbn [dedup_keep_first_aux]; [constructor|].
  destruct (mem y seen) eqn:E; [apply IH|].
  constructor; [|apply IH]. rewrite dedup_keep_first_aux_spec. cbn [In]. tauto.
Qed.

Lemma dedup_keep_first_spec : forall l x, In x (dedup_keep_first l) <-> In x l.
Proof. intros l x; unfold dedup_keep_first; rewrite dedup_keep_first_aux_spec; cbn [In]; tauto. Qed.

Lemma dedup_keep_first_length : forall l seen, (length (dedup_keep_first_aux seen l) <= length l)%nat.
Proof.
  induction l as [|y l IH]; intros seen; cbn [dedup_keep_first_aux length]; [lia|].
  destruct (mem y seen); [specialize (IH seen) | specialize (IH (y :: seen)); cbn [length]]; lia.
Qed.

Lemma dedup_length_le' : forall l, (length (dedup l) <= length l)%nat.
Proof.
  induction l as [|x l IH]; cbn [dedup length]; [lia|]. destruct (mem x l); cbn [length]; lia.
Qed.

Lemma unseen_le_len' : forall U seen, (unseen U seen <= length U)%nat.
Proof.
  intros U seen. unfold unseen. pose proof (dedup_length_le' U) as H.
  assert (H2 : forall l : list N, (length (filter (fun u => negb (mem u seen)) l) <= length l)%nat).
  { induction l as [|a l IH]; cbn [filter length]; [lia|]. destruct (negb (mem a seen)); cbn [length]; lia. }
  specialize (H2 (dedup U)). lia.
Qed.

Lemma find_pkg_in : forall ps nv p, find_pkg ps nv = Some p -> In p ps /\ p_nv p = nv.
Proof.
  induction ps as [|a ps IH]; intros nv p H; cbn [find_pkg] in H; [discriminate|].
  destruct (N.eqb (p_nv a) nv) eqn:E.
  - inversion H; subst. split; [left; reflexivity | apply N.eqb_eq; exact E].
  - destruct (IH _ _ H) as [H1 H2]. split; [right; exact H1 | exact H2].
Qed.

Lemma deps_in_universe : forall c w x y, In y (deps_of c w x) -> In y (nv_universe c w).
Proof.
  intros c w x y H. unfold deps_of in H. unfold nv_universe.
  destruct (find_pkg (w_pkgs w) x) as [p|] eqn:Ep; [|destruct H].
  apply find_pkg_in in Ep. destruct Ep as [Ep _].
  unfold cache_hit in H. destruct c as [c'|].
  - destruct (lookup (p_key p) c') as [e|] eqn:El.
    + destruct (valid w e).
      * apply in_or_app; right. apply in_or_app; right. apply in_flat_map.
        exists (p_key p, e). split; [apply lookup_In; exact El | exact H].
      * apply in_or_app; right. apply in_or_app; left. apply in_flat_map. exists p. split; assumption.
    + apply in_or_app; right. apply in_or_app; left. apply in_flat_map. exists p. split; assumption.
  - apply in_or_app; right. apply in_or_app; left. apply in_flat_map. exists p. split; assumption.
Qed.

(* the packages handled are exactly those reachable from the top-level ones through deps_of *)
Theorem handled_spec : forall c w nv,
  In nv (handled c w) <-> Reachable (deps_of c w) (w_top w) nv.
Proof.
  intros c w nv. unfold handled.
  set (top := dedup_keep_first (w_top w)).
  pose proof (run_fuel_enough (deps_of c w) (nv_universe c w) (deps_in_universe c w)
                (S (length top + length (nv_universe c w))) top top []) as HF.
  destruct (run (deps_of c w) (S (length top + length (nv_universe c w))) top top []) as [[out sn]|] eqn:HR.
  - assert (HI : Inv (deps_of c w) top top top []).
    { apply init_inv. apply dedup_keep_first_aux_nodup. }
    destruct (run_sound_complete _ _ _ _ _ _ _ _ HI HR) as [_ Hiff].
    rewrite <- in_rev. rewrite Hiff.
    split; intro H; induction H as [x Hx | x y _ IH Hy].
    + apply R_root. apply dedup_keep_first_spec; exact Hx.
    + eapply R_step; eassumption.
    + apply R_root. apply dedup_keep_first_spec; exact Hx.
    + eapply R_step; eassumption.
  - exfalso. apply HF; [|reflexivity].
    pose proof (unseen_le_len' (nv_universe c w) top). lia.
Qed.

Lemma reachable_ext : forall (f g : N -> list N) roots x,
  (forall a b, In b (f a) <-> In b (g a)) -> Reachable f roots x -> Reachable g roots x.
Proof.
  intros f g roots x H HR. induction HR as [x Hx | x y _ IH Hy].
  - apply R_root; exact Hx.
  - eapply R_step; [exact IH | apply H; exact Hy].
Qed.

(* ------------------------------------------------------------------ *)
(* cache transparency under the read-set hypothesis                     *)
(* ------------------------------------------------------------------ *)
Lemma same_set_spec : forall a b, same_set a b = true <-> (forall x, In x a <-> In x b).
Proof.
  intros a b. unfold same_set. rewrite andb_true_iff, !forallb_forall. split.
  - intros [H1 H2] x. split; intro H; apply mem_In; [apply H1 | apply H2]; exact H.
  - intros H. split; intros x Hx; apply mem_In; apply H; exact Hx.
Qed.

Lemma pair_mem_spec : forall x l, pair_mem x l = true <-> In x l.
Proof.
  intros [s o] l. unfold pair_mem. rewrite existsb_exists. split.
  - intros [[s' o'] [H1 H2]]. cbn [fst snd] in H2. apply andb_true_iff in H2. destruct H2 as [H2 H3].
    apply N.eqb_eq in H2. apply N.eqb_eq in H3. subst. exact H1.
  - intros H. exists (s, o). split; [exact H|]. cbn [fst snd]. rewrite !N.eqb_refl. reflexivity.
Qed.

Lemma same_outs_spec : forall a b, same_outs a b = true <-> (forall x, In x a <-> In x b).
Proof.
  intros a b. unfold same_outs. rewrite andb_true_iff, !forallb_forall. split.
  - intros [H1 H2] x. split; intro H; apply pair_mem_spec; [apply H1 | apply H2]; exact H.
  - intros H. split; intros x Hx; apply pair_mem_spec; apply H; exact Hx.
Qed.

(* the read-set hypothesis, declaratively: for every package of the world, what is queued and
   what is emitted with this cache equals what tracing the current sources gives *)
Definition CacheSound (c : cache) (w : world) : Prop :=
  forall p, In p (w_pkgs w) ->
    (forall x, In x (deps_of (Some c) w (p_nv p)) <-> In x (deps_of None w (p_nv p)))
    /\ (forall q, find_pkg (w_pkgs w) (p_nv p) = Some q ->
          forall x, In x (outs_of_final (fst (build_pkg (Some c) w q)))
                    <-> In x (outs_of_final (fst (build_pkg None w q)))).

Theorem cache_soundb_correct : forall c w, cache_soundb c w = true <-> CacheSound c w.
Proof.
  intros c w. unfold cache_soundb, CacheSound. rewrite forallb_forall. split.
  - intros H p Hp. specialize (H p Hp). unfold pkg_agrees in H. apply andb_true_iff in H. destruct H as [H1 H2].
    split; [apply same_set_spec; exact H1|].
    intros q Hq. rewrite Hq in H2. apply same_outs_spec; exact H2.
  - intros H p Hp. destruct (H p Hp) as [H1 H2]. unfold pkg_agrees. apply andb_true_iff. split.
    + apply same_set_spec; exact H1.
    + destruct (find_pkg (w_pkgs w) (p_nv p)) as [q|] eqn:Eq; [|reflexivity].
      apply same_outs_spec. apply H2. reflexivity.
Qed.

Lemma deps_of_unknown : forall c w nv, find_pkg (w_pkgs w) nv = None -> deps_of c w nv = [].
Proof. intros c w nv H; unfold deps_of; rewrite H; reflexivity. Qed.

Lemma sound_deps : forall c w, CacheSound c w ->
  forall a b, In b (deps_of (Some c) w a) <-> In b (deps_of None w a).
Proof.
  intros c w HS a b. destruct (find_pkg (w_pkgs w) a) as [p|] eqn:Ep.
  - destruct (find_pkg_in _ _ _ Ep) as [Hin Hnv]. destruct (HS p Hin) as [H _]. rewrite Hnv in H. apply H.
  - rewrite !deps_of_unknown by exact Ep. tauto.
Qed.

Lemma in_outs_of_final : forall fin s o, In (s, o) (outs_of_final fin) <-> In (s, FOk o) fin.
Proof.
  intros fin s o. unfold outs_of_final. rewrite in_flat_map. split.
  - intros [[s0 r] [H1 H2]]. cbn [fst snd] in H2. destruct r as [x|ds]; [|destruct H2].
    destruct H2 as [H2|[]]. inversion H2; subst. exact H1.
  - intros H. exists (s, FOk o). split; [exact H | left; reflexivity].
Qed.

Lemma in_final_result : forall c w x,
  In x (final_result c w) <->
  exists nv p, In nv (handled c w) /\ find_pkg (w_pkgs w) nv = Some p /\ In x (fst (build_pkg c w p)).
Proof.
  intros c w x. unfold final_result, pkgs_handled. rewrite in_flat_map. split.
  - intros [p [Hp Hx]]. apply in_flat_map in Hp. destruct Hp as [nv [Hnv Hp]].
    destruct (find_pkg (w_pkgs w) nv) as [q|] eqn:Eq; [|destruct Hp].
    destruct Hp as [Hp|[]]. subst q. exists nv, p. repeat split; assumption.
  - intros [nv [p [Hnv [Hp Hx]]]]. exists p. split; [|exact Hx].
    apply in_flat_map. exists nv. split; [exact Hnv|]. rewrite Hp. left; reflexivity.
Qed.

Lemma sound_outs : forall c w, CacheSound c w ->
  forall s o, In (s, FOk o) (final_result (Some c) w) <-> In (s, FOk o) (final_result None w).
Proof.
  intros c w HS s o. rewrite !in_final_result.
  assert (Hh : forall nv, In nv (handled (Some c) w) <-> In nv (handled None w)).
  { intro nv. rewrite !handled_spec. split; apply reachable_ext; intros a b;
      [apply sound_deps; exact HS | symmetry; apply sound_deps; exact HS]. }
  split; intros [nv [p [Hnv [Hp Hx]]]]; exists nv, p.
  - split; [apply Hh; exact Hnv|]. split; [exact Hp|].
    destruct (find_pkg_in _ _ _ Hp) as [Hin Hpnv]. destruct (HS p Hin) as [_ H2].
    rewrite Hpnv in H2. apply in_outs_of_final. apply (H2 p Hp). apply in_outs_of_final. exact Hx.
  - split; [apply Hh; exact Hnv|]. split; [exact Hp|].
    destruct (find_pkg_in _ _ _ Hp) as [Hin Hpnv]. destruct (HS p Hin) as [_ H2].
    rewrite Hpnv in H2. apply in_outs_of_final. apply (H2 p Hp). apply in_outs_of_final. exact Hx.
Qed.

Lemma out_of_slot_functional : forall w fin s o,
  Functional fin ->
  (out_of (slot_of w fin s) = Some o <-> In (s, FOk o) fin /\ mem s (w_js w) = true).
Proof.
  intros w fin s o HF. split.
  - destruct (slot_of w fin s) as [[x|ds]|] eqn:E; cbn [out_of]; try discriminate.
    intro H; inversion H; subst. apply slot_of_in in E. exact E.
  - intros H. apply (slot_of_functional w fin s (FOk o) HF) in H. rewrite H. reflexivity.
Qed.

Theorem cache_transparent_partial : forall c w,
  CacheSound c w ->
  Functional (final_result (Some c) w) -> Functional (final_result None w) ->
  forall s, out_of (slot_of w (final_result (Some c) w) s) = out_of (slot_of w (final_result None w) s).
Proof.
  intros c w HS HF1 HF2 s.
  destruct (out_of (slot_of w (final_result (Some c) w) s)) as [o|] eqn:E1.
  - symmetry. apply (out_of_slot_functional w _ s o HF2).
    apply (out_of_slot_functional w _ s o HF1) in E1. destruct E1 as [E1 E2].
    split; [apply (sound_outs c w HS); exact E1 | exact E2].
  - destruct (out_of (slot_of w (final_result None w) s)) as [o|] eqn:E2; [|reflexivity].
    apply (out_of_slot_functional w _ s o HF2) in E2. destruct E2 as [E2 E3].
    assert (H : out_of (slot_of w (final_result (Some c) w) s) = Some o).
    { apply (out_of_slot_functional w _ s o HF1). split; [apply (sound_outs c w HS); exact E2 | exact E3]. }
    rewrite H in E1; discriminate.
Qed.

(* without a cache nothing is read from or written to one *)
Theorem no_cache_no_traffic : forall w p, snd (build_pkg None w p) = None.
Proof.
  intros w p. unfold build_pkg, cache_hit, build_traced. cbn [is_some].
  destruct (transform_package (w_first w) (p_modules p) [] []). reflexivity.
Qed.

(* the narrowed class of F-C12b *)
Theorem stale_failed_only_spec : forall c w,
  stale_failed_onlyb c w = true <->
  forall p, In p (w_pkgs w) -> pkg_agrees c w p = false ->
    exists q e, find_pkg (w_pkgs w) (p_nv p) = Some q /\ cache_hit (Some c) w q = Some e /\ failed_entry e = true.
Proof.
  intros c w. unfold stale_failed_onlyb. rewrite forallb_forall. split.
  - intros H p Hp Ha. specialize (H p Hp). cbv beta in H. rewrite Ha in H. cbn [orb] in H.
    destruct (find_pkg (w_pkgs w) (p_nv p)) as [q|]; [|discriminate].
    destruct (cache_hit (Some c) w q) as [e|] eqn:E; [|discriminate].
    exists q, e. repeat split; assumption.
  - intros H p Hp. destruct (pkg_agrees c w p) eqn:Ea; [reflexivity|]. cbn [orb].
    destruct (H p Hp Ea) as [q [e [H1 [H2 H3]]]]. rewrite H1, H2. exact H3.
Qed.
