(* C18 (graph level): what ModuleGraph::segment contains. *)
From DG Require Import Base.Util Base.Sexp Base.Reach Model.Graph Model.Walk Model.RunC15 Model.RunC02
  Model.RunC14 Model.Prune Model.RunC17 Model.RunC18 Proofs.WalkProofs.

Theorem segment_terminates : forall g roots, segment g roots <> None.
Proof.
  intros g roots. unfold segment. destruct (subset_b (dedup_keep_first roots) (g_roots g)); [discriminate|].
  destruct (walk g (segment_opts g) (fun _ => false) (dedup_keep_first roots)) eqn:Hw; [discriminate|].
  exfalso. exact (walk_terminates _ _ _ _ Hw).
Qed.

Theorem segment_clone : forall g roots,
  subset_b (dedup_keep_first roots) (g_roots g) = true -> segment g roots = Some g.
Proof. intros g roots H. unfold segment. rewrite H. reflexivity. Qed.

Lemma existsb_yield : forall (ys : list (spec * entry)) s (P : entry -> bool),
  existsb (fun y => N.eqb (fst y) s && P (snd y)) ys = true <->
  exists e, In (s, e) ys /\ P e = true.
Proof.
  intros ys s P. rewrite existsb_exists. split.
  - intros [[s' e] [Hin H]]. cbn [fst snd] in H. apply andb_true_iff in H. destruct H as [Hs HP].
    apply N.eqb_eq in Hs. subst. exists e. split; assumption.
  - intros [e [Hin HP]]. exists (s, e). split; [exact Hin|]. cbn [fst snd]. rewrite N.eqb_refl, HP. reflexivity.
Qed.

(* The segment holds exactly the entries the walk (own kind, dynamic followed,
   check_js, no fast-check preference) hands out, unchanged, and exactly the
   redirects it passes through; imports are cloned. *)
Theorem segment_entries : forall g roots g' ys,
  subset_b (dedup_keep_first roots) (g_roots g) = false ->
  walk g (segment_opts g) (fun _ => false) (dedup_keep_first roots) = Some ys ->
  segment g roots = Some g' ->
  (forall s sl, In (s, sl) (g_slots g') <->
     In (s, sl) (g_slots g) /\ exists e, In (s, e) ys /\ match e with ERedirect _ => false | _ => true end = true) /\
  (forall a b, In (a, b) (g_redirects g') <->
     In (a, b) (g_redirects g) /\ exists e, In (a, e) ys /\ match e with ERedirect _ => true | _ => false end = true) /\
  g_kind g' = g_kind g /\ g_imports g' = g_imports g /\ g_roots g' = dedup_keep_first roots.
Proof.
  intros g roots g' ys Hsub Hw H. unfold segment in H. rewrite Hsub, Hw in H. inversion H; subst; clear H. cbn.
  repeat split.
  - apply filter_In in H. tauto.
  - apply filter_In in H. destruct H as [_ H]. cbn [fst] in H.
    apply (existsb_yield ys s (fun e => match e with ERedirect _ => false | _ => true end)). exact H.
  - intros [Hin He]. apply filter_In. split; [exact Hin|]. cbn [fst].
    apply (existsb_yield ys s (fun e => match e with ERedirect _ => false | _ => true end)). exact He.
  - apply filter_In in H. tauto.
  - apply filter_In in H. destruct H as [_ H]. cbn [fst] in H.
    apply (existsb_yield ys a (fun e => match e with ERedirect _ => true | _ => false end)). exact H.
  - intros [Hin He]. apply filter_In. split; [exact Hin|]. cbn [fst].
    apply (existsb_yield ys a (fun e => match e with ERedirect _ => true | _ => false end)). exact He.
Qed.

(* the decision procedure run on the real segment is the declarative statement *)
Theorem self_contained_correct : forall g seg roots,
  self_contained g seg roots = true <->
  ((forall s m d, In (s, SMod m) (g_slots seg) -> In d (m_deps m) ->
      resolve_dependency seg (d_text d) s false = resolve_dependency g (d_text d) s false /\
      resolve_dependency seg (d_text d) s true = resolve_dependency g (d_text d) s true /\
      (forall t, In t (dep_all_targets d) -> tryres_eqb (try_get seg t) (try_get g t) = true)) /\
   validate_same g seg roots = true).
Proof.
  intros g seg roots. unfold self_contained, deps_resolve_same.
  rewrite andb_true_iff, forallb_forall. split.
  - intros [Hd Hv]. split; [|exact Hv]. intros s m d Hin Hdin.
    specialize (Hd (s, SMod m) Hin). cbn [snd fst] in Hd. rewrite forallb_forall in Hd.
    specialize (Hd d Hdin). apply andb_true_iff in Hd. destruct Hd as [Hd Ht].
    apply andb_true_iff in Hd. destruct Hd as [H1 H2].
    assert (Heq : forall a b, opt_spec_eqb a b = true -> a = b).
    { intros [x|] [y|] E; cbn in E; try discriminate; [apply N.eqb_eq in E; subst|]; reflexivity. }
    split; [apply Heq; exact H1|]. split; [apply Heq; exact H2|].
    rewrite forallb_forall in Ht. exact Ht.
  - intros [Hd Hv]. split; [|exact Hv]. intros [s sl] Hin. cbn [snd fst].
    destruct sl as [m| |]; try reflexivity. apply forallb_forall. intros d Hdin.
    destruct (Hd s m d Hin Hdin) as [H1 [H2 H3]]. rewrite H1, H2.
    assert (Hr : forall a, opt_spec_eqb a a = true).
    { intros [x|]; cbn; [apply N.eqb_refl | reflexivity]. }
    rewrite !Hr. cbn [andb]. apply forallb_forall. exact H3.
Qed.
