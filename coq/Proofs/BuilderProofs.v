(* Builder invariants: no entry is left unfinished (C03), rebuilding with known
   roots is the identity (C19). *)
From Coq Require Import Arith.
From RecordUpdate Require Import RecordSet.
Import RecordSetNotations.
From DG Require Import Base.Util Base.Sexp Model.Graph Model.Builder.

(* ---------- association-list facts ---------- *)
Lemma lookup_set_assoc_same : forall {V} k (v : V) l, lookup k (set_assoc k v l) = Some v.
Proof.
  intros V k v l. induction l as [|[k' v'] l IH]; cbn [set_assoc lookup].
  - rewrite N.eqb_refl. reflexivity.
  - destruct (N.eqb k k') eqn:E; cbn [lookup]; rewrite ?N.eqb_refl, ?E; [reflexivity | exact IH].
Qed.

Lemma lookup_set_assoc_other : forall {V} k k0 (v : V) l, k0 <> k -> lookup k0 (set_assoc k v l) = lookup k0 l.
Proof.
  intros V k k0 v l Hne. induction l as [|[k' v'] l IH]; cbn [set_assoc lookup].
  - apply N.eqb_neq in Hne. rewrite Hne. reflexivity.
  - destruct (N.eqb k k') eqn:E; cbn [lookup].
    + apply N.eqb_eq in E. subst k'. apply N.eqb_neq in Hne. rewrite Hne. reflexivity.
    + destruct (N.eqb k0 k'); [reflexivity | exact IH].
Qed.

Lemma lookup_remove_assoc_other : forall {V} k k0 (l : list (N * V)), k0 <> k -> lookup k0 (remove_assoc k l) = lookup k0 l.
Proof.
  intros V k k0 l Hne. induction l as [|[k' v'] l IH]; cbn [remove_assoc lookup]; [reflexivity|].
  destruct (N.eqb k k') eqn:E; cbn [lookup].
  - apply N.eqb_eq in E. subst k'. apply N.eqb_neq in Hne. rewrite Hne. exact IH.
  - destruct (N.eqb k0 k'); [reflexivity | exact IH].
Qed.

Lemma lookup_remove_assoc_same : forall {V} k (l : list (N * V)), lookup k (remove_assoc k l) = None.
Proof.
  intros V k l. induction l as [|[k' v'] l IH]; cbn [remove_assoc lookup]; [reflexivity|].
  destruct (N.eqb k k') eqn:E; cbn [lookup]; [exact IH | rewrite E; exact IH].
Qed.

(* ---------- the invariant ---------- *)
Definition is_pending (sl : bslot) : bool := match sl with BPending _ => true | _ => false end.

(* every pending slot other than x has a queued load *)
Definition PendInv (x : option spec) (st : bstate) : Prop :=
  forall s a, Some s <> x -> lookup s (st_slots st) = Some (BPending a) ->
    In s (map pi_spec (st_pending st)).

(* the invariant only looks at slots and the queue *)
Lemma PendInv_ext : forall x st st',
  st_slots st' = st_slots st -> st_pending st' = st_pending st -> PendInv x st -> PendInv x st'.
Proof. intros x st st' Hs Hp H s a Hx Hl. rewrite Hs in Hl. rewrite Hp. exact (H s a Hx Hl). Qed.

Lemma PendInv_weaken : forall x st, PendInv None st -> PendInv x st.
Proof. intros x st H s a _ Hl. apply (H s a); [discriminate | exact Hl]. Qed.

Lemma set_slot_nonpending_inv : forall x st s v,
  PendInv x st -> is_pending v = false -> PendInv x (set_slot st s v).
Proof.
  intros x st s v H Hv s0 a Hx Hl. unfold set_slot in *. cbn in *.
  destruct (N.eq_dec s0 s) as [->|Hne].
  - rewrite lookup_set_assoc_same in Hl. inversion Hl; subst. discriminate.
  - rewrite lookup_set_assoc_other in Hl by exact Hne. apply (H s0 a Hx Hl).
Qed.

(* setting a slot at x itself repairs the exception *)
Lemma set_slot_at_x_inv : forall st s v,
  PendInv (Some s) st -> is_pending v = false -> PendInv None (set_slot st s v).
Proof.
  intros st s v H Hv s0 a _ Hl. unfold set_slot in *. cbn in *.
  destruct (N.eq_dec s0 s) as [->|Hne].
  - rewrite lookup_set_assoc_same in Hl. inversion Hl; subst. discriminate.
  - rewrite lookup_set_assoc_other in Hl by exact Hne. apply (H s0 a); [congruence | exact Hl].
Qed.

Lemma queue_load_inv : forall x st s range asset in_dyn root attr count,
  PendInv x st -> PendInv x (queue_load st s range asset in_dyn root attr count).
Proof.
  intros x st s range asset in_dyn root attr count H s0 a Hx Hl.
  unfold queue_load, set_slot in *. cbn in *.
  rewrite map_app, in_app_iff. cbn [map pi_spec In].
  destruct (N.eq_dec s0 s) as [->|Hne]; [right; left; reflexivity|].
  rewrite lookup_set_assoc_other in Hl by exact Hne. left. apply (H s0 a Hx Hl).
Qed.

Lemma load_inv : forall W o x st spec0 range asset in_dyn root attr count,
  PendInv x st -> PendInv x (load W o st spec0 range asset in_dyn root attr count).
Proof.
  intros W o x st spec0 range asset in_dyn root attr count H. unfold load.
  set (s := load_target st spec0).
  destruct (sp_reject W s asset attr).
  { apply set_slot_nonpending_inv; [exact H | reflexivity]. }
  destruct (attr_reject o asset attr).
  { apply set_slot_nonpending_inv; [exact H | reflexivity]. }
  assert (Hproceed : PendInv x
    match class_of W s with
    | SNode => (set_slot st s (BMod (node_module s))) <| st_has_node := true |>
    | SPass => set_slot st s (BExternal false)
    | SNpm r => st <| st_npm := st_npm st ++ [{| ni_spec := s; ni_req := r; ni_range := range; ni_dyn := in_dyn |}] |>
    | SBad => set_slot st s (BErr (BBadSpecifier s range))
    | SUrl => queue_load st s range asset in_dyn root attr count
    end).
  { destruct (class_of W s).
    - apply queue_load_inv. exact H.
    - eapply PendInv_ext; [| |apply (set_slot_nonpending_inv x st s (BMod (node_module s)) H eq_refl)]; reflexivity.
    - apply set_slot_nonpending_inv; [exact H | reflexivity].
    - apply set_slot_nonpending_inv; [exact H | reflexivity].
    - eapply PendInv_ext; [| |exact H]; reflexivity. }
  assert (Hproceed' : PendInv x
    (if has_key s (st_redirects st) then set_slot st s (BErr (BLoad s range 1))
     else match class_of W s with
          | SNode => (set_slot st s (BMod (node_module s))) <| st_has_node := true |>
          | SPass => set_slot st s (BExternal false)
          | SNpm r => st <| st_npm := st_npm st ++ [{| ni_spec := s; ni_req := r; ni_range := range; ni_dyn := in_dyn |}] |>
          | SBad => set_slot st s (BErr (BBadSpecifier s range))
          | SUrl => queue_load st s range asset in_dyn root attr count
          end)).
  { destruct (has_key s (st_redirects st)); [apply set_slot_nonpending_inv; [exact H | reflexivity] | exact Hproceed]. }
  clear Hproceed. rename Hproceed' into Hproceed.
  destruct (lookup s (st_slots st)) as [sl|]; [|exact Hproceed].
  destruct (match sl with BExternal true => negb asset | _ => false end); [exact Hproceed|].
  destruct (match sl with BPending true => negb asset | _ => false end); [|exact H].
  eapply PendInv_ext; [| |exact H]; reflexivity.
Qed.

Lemma check_specifier_inv : forall st requested s,
  PendInv (Some requested) st -> requested <> s ->
  PendInv None (check_specifier st requested s).
Proof.
  intros st requested s H Hne s0 a _ Hl. unfold check_specifier in *.
  apply N.eqb_neq in Hne. rewrite Hne in Hl |- *. cbn in *.
  destruct (N.eq_dec s0 requested) as [->|Hne0].
  - destruct (lookup requested (st_slots st)) as [[m|b|e|b]|] eqn:E; try congruence.
    rewrite lookup_remove_assoc_same in Hl. discriminate.
  - apply (H s0 a); [congruence|].
    destruct (lookup requested (st_slots st)) as [[m|b|e|b]|]; try exact Hl.
    rewrite lookup_remove_assoc_other in Hl by exact Hne0. exact Hl.
Qed.

Lemma check_specifier_same : forall st s, check_specifier st s s = st.
Proof. intros st s. unfold check_specifier. rewrite N.eqb_refl. reflexivity. Qed.

Lemma add_resolved_root_inv : forall x st s, PendInv x st -> PendInv x (add_resolved_root st s).
Proof. intros x st s H. eapply PendInv_ext; [| |exact H]; reflexivity. Qed.

Lemma record_checksum_inv : forall W x st final media wm,
  PendInv x st -> PendInv x (record_checksum W st final media wm).
Proof.
  intros W x st final media wm H. unfold record_checksum.
  destruct (st_lock st) as [l|]; [|exact H].
  destruct (negb (is_declaration media) && mem final (w_http W) && negb (has_key final l)); [|exact H].
  eapply PendInv_ext; [| |exact H]; reflexivity.
Qed.

Lemma visit_dep_inv : forall W o x st da st' d',
  PendInv x st -> visit_dep W o st da = (st', d') -> PendInv x st'.
Proof.
  intros W o x st [d [asset sp]] st' d' H Hv. unfold visit_dep in Hv. cbn [fst snd] in Hv.
  destruct (d_dyn d && bo_skip_dynamic o); [inversion Hv; subst; exact H|].
  inversion Hv; subst; clear Hv.
  set (st1 := if include_code (bo_kind o) || is_rnone (d_type d)
              then match d_code d with
                   | ROk t range =>
                       if d_dyn d && negb (st_in_dyn st) then _ else _
                   | _ => st end
              else st).
  assert (H1 : PendInv x st1).
  { unfold st1. destruct (include_code (bo_kind o) || is_rnone (d_type d)); [|exact H].
    destruct (d_code d) as [|t range|e]; try exact H.
    destruct (d_dyn d && negb (st_in_dyn st)).
    - eapply PendInv_ext; [| |exact H]; reflexivity.
    - apply load_inv. exact H. }
  destruct (include_types (bo_kind o)); [|exact H1].
  destruct (d_type d) as [|t range|e]; try exact H1.
  destruct (d_dyn d && negb (st_in_dyn st1)).
  - eapply PendInv_ext; [| |exact H1]; reflexivity.
  - apply load_inv. exact H1.
Qed.

Lemma visit_deps_inv : forall W o x ds st st' ds',
  PendInv x st -> visit_deps W o st ds = (st', ds') -> PendInv x st'.
Proof.
  intros W o x ds. induction ds as [|da ds IH]; intros st st' ds' H Hv; cbn [visit_deps] in Hv.
  - inversion Hv; subst. exact H.
  - destruct (visit_dep W o st da) as [st1 d1] eqn:E1.
    destruct (visit_deps W o st1 ds) as [st2 rest] eqn:E2.
    inversion Hv; subst. eapply IH; [|exact E2]. eapply visit_dep_inv; eassumption.
Qed.

Lemma load_types_dep_inv : forall W o x st tdep, PendInv x st -> PendInv x (load_types_dep W o st tdep).
Proof.
  intros W o x st tdep H. unfold load_types_dep.
  destruct (include_types (bo_kind o)); [|exact H].
  destruct tdep as [td|]; [|exact H]. destruct (td_res td); try exact H. apply load_inv. exact H.
Qed.

Lemma visit_module_inv : forall W o x st final wm,
  PendInv x st -> PendInv x (fst (visit_module W o st final wm)).
Proof.
  intros W o x st final wm H. unfold visit_module.
  assert (Hd : PendInv x (fst (visit_deps W o st (wm_deps wm)))).
  { destruct (visit_deps W o st (wm_deps wm)) as [st1 ds] eqn:E. cbn [fst].
    eapply visit_deps_inv; eassumption. }
  assert (Hj : PendInv x (load_types_dep W o
                 (fst (if follow_deps o wm then visit_deps W o st (wm_deps wm) else (st, []))) (wm_tdep wm))).
  { apply load_types_dep_inv. destruct (follow_deps o wm); [exact Hd | exact H]. }
  destruct (wm_kind wm); cbn [fst]; assumption.
Qed.

Lemma try_load_redirect_ne : forall W it to calls,
  try_load W it = (PRedirect to, calls) -> pi_spec it <> to.
Proof.
  intros W it to calls H. unfold try_load in H.
  destruct (loader_call W (pi_spec it) false (pi_checksum it)) as [[| |to'|f|f wm']|].
  - inversion H.
  - inversion H.
  - destruct (pi_checksum it); [inversion H|].
    destruct (Nat.leb (w_max_redirects W) (pi_count it) || N.eqb to' (pi_spec it)) eqn:E; [inversion H|].
    inversion H; subst. apply orb_false_iff in E. destruct E as [_ E]. apply N.eqb_neq in E. congruence.
  - destruct (pi_asset it); inversion H.
  - destruct (pi_asset it); [inversion H|]. unfold module_result in H.
    destruct (accept W f wm' (pi_attr it) (pi_range it) (pi_root it) (pi_dyn it)); inversion H.
  - destruct (loader_call W (pi_spec it) true (pi_checksum it)) as [[| |to'|f|f wm']|]; try (inversion H; fail).
    + destruct (pi_asset it); inversion H.
    + destruct (pi_asset it); [inversion H|]. unfold module_result in H.
      destruct (accept W f wm' (pi_attr it) (pi_range it) (pi_root it) (pi_dyn it)); inversion H.
Qed.

(* processing the completed load of [it] (already removed from the queue)
   re-establishes the invariant without exception *)
Lemma process_inv : forall W o st it,
  PendInv (Some (pi_spec it)) st -> PendInv None (process W o st it).
Proof.
  intros W o st it H. unfold process.
  destruct (try_load W it) as [res calls] eqn:Et.
  set (st0 := st <| st_calls := rev calls ++ st_calls st |>).
  assert (HL : PendInv (Some (pi_spec it)) st0).
  { eapply PendInv_ext; [| |exact H]; reflexivity. }
  destruct res as [e|to|final wa|final wm|final wm].
  - (* error *)
    destruct (N.eq_dec (pi_spec it) (berr_spec e)) as [Heq|Hne].
    + rewrite <- Heq. rewrite check_specifier_same. apply set_slot_at_x_inv; [exact HL | reflexivity].
    + apply set_slot_nonpending_inv; [|reflexivity]. apply check_specifier_inv; assumption.
  - (* redirect: try_load guarantees to <> requested *)
    pose proof (try_load_redirect_ne _ _ _ _ Et) as Hne.
    apply load_inv. apply check_specifier_inv; assumption.
  - (* external *)
    destruct (N.eq_dec (pi_spec it) final) as [Heq|Hne].
    + rewrite <- Heq. rewrite check_specifier_same.
      set (st2 := if pi_root it then add_resolved_root st0 (pi_spec it) else st0).
      assert (H2 : PendInv (Some (pi_spec it)) st2).
      { unfold st2. destruct (pi_root it); [apply add_resolved_root_inv|]; exact HL. }
      destruct (lookup (pi_spec it) (st_slots st2)) as [[m|b|e|b]|] eqn:El.
      * intros s0 a _ Hl. destruct (N.eq_dec s0 (pi_spec it)) as [->|Hn]; [congruence|].
        apply (H2 s0 a); [congruence | exact Hl].
      * intros s0 a _ Hl. destruct (N.eq_dec s0 (pi_spec it)) as [->|Hn]; [congruence|].
        apply (H2 s0 a); [congruence | exact Hl].
      * intros s0 a _ Hl. destruct (N.eq_dec s0 (pi_spec it)) as [->|Hn]; [congruence|].
        apply (H2 s0 a); [congruence | exact Hl].
      * apply set_slot_at_x_inv; [exact H2 | reflexivity].
      * apply set_slot_at_x_inv; [exact H2 | reflexivity].
    + set (st1 := check_specifier st0 (pi_spec it) final).
      assert (H1 : PendInv None st1) by (apply check_specifier_inv; assumption).
      set (st2 := if pi_root it then add_resolved_root st1 final else st1).
      assert (H2 : PendInv None st2).
      { unfold st2. destruct (pi_root it); [apply add_resolved_root_inv|]; exact H1. }
      destruct (lookup final (st_slots st2)) as [[m|b|e|b]|]; try exact H2;
        apply set_slot_nonpending_inv; try exact H2; reflexivity.
  - (* json *)
    destruct (N.eq_dec (pi_spec it) final) as [Heq|Hne].
    + rewrite <- Heq. rewrite check_specifier_same.
      apply set_slot_at_x_inv; [|reflexivity]. apply record_checksum_inv.
      destruct (pi_root it); [apply add_resolved_root_inv|]; exact HL.
    + apply set_slot_nonpending_inv; [|reflexivity]. apply record_checksum_inv.
      destruct (pi_root it); [apply add_resolved_root_inv|]; apply check_specifier_inv; assumption.
  - (* code module *)
    destruct (N.eq_dec (pi_spec it) final) as [Heq|Hne].
    + rewrite <- Heq. rewrite check_specifier_same.
      apply set_slot_at_x_inv; [|reflexivity]. apply visit_module_inv. apply record_checksum_inv.
      destruct (pi_root it); [apply add_resolved_root_inv|]; exact HL.
    + apply set_slot_nonpending_inv; [|reflexivity]. apply visit_module_inv. apply record_checksum_inv.
      destruct (pi_root it); [apply add_resolved_root_inv|]; apply check_specifier_inv; assumption.
Qed.

Lemma load_branches_inv : forall W o bs st, PendInv None st -> PendInv None (load_branches W o st bs).
Proof.
  intros W o bs. induction bs as [|[s b] bs IH]; intros st H; cbn [load_branches]; [exact H|].
  apply IH. apply load_inv. exact H.
Qed.

Lemma load_deferred_inv : forall W o ds st, PendInv None st -> PendInv None (load_deferred W o st ds).
Proof.
  intros W o ds. induction ds as [|[s d] ds IH]; intros st H; cbn [load_deferred]; [exact H|].
  apply IH. apply load_inv. exact H.
Qed.

Lemma loop_step_inv : forall W o st, PendInv None st -> PendInv None (loop_step W o st).
Proof.
  intros W o st H. unfold loop_step.
  set (st1 := match st_pending st with
              | it :: rest => process W o _ it
              | [] => st end).
  assert (H1 : PendInv None st1).
  { unfold st1. destruct (st_pending st) as [|it rest] eqn:Ep; [exact H|].
    apply process_inv. intros s0 a Hx Hl. cbn in *.
    specialize (H s0 a). rewrite Ep in H. cbn [map In] in H.
    destruct (H ltac:(discriminate) Hl) as [Heq|Hin]; [congruence | exact Hin]. }
  destruct (st_pending st1) as [|i r] eqn:Ep1; [|exact H1].
  destruct (st_deferred st1) as [|d ds].
  - destruct (st_in_dyn st1); [exact H1|]. apply load_branches_inv.
    eapply PendInv_ext; [| |exact H1]; reflexivity.
  - apply load_deferred_inv. eapply PendInv_ext; [| |exact H1]; reflexivity.
Qed.

Lemma resolve_pending_inv : forall fuel W o st st',
  PendInv None st -> resolve_pending fuel W o st = Some st' ->
  PendInv None st' /\ st_pending st' = [].
Proof.
  induction fuel as [|f IH]; intros W o st st' H HR; cbn [resolve_pending] in HR.
  - destruct (idle st) eqn:Ei; [|discriminate]. inversion HR; subst. split; [exact H|].
    unfold idle in Ei. destruct (st_pending st'); [reflexivity | discriminate].
  - destruct (idle st) eqn:Ei.
    + inversion HR; subst. split; [exact H|].
      unfold idle in Ei. destruct (st_pending st'); [reflexivity | discriminate].
    + eapply IH; [|exact HR]. apply loop_step_inv. exact H.
Qed.

Lemma load_roots_inv : forall W o roots st, PendInv None st -> PendInv None (load_roots W o st roots).
Proof.
  intros W o roots. induction roots as [|r rs IH]; intros st H; cbn [load_roots]; [exact H|].
  apply IH. apply load_inv. exact H.
Qed.

Lemma load_import_deps_inv : forall W o ds st, PendInv None st -> PendInv None (load_import_deps W o st ds).
Proof.
  intros W o ds. induction ds as [|d ds IH]; intros st H; cbn [load_import_deps]; [exact H|].
  apply IH. destruct (d_type d); try exact H. apply load_inv. exact H.
Qed.

Lemma load_imports_inv : forall W o imps st, PendInv None st -> PendInv None (load_imports W o st imps).
Proof.
  intros W o imps. induction imps as [|[r ds] rest IH]; intros st H; cbn [load_imports]; [exact H|].
  apply IH. apply load_import_deps_inv. exact H.
Qed.

Definition no_pending (slots : list (spec * bslot)) : Prop :=
  forall s a, lookup s slots <> Some (BPending a).

Lemma init_state_inv : forall W o g, no_pending (bg_slots g) -> PendInv None (init_state W o g).
Proof. intros W o g Hg s a _ Hl. cbn in Hl. exfalso. exact (Hg s a Hl). Qed.


(* ---------- the npm stage only adds finished entries ---------- *)
Lemma in_set_assoc : forall {V} k (v : V) l k0 v0,
  In (k0, v0) (set_assoc k v l) -> (k0 = k /\ v0 = v) \/ In (k0, v0) l.
Proof.
  intros V k v l. induction l as [|[k' v'] l IH]; intros k0 v0 H; cbn [set_assoc] in H.
  - destruct H as [H|[]]. inversion H. left. split; reflexivity.
  - destruct (N.eqb k k').
    + destruct H as [H|H]; [inversion H; left; split; reflexivity | right; right; exact H].
    + destruct H as [H|H]; [right; left; exact H|]. apply IH in H. destruct H as [H|H]; [left; exact H | right; right; exact H].
Qed.

Definition npm_shape (v : bslot) : Prop := (exists s, v = BMod (npm_module s)) \/ (exists s r k, v = BErr (BNpm s r k)).

Lemma npm_main_shape : forall ans items s v, In (s, v) (npm_main ans items) -> npm_shape v.
Proof.
  intros ans items. unfold npm_main.
  assert (G : forall reqs acc, (forall s v, In (s, v) acc -> npm_shape v) ->
              forall s v, In (s, v) (fold_left (fun acc r => fold_left (fun acc it =>
                 if N.eqb (ni_req it) r
                 then set_assoc (ni_spec it) (if N.eqb (npm_code ans r) 1 then BErr (BNpm (ni_spec it) (ni_range it) 0)
                                              else BMod (npm_module (ni_spec it))) acc
                 else acc) items acc) reqs acc) -> npm_shape v).
  { induction reqs as [|r reqs IH]; intros acc Ha; cbn [fold_left]; [exact Ha|].
    apply IH. clear IH. revert acc Ha. induction items as [|it items IHi]; intros acc Ha; cbn [fold_left]; [exact Ha|].
    apply IHi. destruct (N.eqb (ni_req it) r); [|exact Ha].
    intros s v Hin. apply in_set_assoc in Hin. destruct Hin as [[_ ->]|Hin]; [|apply (Ha s v Hin)].
    destruct (N.eqb (npm_code ans r) 1); [right; eexists _, _, _; reflexivity | left; eexists; reflexivity]. }
  apply G. intros s v [].
Qed.

Lemma npm_dynamic_shape : forall ans items acc,
  (forall s v, In (s, v) acc -> npm_shape v) -> forall s v, In (s, v) (npm_dynamic ans items acc) -> npm_shape v.
Proof.
  intros ans items. unfold npm_dynamic. induction items as [|it items IH]; intros acc Ha; cbn [fold_left]; [exact Ha|].
  apply IH. intros s v Hin. apply in_set_assoc in Hin. destruct Hin as [[_ ->]|Hin]; [|apply (Ha s v Hin)].
  destruct (npm_code ans (ni_req it)) as [|[p|p|]]; try (left; eexists; reflexivity);
    try destruct p; try (left; eexists; reflexivity); right; eexists _, _, _; reflexivity.
Qed.

Lemma npm_resolve_shape : forall W items s v, In (s, v) (no_slots (npm_resolve W items)) -> npm_shape v.
Proof.
  intros W items s v. unfold npm_resolve. destruct (w_npm W) as [ans|]; cbn [no_slots]; [|intros []].
  apply npm_dynamic_shape. intros s0 v0.
  destruct (match filter (fun it => negb (ni_dyn it)) items, filter ni_dyn items with [], _ :: _ => false | _, _ => true end);
    [apply npm_main_shape | intros []].
Qed.

Lemma npm_fill_lookup : forall new slots s v,
  lookup s (npm_fill slots new) = Some v -> lookup s slots = Some v \/ In (s, v) new.
Proof.
  unfold npm_fill. induction new as [|[k x] new IH]; intros slots s v H; cbn [fold_left] in H; [left; exact H|].
  apply IH in H. destruct H as [H|H]; [|right; right; exact H]. cbn [fst snd] in H.
  unfold or_insert in H. destruct (lookup k slots) eqn:Ek; [left; exact H|].
  destruct (N.eq_dec s k) as [->|Hne].
  - right. left. f_equal. clear -H Ek. induction slots as [|[a b] slots IHs]; cbn [app lookup] in *.
    + rewrite N.eqb_refl in H. inversion H. reflexivity.
    + destruct (N.eqb k a); [discriminate | apply IHs; assumption].
  - left. clear -H Hne. induction slots as [|[a b] slots IHs]; cbn [app lookup] in *.
    + destruct (N.eqb s k) eqn:E; [apply N.eqb_eq in E; contradiction | discriminate].
    + destruct (N.eqb s a); [exact H | apply IHs; exact H].
Qed.

Lemma npm_fill_keeps : forall new slots s v, lookup s slots = Some v -> lookup s (npm_fill slots new) = Some v.
Proof.
  unfold npm_fill. induction new as [|[k x] new IH]; intros slots s v H; cbn [fold_left]; [exact H|].
  apply IH. cbn [fst snd]. unfold or_insert. destruct (lookup k slots); [exact H|].
  clear -H. induction slots as [|[a b] slots IHs]; cbn [app lookup] in *; [discriminate|].
  destruct (N.eqb s a); [exact H | apply IHs; exact H].
Qed.

Lemma npm_fill_no_pending : forall W items slots,
  no_pending slots -> no_pending (npm_fill slots (no_slots (npm_resolve W items))).
Proof.
  intros W items slots H s a Hl. apply npm_fill_lookup in Hl. destruct Hl as [Hl|Hin]; [exact (H s a Hl)|].
  apply npm_resolve_shape in Hin. destruct Hin as [[s0 E]|[s0 [r [k E]]]]; discriminate.
Qed.

(* C03: a completed build leaves no entry unfinished *)
Theorem build_no_pending : forall W o g roots imports g',
  no_pending (bg_slots g) -> build W o g roots imports = Some g' -> no_pending (bg_slots g').
Proof.
  intros W o g roots imports g' Hg Hb. unfold build in Hb.
  match type of Hb with context [resolve_pending ?f W o ?st] => set (fuel := f) in *; set (st2 := st) in * end.
  destruct (resolve_pending fuel W o st2) as [st|] eqn:HR; [|discriminate].
  inversion Hb; subst; clear Hb. cbn [bg_slots finish].
  assert (H2 : PendInv None st2).
  { unfold st2. apply load_imports_inv. apply load_roots_inv. apply init_state_inv. exact Hg. }
  destruct (resolve_pending_inv _ _ _ _ _ H2 HR) as [Hinv Hp].
  apply npm_fill_no_pending.
  intros s a Hl. specialize (Hinv s a ltac:(discriminate) Hl). rewrite Hp in Hinv. exact Hinv.
Qed.

(* ... and so does a reload *)
Lemma reload_specs_inv : forall W o specs st, PendInv None st -> PendInv None (reload_specs W o st specs).
Proof.
  intros W o specs. induction specs as [|s rest IH]; intros st H; cbn [reload_specs]; [exact H|].
  apply IH. apply load_inv.
  intros s0 a Hx Hl. cbn in *.
  destruct (N.eq_dec s0 s) as [->|Hne]; [rewrite lookup_remove_assoc_same in Hl; discriminate|].
  rewrite lookup_remove_assoc_other in Hl by exact Hne. exact (H s0 a Hx Hl).
Qed.

Theorem reload_no_pending : forall W o g specs g',
  no_pending (bg_slots g) -> reload W o g specs = Some g' -> no_pending (bg_slots g').
Proof.
  intros W o g specs g' Hg Hb. unfold reload in Hb.
  match type of Hb with context [resolve_pending ?f W o ?st] => set (fuel := f) in *; set (st1 := st) in * end.
  destruct (resolve_pending fuel W o st1) as [st|] eqn:HR; [|discriminate].
  inversion Hb; subst; clear Hb. cbn [bg_slots finish].
  assert (H1 : PendInv None st1).
  { unfold st1. apply reload_specs_inv. apply init_state_inv. exact Hg. }
  destruct (resolve_pending_inv _ _ _ _ _ H1 HR) as [Hinv Hp].
  apply npm_fill_no_pending.
  intros s a Hl. specialize (Hinv s a ltac:(discriminate) Hl). rewrite Hp in Hinv. exact Hinv.
Qed.

Lemma resolve_pending_idle : forall fuel W o st, idle st = true -> resolve_pending fuel W o st = Some st.
Proof. intros fuel W o st H. destruct fuel; cbn [resolve_pending]; rewrite H; reflexivity. Qed.

(* C19: building again with roots and imports the graph already has changes nothing *)
Theorem build_known_roots_identity : forall W o g roots imports,
  (forall r, In r roots -> In r (bg_roots g)) ->
  (forall p, In p imports -> has_key (fst p) (bg_imports g) = true) ->
  build W o g roots imports =
    Some {| bg_kind := bg_kind g; bg_roots := bg_roots g; bg_slots := bg_slots g;
            bg_redirects := bg_redirects g; bg_imports := bg_imports g; bg_has_node := bg_has_node g;
            bg_calls := []; bg_lock_sets := [];
            (* with an npm resolver the builder asks it to resolve the empty set of requirements
               ("unconditionally do an npm install") and takes its answer for the dependency graph *)
            bg_npm_calls := match w_npm W with Some _ => [[]] | None => [] end;
            bg_npm_dep_ok := match w_npm W with Some _ => true | None => bg_npm_dep_ok g end |}.
Proof.
  intros W o g roots imports Hr Hi. unfold build.
  assert (E1 : filter (fun r => negb (mem r (bg_roots g))) roots = []).
  { induction roots as [|r rs IH]; [reflexivity|]. cbn [filter].
    assert (Hm : mem r (bg_roots g) = true) by (apply mem_In; apply Hr; left; reflexivity).
    rewrite Hm. cbn [negb]. apply IH. intros r' H'. apply Hr. right; exact H'. }
  assert (E2 : filter (fun p : spec * list dep => negb (has_key (fst p) (bg_imports g))) imports = []).
  { unfold spec in *. induction imports as [|p ps IH]; [reflexivity|]. cbn [filter].
    rewrite (Hi p (or_introl eq_refl)). cbn [negb]. apply IH. intros p' H'. apply Hi. right; exact H'. }
  unfold spec in *. rewrite E1, E2. cbn [dedup_keep_first dedup_keep_first_aux load_roots load_imports].
  rewrite resolve_pending_idle by reflexivity. rewrite !app_nil_r.
  unfold finish, npm_resolve. cbn [init_state st_npm st_slots st_redirects st_has_node st_calls st_lock_sets]. destruct (w_npm W) eqn:E; reflexivity.
Qed.
