(* C06, registry stage: every jsr: specifier the build resolved (it has a
   redirect) has its requirement mapped to a version that is not below any
   lockfile-seeded version of that package that satisfies the requirement.
   This is the statement the C06 judgement of the registry stream evaluates
   (RunJsr.c06_judgement); with it the judgement is a theorem of the model. *)
From Coq Require Import Arith.
From RecordUpdate Require Import RecordSet.
Import RecordSetNotations.
From DG Require Import Base.Util Base.Sexp Model.Graph Model.Builder Proofs.BuilderProofs Proofs.ChecksumProofs
  Proofs.ClosureProofs Model.Jsr Proofs.JsrProofs Proofs.JsrTable Model.RunJsr.

Section S.
Variable W : jworld.
Hypothesis Hwf : wf_jworld W = true.

(* the mapping of requirement [r] is not below the satisfying seeds of its package *)
Definition GEm (m : list (N * nv)) (r : N) : Prop :=
  exists p v, lookup r m = Some (p, v) /\
    forall x, In x (seeded_versions W p) -> matches W r x = true -> (x <= v)%N.

Definition SeedBN (l : list nv) : Prop := forall r p v, In (r, (p, v)) (jw_seed W) -> In (p, v) l.

Definition RInv (st : jstate) : Prop :=
  SeedBN (pt_by_name (js_pkgs st)) /\
  forall s t p r e, lookup s (js_redirects st) = Some t -> cls_of W s = CJsr p r e -> GEm (pt_map (js_pkgs st)) r.

Lemma rinv_ext : forall st st',
  js_redirects st' = js_redirects st -> pt_map (js_pkgs st') = pt_map (js_pkgs st) ->
  pt_by_name (js_pkgs st') = pt_by_name (js_pkgs st) -> RInv st -> RInv st'.
Proof. intros st st' H1 H2 H3 [A B]. unfold RInv. rewrite H1, H2, H3. split; assumption. Qed.

Ltac rext H := (eapply rinv_ext; [| | |exact H]; reflexivity).

Lemma rinv_mark : forall st req r, RInv st -> RInv (mark_jsr_dep st req r).
Proof. intros st req r H. unfold mark_jsr_dep. destruct r as [[rg [v|]]|]; first [exact H | rext H]. Qed.
Lemma rinv_queue_pkg : forall st p, RInv st -> RInv (queue_pkg W st p).
Proof. intros st p H. unfold queue_pkg. destruct (mem p (js_pq st)); [exact H | rext H]. Qed.
Lemma rinv_queue_ver : forall st v, RInv st -> RInv (queue_ver W st v).
Proof. intros st v H. unfold queue_ver. destruct (existsb _ (js_vq st)); [exact H | rext H]. Qed.
Lemma rinv_lock_set : forall st v c, RInv st -> RInv (lock_set_pkg st v c).
Proof. intros st v c H. unfold lock_set_pkg. destruct (js_lock_pkg st); [|exact H]. destruct c; [rext H | exact H]. Qed.
Lemma rinv_record_remote : forall st f d src, RInv st -> RInv (record_remote W st f d src).
Proof.
  intros st f d src H. unfold record_remote. destruct (js_lock_pkg st); [|exact H].
  destruct (negb d && mem f (jw_http W) && negb (has_key f (js_lock_remote st))); [rext H | exact H].
Qed.

Definition NotJsr (s : spec) : Prop := forall p r e, cls_of W s <> CJsr p r e.

Lemma lookup_or_insert_inv : forall {V} k (v : V) l k0 v0,
  lookup k0 (or_insert k v l) = Some v0 -> k0 = k \/ lookup k0 l = Some v0.
Proof.
  intros V k v l k0 v0 H. destruct (N.eq_dec k0 k) as [->|Hne]; [left; reflexivity|]. right.
  unfold or_insert in H. destruct (lookup k l); [exact H|].
  induction l as [|[a b] l IH]; cbn [app lookup] in *.
  - destruct (N.eqb k0 k) eqn:E; [apply N.eqb_eq in E; contradiction | discriminate].
  - destruct (N.eqb k0 a); [exact H | apply IH; exact H].
Qed.

Lemma rinv_check_specifier : forall st req s, RInv st -> NotJsr req -> RInv (check_specifier st req s).
Proof.
  intros st req s [A B] Hn. unfold check_specifier. destruct (N.eqb req s); [split; assumption|].
  split; [exact A|]. cbn. intros s0 t p r e Hl Hc. apply lookup_or_insert_inv in Hl.
  destruct Hl as [->|Hl]; [exfalso; apply (Hn p r e Hc) | apply (B s0 t p r e Hl Hc)].
Qed.

Lemma load_rinv : forall st spec0 rng dyn root vinfo count,
  RInv st -> RInv (load W st spec0 rng dyn root vinfo count).
Proof.
  intros st spec0 rng dyn root vinfo count H. unfold load.
  set (s := load_target st spec0).
  destruct (lookup s (js_slots st)) as [sl|].
  { destruct (cls_of W spec0); try exact H. apply rinv_mark. exact H. }
  assert (Hby : RInv
    match cls_of W s with
    | CJsr pkg req exp =>
        (queue_pkg W (mark_jsr_dep st req rng) pkg)
          <| js_res := js_res (queue_pkg W (mark_jsr_dep st req rng) pkg) ++
               [{| jr_spec := s; jr_pkg := pkg; jr_req := req; jr_exp := exp; jr_rng := rng; jr_dyn := dyn; jr_root := root |}] |>
    | CJsrBad => set_err st s EPackageFormat s rng
    | CFile p v _ =>
        push_item (queue_ver W st (p, v))
          {| ji_spec := s; ji_rng := rng; ji_count := count; ji_dyn := dyn; ji_root := root; ji_probe := None;
             ji_checksum := lock_remote_get st s; ji_vinfo := None; ji_fetch := Some (p, v) |}
    | CPlain =>
        push_item st
          {| ji_spec := s; ji_rng := rng; ji_count := count; ji_dyn := dyn; ji_root := root; ji_probe := None;
             ji_checksum := lock_remote_get st s; ji_vinfo := None; ji_fetch := None |}
    end).
  { destruct (cls_of W s) as [pkg req exp| |p v pa|].
    - pose proof (rinv_queue_pkg _ pkg (rinv_mark st req rng H)) as H1. rext H1.
    - rext H.
    - pose proof (rinv_queue_ver st (p, v) H) as H1. rext H1.
    - rext H. }
  destruct (has_key s (js_redirects st)); [rext H|].
  destruct vinfo as [[vp vv]|]; [|exact Hby].
  destruct (cls_of W s) as [pkg req exp| |p v pa|]; try exact Hby.
  destruct (N.eqb vp p && N.eqb vv v); [|exact Hby].
  destruct (vinfo_of W st (p, v)) as [vi|]; [|exact Hby].
  destruct (get_checksum W vi pa) as [c|]; [|rext H].
  destruct (lookup pa (vi_modinfo vi)) as [mi|]; rext H.
Qed.

Lemma visit_deps_rinv : forall referrer vinfo ds st, RInv st -> RInv (visit_deps W st referrer vinfo ds).
Proof.
  intros referrer vinfo ds. induction ds as [|d ds IH]; intros st H; cbn [visit_deps]; [exact H|].
  apply IH. unfold visit_dep. destruct (jd_dyn d && negb (js_in_dyn st)); [rext H | apply load_rinv; exact H].
Qed.

Lemma item_not_jsr : forall it, ItemOK W it -> NotJsr (ji_spec it).
Proof. intros it Hi p r e Hc. unfold ItemOK in Hi. rewrite Hc in Hi. exact Hi. Qed.

Lemma process_rinv : forall st it, RInv st -> ItemOK W it -> RInv (process W st it).
Proof.
  intros st it H Hi. pose proof (item_not_jsr it Hi) as Hn. unfold process.
  destruct (try_load W st it) as [res calls vinfo https]. cbn [t_res t_calls t_vinfo t_https].
  set (st1 := st <| js_calls := rev calls ++ js_calls st |>).
  set (st2 := match https with
              | Some (v, cfl) => (lock_set_pkg st1 v cfl) <| js_pkgs := ensure_package (js_pkgs (lock_set_pkg st1 v cfl)) v |>
              | None => st1 end).
  assert (H2 : RInv st2).
  { unfold st2. destruct https as [[v cfl]|]; [|rext H].
    assert (H1 : RInv st1) by rext H. pose proof (rinv_lock_set st1 v cfl H1) as H1'. rext H1'. }
  clearbody st2. clear st1 H.
  destruct res as [e|to|final|final src decl deps content].
  - pose proof (rinv_check_specifier st2 (ji_spec it) (je_spec e) H2 Hn) as H3. rext H3.
  - apply load_rinv. apply rinv_check_specifier; assumption.
  - pose proof (rinv_check_specifier st2 (ji_spec it) final H2 Hn) as H3.
    set (st3 := check_specifier st2 (ji_spec it) final) in *. clearbody st3.
    set (st4 := if ji_root it then add_resolved_root st3 final else st3).
    assert (H4 : RInv st4) by (unfold st4; destruct (ji_root it); [rext H3 | exact H3]). clearbody st4.
    destruct (lookup final (js_slots st4)) as [[s0 d0| |e0|]|]; try exact H4; rext H4.
  - pose proof (rinv_check_specifier st2 (ji_spec it) final H2 Hn) as H3.
    set (st3 := check_specifier st2 (ji_spec it) final) in *. clearbody st3.
    set (st4 := if ji_root it then add_resolved_root st3 final else st3).
    assert (H4 : RInv st4) by (unfold st4; destruct (ji_root it); [rext H3 | exact H3]). clearbody st4.
    set (st5 := match content with
                | Some c => (log_call st4 final 0 (Some c)) <| js_content := js_content st4 ++ [{| ci_spec := final; ci_rng := ji_rng it; ci_checksum := c |}] |>
                | None => match vinfo with None => record_remote W st4 final decl src | Some _ => st4 end end).
    assert (H5 : RInv st5).
    { unfold st5. destruct content; [rext H4|]. destruct vinfo; [exact H4 | apply rinv_record_remote; exact H4]. }
    clearbody st5.
    pose proof (visit_deps_rinv (file_nv W final) vinfo deps st5 H5) as H6. rext H6.
Qed.

Lemma probe_all_rinv : forall pkg cands st cached, RInv st -> RInv (fst (probe_all W st pkg cands cached)).
Proof.
  intros pkg cands. induction cands as [|v cands IH]; intros st cached H; cbn [probe_all fst]; [exact H|].
  apply IH. rext H.
Qed.
Lemma probe_all_maps : forall pkg cands st cached,
  pt_map (js_pkgs (fst (probe_all W st pkg cands cached))) = pt_map (js_pkgs st).
Proof.
  intros pkg cands. induction cands as [|v cands IH]; intros st cached; cbn [probe_all fst]; [reflexivity|].
  rewrite IH. reflexivity.
Qed.

Lemma gem_set_assoc : forall m r req pv,
  GEm m r -> GEm (set_assoc req pv m) req -> GEm (set_assoc req pv m) r.
Proof.
  intros m r req pv H Hn. destruct (N.eq_dec r req) as [->|Hne]; [exact Hn|].
  destruct H as [p [v [Hl Hge]]]. exists p, v. split; [|exact Hge].
  rewrite lookup_set_assoc_other by exact Hne. exact Hl.
Qed.

(* what resolve_reqs hands to resolve_vers: well-classified items whose requirement is mapped above the seeds *)
Definition VOK (m : list (N * nv)) (x : vres) : Prop := ResOK W (vr_item x) /\ GEm m (jr_req (vr_item x)).

Lemma resolve_reqs_rinv : forall o items st memo acc,
  RInv st -> Forall (ResOK W) items -> Forall (VOK (pt_map (js_pkgs st))) acc ->
  RInv (fst (resolve_reqs W o st memo items acc)) /\
  match snd (resolve_reqs W o st memo items acc) with
  | Some vs => Forall (VOK (pt_map (js_pkgs (fst (resolve_reqs W o st memo items acc))))) vs
  | None => True
  end.
Proof.
  intros o items. induction items as [|it rest IH]; intros st memo acc H Hit Hacc; cbn [resolve_reqs].
  { cbn [fst snd]. split; assumption. }
  inversion Hit as [|? ? Hres Hrest]; subst.
  destruct (pmeta_of W st (jr_pkg it)) as [f|versions].
  { apply IH; [rext H | exact Hrest | exact Hacc]. }
  set (pr := if negb (jo_prefer_cached o) || unification_decides W st (jr_pkg it) (jr_req it)
             then (st, memo, []) else probe W st memo (jr_pkg it) (jr_req it) versions).
  assert (Hpr : RInv (fst (fst pr)) /\ pt_map (js_pkgs (fst (fst pr))) = pt_map (js_pkgs st)).
  { unfold pr. destruct (negb (jo_prefer_cached o) || unification_decides W st (jr_pkg it) (jr_req it)); [split; [exact H | reflexivity]|].
    unfold probe. destruct (match lookup (jr_pkg it) memo with Some m => m | None => ([], []) end) as [probed cached].
    set (cands := map fst (filter _ versions)).
    pose proof (probe_all_rinv (jr_pkg it) cands st cached H) as Hp.
    pose proof (probe_all_maps (jr_pkg it) cands st cached) as Hm.
    destruct (probe_all W st (jr_pkg it) cands cached) as [st1 cached']. split; [exact Hp | exact Hm]. }
  destruct pr as [[st1 memo1] cached]. cbn [fst] in Hpr. destruct Hpr as [Hpr Hmap].
  destruct (resolve_version W (jr_req it) versions (versions_by_name (js_pkgs st1) (jr_pkg it)) cached (late_of W (jr_pkg it))) as [[v yanked]|] eqn:Er.
  - destruct Hpr as [A B].
    assert (Hnew : GEm (set_assoc (jr_req it) (jr_pkg it, v) (pt_map (js_pkgs st1))) (jr_req it)).
    { exists (jr_pkg it), v. split; [apply lookup_set_assoc_same|]. intros x Hx Hm.
      apply (resolve_version_ge W _ _ _ _ _ _ _ Er x (seeded_by_name W _ _ _ A Hx) Hm). }
    set (t2 := if yanked then (js_pkgs st1) <| pt_yanked := add2 (jr_pkg it, v) (pt_yanked (js_pkgs st1)) |> else js_pkgs st1).
    set (st2 := queue_ver W (st1 <| js_pkgs := add_nv t2 (jr_req it) (jr_pkg it, v) |>) (jr_pkg it, v)).
    assert (Hm2 : pt_map (js_pkgs st2) = set_assoc (jr_req it) (jr_pkg it, v) (pt_map (js_pkgs st1))).
    { unfold st2, queue_ver, t2. destruct (existsb _ _); destruct yanked; reflexivity. }
    assert (Hb2 : pt_by_name (js_pkgs st2) = add2 (jr_pkg it, v) (pt_by_name (js_pkgs st1))).
    { unfold st2, queue_ver, t2. destruct (existsb _ _); destruct yanked; reflexivity. }
    assert (Hr2 : js_redirects st2 = js_redirects st1).
    { unfold st2, queue_ver. destruct (existsb _ _); reflexivity. }
    assert (H2 : RInv st2).
    { split.
      - rewrite Hb2. intros r p0 v0 Hin. apply in_add2. apply (A r p0 v0 Hin).
      - rewrite Hr2, Hm2. intros s t p r e Hl Hc. apply gem_set_assoc; [apply (B s t p r e Hl Hc) | exact Hnew]. }
    apply IH; [exact H2 | exact Hrest|].
    apply Forall_app. split.
    + rewrite Hm2. eapply Forall_impl; [|exact Hacc]. intros x [Hx1 Hx2]. split; [exact Hx1|].
      apply gem_set_assoc; [rewrite Hmap; exact Hx2 | exact Hnew].
    + constructor; [|constructor]. split; [exact Hres|]. cbn [vr_item]. rewrite Hm2. exact Hnew.
  - destruct (js_busting st1).
    + apply IH; [rext Hpr | exact Hrest|]. cbn. rewrite Hmap. exact Hacc.
    + cbn [fst snd]. split; [exact Hpr | exact I].
Qed.

Lemma resolve_vers_rinv : forall ct items st,
  RInv st -> Forall (VOK (pt_map (js_pkgs st))) items -> RInv (resolve_vers W ct st items).
Proof.
  intros ct items. induction items as [|x rest IH]; intros st H Hv; cbn [resolve_vers]; [exact H|].
  inversion Hv as [|? ? [Hres Hge] Hrest]; subst.
  assert (Hstep : forall st', RInv st' -> pt_map (js_pkgs st') = pt_map (js_pkgs st) -> RInv (resolve_vers W ct st' rest)).
  { intros st' H' Hm. apply IH; [exact H' | rewrite Hm; exact Hrest]. }
  destruct (ver_result W st (vr_nv x)) as [[vi cfl]|k] eqn:Ev; [|apply Hstep; [rext H | reflexivity]].
  set (st1 := st <| js_pkgs := ensure_package (js_pkgs st) (vr_nv x) |>).
  assert (H1 : RInv st1) by rext H.
  pose proof (rinv_lock_set st1 (vr_nv x) cfl H1) as H2.
  assert (Hm2 : pt_map (js_pkgs (lock_set_pkg st1 (vr_nv x) cfl)) = pt_map (js_pkgs st)).
  { unfold lock_set_pkg. destruct (js_lock_pkg st1); [|reflexivity]. destruct cfl; reflexivity. }
  set (st2 := lock_set_pkg st1 (vr_nv x) cfl) in *. clearbody st2.
  destruct (lookup (jr_exp (vr_item x)) (vi_exports vi)) as [target|] eqn:El; [|apply Hstep; [rext H2 | exact Hm2]].
  destruct target as [|p]; [apply Hstep; [rext H2 | exact Hm2]|].
  match goal with |- RInv (resolve_vers W ct (load W ?s4 _ _ _ _ _ _) rest) => set (st4 := s4) end.
  assert (H4 : RInv st4 /\ pt_map (js_pkgs st4) = pt_map (js_pkgs st)).
  { destruct H2 as [A B].
    assert (G : forall stx, js_redirects stx = set_assoc (jr_spec (vr_item x)) (N.pos p) (js_redirects st2) ->
                pt_map (js_pkgs stx) = pt_map (js_pkgs st2) -> pt_by_name (js_pkgs stx) = pt_by_name (js_pkgs st2) ->
                RInv stx /\ pt_map (js_pkgs stx) = pt_map (js_pkgs st)).
    { intros stx Hr Hm Hb. split; [|rewrite Hm; exact Hm2]. split; [rewrite Hb; exact A|].
      rewrite Hr, Hm. intros s t p0 r e Hl Hc. apply lookup_set_assoc_inv in Hl.
      destruct Hl as [[-> _]|Hl]; [|apply (B s t p0 r e Hl Hc)].
      unfold ResOK in Hres. rewrite Hres in Hc. inversion Hc; subst. rewrite Hm2. exact Hge. }
    unfold st4. destruct (jr_root (vr_item x)); destruct ct; apply G; reflexivity. }
  destruct H4 as [H4 Hm4]. clearbody st4.
  apply IH; [apply load_rinv; exact H4|].
  assert (Hml : forall st0 a b c d e f, pt_map (js_pkgs (load W st0 a b c d e f)) = pt_map (js_pkgs st0)).
  { intros st0 a b c d e f. unfold load. set (s := load_target st0 a).
    destruct (lookup s (js_slots st0)).
    { destruct (cls_of W a); try reflexivity. unfold mark_jsr_dep. destruct b as [[rg [v0|]]|]; reflexivity. }
    destruct (has_key s (js_redirects st0)); [reflexivity|].
    assert (Hq : forall st9 pk, pt_map (js_pkgs (queue_pkg W st9 pk)) = pt_map (js_pkgs st9))
      by (intros st9 pk; unfold queue_pkg; destruct (mem pk (js_pq st9)); reflexivity).
    assert (Hqv : forall st9 v9, pt_map (js_pkgs (queue_ver W st9 v9)) = pt_map (js_pkgs st9))
      by (intros st9 v9; unfold queue_ver; destruct (existsb _ (js_vq st9)); reflexivity).
    assert (Hmk : forall st9 r9 b9, pt_map (js_pkgs (mark_jsr_dep st9 r9 b9)) = pt_map (js_pkgs st9))
      by (intros st9 r9 b9; unfold mark_jsr_dep; destruct b9 as [[rg [v0|]]|]; reflexivity).
    destruct e as [[vp vv]|].
    2:{ destruct (cls_of W s); cbn; rewrite ?Hq, ?Hqv, ?Hmk; reflexivity. }
    destruct (cls_of W s) as [pkg req exp| |p9 v9 pa|]; cbn; rewrite ?Hq, ?Hqv, ?Hmk; try reflexivity.
    destruct (N.eqb vp p9 && N.eqb vv v9); cbn; rewrite ?Hqv; try reflexivity.
    destruct (vinfo_of W st0 (p9, v9)) as [vi0|]; cbn; rewrite ?Hqv; try reflexivity.
    destruct (get_checksum W vi0 pa) as [c0|]; [|reflexivity].
    destruct (lookup pa (vi_modinfo vi0)) as [mi|]; reflexivity. }
  rewrite Hml, Hm4. exact Hrest.
Qed.

Lemma load_branches_rinv : forall bs st, RInv st -> RInv (load_branches W st bs).
Proof.
  intros bs. induction bs as [|[s b] bs IH]; intros st H; cbn [load_branches]; [exact H|].
  apply IH. apply load_rinv. exact H.
Qed.

Lemma loop_step_rinv : forall o st,
  JInv W st -> RInv st -> match loop_step W o st with inl st' => RInv st' | inr _ => True end.
Proof.
  intros o st HJ H. unfold loop_step.
  set (st1 := match js_pending st with it :: rest => process W (st <| js_pending := rest |>) it | [] => st end).
  assert (H1 : RInv st1 /\ JInv W st1).
  { unfold st1. destruct (js_pending st) as [|it rest] eqn:Ep; [split; assumption|].
    pose proof (jv_items W st HJ) as Hi. rewrite Ep in Hi. inversion Hi as [|? ? Hit Hrest]; subst.
    split; [apply process_rinv; [rext H | exact Hit]|].
    apply (process_jinv W Hwf); [|exact Hit]. destruct HJ as [A B C D E F G K]. constructor; try assumption. }
  destruct H1 as [H1 HJ1]. clearbody st1.
  destruct (js_pending st1) as [|i1 r1]; [|exact H1].
  unfold resolve_jsr.
  pose proof (resolve_reqs_rinv o (js_res st1) (st1 <| js_res := [] |>) [] []) as Hr.
  destruct Hr as [Hr1 Hr2]; [rext H1 | exact (jv_res W st1 HJ1) | constructor|].
  destruct (resolve_reqs W o (st1 <| js_res := [] |>) [] (js_res st1) []) as [st2 [vs|]]; cbn [fst snd] in *; [|exact I].
  pose proof (resolve_vers_rinv (match pt_top (js_pkgs st1) with [] => true | _ => false end) vs st2 Hr1 Hr2) as H3.
  set (st3 := resolve_vers W _ st2 vs) in *. clearbody st3.
  destruct (js_pending st3); [|exact H3].
  destruct (js_in_dyn st3); [exact H3|].
  apply load_branches_rinv. rext H3.
Qed.

Lemma content_loads_redirects : forall st, js_redirects (content_loads W st) = js_redirects st.
Proof.
  intros st. unfold content_loads.
  assert (G : forall cs st0, js_redirects (fold_left (content_load W) cs st0) = js_redirects st0).
  { induction cs as [|c cs IH]; intros st0; cbn [fold_left]; [reflexivity|]. rewrite IH. unfold content_load.
    destruct (check_resp (use_of W (ci_spec c)) (Some (ci_checksum c))) as [[| |t|f|f m]|]; try reflexivity.
    destruct (N.eqb f (ci_spec c)); [|reflexivity].
    destruct (lookup (ci_spec c) (js_slots st0)) as [[src deps| |e|]|]; reflexivity. }
  rewrite G. reflexivity.
Qed.

Lemma resolve_pending_rboth : forall o fuel st,
  JInv W st -> RInv st ->
  match resolve_pending fuel W o st with
  | LDone st' => JInv W st' /\ RInv st'
  | LRestart st' => JInv W st'
  | LFuel => True end.
Proof.
  intros o fuel. induction fuel as [|f IH]; intros st HJ H; cbn [resolve_pending].
  - destruct (idle st); [split; assumption | exact I].
  - destruct (idle st); [split; assumption|].
    pose proof (loop_step_jinv W Hwf o st HJ) as HJ'. pose proof (loop_step_rinv o st HJ H) as H'.
    destruct (loop_step W o st) as [st'|st']; [apply IH; assumption | exact HJ'].
Qed.

Lemma load_roots_rinv : forall roots st, RInv st -> RInv (load_roots W st roots).
Proof.
  intros roots. induction roots as [|r rs IH]; intros st H; cbn [load_roots]; [exact H|].
  apply IH. apply load_rinv. exact H.
Qed.

Theorem jbuild_resolved_above_seeds : forall o roots g,
  jbuild W o roots = Some g ->
  forall s t p r e, lookup s (jg_redirects g) = Some t -> cls_of W s = CJsr p r e -> GEm (pt_map (jg_pkgs g)) r.
Proof.
  intros o roots g. unfold jbuild.
  assert (R0 : forall st, js_redirects st = [] -> js_pkgs st = seed_table (jw_seed W) -> RInv st).
  { intros st Hr Hp. unfold RInv. rewrite Hr, Hp. split.
    - intros r p v Hin. unfold seed_table. apply seed_table_by_name. right. exists r. exact Hin.
    - intros s t p r e Hl. discriminate. }
  pose proof (resolve_pending_rboth o (jfuel W) (load_roots W (init_state W) roots)
                (load_roots_jinv W Hwf roots _ (init_jinv W)) (load_roots_rinv roots _ (R0 (init_state W) eq_refl eq_refl))) as H1.
  destruct (resolve_pending (jfuel W) W o (load_roots W (init_state W) roots)) as [st|st|]; [| |discriminate].
  - intro E. inversion E; subst. cbn [finish jg_redirects jg_pkgs]. destruct H1 as [_ [_ H1]].
    rewrite content_loads_pkgs, content_loads_redirects. exact H1.
  - pose proof (resolve_pending_rboth o (jfuel W) (load_roots W (restart_state W st) roots)
                  (load_roots_jinv W Hwf roots _ (restart_jinv W st H1))
                  (load_roots_rinv roots _ (R0 (restart_state W st) eq_refl eq_refl))) as H2.
    destruct (resolve_pending (jfuel W) W o (load_roots W (restart_state W st) roots)) as [st2|st2|]; try discriminate.
    intro E. inversion E; subst. cbn [finish jg_redirects jg_pkgs]. destruct H2 as [_ [_ H2]].
    rewrite content_loads_pkgs, content_loads_redirects. exact H2.
Qed.

Lemma best_match_in : forall req vs best b,
  best_match W req vs best = Some b -> best = Some b \/ (In b vs /\ matches W req b = true).
Proof.
  intros req vs. induction vs as [|x vs IH]; intros best b H; cbn [best_match] in H; [left; exact H|].
  apply IH in H. destruct H as [H|[H1 H2]]; [|right; split; [right; exact H1 | exact H2]].
  destruct (matches W req x) eqn:Em; [|left; exact H].
  destruct best as [b0|].
  - destruct (N.ltb b0 x); [inversion H; subst; right; split; [left; reflexivity | exact Em] | left; exact H].
  - inversion H; subst. right. split; [left; reflexivity | exact Em].
Qed.

(* the newest-dependency date: a version picked for a requirement that no version already in the graph
   satisfies is never one of the versions that are too new for its package *)
Lemma resolve_version_in_date : forall req versions existing cached late v y,
  resolve_version W req versions existing cached late = Some (v, y) ->
  best_match W req existing None = None -> mem v late = false.
Proof.
  intros req versions existing cached late v y H E0. unfold resolve_version in H. rewrite E0 in H.
  assert (G : forall (f : N * bool -> bool) x,
            In x (map fst (filter f (filter (fun p : N * bool => negb (mem (fst p) late)) versions))) -> mem x late = false).
  { intros f x Hx. apply in_map_iff in Hx. destruct Hx as [[a b] [Ha Hb]]. cbn in Ha. subst a.
    apply filter_In in Hb. destruct Hb as [Hb _]. apply filter_In in Hb. destruct Hb as [_ Hb].
    cbn in Hb. destruct (mem x late); [discriminate | reflexivity]. }
  set (in_date := filter (fun p : N * bool => negb (mem (fst p) late)) versions) in *.
  set (s15 := match cached with [] => None | _ => _ end) in H.
  destruct s15 as [v1|] eqn:E15.
  { inversion H; subst. unfold s15 in E15. destruct cached as [|c0 cs]; [discriminate|].
    apply best_match_in in E15. destruct E15 as [E15|[Hi _]]; [discriminate|].
    apply filter_In in Hi. destruct Hi as [Hi _]. eapply G. exact Hi. }
  match type of H with context [best_match W req ?l None] => destruct (best_match W req l None) as [v2|] eqn:E2 end.
  { inversion H; subst. apply best_match_in in E2. destruct E2 as [E2|[Hi _]]; [discriminate|]. eapply G. exact Hi. }
  match type of H with context [best_match W req ?l None] => destruct (best_match W req l None) as [v3|] eqn:E3 end; [|discriminate].
  inversion H; subst. apply best_match_in in E3. destruct E3 as [E3|[Hi _]]; [discriminate|]. eapply G. exact Hi.
Qed.


(* the judgement the C06 registry stream evaluates on every case is a theorem of the model *)
Theorem c06_judgement_true : forall o roots g,
  jbuild W o roots = Some g -> c06_judgement W g roots = [judge true].
Proof.
  intros o roots g Hb. unfold c06_judgement.
  assert (Hall : forallb (req_respected W g) (resolved_reqs W g) = true).
  { apply forallb_forall. intros req Hin. unfold resolved_reqs in Hin. apply in_flat_map in Hin.
    destruct Hin as [[s t] [Hin Hc]]. cbn [fst] in Hc.
    destruct (cls_of W s) as [p r e| | |] eqn:Ec; try contradiction. destruct Hc as [<-|[]].
    assert (Hl : exists t', lookup s (jg_redirects g) = Some t').
    { clear -Hin. induction (jg_redirects g) as [|[a b] l IH]; [destruct Hin|]. cbn [lookup].
      destruct (N.eqb s a) eqn:E; [exists b; reflexivity|]. destruct Hin as [Hin|Hin]; [|apply IH; exact Hin].
      inversion Hin; subst. rewrite N.eqb_refl in E. discriminate. }
    destruct Hl as [t' Hl].
    destruct (jbuild_resolved_above_seeds o roots g Hb s t' p r e Hl Ec) as [p' [v' [Hm Hge]]].
    unfold req_respected. rewrite Hm. unfold seed_respected. cbn [fst snd].
    destruct (best_match W r (seeded_versions W p') None) as [m|] eqn:Eb; [|reflexivity].
    apply best_match_in in Eb. destruct Eb as [Eb|[Hi Hmm]]; [discriminate|].
    apply Bool.negb_true_iff. apply N.ltb_ge. apply Hge; assumption. }
  rewrite Hall. reflexivity.
Qed.

End S.
