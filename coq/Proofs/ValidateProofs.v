(* C02: validate succeeds iff no failure is reachable along the selected edges. *)
From DG Require Import Base.Util Base.Sexp Base.Reach Model.Graph Model.Walk Model.RunC15 Model.RunC02
  Proofs.WalkProofs.

(* declarative failure of a reached specifier *)
Inductive ResFails (g : graph) (m : module) (filelike : bool) : res -> Prop :=
| RF_err : forall e, ResFails g m filelike (RErr e)
| RF_downgrade : forall t r,
    scheme_of g (m_spec m) = SchHttps -> scheme_of g t = SchHttp -> ResFails g m filelike (ROk t r)
| RF_local : forall t r,
    is_httpish (scheme_of g (m_spec m)) = true -> scheme_of g t = SchFile -> filelike = true ->
    ResFails g m filelike (ROk t r).

Inductive FailsAt (g : graph) (o : wopts) (s : spec) : Prop :=
| FA_slot : forall ms e, slot_of g s = Some (SErr ms e) -> FailsAt g o s
| FA_types_dep : forall m td,
    slot_of g s = Some (SMod m) -> substituted o m = false ->
    include_types (w_kind o) = true -> m_types_dep m = Some td ->
    ResFails g m (td_filelike td) (td_res td) -> FailsAt g o s
| FA_code : forall m d,
    slot_of g s = Some (SMod m) -> substituted o m = false ->
    In d (selected_deps o m) -> dep_followed o d = true ->
    ResFails g m (d_filelike d) (d_code d) -> FailsAt g o s
| FA_type : forall m d,
    slot_of g s = Some (SMod m) -> substituted o m = false ->
    In d (selected_deps o m) -> dep_followed o d = true -> check_types o m = true ->
    ResFails g m (d_filelike d) (d_type d) -> FailsAt g o s.

Definition Fails (g : graph) (o : wopts) (roots : list spec) : Prop :=
  exists s, Sel g o (fun _ => false) roots s /\ FailsAt g o s.

Lemma res_policy_fails_iff : forall g m fl r,
  res_policy_fails g m fl r = true <-> ResFails g m fl r.
Proof.
  intros g m fl r. unfold res_policy_fails. destruct r as [|t rg|e].
  - split; [discriminate | intro H; inversion H].
  - split.
    + intro H.
      destruct (scheme_of g (m_spec m)) eqn:Hr; destruct (scheme_of g t) eqn:Ht;
        cbn [is_httpish andb] in H; try discriminate;
        try (apply RF_downgrade; assumption);
        try (apply RF_local; [rewrite Hr; reflexivity | exact Ht | exact H]).
    + intro H. inversion H as [|? ? Hr Ht|? ? Hh Ht Hf]; subst.
      * rewrite Hr, Ht. reflexivity.
      * rewrite Ht. destruct (scheme_of g (m_spec m)); cbn [is_httpish] in Hh; try discriminate; reflexivity.
  - split; [intros _; constructor | reflexivity].
Qed.

Lemma entry_fails_mod_iff : forall g o s m,
  slot_of g s = Some (SMod m) -> substituted o m = false ->
  (entry_fails g o (EModule m) = true <-> FailsAt g o s).
Proof.
  intros g o s m Hs Hsub. cbn [entry_fails]. rewrite orb_true_iff, andb_true_iff, existsb_exists. split.
  - intros [[Hi Htd]|[d [Hd Hf]]].
    + destruct (m_types_dep m) as [td|] eqn:E; [|discriminate].
      apply res_policy_fails_iff in Htd. eapply FA_types_dep; eauto.
    + unfold dep_fails in Hf. apply andb_true_iff in Hf. destruct Hf as [Hfo Hf].
      apply orb_true_iff in Hf. destruct Hf as [Hf|Hf].
      * apply res_policy_fails_iff in Hf. eapply FA_code; eauto.
      * apply andb_true_iff in Hf. destruct Hf as [Hc Hf].
        apply res_policy_fails_iff in Hf. eapply FA_type; eauto.
  - intro H. destruct H as [ms e H1 | m' td H1 H2 H3 H4 H5 | m' d H1 H2 H3 H4 H5 | m' d H1 H2 H3 H4 H5 H6];
      rewrite Hs in H1; inversion H1; subst.
    + left. split; [assumption|]. rewrite H4. apply res_policy_fails_iff. assumption.
    + right. exists d. split; [assumption|]. unfold dep_fails. rewrite H4. cbn [andb].
      apply orb_true_iff. left. apply res_policy_fails_iff. assumption.
    + right. exists d. split; [assumption|]. unfold dep_fails. rewrite H4, H5. cbn [andb].
      apply orb_true_iff. right. apply res_policy_fails_iff. assumption.
Qed.

Lemma failsb_iff : forall g o roots b,
  NoDup roots -> failsb g o roots = Some b -> (b = true <-> Fails g o roots).
Proof.
  intros g o roots b Hnd H. unfold failsb in H.
  destruct (walk g o (fun _ => false) roots) as [ys|] eqn:Hw; [|discriminate].
  inversion H; subst. clear H. rewrite existsb_exists. unfold Fails. split.
  - intros [[s en] [Hin Hf]]. cbn [snd] in Hf.
    pose proof (walk_entries _ _ _ _ _ _ _ Hw Hin) as He.
    assert (Hsel : Sel g o (fun _ => false) roots s).
    { apply (walk_exact _ _ _ _ _ Hnd Hw s). apply in_map_iff. exists (s, en). split; [reflexivity|exact Hin]. }
    assert (Hy : Yields g o s).
    { apply (walk_exact _ _ _ _ _ Hnd Hw s). apply in_map_iff. exists (s, en). split; [reflexivity|exact Hin]. }
    exists s. split; [exact Hsel|].
    destruct en as [m|ms e|t].
    + assert (Hsub : substituted o m = false).
      { destruct Hy as [[? [? Hy]]|[[m0 [Hy1 Hy2]]|[Hy _]]]; congruence. }
      apply (entry_fails_mod_iff g o s m He Hsub). exact Hf.
    + eapply FA_slot; eauto.
    + discriminate.
  - intros [s [Hsel Hf]].
    assert (Hy : Yields g o s).
    { destruct Hf as [ms e H1 | m td H1 H2 | m d H1 H2 | m d H1 H2].
      - left; eauto.
      - right; left; eauto.
      - right; left; eauto.
      - right; left; eauto. }
    assert (Hin : In s (map fst ys)) by (apply (walk_exact _ _ _ _ _ Hnd Hw s); tauto).
    apply in_map_iff in Hin. destruct Hin as [[s' en] [Heq Hin]]. cbn [fst] in Heq. subst s'.
    exists (s, en). split; [exact Hin|]. cbn [snd].
    pose proof (walk_entries _ _ _ _ _ _ _ Hw Hin) as He.
    destruct en as [m|ms e|t].
    + assert (Hsub : substituted o m = false).
      { destruct Hy as [[? [? Hy]]|[[m0 [Hy1 Hy2]]|[Hy _]]]; congruence. }
      apply (entry_fails_mod_iff g o s m He Hsub). exact Hf.
    + reflexivity.
    + destruct He as [He _]. destruct Hf; congruence.
Qed.

(* ---- with follow_dynamic = false the error iterator reports every failure ---- *)

Lemma check_resolution_static : forall g o m types fl r dy,
  w_follow_dynamic o = false ->
  (check_resolution g o m types fl r dy <> [] <-> res_policy_fails g m fl r = true).
Proof.
  intros g o m types fl r dy Hfd. unfold check_resolution, res_policy_fails. rewrite Hfd.
  destruct r as [|t rg|e].
  - split; [intro H; exfalso; apply H; reflexivity | discriminate].
  - destruct (scheme_of g (m_spec m)); destruct (scheme_of g t); cbn [is_httpish andb];
      try (split; [intro H; exfalso; apply H; reflexivity | discriminate]);
      try (split; [reflexivity | discriminate]);
      destruct fl; cbn [andb];
      try (split; [intro H; exfalso; apply H; reflexivity | discriminate]);
      try (split; [reflexivity | discriminate]).
  - split; [reflexivity | discriminate].
Qed.

Lemma app_not_nil : forall {T} (a b : list T), a ++ b <> [] <-> a <> [] \/ b <> [].
Proof.
  intros T a b. destruct a; cbn [app].
  - split; [intro H; right; exact H | intros [H|H]; [exfalso; apply H; reflexivity | exact H]].
  - split; [intros _; left; discriminate | discriminate].
Qed.

Lemma flat_map_not_nil : forall {X Y} (f : X -> list Y) l,
  flat_map f l <> [] <-> exists x, In x l /\ f x <> [].
Proof.
  intros X Y f l. induction l as [|a l IH]; cbn [flat_map].
  - split; [intro H; exfalso; apply H; reflexivity | intros [x [[] _]]].
  - rewrite app_not_nil, IH. split.
    + intros [H|[x [Hx H]]]; [exists a; split; [left; reflexivity | exact H] | exists x; split; [right; exact Hx | exact H]].
    + intros [x [[Hx|Hx] H]]; [subst; left; exact H | right; exists x; split; assumption].
Qed.

Lemma entry_errors_static : forall g o en,
  w_follow_dynamic o = false ->
  (entry_errors g o en <> [] <-> entry_fails g o en = true).
Proof.
  intros g o en Hfd. destruct en as [m|ms e|t]; cbn [entry_errors entry_fails].
  - rewrite app_not_nil, orb_true_iff, flat_map_not_nil, existsb_exists. split.
    + intros [H|[d [Hd H]]].
      * left. destruct (include_types (w_kind o)); [|exfalso; apply H; reflexivity]. cbn [andb].
        destruct (m_types_dep m) as [td|]; [|exfalso; apply H; reflexivity].
        eapply (check_resolution_static g o m true _ _ false Hfd). exact H.
      * right. exists d. split; [exact Hd|]. unfold dep_errors in H. unfold dep_fails, dep_followed.
        rewrite Hfd in *. cbn [orb] in *. rewrite orb_false_r.
        destruct (negb (d_dyn d)); [|exfalso; apply H; reflexivity]. cbn [andb].
        apply app_not_nil in H. apply orb_true_iff. destruct H as [H|H].
        -- left. eapply (check_resolution_static g o m false _ _ _ Hfd). exact H.
        -- right. destruct (check_types o m); [|exfalso; apply H; reflexivity]. cbn [andb].
           eapply (check_resolution_static g o m true _ _ _ Hfd). exact H.
    + intros [H|[d [Hd H]]].
      * left. apply andb_true_iff in H. destruct H as [Hi H]. rewrite Hi.
        destruct (m_types_dep m) as [td|]; [|discriminate].
        eapply (check_resolution_static g o m true _ _ false Hfd). exact H.
      * right. exists d. split; [exact Hd|]. unfold dep_fails, dep_followed in H. unfold dep_errors.
        rewrite Hfd in *. cbn [orb] in *. rewrite orb_false_r in H.
        apply andb_true_iff in H. destruct H as [Hn H]. rewrite Hn.
        apply app_not_nil. apply orb_true_iff in H. destruct H as [H|H].
        -- left. eapply (check_resolution_static g o m false _ _ _ Hfd). exact H.
        -- right. apply andb_true_iff in H. destruct H as [Hc H]. rewrite Hc.
           eapply (check_resolution_static g o m true _ _ _ Hfd). exact H.
  - rewrite Hfd. destruct ms; split; try reflexivity; discriminate.
  - split; [intro H; exfalso; apply H; reflexivity | discriminate].
Qed.

Theorem validate_iff_static : forall g o roots,
  NoDup roots -> w_follow_dynamic o = false ->
  (validate g o roots = Some None <-> ~ Fails g o roots).
Proof.
  intros g o roots Hnd Hfd.
  destruct (walk g o (fun _ => false) roots) as [ys|] eqn:Hw;
    [|exfalso; exact (walk_terminates _ _ _ _ Hw)].
  assert (Hf : failsb g o roots = Some (existsb (fun y => entry_fails g o (snd y)) ys)).
  { unfold failsb. rewrite Hw. reflexivity. }
  pose proof (failsb_iff g o roots _ Hnd Hf) as Hiff.
  unfold validate, walk_errors. rewrite Hw.
  set (es := flat_map (fun y => rev (entry_errors g o (snd y))) ys).
  assert (Hes : es <> [] <-> existsb (fun y => entry_fails g o (snd y)) ys = true).
  { unfold es. rewrite flat_map_not_nil, existsb_exists. split.
    - intros [y [Hy H]]. exists y. split; [exact Hy|]. apply (entry_errors_static g o _ Hfd).
      intro E. apply H. rewrite E. reflexivity.
    - intros [y [Hy H]]. exists y. split; [exact Hy|]. apply (entry_errors_static g o _ Hfd) in H.
      intro E. apply H. apply (f_equal (@rev gerr)) in E. rewrite rev_involutive in E. exact E. }
  destruct es as [|e es'] eqn:Ees.
  - split; [intros _ HF; apply Hiff in HF; apply Hes in HF; apply HF; reflexivity | reflexivity].
  - split; [discriminate|]. intro HnF. exfalso. apply HnF. apply Hiff. apply Hes. discriminate.
Qed.

(* ---- with follow_dynamic = true: no false alarms; and the only failures that
        can escape are Missing slots (known finding F-C02a) ---- *)

Definition is_missing_slot (g : graph) (s : spec) : Prop :=
  exists ms e, slot_of g s = Some (SErr (Some ms) e).

Lemma check_resolution_dynamic_weak : forall g o m types fl r dy,
  res_policy_fails g m fl r = true -> check_resolution g o m types fl r dy <> [].
Proof.
  intros g o m types fl r dy H. unfold check_resolution, res_policy_fails in *.
  destruct r as [|t rg|e]; [discriminate| |discriminate].
  destruct (scheme_of g (m_spec m)); destruct (scheme_of g t); cbn [is_httpish andb] in *;
    try discriminate; destruct fl; cbn [andb] in *; try discriminate.
Qed.

Lemma entry_fails_reported : forall g o en,
  entry_fails g o en = true -> is_missing_entry en = false -> entry_errors g o en <> [].
Proof.
  intros g o en Hf Hm. destruct en as [m|ms e|t]; cbn [entry_errors entry_fails is_missing_entry] in *.
  - apply app_not_nil. apply orb_true_iff in Hf. destruct Hf as [Hf|Hf].
    + left. apply andb_true_iff in Hf. destruct Hf as [Hi Hf]. rewrite Hi.
      destruct (m_types_dep m) as [td|]; [|discriminate].
      apply check_resolution_dynamic_weak. exact Hf.
    + right. apply flat_map_not_nil. apply existsb_exists in Hf. destruct Hf as [d [Hd Hf]].
      exists d. split; [exact Hd|]. unfold dep_fails, dep_followed in Hf. unfold dep_errors.
      apply andb_true_iff in Hf. destruct Hf as [Hfo Hf].
      rewrite orb_comm in Hfo. rewrite Hfo. apply app_not_nil.
      apply orb_true_iff in Hf. destruct Hf as [Hf|Hf].
      * left. apply check_resolution_dynamic_weak. exact Hf.
      * right. apply andb_true_iff in Hf. destruct Hf as [Hc Hf]. rewrite Hc.
        apply check_resolution_dynamic_weak. exact Hf.
  - destruct ms; [discriminate|]. discriminate.
  - discriminate.
Qed.

(* Outside the known class (some failing visited entry is not a Missing slot),
   validation fails, for any options. *)
Theorem validate_fails_outside_known_class : forall g o roots,
  (exists ys y, walk g o (fun _ => false) roots = Some ys /\ In y ys /\
     entry_fails g o (snd y) = true /\ is_missing_entry (snd y) = false) ->
  validate g o roots <> Some None.
Proof.
  intros g o roots [ys [y [Hw [Hin [Hf Hm]]]]]. unfold validate, walk_errors. rewrite Hw.
  assert (H : flat_map (fun y0 => rev (entry_errors g o (snd y0))) ys <> []).
  { apply flat_map_not_nil. exists y. split; [exact Hin|].
    pose proof (entry_fails_reported g o (snd y) Hf Hm) as Hr.
    intro E. apply Hr. apply (f_equal (@rev gerr)) in E. rewrite rev_involutive in E. exact E. }
  destruct (flat_map (fun y0 => rev (entry_errors g o (snd y0))) ys); [exfalso; apply H; reflexivity | discriminate].
Qed.
