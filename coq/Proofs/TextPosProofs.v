(* Proofs about Model/TextPos.v: round trip and monotonicity of the
   offset <-> (line, character) maps, slicing, range lookups. *)
From DG Require Import Base.Util Model.TextPos.

Lemma utf8_len_pos : forall c, 1 <= utf8_len c.
Proof.
  intro c; unfold utf8_len.
  destruct (c <? 128); [lia|]. destruct (c <? 2048); [lia|]. destruct (c <? 65536); lia.
Qed.

Lemma utf8_len_ascii : forall c, c < 128 -> utf8_len c = 1.
Proof. intros c H; unfold utf8_len. apply N.ltb_lt in H. rewrite H. reflexivity. Qed.

Lemma byte_len_app : forall a b, byte_len (a ++ b) = byte_len a + byte_len b.
Proof.
  induction a as [|c a IH]; intro b; cbn [app byte_len]; [lia|]. rewrite IH; lia.
Qed.

(* ---------- slicing ---------- *)
Lemma drop_bytes_app : forall pre post, drop_bytes (pre ++ post) (byte_len pre) = post.
Proof.
  induction pre as [|c pre IH]; intro post; cbn [app byte_len].
  - destruct post as [|d post]; cbn [drop_bytes]; [reflexivity|]. rewrite N.eqb_refl. reflexivity.
  - cbn [drop_bytes]. pose proof (utf8_len_pos c) as Hc.
    destruct (utf8_len c + byte_len pre =? 0) eqn:E; [apply N.eqb_eq in E; lia|].
    replace (utf8_len c + byte_len pre - utf8_len c) with (byte_len pre) by lia. apply IH.
Qed.

Lemma take_bytes_app : forall mid post, take_bytes (mid ++ post) (byte_len mid) = mid.
Proof.
  induction mid as [|c mid IH]; intro post; cbn [app byte_len].
  - destruct post as [|d post]; cbn [take_bytes]; [reflexivity|].
    pose proof (utf8_len_pos d) as Hd.
    destruct (0 <? utf8_len d) eqn:E; [reflexivity|]. apply N.ltb_ge in E; lia.
  - cbn [take_bytes].
    destruct (utf8_len c + byte_len mid <? utf8_len c) eqn:E; [apply N.ltb_lt in E; lia|].
    replace (utf8_len c + byte_len mid - utf8_len c) with (byte_len mid) by lia. rewrite IH. reflexivity.
Qed.

Lemma slice_app : forall pre mid post,
  slice (pre ++ mid ++ post) (byte_len pre) (byte_len pre + byte_len mid) = mid.
Proof.
  intros pre mid post; unfold slice. rewrite drop_bytes_app.
  replace (byte_len pre + byte_len mid - byte_len pre) with (byte_len mid) by lia.
  apply take_bytes_app.
Qed.

(* ---------- round trip ---------- *)
Lemma off_pos_rel : forall pre post,
  off_rel (pre ++ post) (fst (pos_rel (pre ++ post) (byte_len pre)))
                        (snd (pos_rel (pre ++ post) (byte_len pre))) = byte_len pre.
Proof.
  induction pre as [|c pre IH]; intro post; cbn [app byte_len].
  - destruct post as [|d post]; cbn [pos_rel off_rel]; [reflexivity|].
    pose proof (utf8_len_pos d) as Hd.
    destruct (0 <? utf8_len d) eqn:E; [|apply N.ltb_ge in E; lia].
    cbn [fst snd]. rewrite N.eqb_refl. reflexivity.
  - cbn [pos_rel].
    destruct (utf8_len c + byte_len pre <? utf8_len c) eqn:E; [apply N.ltb_lt in E; lia|].
    replace (utf8_len c + byte_len pre - utf8_len c) with (byte_len pre) by lia.
    specialize (IH post).
    destruct (pos_rel (pre ++ post) (byte_len pre)) as [l k] eqn:EP. cbn [fst snd] in IH |- *.
    destruct (c =? LF) eqn:EL.
    + assert (Hc1 : utf8_len c = 1) by (apply N.eqb_eq in EL; subst c; reflexivity).
      cbn [fst snd off_rel].
      destruct (l + 1 =? 0) eqn:E0; [apply N.eqb_eq in E0; lia|]. rewrite EL.
      replace (l + 1 - 1) with l by lia. rewrite IH. lia.
    + destruct (l =? 0) eqn:E0.
      * cbn [fst snd off_rel]. rewrite N.eqb_refl.
        destruct (k + 1 =? 0) eqn:E1; [apply N.eqb_eq in E1; lia|]. rewrite EL.
        replace (k + 1 - 1) with k by lia. apply N.eqb_eq in E0. subst l. rewrite IH. reflexivity.
      * cbn [fst snd off_rel]. rewrite E0, EL, IH. reflexivity.
Qed.

Lemma roundtrip : forall pre post,
  (pre = [] -> starts_with_bom post = false) ->
  offset_of_pos (pre ++ post) (pos_of_offset (pre ++ post) (byte_len pre)) = byte_len pre.
Proof.
  intros pre post Hb. destruct pre as [|c pre].
  - specialize (Hb eq_refl). cbn [app byte_len].
    destruct post as [|d post]; [reflexivity|].
    cbn [starts_with_bom] in Hb. unfold pos_of_offset, offset_of_pos. rewrite Hb.
    exact (off_pos_rel [] (d :: post)).
  - cbn [app]. unfold pos_of_offset, offset_of_pos.
    destruct (c =? BOM) eqn:E.
    + apply N.eqb_eq in E. subst c. cbn [byte_len].
      assert (Hl : utf8_len BOM = 3) by reflexivity. rewrite Hl.
      destruct (3 + byte_len pre <? 3) eqn:E3; [apply N.ltb_lt in E3; lia|].
      replace (3 + byte_len pre - 3) with (byte_len pre) by lia.
      rewrite off_pos_rel. reflexivity.
    + exact (off_pos_rel (c :: pre) post).
Qed.

(* ---------- monotonicity ---------- *)
Lemma pos_rel_mono : forall s o1 o2, o1 <= o2 -> pos_le (pos_rel s o1) (pos_rel s o2).
Proof.
  induction s as [|c s IH]; intros o1 o2 Ho; cbn [pos_rel].
  - right; cbn [fst snd]; lia.
  - destruct (o2 <? utf8_len c) eqn:E2.
    + apply N.ltb_lt in E2. destruct (o1 <? utf8_len c) eqn:E1; [|apply N.ltb_ge in E1; lia].
      right; cbn [fst snd]; lia.
    + apply N.ltb_ge in E2. destruct (o1 <? utf8_len c) eqn:E1.
      * unfold pos_le.
        destruct (c =? LF); [cbn [fst snd]; lia|].
        destruct (N.eqb_spec (fst (pos_rel s (o2 - utf8_len c))) 0) as [E0|E0]; cbn [fst snd]; lia.
      * apply N.ltb_ge in E1.
        assert (Hs : o1 - utf8_len c <= o2 - utf8_len c) by lia.
        specialize (IH _ _ Hs). unfold pos_le in IH |- *.
        destruct (pos_rel s (o1 - utf8_len c)) as [l1 k1].
        destruct (pos_rel s (o2 - utf8_len c)) as [l2 k2]. cbn [fst snd] in IH |- *.
        destruct (c =? LF); [cbn [fst snd]; lia|].
        destruct (N.eqb_spec l1 0) as [A1|A1]; destruct (N.eqb_spec l2 0) as [A2|A2]; cbn [fst snd]; lia.
Qed.

Lemma pos_of_offset_mono : forall s o1 o2,
  o1 <= o2 -> pos_le (pos_of_offset s o1) (pos_of_offset s o2).
Proof.
  intros s o1 o2 Ho. unfold pos_of_offset. destruct s as [|c s]; [right; cbn [fst snd]; lia|].
  destruct (c =? BOM).
  - destruct (o2 <? 3) eqn:E2.
    + apply N.ltb_lt in E2. destruct (o1 <? 3) eqn:E1; [|apply N.ltb_ge in E1; lia].
      right; cbn [fst snd]; lia.
    + apply N.ltb_ge in E2. destruct (o1 <? 3) eqn:E1.
      * unfold pos_le; cbn [fst snd]. lia.
      * apply N.ltb_ge in E1. apply pos_rel_mono. lia.
  - apply pos_rel_mono; exact Ho.
Qed.

(* ---------- the order and includes ---------- *)
Lemma pos_leb_le : forall p q, pos_leb p q = true <-> pos_le p q.
Proof.
  intros p q; unfold pos_leb, pos_le.
  rewrite orb_true_iff, andb_true_iff, N.ltb_lt, N.eqb_eq, N.leb_le. tauto.
Qed.

Lemma pos_ltb_lt : forall p q, pos_ltb p q = true <-> pos_lt p q.
Proof.
  intros p q; unfold pos_ltb, pos_lt.
  rewrite orb_true_iff, andb_true_iff, N.ltb_lt, N.eqb_eq, N.ltb_lt. tauto.
Qed.

Lemma includes_iff : forall r p,
  includes r p = true <-> pos_le (r_start r) p /\ pos_le p (r_end r).
Proof.
  intros r p; unfold includes. rewrite andb_true_iff, !pos_leb_le. tauto.
Qed.

Lemma apart_no_common : forall r1 r2 p,
  ranges_apartb r1 r2 = true -> includes r1 p = true -> includes r2 p = true -> False.
Proof.
  intros r1 r2 p Ha H1 H2.
  apply includes_iff in H1. apply includes_iff in H2.
  unfold ranges_apartb in Ha. rewrite orb_true_iff, !pos_ltb_lt in Ha.
  unfold pos_le, pos_lt in *. lia.
Qed.

Lemma not_apart_common : forall r1 r2,
  range_wfb r1 = true -> range_wfb r2 = true -> ranges_apartb r1 r2 = false ->
  exists p, includes r1 p = true /\ includes r2 p = true.
Proof.
  intros r1 r2 W1 W2 Ha.
  unfold range_wfb in W1, W2. apply pos_leb_le in W1. apply pos_leb_le in W2.
  unfold ranges_apartb in Ha. apply orb_false_iff in Ha. destruct Ha as [A1 A2].
  assert (N1 : ~ pos_lt (r_end r1) (r_start r2)) by (rewrite <- pos_ltb_lt, A1; discriminate).
  assert (N2 : ~ pos_lt (r_end r2) (r_start r1)) by (rewrite <- pos_ltb_lt, A2; discriminate).
  destruct (pos_leb (r_start r1) (r_start r2)) eqn:E.
  - exists (r_start r2). rewrite !includes_iff. apply pos_leb_le in E.
    unfold pos_le, pos_lt in *. lia.
  - exists (r_start r1). rewrite !includes_iff.
    assert (N3 : ~ pos_le (r_start r1) (r_start r2)) by (rewrite <- pos_leb_le, E; discriminate).
    unfold pos_le, pos_lt in *. lia.
Qed.

Theorem ranges_apartb_spec : forall r1 r2,
  range_wfb r1 = true -> range_wfb r2 = true ->
  (ranges_apartb r1 r2 = true <-> forall p, ~ (includes r1 p = true /\ includes r2 p = true)).
Proof.
  intros r1 r2 W1 W2; split.
  - intros Ha p [H1 H2]. exact (apart_no_common _ _ _ Ha H1 H2).
  - intros Hn. destruct (ranges_apartb r1 r2) eqn:E; [reflexivity|].
    destruct (not_apart_common _ _ W1 W2 E) as [p Hp]. exfalso. exact (Hn p Hp).
Qed.

(* ---------- lookups ---------- *)
Definition separated (deps : list (N * ldep)) : Prop :=
  forall k1 d1 k2 d2 r1 r2 p,
    In (k1, d1) deps -> In (k2, d2) deps ->
    In r1 (ld_ranges d1) -> In r2 (ld_ranges d2) ->
    includes r1 p = true -> includes r2 p = true -> k1 = k2.

Lemma dep_includes_sound : forall d p r,
  dep_includes d p = Some r -> In r (ld_ranges d) /\ includes r p = true.
Proof.
  intros d p r H. unfold dep_includes in H. unfold ld_ranges.
  destruct (find (fun r0 => includes r0 p) (ld_imports d)) as [r0|] eqn:F.
  - inversion H; subst r0. apply find_some in F. destruct F as [Hi Hp].
    split; [apply in_or_app; left; exact Hi | exact Hp].
  - destruct (ld_type d) as [rt|]; [|discriminate].
    destruct (includes rt p) eqn:E; [|discriminate]. inversion H; subst rt.
    split; [apply in_or_app; right; left; reflexivity | exact E].
Qed.

Lemma dep_includes_complete : forall d p r,
  In r (ld_ranges d) -> includes r p = true -> exists r', dep_includes d p = Some r'.
Proof.
  intros d p r Hi Hp. unfold dep_includes. unfold ld_ranges in Hi.
  destruct (find (fun r0 => includes r0 p) (ld_imports d)) as [r0|] eqn:F; [exists r0; reflexivity|].
  apply in_app_or in Hi. destruct Hi as [Hi|Hi].
  - exfalso. pose proof (find_none _ _ F _ Hi) as Hn. cbn beta in Hn. rewrite Hp in Hn. discriminate.
  - destruct (ld_type d) as [rt|]; [|destruct Hi].
    destruct Hi as [Hi|[]]. subst rt. rewrite Hp. exists r; reflexivity.
Qed.

Lemma dep_at_sound : forall deps p k,
  dep_at deps p = Some k -> exists d r, In (k, d) deps /\ In r (ld_ranges d) /\ includes r p = true.
Proof.
  induction deps as [|[k0 d0] deps IH]; intros p k H; cbn [dep_at] in H; [discriminate|].
  destruct (dep_includes d0 p) as [r|] eqn:E.
  - inversion H; subst k0. destruct (dep_includes_sound _ _ _ E) as [Hi Hp].
    exists d0, r. split; [left; reflexivity|]. split; assumption.
  - destruct (IH _ _ H) as [d [r [Hd Hr]]]. exists d, r. split; [right; exact Hd | exact Hr].
Qed.

Theorem lookup_correct : forall deps p k,
  separated deps ->
  (dep_at deps p = Some k <->
   exists d r, In (k, d) deps /\ In r (ld_ranges d) /\ includes r p = true).
Proof.
  intros deps p k Hsep; split; [apply dep_at_sound|].
  intros [d [r [Hd [Hr Hp]]]].
  induction deps as [|[k0 d0] deps IH]; [destruct Hd|].
  cbn [dep_at]. destruct (dep_includes d0 p) as [r0|] eqn:E.
  - destruct (dep_includes_sound _ _ _ E) as [Hi0 Hp0].
    f_equal. exact (Hsep k0 d0 k d r0 r p (or_introl eq_refl) Hd Hi0 Hr Hp0 Hp).
  - destruct Hd as [Hd|Hd].
    + inversion Hd; subst k0 d0.
      destruct (dep_includes_complete _ _ _ Hr Hp) as [r' Hr']. rewrite Hr' in E. discriminate.
    + apply IH; [|exact Hd].
      intros k1 d1 k2 d2 r1 r2 q H1 H2. apply (Hsep k1 d1 k2 d2 r1 r2 q); right; assumption.
Qed.

(* the returned range is one of the dependency's own and contains the position *)
Theorem dep_includes_range : forall d p r,
  dep_includes d p = Some r -> In r (ld_ranges d) /\ includes r p = true.
Proof. exact dep_includes_sound. Qed.

Lemma deps_apartb_separated : forall deps, deps_apartb deps = true -> separated deps.
Proof.
  induction deps as [|[k0 d0] deps IH]; intro H.
  - intros k1 d1 k2 d2 r1 r2 p H1; destruct H1.
  - cbn [deps_apartb] in H. apply andb_true_iff in H. destruct H as [Hh Ht].
    specialize (IH Ht). rewrite forallb_forall in Hh.
    assert (Hcross : forall k d r0 r p, In (k, d) deps -> In r0 (ld_ranges d0) -> In r (ld_ranges d) ->
                     includes r0 p = true -> includes r p = true -> False).
    { intros k d r0 r p Hd Hr0 Hr Hp0 Hp.
      specialize (Hh _ Hr0). rewrite forallb_forall in Hh. specialize (Hh _ Hd). cbn [snd] in Hh.
      rewrite forallb_forall in Hh. exact (apart_no_common _ _ _ (Hh _ Hr) Hp0 Hp). }
    intros k1 d1 k2 d2 r1 r2 p H1 H2 Hr1 Hr2 Hp1 Hp2.
    destruct H1 as [H1|H1]; destruct H2 as [H2|H2].
    + inversion H1; inversion H2; subst; reflexivity.
    + inversion H1; subst k1 d1. exfalso. exact (Hcross _ _ _ _ _ H2 Hr1 Hr2 Hp1 Hp2).
    + inversion H2; subst k2 d2. exfalso. exact (Hcross _ _ _ _ _ H1 Hr2 Hr1 Hp2 Hp1).
    + exact (IH k1 d1 k2 d2 r1 r2 p H1 H2 Hr1 Hr2 Hp1 Hp2).
Qed.

Lemma all_apartb_sound : forall rs, all_apartb rs = true ->
  ForallOrdPairs (fun r1 r2 => forall p, ~ (includes r1 p = true /\ includes r2 p = true)) rs.
Proof.
  induction rs as [|r rs IH]; intro H; [constructor|].
  cbn [all_apartb] in H. apply andb_true_iff in H. destruct H as [Hh Ht].
  constructor; [|exact (IH Ht)].
  rewrite forallb_forall in Hh. apply Forall_forall. intros r2 Hr2 p [H1 H2].
  exact (apart_no_common _ _ _ (Hh _ Hr2) H1 H2).
Qed.

Lemma all_apartb_complete : forall rs,
  forallb range_wfb rs = true ->
  ForallOrdPairs (fun r1 r2 => forall p, ~ (includes r1 p = true /\ includes r2 p = true)) rs ->
  all_apartb rs = true.
Proof.
  induction rs as [|r rs IH]; intros W H; [reflexivity|].
  cbn [forallb] in W. apply andb_true_iff in W. destruct W as [Wr Wrs].
  inversion H as [|a l Hh Ht]; subst. cbn [all_apartb]. apply andb_true_iff. split; [|exact (IH Wrs Ht)].
  apply forallb_forall. intros r2 Hr2. rewrite forallb_forall in Wrs.
  apply (ranges_apartb_spec r r2 Wr (Wrs _ Hr2)). rewrite Forall_forall in Hh. exact (Hh _ Hr2).
Qed.
