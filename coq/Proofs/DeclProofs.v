(* The declaration layer (Model/Decl.v): one entry per specifier text; the code
   target comes from the first code import; static wins. *)
From DG Require Import Base.Util Base.Sexp Model.Decl.

Lemma NoDup_app_single : forall {A} (l : list A) x, NoDup l -> ~ In x l -> NoDup (l ++ [x]).
Proof.
  intros A l x H Hn. induction H as [|a l Ha Hl IH]; cbn.
  - constructor; [intros [] | constructor].
  - constructor.
    + intro Hin. apply in_app_or in Hin. destruct Hin as [Hin|[Heq|[]]]; [contradiction|]. subst. apply Hn. left. reflexivity.
    + apply IH. intro Hin. apply Hn. right. exact Hin.
Qed.

Section D.
Variable T : rtab.
Variable o : dopts.

Definition sel (text : N) (i : desc) : bool := N.eqb (ds_text i) text && negb (skipped o i).
Definition accf (text : N) (pre : list desc) : dacc :=
  fold_left (add_import T o) (filter (sel text) pre) (empty_acc text).
Definition get (text : N) (l : list dacc) : option dacc := find (fun a => N.eqb (da_text a) text) l.

Lemma add_import_text : forall a i, da_text (add_import T o a i) = da_text a.
Proof.
  intros a i. unfold add_import.
  destruct (match ds_types i with Some (ty, tr) => _ | None => _ end) as [deno1 type1].
  destruct (if is_type_kind (ds_kind i) then _ else _) as [[code2 type2] dyn2]. reflexivity.
Qed.

Lemma filter_snoc : forall {A} (f : A -> bool) l x, filter f (l ++ [x]) = filter f l ++ (if f x then [x] else []).
Proof. intros A f l x. rewrite filter_app. cbn. destruct (f x); reflexivity. Qed.

Lemma accf_snoc : forall text pre i,
  accf text (pre ++ [i]) = if sel text i then add_import T o (accf text pre) i else accf text pre.
Proof.
  intros text pre i. unfold accf. rewrite filter_snoc. destruct (sel text i).
  - rewrite fold_left_app. reflexivity.
  - rewrite app_nil_r. reflexivity.
Qed.

Lemma accf_text : forall text pre, da_text (accf text pre) = text.
Proof.
  intros text pre. unfold accf. generalize (filter (sel text) pre). intro l.
  assert (G : forall l a, da_text (fold_left (add_import T o) l a) = da_text a).
  { induction l0 as [|i l0 IH]; intro a; cbn [fold_left]; [reflexivity | rewrite IH; apply add_import_text]. }
  rewrite G. reflexivity.
Qed.

Lemma get_upd_same : forall i l,
  get (ds_text i) (upd T o i l) =
  Some (add_import T o (match get (ds_text i) l with Some a => a | None => empty_acc (ds_text i) end) i).
Proof.
  intros i l. unfold get. induction l as [|a l IH]; cbn [upd find].
  - rewrite add_import_text. cbn. rewrite N.eqb_refl. reflexivity.
  - destruct (N.eqb (da_text a) (ds_text i)) eqn:E; cbn [find].
    + rewrite add_import_text, E. reflexivity.
    + rewrite E. exact IH.
Qed.

Lemma get_upd_other : forall i l text, text <> ds_text i -> get text (upd T o i l) = get text l.
Proof.
  intros i l text Hne. unfold get. induction l as [|a l IH]; cbn [upd find].
  - rewrite add_import_text. cbn. apply not_eq_sym in Hne. apply N.eqb_neq in Hne. rewrite Hne. reflexivity.
  - destruct (N.eqb (da_text a) (ds_text i)) eqn:E; cbn [find].
    + rewrite add_import_text. apply N.eqb_eq in E. rewrite E.
      apply not_eq_sym in Hne. apply N.eqb_neq in Hne. rewrite Hne. reflexivity.
    + destruct (N.eqb (da_text a) text); [reflexivity | exact IH].
Qed.

Lemma upd_texts : forall i l,
  map da_text (upd T o i l) = if mem (ds_text i) (map da_text l) then map da_text l else map da_text l ++ [ds_text i].
Proof.
  intros i l. induction l as [|a l IH]; unfold mem; cbn [upd map existsb app].
  - rewrite add_import_text. reflexivity.
  - fold (mem (ds_text i) (map da_text l)). destruct (N.eqb (da_text a) (ds_text i)) eqn:E.
    + cbn [map]. rewrite add_import_text. rewrite N.eqb_sym, E. reflexivity.
    + cbn [map]. rewrite IH. rewrite N.eqb_sym, E. cbn. destruct (mem (ds_text i) (map da_text l)); reflexivity.
Qed.

Record Inv (l : list dacc) (pre : list desc) : Prop := {
  iv_nodup : NoDup (map da_text l);
  iv_get : forall text, get text l = match filter (sel text) pre with [] => None | _ => Some (accf text pre) end
}.

Lemma get_none_notin : forall text l, get text l = None -> ~ In text (map da_text l).
Proof.
  intros text l H Hin. unfold get in H. apply in_map_iff in Hin. destruct Hin as [a [Ht Ha]].
  pose proof (find_none _ _ H a Ha) as Hf. cbn in Hf. rewrite Ht, N.eqb_refl in Hf. discriminate.
Qed.

Lemma step_inv : forall l pre i, Inv l pre -> Inv (if skipped o i then l else upd T o i l) (pre ++ [i]).
Proof.
  intros l pre i [Hn Hg]. destruct (skipped o i) eqn:Es.
  - constructor; [exact Hn|]. intro text. rewrite filter_snoc, accf_snoc.
    assert (Hs : sel text i = false) by (unfold sel; rewrite Es; apply Bool.andb_false_r).
    rewrite Hs, app_nil_r. apply Hg.
  - constructor.
    + rewrite upd_texts. destruct (mem (ds_text i) (map da_text l)) eqn:Em; [exact Hn|].
      apply NoDup_app_single; [exact Hn|]. intro Hin. apply mem_In in Hin. congruence.
    + intro text. rewrite filter_snoc, accf_snoc. destruct (N.eq_dec text (ds_text i)) as [->|Hne].
      * rewrite get_upd_same.
        assert (Hs : sel (ds_text i) i = true) by (unfold sel; rewrite N.eqb_refl, Es; reflexivity).
        rewrite Hs.
        assert (Hprev : match get (ds_text i) l with Some a => a | None => empty_acc (ds_text i) end = accf (ds_text i) pre).
        { rewrite Hg. unfold accf. destruct (filter (sel (ds_text i)) pre); reflexivity. }
        rewrite Hprev. destruct (filter (sel (ds_text i)) pre); reflexivity.
      * rewrite (get_upd_other i l text Hne).
        assert (Hs : sel text i = false).
        { unfold sel. assert (E : N.eqb (ds_text i) text = false) by (apply N.eqb_neq; congruence). rewrite E. reflexivity. }
        rewrite Hs, app_nil_r. apply Hg.
Qed.

Lemma fold_inv : forall ds l pre, Inv l pre ->
  Inv (fold_left (fun l i => if skipped o i then l else upd T o i l) ds l) (pre ++ ds).
Proof.
  induction ds as [|i ds IH]; intros l pre H; cbn [fold_left].
  - rewrite app_nil_r. exact H.
  - replace (pre ++ i :: ds) with ((pre ++ [i]) ++ ds) by (rewrite <- app_assoc; reflexivity).
    apply IH. apply step_inv. exact H.
Qed.

Lemma fold_descs_inv : forall ds, Inv (fold_descs T o ds) ds.
Proof.
  intro ds. unfold fold_descs. apply (fold_inv ds [] []). constructor; [constructor | intro text; reflexivity].
Qed.

Lemma get_in_nodup : forall l a, NoDup (map da_text l) -> In a l -> get (da_text a) l = Some a.
Proof.
  intros l a. induction l as [|b l IH]; intros Hn Hin; [destruct Hin|].
  cbn [map] in Hn. inversion Hn as [|? ? Hnot Hnd]; subst. unfold get. cbn [find].
  destruct Hin as [<-|Hin]; [rewrite N.eqb_refl; reflexivity|].
  destruct (N.eqb (da_text b) (da_text a)) eqn:E.
  - apply N.eqb_eq in E. exfalso. apply Hnot. rewrite E. apply in_map. exact Hin.
  - apply IH; assumption.
Qed.

(* every entry is the fold of the imports of its text, and there is at least one *)
Lemma fold_descs_entry : forall ds a, In a (fold_descs T o ds) ->
  a = accf (da_text a) ds /\ filter (sel (da_text a)) ds <> [].
Proof.
  intros ds a Hin. destruct (fold_descs_inv ds) as [Hn Hg].
  pose proof (get_in_nodup _ a Hn Hin) as Hga. rewrite Hg in Hga.
  destruct (filter (sel (da_text a)) ds) eqn:Ef; [discriminate|]. inversion Hga as [Ha]. split; [rewrite <- Ha at 1; rewrite Ha; reflexivity | discriminate].
Qed.

(* ---------- the fold over the imports of one text ---------- *)
Definition is_code (i : desc) : bool := negb (is_type_kind (ds_kind i)).

Lemma resolve_in_not_none : forall tab text range, is_dnone (resolve_in tab text range) = false.
Proof. intros tab text range. unfold resolve_in. destruct (lookup text tab) as [[t|e]|]; reflexivity. Qed.

Lemma add_import_code : forall a i,
  do_decl o = false ->
  da_code (add_import T o a i) =
    (if is_code i then (if is_dnone (da_code a) then resolve_in (rt_exec T) (ds_text i) (ds_range i) else da_code a) else da_code a) /\
  da_dyn (add_import T o a i) =
    (if is_code i then (if is_dnone (da_code a) then ds_dyn i else da_dyn a && ds_dyn i) else da_dyn a).
Proof.
  intros a i Hd. unfold add_import, is_code. rewrite Hd.
  destruct (match ds_types i with Some (ty, tr) => _ | None => _ end) as [deno1 type1].
  destruct (is_type_kind (ds_kind i)); cbn; [split; reflexivity|].
  destruct (is_dnone (da_code a)); cbn; split; reflexivity.
Qed.

Lemma fold_code : forall L a,
  do_decl o = false ->
  let ci := filter is_code L in
  let r := fold_left (add_import T o) L a in
  (is_dnone (da_code a) = true ->
     match ci with
     | [] => da_code r = da_code a
     | i :: _ => da_code r = resolve_in (rt_exec T) (ds_text i) (ds_range i) /\ da_dyn r = forallb ds_dyn ci
     end) /\
  (is_dnone (da_code a) = false -> da_code r = da_code a /\ da_dyn r = da_dyn a && forallb ds_dyn ci).
Proof.
  induction L as [|i L IH]; intros a Hd; cbn [fold_left filter].
  - split; [intros _; reflexivity | intros _; split; [reflexivity | cbn; rewrite Bool.andb_true_r; reflexivity]].
  - destruct (add_import_code a i Hd) as [Hc Hy]. specialize (IH (add_import T o a i) Hd). cbn zeta in IH.
    destruct IH as [IH1 IH2]. destruct (is_code i) eqn:Ei.
    + split.
      * intro Hnone. rewrite Hnone in Hc, Hy.
        assert (Hnn : is_dnone (da_code (add_import T o a i)) = false) by (rewrite Hc; apply resolve_in_not_none).
        destruct (IH2 Hnn) as [H1 H2]. split; [rewrite H1; exact Hc|]. rewrite H2, Hy. cbn [forallb]. reflexivity.
      * intro Hsome. rewrite Hsome in Hc, Hy.
        assert (Hnn : is_dnone (da_code (add_import T o a i)) = false) by (rewrite Hc; exact Hsome).
        destruct (IH2 Hnn) as [H1 H2]. split; [rewrite H1; exact Hc|]. rewrite H2, Hy. cbn [forallb].
        rewrite Bool.andb_assoc. reflexivity.
    + split.
      * intro Hnone. assert (Hn' : is_dnone (da_code (add_import T o a i)) = true) by (rewrite Hc; exact Hnone).
        specialize (IH1 Hn'). destruct (filter is_code L) as [|j ci']; [rewrite IH1; exact Hc | exact IH1].
      * intro Hsome. assert (Hn' : is_dnone (da_code (add_import T o a i)) = false) by (rewrite Hc; exact Hsome).
        destruct (IH2 Hn') as [H1 H2]. split; [rewrite H1; exact Hc | rewrite H2, Hy; reflexivity].
Qed.

(* code imports are never skipped, so the code imports of a text among the selected descriptors are its code imports *)
Lemma filter_code_sel : forall text ds,
  filter is_code (filter (sel text) ds) = filter (fun i => N.eqb (ds_text i) text && is_code i) ds.
Proof.
  intros text ds. induction ds as [|i ds IH]; cbn [filter]; [reflexivity|].
  unfold sel at 1, skipped, is_code at 2. destruct (N.eqb (ds_text i) text) eqn:E; cbn.
  - destruct (is_type_kind (ds_kind i)) eqn:Ek; cbn.
    + destruct (negb (do_types o)); cbn; [exact IH|]. unfold is_code at 1. rewrite Ek. cbn. exact IH.
    + unfold is_code at 1. rewrite Ek. cbn. rewrite IH. reflexivity.
  - exact IH.
Qed.

Definition code_imports (text : N) (ds : list desc) : list desc :=
  filter (fun i => N.eqb (ds_text i) text && is_code i) ds.

Theorem declared_nodup : forall ds, NoDup (map da_text (declared T o ds)).
Proof.
  intro ds. unfold declared. rewrite map_map.
  assert (E : map (fun x => da_text (drop_aug o x)) (filter (retained o) (fold_descs T o ds)) =
              map da_text (filter (retained o) (fold_descs T o ds))).
  { apply map_ext. intro a. unfold drop_aug. destruct (do_typed o && _); reflexivity. }
  rewrite E. destruct (fold_descs_inv ds) as [Hn _]. clear E.
  induction (fold_descs T o ds) as [|a l IH]; cbn [filter map]; [constructor|].
  cbn [map] in Hn. inversion Hn as [|? ? Hnot Hnd]; subst.
  destruct (retained o a); [|apply IH; exact Hnd]. cbn [map]. constructor; [|apply IH; exact Hnd].
  intro Hin. apply Hnot. apply in_map_iff in Hin. destruct Hin as [b [Hb Hinb]]. apply filter_In in Hinb.
  rewrite <- Hb. apply in_map. apply Hinb.
Qed.

Theorem declared_static_wins : forall ds a,
  do_decl o = false -> In a (declared T o ds) ->
  match code_imports (da_text a) ds with
  | [] => da_code a = DNone
  | i :: _ => da_code a = resolve_in (rt_exec T) (ds_text i) (ds_range i) /\
              da_dyn a = forallb ds_dyn (code_imports (da_text a) ds)
  end.
Proof.
  intros ds a Hd Hin. unfold declared in Hin. apply in_map_iff in Hin. destruct Hin as [b [Hb Hinb]].
  apply filter_In in Hinb. destruct Hinb as [Hinb _].
  destruct (fold_descs_entry ds b Hinb) as [Hacc _].
  assert (Hfields : da_text a = da_text b /\ da_code a = da_code b /\ da_dyn a = da_dyn b).
  { subst a. unfold drop_aug. destruct (do_typed o && _); cbn; repeat split; reflexivity. }
  destruct Hfields as [Ht [Hc Hy]]. rewrite Ht, Hc, Hy.
  pose proof (fold_code (filter (sel (da_text b)) ds) (empty_acc (da_text b)) Hd) as [F1 _]. cbn zeta in F1.
  specialize (F1 eq_refl). rewrite filter_code_sel in F1. fold (code_imports (da_text b) ds) in F1.
  fold (accf (da_text b) ds) in F1. rewrite <- Hacc in F1.
  destruct (code_imports (da_text b) ds); [exact F1 | exact F1].
Qed.
End D.

(* the whole declaration without anything but descriptors is the descriptor fold *)
Lemma declared_full_no_extras : forall T fo ds,
  declared_full T fo no_extras ds = (None, declared T (fo_base fo) ds).
Proof.
  intros T fo ds. unfold declared_full, pre_phase, declared, fold_descs. unfold jsx_eff, jsx_types_eff. cbn [ex_self ex_refs ex_jsx ex_jsx_types ex_jsdoc ex_header ex_def_jsx ex_def_jsx_types ex_res_types no_extras option_map].
  destruct (do_types (fo_base fo)); destruct (fo_jsx fo); destruct (do_typed (fo_base fo)); reflexivity.
Qed.
