(* C05, registry stage: content whose hash differs from the manifest checksum is
   never admitted.  Every module entry of a package file that has source text
   has exactly the source hash the version manifest gives for that file - for
   loaders that report the requested specifier as the final one (NoAlias). *)
From Coq Require Import Arith.
From RecordUpdate Require Import RecordSet.
Import RecordSetNotations.
From DG Require Import Base.Util Base.Sexp Model.Graph Model.Builder Proofs.BuilderProofs Proofs.ChecksumProofs
  Proofs.ClosureProofs Model.Jsr Proofs.JsrProofs.

Definition final_ok (s : spec) (r : jresp) : Prop :=
  match r with JExternal f => f = s | JModule f _ => f = s | _ => True end.
Definition NoAlias (W : jworld) : Prop := forall s, final_ok s (use_of W s) /\ final_ok s (only_of W s).

Section A.
Variable W : jworld.
Hypothesis Hwf : wf_jworld W = true.
Hypothesis Hna : NoAlias W.

(* the source of an entry at [s] is what the manifest vouches for *)
Definition SrcOK (s : spec) (src : N) : Prop :=
  match cls_of W s with CFile _ _ _ => manifest_chk W s src | _ => True end.

Record AInv (st : jstate) : Prop := {
  av_slots : forall s src deps, lookup s (js_slots st) = Some (JsMod src deps) -> src <> 0 -> SrcOK s src;
  av_content : forall ci, In ci (js_content st) -> SrcOK (ci_spec ci) (ci_checksum ci)
}.

Lemma ainv_ext : forall st st',
  js_slots st' = js_slots st -> js_content st' = js_content st -> AInv st -> AInv st'.
Proof. intros st st' H1 H2 [A B]. constructor; rewrite ?H1, ?H2; assumption. Qed.

Ltac aext H := (eapply ainv_ext; [| |exact H]; reflexivity).

Lemma ainv_set_slot : forall st s v,
  AInv st -> (forall src deps, v = JsMod src deps -> src <> 0 -> SrcOK s src) -> AInv (set_slot st s v).
Proof.
  intros st s v [A B] Hv. constructor; [|exact B].
  intros s0 src deps Hl Hs. unfold set_slot in Hl. cbn in Hl. destruct (N.eq_dec s0 s) as [->|Hne].
  - rewrite lookup_set_assoc_same in Hl. inversion Hl; subst. apply (Hv src deps eq_refl Hs).
  - rewrite lookup_set_assoc_other in Hl by exact Hne. apply (A s0 src deps Hl Hs).
Qed.

Lemma ainv_set_nonmod : forall st s v, AInv st -> (forall src deps, v <> JsMod src deps) -> AInv (set_slot st s v).
Proof. intros st s v H Hv. apply ainv_set_slot; [exact H|]. intros src deps E. exfalso. exact (Hv src deps E). Qed.

Lemma ainv_set_err : forall st key k s r, AInv st -> AInv (set_err st key k s r).
Proof. intros. unfold set_err. apply ainv_set_nonmod; [assumption | intros src deps E; discriminate]. Qed.

Lemma ainv_push_item : forall st it, AInv st -> AInv (push_item st it).
Proof.
  intros st it H. unfold push_item.
  pose proof (ainv_set_nonmod st (ji_spec it) JsPending H ltac:(intros src deps E; discriminate)) as H1. aext H1.
Qed.

Lemma ainv_check_specifier : forall st req s, AInv st -> AInv (check_specifier st req s).
Proof.
  intros st req s [A B]. unfold check_specifier. destruct (N.eqb req s); [constructor; assumption|].
  constructor; [|exact B]. cbn. intros s0 src deps Hl Hs. apply (A s0 src deps); [|exact Hs].
  destruct (lookup req (js_slots st)) as [[src' deps'| |e|]|]; try exact Hl.
  destruct (N.eq_dec s0 req) as [->|Hne].
  - rewrite lookup_remove_assoc_same in Hl. discriminate.
  - rewrite lookup_remove_assoc_other in Hl by exact Hne. exact Hl.
Qed.

Lemma ainv_queue_pkg : forall st p, AInv st -> AInv (queue_pkg W st p).
Proof. intros st p H. unfold queue_pkg. destruct (mem p (js_pq st)); [exact H | aext H]. Qed.
Lemma ainv_queue_ver : forall st v, AInv st -> AInv (queue_ver W st v).
Proof. intros st v H. unfold queue_ver. destruct (existsb _ (js_vq st)); [exact H | aext H]. Qed.
Lemma ainv_mark : forall st req r, AInv st -> AInv (mark_jsr_dep st req r).
Proof. intros st req r H. unfold mark_jsr_dep. destruct r as [[rg [v|]]|]; try exact H. aext H. Qed.
Lemma ainv_lock_set : forall st v c, AInv st -> AInv (lock_set_pkg st v c).
Proof. intros st v c H. unfold lock_set_pkg. destruct (js_lock_pkg st); [|exact H]. destruct c; [aext H | exact H]. Qed.
Lemma ainv_record_remote : forall st f d src, AInv st -> AInv (record_remote W st f d src).
Proof.
  intros st f d src H. unfold record_remote. destruct (js_lock_pkg st); [|exact H].
  destruct (negb d && mem f (jw_http W) && negb (has_key f (js_lock_remote st))); [aext H | exact H].
Qed.

Lemma load_ainv : forall st spec0 rng dyn root vinfo count,
  AInv st -> AInv (load W st spec0 rng dyn root vinfo count).
Proof.
  intros st spec0 rng dyn root vinfo count H. unfold load.
  set (s := load_target st spec0).
  destruct (lookup s (js_slots st)) as [sl|].
  { destruct (cls_of W spec0); try exact H. apply ainv_mark. exact H. }
  assert (Hby : AInv
    match cls_of W s with
    | CJsr pkg req exp =>
        (queue_pkg W (mark_jsr_dep st req rng) pkg)
          <| js_res := js_res (queue_pkg W (mark_jsr_dep st req rng) pkg) ++
               [{| jr_spec := s; jr_pkg := pkg; jr_req := req; jr_exp := exp; jr_rng := rng; jr_dyn := dyn; jr_root := root |}] |>
    | CJsrBad => set_err st s EPackageFormat s rng
    | CFile p v _ =>
        push_item (queue_ver W st (p, v))
          {| ji_spec := s; ji_rng := rng; ji_count := count; ji_dyn := dyn; ji_root := root; ji_probe := None;
             ji_checksum := lock_remote_get st s; ji_vinfo := None; ji_fetch := Some (p, v) |}
    | CPlain =>
        push_item st
          {| ji_spec := s; ji_rng := rng; ji_count := count; ji_dyn := dyn; ji_root := root; ji_probe := None;
             ji_checksum := lock_remote_get st s; ji_vinfo := None; ji_fetch := None |}
    end).
  { destruct (cls_of W s) as [pkg req exp| |p v pa|].
    - pose proof (ainv_queue_pkg _ pkg (ainv_mark st req rng H)) as H1. aext H1.
    - apply ainv_set_err. exact H.
    - apply ainv_push_item. apply ainv_queue_ver. exact H.
    - apply ainv_push_item. exact H. }
  destruct (has_key s (js_redirects st)); [apply ainv_set_err; exact H|].
  destruct vinfo as [[vp vv]|]; [|exact Hby].
  destruct (cls_of W s) as [pkg req exp| |p v pa|]; try exact Hby.
  destruct (N.eqb vp p && N.eqb vv v); [|exact Hby].
  destruct (vinfo_of W st (p, v)) as [vi|]; [|exact Hby].
  destruct (get_checksum W vi pa) as [c|]; [|apply ainv_set_err; exact H].
  destruct (lookup pa (vi_modinfo vi)) as [mi|]; apply ainv_push_item; [aext H | exact H].
Qed.

Lemma visit_deps_ainv : forall referrer vinfo ds st, AInv st -> AInv (visit_deps W st referrer vinfo ds).
Proof.
  intros referrer vinfo ds. induction ds as [|d ds IH]; intros st H; cbn [visit_deps]; [exact H|].
  apply IH. unfold visit_dep. destruct (jd_dyn d && negb (js_in_dyn st)); [aext H | apply load_ainv; exact H].
Qed.

(* what a load admits as a module: under the requested name, with the source the manifest vouches for *)
Lemma check_resp_hash : forall r k f m, check_resp r (Some k) = LResp (JModule f m) -> jm_hash m = k.
Proof.
  intros r k f m. unfold check_resp. destruct r as [| |t|f0|f0 m0]; try (intro H; inversion H; fail).
  destruct (N.eqb k (jm_hash m0)) eqn:E; [|discriminate]. intro H. inversion H; subst. apply N.eqb_eq in E. symmetry. exact E.
Qed.

Lemma check_resp_resp : forall r c r', check_resp r c = LResp r' -> r' = r.
Proof.
  intros r c r'. unfold check_resp. destruct r as [| |t|f0|f0 m0]; destruct c as [k|];
    try (intro H; inversion H; reflexivity). destruct (N.eqb k (jm_hash m0)); [intro H; inversion H; reflexivity | discriminate].
Qed.

Lemma try_load_src : forall st it final src decl deps content,
  ItemOK W it -> t_res (try_load W st it) = PModule final src decl deps content ->
  final = ji_spec it /\ (src = 0 \/ SrcOK final src).
Proof.
  intros st it final src decl deps content Hi. unfold try_load.
  destruct (Hna (ji_spec it)) as [Huse Honly].
  destruct (ji_probe it) as [[c mi]|] eqn:Ep.
  - cbn [t_res]. destruct (check_resp (only_of W (ji_spec it)) (Some c)) as [[| |t|f|f m]|] eqn:Ec; unfold mk_err; try discriminate.
    + intro H. inversion H; subst. split; [reflexivity | left; reflexivity].
    + unfold parse_resp. destruct (jm_ok m); [|discriminate]. intro H. inversion H; subst.
      pose proof (check_resp_resp _ _ _ Ec) as Er. rewrite <- Er in Honly. cbn in Honly. subst final.
      split; [reflexivity|]. right. unfold SrcOK. unfold ItemOK in Hi.
      destruct (cls_of W (ji_spec it)) as [pkg req exp| |p v pa|]; try exact I.
      destruct Hi as [[_ Hnone]|[_ [k [Hm [_ Hk]]]]]; [rewrite Hnone in Ep; discriminate|].
      rewrite (check_resp_hash _ _ _ _ Ec). rewrite (Hk c mi Ep). exact Hm.
  - set (fetched := match ji_fetch it with None => _ | Some v => _ end).
    assert (Hf : forall c vinfo https, fetched = inl (c, vinfo, https) ->
                 match cls_of W (ji_spec it) with CFile _ _ _ => exists k, c = Some k /\ manifest_chk W (ji_spec it) k | _ => True end).
    { intros c vinfo https Hfe. unfold ItemOK in Hi.
      destruct (cls_of W (ji_spec it)) as [pkg req exp| |p v pa|] eqn:Ecl; try exact I.
      unfold fetched in Hfe. destruct Hi as [[Hfetch _]|[Hfetch [k [Hm [Hc _]]]]]; rewrite Hfetch in Hfe.
      - destruct (ver_result W st (p, v)) as [[vi cfl]|kk] eqn:Ev; [|discriminate].
        try rewrite Ecl in Hfe. destruct (get_checksum W vi pa) as [c0|] eqn:Eg; [|discriminate].
        inversion Hfe; subst. exists c0. split; [reflexivity|].
        exists p, v, pa, vi. split; [exact Ecl|]. split; [apply (ver_result_meta W st _ _ cfl); exact Ev | exact Eg].
      - inversion Hfe; subst. exists k. split; [exact Hc | exact Hm]. }
    destruct fetched as [[[c vinfo] https]|e] eqn:Ef; [|cbn; discriminate].
    specialize (Hf c vinfo https eq_refl).
    destruct (check_resp (use_of W (ji_spec it)) c) as [[| |t|f|f m]|] eqn:Ec; cbn [t_res]; unfold mk_err; try discriminate.
    + destruct vinfo; [discriminate|]. destruct c; [discriminate|].
      destruct (Nat.leb (jw_max_redirects W) (ji_count it) || N.eqb t (ji_spec it)); discriminate.
    + unfold parse_resp. destruct (jm_ok m); [|discriminate]. intro H. inversion H; subst.
      pose proof (check_resp_resp _ _ _ Ec) as Er. rewrite <- Er in Huse. cbn in Huse. subst final.
      split; [reflexivity|]. right. unfold SrcOK.
      destruct (cls_of W (ji_spec it)) as [pkg req exp| |p v pa|]; try exact I.
      destruct Hf as [k [-> Hm]]. rewrite (check_resp_hash _ _ _ _ Ec). exact Hm.
    + destruct vinfo; discriminate.
Qed.

Lemma process_ainv : forall st it, AInv st -> ItemOK W it -> AInv (process W st it).
Proof.
  intros st it H Hi. unfold process.
  pose proof (try_load_src st it) as Hsrc.
  pose proof (try_load_content W st it) as Hcont.
  destruct (try_load W st it) as [res calls vinfo https]. cbn [t_res t_calls t_vinfo t_https] in *.
  set (st1 := st <| js_calls := rev calls ++ js_calls st |>).
  set (st2 := match https with
              | Some (v, cfl) => (lock_set_pkg st1 v cfl) <| js_pkgs := ensure_package (js_pkgs (lock_set_pkg st1 v cfl)) v |>
              | None => st1 end).
  assert (H2 : AInv st2).
  { unfold st2. destruct https as [[v cfl]|]; [|aext H].
    assert (H1 : AInv st1) by aext H. pose proof (ainv_lock_set st1 v cfl H1) as H1'. aext H1'. }
  clearbody st2. clear st1 H.
  destruct res as [e|to|final|final src decl deps content].
  - apply ainv_set_nonmod; [apply ainv_check_specifier; exact H2 | intros s0 d0 E0; discriminate].
  - apply load_ainv. apply ainv_check_specifier. exact H2.
  - set (st3 := check_specifier st2 (ji_spec it) final).
    assert (H3 : AInv st3) by (apply ainv_check_specifier; exact H2). clearbody st3.
    set (st4 := if ji_root it then add_resolved_root st3 final else st3).
    assert (H4 : AInv st4) by (unfold st4; destruct (ji_root it); [aext H3 | exact H3]). clearbody st4.
    destruct (lookup final (js_slots st4)) as [[s0 d0| |e0|]|]; try exact H4;
      (apply ainv_set_nonmod; [exact H4 | intros s1 d1 E1; discriminate]).
  - destruct (Hsrc final src decl deps content Hi eq_refl) as [Hfin Hok].
    set (st3 := check_specifier st2 (ji_spec it) final).
    assert (H3 : AInv st3) by (apply ainv_check_specifier; exact H2). clearbody st3.
    set (st4 := if ji_root it then add_resolved_root st3 final else st3).
    assert (H4 : AInv st4) by (unfold st4; destruct (ji_root it); [aext H3 | exact H3]). clearbody st4.
    apply ainv_set_slot.
    + apply visit_deps_ainv. destruct content as [c|].
      * destruct (Hcont final src decl deps c eq_refl) as [_ [mi Hp]].
        destruct H4 as [A B]. constructor; [exact A|]. cbn. intros ci Hin. apply in_app_or in Hin.
        destruct Hin as [Hin|[<-|[]]]; [apply B; exact Hin|]. cbn. rewrite Hfin.
        unfold SrcOK. unfold ItemOK in Hi. destruct (cls_of W (ji_spec it)) as [pkg req exp| |p v pa|]; try exact I.
        destruct Hi as [[_ Hnone]|[_ [k [Hm [_ Hk]]]]]; [rewrite Hnone in Hp; discriminate|].
        rewrite (Hk c mi Hp). exact Hm.
      * destruct vinfo; [exact H4 | apply ainv_record_remote; exact H4].
    + intros src0 deps0 E Hne. inversion E; subst. destruct Hok as [Hz|Hok]; [contradiction | exact Hok].
Qed.

Lemma content_load_ainv : forall st ci, AInv st -> SrcOK (ci_spec ci) (ci_checksum ci) -> AInv (content_load W st ci).
Proof.
  intros st ci H Hc. unfold content_load.
  destruct (check_resp (use_of W (ci_spec ci)) (Some (ci_checksum ci))) as [[| |t|f|f m]|] eqn:Ec;
    try (apply ainv_set_err; exact H).
  destruct (N.eqb f (ci_spec ci)); [|apply ainv_set_err; exact H].
  destruct (lookup (ci_spec ci) (js_slots st)) as [[src deps| |e|]|]; try exact H.
  apply ainv_set_slot; [exact H|]. intros src0 deps0 E _. inversion E; subst.
  rewrite (check_resp_hash _ _ _ _ Ec). exact Hc.
Qed.

Lemma content_loads_ainv : forall st, AInv st -> AInv (content_loads W st).
Proof.
  intros st [A B]. unfold content_loads.
  assert (G : forall cs st0, AInv st0 -> (forall ci, In ci cs -> SrcOK (ci_spec ci) (ci_checksum ci)) ->
                             AInv (fold_left (content_load W) cs st0)).
  { induction cs as [|c cs IH]; intros st0 H0 Hcs; cbn [fold_left]; [exact H0|].
    apply IH; [apply content_load_ainv; [exact H0 | apply Hcs; left; reflexivity] | intros ci Hin; apply Hcs; right; exact Hin]. }
  apply G; [constructor; [exact A | intros ci []] | exact B].
Qed.

Lemma probe_all_ainv : forall pkg cands st cached, AInv st -> AInv (fst (probe_all W st pkg cands cached)).
Proof.
  intros pkg cands. induction cands as [|v cands IH]; intros st cached H; cbn [probe_all fst]; [exact H|].
  apply IH. aext H.
Qed.

Lemma resolve_reqs_ainv : forall o items st memo acc, AInv st -> AInv (fst (resolve_reqs W o st memo items acc)).
Proof.
  intros o items. induction items as [|it rest IH]; intros st memo acc H; cbn [resolve_reqs]; [exact H|].
  destruct (pmeta_of W st (jr_pkg it)) as [f|versions]; [apply IH; apply ainv_set_err; exact H|].
  set (pr := if negb (jo_prefer_cached o) || unification_decides W st (jr_pkg it) (jr_req it)
             then (st, memo, []) else probe W st memo (jr_pkg it) (jr_req it) versions).
  assert (Hpr : AInv (fst (fst pr))).
  { unfold pr. destruct (negb (jo_prefer_cached o) || unification_decides W st (jr_pkg it) (jr_req it)); [exact H|].
    unfold probe. destruct (match lookup (jr_pkg it) memo with Some m => m | None => ([], []) end) as [probed cached].
    set (cands := map fst (filter _ versions)).
    pose proof (probe_all_ainv (jr_pkg it) cands st cached H) as Hp.
    destruct (probe_all W st (jr_pkg it) cands cached) as [st1 cached']. exact Hp. }
  destruct pr as [[st1 memo1] cached]. cbn [fst] in Hpr.
  destruct (resolve_version W (jr_req it) versions (versions_by_name (js_pkgs st1) (jr_pkg it)) cached (late_of W (jr_pkg it))) as [[v yanked]|].
  - apply IH. apply ainv_queue_ver. aext Hpr.
  - destruct (js_busting st1); [apply IH; apply ainv_set_err; exact Hpr | exact Hpr].
Qed.

Lemma resolve_vers_ainv : forall ct items st, AInv st -> AInv (resolve_vers W ct st items).
Proof.
  intros ct items. induction items as [|x rest IH]; intros st H; cbn [resolve_vers]; [exact H|].
  apply IH.
  destruct (ver_result W st (vr_nv x)) as [[vi cfl]|k]; [|apply ainv_set_err; exact H].
  set (st1 := st <| js_pkgs := ensure_package (js_pkgs st) (vr_nv x) |>).
  assert (H1 : AInv st1) by aext H.
  pose proof (ainv_lock_set st1 (vr_nv x) cfl H1) as H2.
  set (st2 := lock_set_pkg st1 (vr_nv x) cfl) in *. clearbody st2.
  destruct (lookup (jr_exp (vr_item x)) (vi_exports vi)) as [target|]; [|apply ainv_set_err; exact H2].
  destruct target as [|p]; [apply ainv_set_err; exact H2|].
  apply load_ainv. destruct (jr_root (vr_item x)); aext H2.
Qed.

Lemma load_branches_ainv : forall bs st, AInv st -> AInv (load_branches W st bs).
Proof.
  intros bs. induction bs as [|[s b] bs IH]; intros st H; cbn [load_branches]; [exact H|].
  apply IH. apply load_ainv. exact H.
Qed.

Lemma loop_step_ainv : forall o st,
  JInv W st -> AInv st -> match loop_step W o st with inl st' => AInv st' | inr st' => AInv st' end.
Proof.
  intros o st HJ H. unfold loop_step.
  set (st1 := match js_pending st with it :: rest => process W (st <| js_pending := rest |>) it | [] => st end).
  assert (H1 : AInv st1).
  { unfold st1. destruct (js_pending st) as [|it rest] eqn:Ep; [exact H|].
    pose proof (jv_items W st HJ) as Hi. rewrite Ep in Hi. inversion Hi as [|? ? Hit Hrest]; subst.
    apply process_ainv; [aext H | exact Hit]. }
  clearbody st1.
  destruct (js_pending st1) as [|i1 r1]; [|exact H1].
  unfold resolve_jsr.
  match goal with
  | |- context [resolve_reqs ?a ?b ?c ?d ?e ?f] =>
      assert (Hr : AInv (fst (resolve_reqs a b c d e f))) by (apply resolve_reqs_ainv; aext H1);
      destruct (resolve_reqs a b c d e f) as [st2 [vs|]]
  end; cbn [fst] in Hr; [|exact Hr].
  pose proof (resolve_vers_ainv (match pt_top (js_pkgs st1) with [] => true | _ => false end) vs st2 Hr) as H3.
  set (st3 := resolve_vers W _ st2 vs) in *. clearbody st3.
  destruct (js_pending st3); [|exact H3].
  destruct (js_in_dyn st3); [exact H3|].
  apply load_branches_ainv. aext H3.
Qed.

Lemma resolve_pending_both : forall o fuel st,
  JInv W st -> AInv st ->
  match resolve_pending fuel W o st with
  | LDone st' => JInv W st' /\ AInv st'
  | LRestart st' => JInv W st' /\ AInv st'
  | LFuel => True end.
Proof.
  intros o fuel. induction fuel as [|f IH]; intros st HJ H; cbn [resolve_pending].
  - destruct (idle st); [split; assumption | exact I].
  - destruct (idle st); [split; assumption|].
    pose proof (loop_step_jinv W Hwf o st HJ) as HJ'. pose proof (loop_step_ainv o st HJ H) as H'.
    destruct (loop_step W o st) as [st'|st']; [apply IH; assumption | split; assumption].
Qed.

Lemma load_roots_ainv : forall roots st, AInv st -> AInv (load_roots W st roots).
Proof.
  intros roots. induction roots as [|r rs IH]; intros st H; cbn [load_roots]; [exact H|].
  apply IH. apply load_ainv. exact H.
Qed.

Theorem jbuild_admits_only_vouched : forall o roots g,
  jbuild W o roots = Some g ->
  forall s src deps, lookup s (jg_slots g) = Some (JsMod src deps) -> src <> 0 -> SrcOK s src.
Proof.
  intros o roots g. unfold jbuild.
  assert (A0 : forall st, js_slots st = [] -> js_content st = [] -> AInv st).
  { intros st Hs Hc. constructor; rewrite ?Hs, ?Hc; [intros s src deps Hl; discriminate | intros ci []]. }
  pose proof (resolve_pending_both o (jfuel W) (load_roots W (init_state W) roots)
                (load_roots_jinv W Hwf roots _ (init_jinv W)) (load_roots_ainv roots _ (A0 (init_state W) eq_refl eq_refl))) as H1.
  destruct (resolve_pending (jfuel W) W o (load_roots W (init_state W) roots)) as [st|st|]; [| |discriminate].
  - intro E. inversion E; subst. cbn [finish jg_slots]. destruct H1 as [_ H1]. apply (av_slots _ (content_loads_ainv st H1)).
  - destruct H1 as [HJ1 _].
    pose proof (resolve_pending_both o (jfuel W) (load_roots W (restart_state W st) roots)
                  (load_roots_jinv W Hwf roots _ (restart_jinv W st HJ1))
                  (load_roots_ainv roots _ (A0 (restart_state W st) eq_refl eq_refl))) as H2.
    destruct (resolve_pending (jfuel W) W o (load_roots W (restart_state W st) roots)) as [st2|st2|]; try discriminate.
    intro E. inversion E; subst. cbn [finish jg_slots]. destruct H2 as [_ H2]. apply (av_slots _ (content_loads_ainv st2 H2)).
Qed.
End A.
