(* The decision procedures of Model/RunC08.v that judge the REAL analyser's
   output are equivalent to the declarative statements. *)
From Coq Require Import Permutation.
From DG Require Import Base.Util Base.Sexp Model.TextPos Model.Pragma Model.RunC08
  Proofs.TextPosProofs Proofs.PragmaProofs.

Lemma text_eqb_eq : forall a b, text_eqb a b = true <-> a = b.
Proof.
  induction a as [|x a IH]; intros [|y b]; cbn [text_eqb]; split; intro H;
    try reflexivity; try discriminate.
  - apply andb_true_iff in H. destruct H as [H1 H2]. apply N.eqb_eq in H1. apply IH in H2. subst; reflexivity.
  - inversion H; subst. apply andb_true_iff. split; [apply N.eqb_refl | apply IH; reflexivity].
Qed.

Lemma unwrap_spec : forall s q1 mid q2,
  unwrap s = Some (q1, mid, q2) <-> s = q1 :: mid ++ [q2].
Proof.
  intros s q1 mid q2; unfold unwrap; split.
  - destruct s as [|c rest]; [discriminate|].
    destruct (rev rest) as [|l m] eqn:E; [discriminate|].
    intro H; inversion H; subst. f_equal.
    rewrite <- (rev_involutive rest), E. cbn [rev]. reflexivity.
  - intro H; subst s. rewrite rev_app_distr. cbn [rev app]. rewrite rev_involutive. reflexivity.
Qed.

(* ---- declarative statements about one reported item ---- *)

(* quoted pragma / JSDoc import: the range covers the specifier text and its two quote characters *)
Definition quoted_ok (sl t : text) : Prop :=
  exists q1 q2, is_quote q1 = true /\ is_quote q2 = true /\ sl = q1 :: t ++ [q2].

Theorem quoted_okb_correct : forall sl t, quoted_okb sl t = true <-> quoted_ok sl t.
Proof.
  intros sl t; unfold quoted_okb, quoted_ok; split.
  - destruct (unwrap sl) as [[[q1 mid] q2]|] eqn:E; [|discriminate].
    intro H. apply andb_true_iff in H. destruct H as [H H3]. apply andb_true_iff in H. destruct H as [H1 H2].
    apply text_eqb_eq in H3. subst mid. apply unwrap_spec in E. exists q1, q2. repeat split; assumption.
  - intros [q1 [q2 [H1 [H2 Hs]]]]. apply unwrap_spec in Hs. rewrite Hs, H1, H2. cbn [andb].
    apply text_eqb_eq; reflexivity.
Qed.

(* string / no-substitution template literal: the range covers a literal delimited by the same
   quote character on both sides; the literal is the one the real inverse map cut out and its
   cooked value (real parser) is the reported specifier *)
Definition literal_ok (sl t : text) (raw : option (text * option text)) : Prop :=
  exists q mid, lit_quote q = true /\ sl = q :: mid ++ [q] /\ raw = Some (sl, Some t).

Theorem literal_okb_correct : forall sl t raw, literal_okb sl t raw = true <-> literal_ok sl t raw.
Proof.
  intros sl t raw; unfold literal_okb, literal_ok; split.
  - destruct (unwrap sl) as [[[q1 mid] q2]|] eqn:E; [|discriminate].
    destruct raw as [[claimed [cooked|]]|]; try discriminate.
    intro H. apply andb_true_iff in H. destruct H as [H H4]. apply andb_true_iff in H. destruct H as [H H3].
    apply andb_true_iff in H. destruct H as [H1 H2].
    apply N.eqb_eq in H2. apply text_eqb_eq in H3. apply text_eqb_eq in H4. subst q2 claimed cooked.
    apply unwrap_spec in E. exists q1, mid. repeat split; assumption.
  - intros [q [mid [H1 [Hs Hr]]]]. pose proof Hs as Hs'. apply unwrap_spec in Hs'. rewrite Hs', Hr, H1, N.eqb_refl.
    cbn [andb]. apply andb_true_iff. split; apply text_eqb_eq; reflexivity.
Qed.

(* ---- pairwise separation of the reported ranges ---- *)
Theorem items_apartb_correct : forall items,
  forallb range_wfb (map it_range (apart_items items)) = true ->
  (items_apartb items = true <->
   ForallOrdPairs (fun r1 r2 => forall p, ~ (includes r1 p = true /\ includes r2 p = true))
                  (map it_range (apart_items items))).
Proof.
  intros items W; unfold items_apartb; rewrite W; cbn [andb]; split.
  - apply all_apartb_sound.
  - apply all_apartb_complete; exact W.
Qed.

(* ---- exactly once: multiset equality of planted and reported dependencies ---- *)
Lemma desc_eqb_eq : forall a b, desc_eqb a b = true <-> a = b.
Proof.
  intros [[c1 s1] t1] [[c2 s2] t2]; unfold desc_eqb; cbn [fst snd]; split.
  - intro H. apply andb_true_iff in H. destruct H as [H H3]. apply andb_true_iff in H. destruct H as [H1 H2].
    apply N.eqb_eq in H1. apply N.eqb_eq in H2. apply text_eqb_eq in H3. subst; reflexivity.
  - intro H; inversion H; subst. rewrite !N.eqb_refl. cbn [andb]. apply text_eqb_eq; reflexivity.
Qed.

Lemma remove_first_perm : forall x l r, remove_first x l = Some r -> Permutation l (x :: r).
Proof.
  intros x; induction l as [|y l IH]; intros r H; cbn [remove_first] in H; [discriminate|].
  destruct (desc_eqb x y) eqn:E.
  - apply desc_eqb_eq in E. inversion H; subst. apply Permutation_refl.
  - destruct (remove_first x l) as [r'|]; [|discriminate]. inversion H; subst.
    eapply Permutation_trans; [apply perm_skip; exact (IH _ eq_refl)|]. apply perm_swap.
Qed.

Lemma remove_first_in : forall x l, In x l -> exists r, remove_first x l = Some r.
Proof.
  intros x; induction l as [|y l IH]; intro H; [destruct H|]. cbn [remove_first].
  destruct (desc_eqb x y) eqn:E; [eexists; reflexivity|].
  destruct H as [H|H].
  - subst y. assert (E' : desc_eqb x x = true) by (apply desc_eqb_eq; reflexivity). rewrite E' in E. discriminate.
  - destruct (IH H) as [r Hr]. rewrite Hr. eexists; reflexivity.
Qed.

Theorem perm_eqb_correct : forall l1 l2, perm_eqb l1 l2 = true <-> Permutation l1 l2.
Proof.
  induction l1 as [|x l1 IH]; intro l2; cbn [perm_eqb]; split.
  - destruct l2; [constructor | discriminate].
  - intro H. apply Permutation_nil in H. subst; reflexivity.
  - destruct (remove_first x l2) as [r|] eqn:E; [|discriminate]. intro H. apply IH in H.
    apply Permutation_sym. eapply Permutation_trans; [exact (remove_first_perm _ _ _ E)|].
    apply perm_skip. apply Permutation_sym. exact H.
  - intro H.
    assert (Hin : In x l2) by (eapply Permutation_in; [exact H | left; reflexivity]).
    destruct (remove_first_in _ _ Hin) as [r Hr]. rewrite Hr. apply IH.
    apply Permutation_cons_inv with (a := x).
    eapply Permutation_trans; [exact H|]. exact (remove_first_perm _ _ _ Hr).
Qed.

(* ---- the separation the lookup theorem needs follows from the graph-level judge ---- *)
Theorem deps_apartb_lookup : forall deps p k,
  deps_apartb deps = true ->
  (dep_at deps p = Some k <->
   exists d r, In (k, d) deps /\ In r (ld_ranges d) /\ includes r p = true).
Proof.
  intros deps p k H. apply lookup_correct. apply deps_apartb_separated. exact H.
Qed.
